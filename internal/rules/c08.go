package rules

// C08 — circuit breaker obeys the CLOSED/OPEN/HALF_OPEN contract on every call history.
//
// Files: c08.go (roles, helpers, R-C08-1 lock discipline), c08_machine.go (R-C08-2 admission
// table, R-C08-3 stale results, R-C08-4 transition table, R-C08-5 transitTo pairing),
// c08_wrap.go (R-C08-6 one record per admitted call, R-C08-7 proxy mapping).
//
// Roles are resolved by type/field/callee object: the guarded fields and the mutex of
// CircuitBreaker, the Policy fields, the State constants (by declared name, the domain by
// type), the Window interface methods, the window constructors, the methods transitTo /
// AcquirePermission / RecordResult. Comparisons are found by the roles of their operands
// (through single-assignment local aliases) and read semantically (a<b, b>a, !(a>=b) are the
// same knowledge), never by text.
//
// Mutants tried in the scratch worktree (/tmp/vw/C08/out/mutants.py; mutant -> rule that fired):
//   m01 drop `if stateID != cb.stateID { return }` in RecordResult            -> R-C08-3
//   m02 window.Push moved above the stateID test                               -> R-C08-3 (+R-C08-4)
//   m03 numberOfCallsInHalfOpen++ moved before the `<` test (counts rejects)   -> R-C08-2
//   m04 `<` -> `<=` on the half-open counter test                              -> R-C08-2
//   m05 max-wait timeout test moved above the counter test                     -> R-C08-2
//   m06 `MaxWaitDurationInHalfOpen > 0 &&` dropped                             -> R-C08-2
//   m07 stateID read once at entry and returned after the transition           -> R-C08-2
//   m08 ForceOpen row returns true / m34 Disabled row returns false            -> R-C08-2
//   m09 `<` -> `>` on the open-wait test / m36 open-wait test dropped          -> R-C08-2
//   m43 counter += 2 / m44 admit after the HalfOpen->Open timeout transition   -> R-C08-2
//   m10 `>=` -> `>` on the failure-rate threshold                              -> R-C08-4
//   m11 slow rate compared with the failure threshold                          -> R-C08-4
//   m12 half-open lowering of minNumOfCalls dropped                            -> R-C08-4
//   m13 `else if cb.state == StateHalfOpen { transitTo(Closed) }` dropped      -> R-C08-4
//   m14 `Total() < min` -> `<=`                                                -> R-C08-4
//   m35 failure rate read before the push                                      -> R-C08-4
//   m37 failure/slow classification swapped / m38 slow test inverted           -> R-C08-4
//   m39 high slow rate closes instead of opening                               -> R-C08-4
//   m15 `cb.stateID++` dropped / m42 transitTime not stamped                   -> R-C08-5
//   m16 `cb.numberOfCallsInHalfOpen = 0` dropped                               -> R-C08-5
//   m17 half-open window sized by SlidingWindowSize                            -> R-C08-5
//   m18 window kept on ->Closed unless nil / m19 window type test inverted     -> R-C08-5
//   m33 `cb.state = StateHalfOpen` instead of transitTo                        -> R-C08-5 (+R-C08-2)
//   m20 cb.lock.Lock() in RecordResult moved below the stateID test            -> R-C08-1
//   m21 SetStateListener / m41 SetState without the lock                       -> R-C08-1
//   m22 `defer cb.lock.Unlock()` dropped from AcquirePermission                -> R-C08-1
//   m23 lock released around transitTo in AcquirePermission                    -> R-C08-1
//   m24 `panicked = false` dropped in Wrap (two records on the normal path)    -> R-C08-6
//   m25 RecordResult(0, ...) instead of the admitted stateID                   -> R-C08-6
//   m26 handler invoked before the permission test                             -> R-C08-6
//   m27 deferred record passes `false` on the panic path                       -> R-C08-6
//   m28 no record on the panic path (Wrap) / m40 (Execute)                     -> R-C08-6
//   m29 Execute records on the rejected path                                   -> R-C08-6
//   m30 proxy maps ErrShortCircuited to 500/internalError                      -> R-C08-7
//   m31 breaker wrapper skipped when a retry wrapper exists                    -> R-C08-7
//   m32 ErrShortCircuited branch turned into a generic serverPoolError         -> R-C08-7
// Not caught by design: numeric/duration edits inside the windows, `<` vs `<=` at the instant
// the open wait / half-open timeout elapses. A rewrite that counts rejected calls in the trial
// counter but compensates in the comparison is flagged (the rule fixes the discipline
// "counter = number of admitted trials").
// Behaviour-preserving edits that stay silent (p01..p14): locals renamed; operands swapped
// (`a < b` -> `b > a`, `x != y` -> `y != x`); the if-chain of AcquirePermission as a switch;
// conditions extracted into local bools and `elapsed := nowFunc().Sub(cb.transitTime)`;
// the header stores of transitTo reordered; `st := cb.state` alias; errors.Is instead of ==
// and `err = ErrShortCircuited; return err`; RecordResult's else-if chain as separate ifs with
// early returns and two rate variables; `failed := err != nil`; classification as a tagless
// switch; named results with bare return and `+= 1`; transitTo as nested switches with the
// TimeBased case first; Wrap in recover()/re-panic form; explicit Unlock instead of defer and
// `defer func() { cb.lock.Unlock() }()`.

// Robustness pass: fields of CircuitBreaker are resolved by type (stateID / trial counter by
// use), the transition function by role (stores its State parameter into the state field), the
// resilience wrapper by role (Wrap of the type embedding the breaker); role comparisons, counter
// writes and transition sites are searched over the method AND the same-package helpers it
// reaches, which the engine interprets in place (transitTo stays a summary); knowledge the rules
// need across a helper call is mirrored into event keys (c08fn.mirror) because re-inlining the
// same helper makes the engine forget the caller's facts. Checked on /verif/preserving/C08/r1..r4
// and with mutants applied on top of r2/r3/r4 (/tmp/vw/C08/out/onref.py).

import (
	"go/ast"
	"go/constant"
	"go/token"
	"go/types"
	"os"
	"sort"
	"strings"

	"golang.org/x/tools/go/packages"

	"verif/internal/core"
	"verif/internal/flow"
)

const (
	c08cb = "pkg/util/circuitbreaker"
	c08rs = "pkg/resilience"
	c08px = "pkg/filters/proxy"
)

func init() { Registry["C08"] = c08 }

var c08debug = os.Getenv("C08_DEBUG") != ""

func c08(c *core.Ctx) string {
	c.Rule("R-C08-1", "lock discipline: every access to CircuitBreaker.state/transitTime/window/numberOfCallsInHalfOpen/stateID/listener happens with the breaker's mutex held (the function locks, or every caller chain holds the lock / works on a freshly allocated breaker); the mutex is released on every exit. The unlocked read in the observer State() is a named exception")
	c.Rule("R-C08-2", "admission table of AcquirePermission over (entry state, open-wait elapsed, calls<permitted, max-half-open elapsed): permitted iff Disabled/Closed, or HalfOpen (possibly just entered from Open after the wait) with calls<permitted and then the counter is incremented exactly once; Open before the wait and ForceOpen reject without transition; the HalfOpen->Open timeout transition happens only on a rejected row, only when the timeout is set and elapsed; the stateID returned is read after the last transition")
	c.Rule("R-C08-3", "stale results dropped: in RecordResult window.Push and every transitTo are reachable only with the caller's stateID equal to the breaker's current stateID")
	c.Rule("R-C08-4", "transition table of RecordResult: the result is classified failure if hasErr, else slow if the duration reached the slow-call threshold, else success; a current result is pushed exactly once; no transition while Total() < min(minimum, permitted when half-open); failure rate >= threshold or slow rate >= threshold => Open; else HalfOpen => Closed; else no transition; rates are read after the push and compared with their own threshold")
	c.Rule("R-C08-5", "transitTo pairing: every path that stores the state also increments stateID once and stamps transitTime; ->Closed re-creates the policy window (count/time by SlidingWindowType, SlidingWindowSize); ->HalfOpen creates a count window of the permitted size and zeroes the counter; the counter is written nowhere else")
	c.Rule("R-C08-6", "one record per admitted call: in circuitBreakerWrapper.Wrap's closure and CircuitBreaker.Execute, a rejected call returns ErrShortCircuited/ErrRejected with no RecordResult and without invoking the handler; an admitted call records exactly once on the normal exit and on the panic exit of the handler, with the admitted stateID, hasErr = (handler error != nil) resp. true on the panic path")
	c.Rule("R-C08-7", "proxy mapping: ServerPool.handle applies the circuit-breaker wrapper whenever one is configured, and an error equal to ErrShortCircuited yields a 503 failure response and result shortCircuited (and only then)")
	c.Rule("R-C08-8", "window counter pairing: in every Window implementation's Push the failure/slow counters are incremented exactly when the PUSHED result is of that class and the total once; in the count-based ring they are decremented exactly when the EVICTED element (the slot's value before it is overwritten with the pushed result) is of that class, the total iff the slot was occupied; in the time-based window each bucket counter is incremented together with the window counter of its class and eviction subtracts from a window counter the bucket counter of the same class")
	c.NotDecided = []string{
		"window arithmetic (ring positions and wrap-around, which one-second bucket a result falls into and when buckets are evicted, rate computation, uint8 truncation)",
		"durations and clock reads (slow-call classification, boundary instant of the wait tests: < vs <=)",
		"interleavings beyond the lock discipline (the listener goroutine, the unlocked observer State())",
		"the Disabled/ForceOpen states set through SetState (no production caller); RecordResult may open a Disabled breaker",
		"CreateWrapper's translation of the YAML policy (unparsed durations, unused countingNetworkError)",
	}
	v := c08resolve(c)
	if v == nil {
		return "anchors unresolved"
	}
	c08Lock(v)
	c08Admission(v)
	c08Record(v)
	c08Transit(v)
	c08Wrap(v)
	c08Proxy(v)
	c08Window(v)
	return "Static decision-table and typestate audit of the circuit breaker. Path-sensitive over every path of AcquirePermission, RecordResult and transitTo (disjunctive abstract states over the state constants, the role-resolved comparisons and transition/counter events; transitTo is summarised at its call sites and the summary is itself checked by R-C08-5), of the resilience wrapper closure and Execute (with a panic exit at the handler call and interpreted deferred functions) and of ServerPool.handle; lock discipline over every function of the package. Not decided: window arithmetic, durations/clock, schedules beyond the lock discipline."
}

// ---------------------------------------------------------------------------------------
// roles

type c08env struct {
	c   *core.Ctx
	pkg *packages.Package
	cbT *types.Named
	fld map[string]*types.Var // CircuitBreaker fields by declared name
	// lock is the mutex field of CircuitBreaker (resolved by type)
	lock *types.Var
	prot map[*types.Var]bool // guarded fields
	pol  map[string]*types.Var
	// stateVal maps the declared name of every constant of type State to its exact value
	stateVal map[string]string
	winT     *types.Named
	meth     map[string]*types.Func // CircuitBreaker methods by name
	ctor     map[string]*types.Func // NewCountBasedWindow / NewTimeBasedWindow
	winKind  map[string]string      // CountBased / TimeBased -> exact value
	resKind  map[string]string      // CallResultSuccess / Slow / Failure -> exact value
}

const (
	c08Disabled  = "StateDisabled"
	c08Closed    = "StateClosed"
	c08HalfOpen  = "StateHalfOpen"
	c08Open      = "StateOpen"
	c08ForceOpen = "StateForceOpen"
)

func c08resolve(c *core.Ctx) *c08env {
	v := &c08env{c: c, fld: map[string]*types.Var{}, prot: map[*types.Var]bool{}, pol: map[string]*types.Var{},
		stateVal: map[string]string{}, meth: map[string]*types.Func{}, ctor: map[string]*types.Func{}, winKind: map[string]string{},
		resKind: map[string]string{}}
	v.pkg = c.Prog.Pkg(c08cb)
	if v.pkg == nil {
		c.Errorf("anchor: package %s not loaded", c08cb)
		return nil
	}
	v.cbT = namedType(c, c08cb, "CircuitBreaker")
	v.winT = namedType(c, c08cb, "Window")
	if v.cbT == nil || v.winT == nil {
		return nil
	}
	ok := true
	if !c08resolveFields(v) {
		ok = false
	}
	if st, isStruct := v.cbT.Underlying().(*types.Struct); isStruct {
		for i := 0; i < st.NumFields(); i++ {
			switch st.Field(i).Type().String() {
			case "sync.Mutex", "sync.RWMutex":
				v.lock = st.Field(i)
			}
		}
	}
	if v.lock == nil {
		c.Errorf("anchor: CircuitBreaker has no sync.Mutex / sync.RWMutex field")
		ok = false
	}
	for _, n := range []string{"FailureRateThreshold", "SlowCallRateThreshold", "SlidingWindowType", "SlidingWindowSize",
		"PermittedNumberOfCallsInHalfOpen", "MinimumNumberOfCalls", "SlowCallDurationThreshold", "MaxWaitDurationInHalfOpen", "WaitDurationInOpen"} {
		f := structField(c, c08cb, "Policy", n)
		if f == nil {
			ok = false
			continue
		}
		v.pol[n] = f
	}
	scope := v.pkg.Types.Scope()
	stateT := namedType(c, c08cb, "State")
	if stateT == nil {
		return nil
	}
	for _, n := range scope.Names() {
		if k, isConst := scope.Lookup(n).(*types.Const); isConst && types.Identical(k.Type(), stateT) {
			v.stateVal[n] = k.Val().ExactString()
		}
	}
	for _, n := range []string{c08Disabled, c08Closed, c08HalfOpen, c08Open, c08ForceOpen} {
		if _, found := v.stateVal[n]; !found {
			c.Errorf("anchor: constant %s.%s of type State not found", c08cb, n)
			ok = false
		}
	}
	for _, n := range []string{"CountBased", "TimeBased"} {
		if k, isConst := scope.Lookup(n).(*types.Const); isConst {
			v.winKind[n] = k.Val().ExactString()
		} else {
			c.Errorf("anchor: constant %s.%s not found", c08cb, n)
			ok = false
		}
	}
	for _, n := range []string{"CallResultSuccess", "CallResultSlow", "CallResultFailure"} {
		if k, isConst := scope.Lookup(n).(*types.Const); isConst {
			v.resKind[n] = k.Val().ExactString()
		} else {
			c.Errorf("anchor: constant %s.%s not found", c08cb, n)
			ok = false
		}
	}
	for _, n := range []string{"AcquirePermission", "RecordResult"} {
		o, _, _ := types.LookupFieldOrMethod(types.NewPointer(v.cbT), true, v.pkg.Types, n)
		if m, isFn := o.(*types.Func); isFn {
			v.meth[n] = m
		} else {
			c.Errorf("anchor: method %s.(CircuitBreaker).%s not found", c08cb, n)
			ok = false
		}
	}
	if ok && !c08resolveRoles(v) {
		ok = false
	}
	for _, n := range []string{"NewCountBasedWindow", "NewTimeBasedWindow"} {
		if m, isFn := scope.Lookup(n).(*types.Func); isFn {
			v.ctor[n] = m
		} else {
			c.Errorf("anchor: function %s.%s not found", c08cb, n)
			ok = false
		}
	}
	if !ok {
		return nil
	}
	return v
}

// c08resolveFields resolves the fields of CircuitBreaker by type (the declared name only breaks
// ties), so that renaming an unexported field does not lose the anchor. The two uint32 fields
// (stateID, half-open trial counter) are told apart by use in c08resolveRoles.
func c08resolveFields(v *c08env) bool {
	c := v.c
	st, isStruct := v.cbT.Underlying().(*types.Struct)
	if !isStruct {
		c.Errorf("anchor: %s.CircuitBreaker is not a struct", c08cb)
		return false
	}
	byType := func(role, typ string) *types.Var {
		var found []*types.Var
		for i := 0; i < st.NumFields(); i++ {
			t := st.Field(i).Type().String()
			t = strings.ReplaceAll(t, Mod+c08cb+".", "")
			if t == typ {
				found = append(found, st.Field(i))
			}
		}
		if len(found) > 1 {
			for _, f := range found {
				if f.Name() == role {
					return f
				}
			}
		}
		if len(found) != 1 {
			c.Errorf("anchor: CircuitBreaker has %d fields of type %s (role %s), expected one", len(found), typ, role)
			return nil
		}
		return found[0]
	}
	ok := true
	for _, rt := range [][2]string{{"state", "State"}, {"transitTime", "time.Time"}, {"window", "Window"}, {"listener", "EventListenerFunc"}, {"policy", "*Policy"}} {
		f := byType(rt[0], rt[1])
		if f == nil {
			ok = false
			continue
		}
		v.fld[rt[0]] = f
		if rt[0] != "policy" {
			v.prot[f] = true
		}
	}
	return ok
}

// c08resolveRoles resolves stateID (the uint32 field RecordResult compares with a parameter),
// the half-open trial counter (the uint32 field compared with Policy.PermittedNumberOfCallsInHalfOpen)
// and the transition function (the method that stores its State parameter into the state field).
func c08resolveRoles(v *c08env) bool {
	c := v.c
	st := v.cbT.Underlying().(*types.Struct)
	info := v.pkg.TypesInfo
	isU32 := func(f *types.Var) bool {
		b, ok := f.Type().Underlying().(*types.Basic)
		return ok && b.Kind() == types.Uint32
	}
	u32 := map[*types.Var]bool{}
	for i := 0; i < st.NumFields(); i++ {
		if isU32(st.Field(i)) {
			u32[st.Field(i)] = true
		}
	}
	fieldOf := func(e ast.Expr) *types.Var {
		if sel, ok := ast.Unparen(e).(*ast.SelectorExpr); ok {
			if s := info.Selections[sel]; s != nil && s.Kind() == types.FieldVal {
				fv, _ := s.Obj().(*types.Var)
				return fv
			}
		}
		return nil
	}
	idCand, ctrCand := map[*types.Var]bool{}, map[*types.Var]bool{}
	var transit []*types.Func
	var transitByName *types.Func
	for _, file := range v.pkg.Syntax {
		for _, d := range file.Decls {
			fd, ok := d.(*ast.FuncDecl)
			if !ok || fd.Body == nil {
				continue
			}
			fo, _ := info.Defs[fd.Name].(*types.Func)
			params := map[types.Object]bool{}
			if fd.Type.Params != nil {
				for _, fl := range fd.Type.Params.List {
					for _, n := range fl.Names {
						params[info.Defs[n]] = true
					}
				}
			}
			isParam := func(e ast.Expr) bool {
				id, ok := ast.Unparen(e).(*ast.Ident)
				return ok && params[info.Uses[id]]
			}
			ast.Inspect(fd.Body, func(n ast.Node) bool {
				switch x := n.(type) {
				case *ast.BinaryExpr:
					if !c08isCmpOp(x.Op, true) {
						return true
					}
					for _, p := range [][2]ast.Expr{{x.X, x.Y}, {x.Y, x.X}} {
						f := fieldOf(p[0])
						if f == nil || !u32[f] {
							continue
						}
						if fo == v.meth["RecordResult"] && isParam(p[1]) && (x.Op == token.EQL || x.Op == token.NEQ) {
							idCand[f] = true
						}
						if fieldOf(p[1]) == v.pol["PermittedNumberOfCallsInHalfOpen"] {
							ctrCand[f] = true
						}
					}
				case *ast.AssignStmt:
					for i, l := range x.Lhs {
						if fieldOf(l) == v.fld["state"] && len(x.Lhs) == len(x.Rhs) && isParam(x.Rhs[i]) && fo != nil {
							if len(transit) == 0 || transit[len(transit)-1] != fo {
								transit = append(transit, fo)
							}
							if fo.Name() == "transitTo" {
								transitByName = fo
							}
						}
					}
				}
				return true
			})
		}
	}
	pick := func(role string, cand map[*types.Var]bool) *types.Var {
		for i := 0; i < st.NumFields(); i++ {
			if f := st.Field(i); f.Name() == role && u32[f] {
				return f // the declared name still exists: no ambiguity to resolve
			}
		}
		var out *types.Var
		for f := range cand {
			if out != nil {
				c.Errorf("anchor: role %s of CircuitBreaker is played by more than one uint32 field", role)
				return nil
			}
			out = f
		}
		if out == nil {
			c.Errorf("anchor: no uint32 field of CircuitBreaker plays the role %s", role)
		}
		return out
	}
	id := pick("stateID", idCand)
	ctr := pick("numberOfCallsInHalfOpen", ctrCand)
	if id == nil || ctr == nil {
		return false
	}
	if id == ctr {
		c.Errorf("anchor: stateID and the half-open trial counter resolve to the same field %s", id.Name())
		return false
	}
	v.fld["stateID"], v.fld["numberOfCallsInHalfOpen"] = id, ctr
	v.prot[id], v.prot[ctr] = true, true
	switch {
	case transitByName != nil:
		v.meth["transitTo"] = transitByName
	case len(transit) == 1:
		v.meth["transitTo"] = transit[0]
	default:
		c.Errorf("anchor: %d functions of %s store a State parameter into CircuitBreaker.state; cannot tell which one is the transition function", len(transit), c08cb)
		return false
	}
	return true
}

// ---------------------------------------------------------------------------------------
// helpers shared by the C08 rules

// c08sel returns the field selected by e and the base expression (nil, nil if e is not a
// field selection).
func c08sel(f *flow.Func, e ast.Expr) (*types.Var, ast.Expr) {
	sel, ok := ast.Unparen(e).(*ast.SelectorExpr)
	if !ok {
		return nil, nil
	}
	s := f.Info.Selections[sel]
	if s == nil || s.Kind() != types.FieldVal {
		return nil, nil
	}
	fv, _ := s.Obj().(*types.Var)
	return fv, sel.X
}

func c08obj(f *flow.Func, id *ast.Ident) types.Object {
	if o := f.Info.Uses[id]; o != nil {
		return o
	}
	return f.Info.Defs[id]
}

// c08defs maps a local variable to the expressions assigned to it (nil = opaque definition:
// tuple assignment, op-assignment, ++/--, range variable, address taken).
type c08defs map[types.Object][]ast.Expr

func c08collectDefs(f *flow.Func, body ast.Node) c08defs {
	d := c08defs{}
	add := func(l ast.Expr, r ast.Expr) {
		id, ok := ast.Unparen(l).(*ast.Ident)
		if !ok || id.Name == "_" {
			return
		}
		if o := c08obj(f, id); o != nil {
			d[o] = append(d[o], r)
		}
	}
	ast.Inspect(body, func(n ast.Node) bool {
		switch s := n.(type) {
		case *ast.AssignStmt:
			for i, l := range s.Lhs {
				if len(s.Lhs) == len(s.Rhs) && (s.Tok == token.ASSIGN || s.Tok == token.DEFINE) {
					add(l, s.Rhs[i])
				} else {
					add(l, nil)
				}
			}
		case *ast.IncDecStmt:
			add(s.X, nil)
		case *ast.ValueSpec:
			for i, id := range s.Names {
				if i < len(s.Values) && len(s.Values) == len(s.Names) {
					add(id, s.Values[i])
				} else {
					add(id, nil)
				}
			}
		case *ast.RangeStmt:
			if s.Key != nil {
				add(s.Key, nil)
			}
			if s.Value != nil {
				add(s.Value, nil)
			}
		case *ast.UnaryExpr:
			if s.Op == token.AND {
				add(s.X, nil)
			}
		}
		return true
	})
	return d
}

// resolve follows single-assignment local aliases (x := e; ... x ...) up to three steps.
func (d c08defs) resolve(f *flow.Func, e ast.Expr) ast.Expr {
	for i := 0; i < 3; i++ {
		id, ok := ast.Unparen(e).(*ast.Ident)
		if !ok {
			break
		}
		ds := d[c08obj(f, id)]
		if len(ds) != 1 || ds[0] == nil {
			break
		}
		e = ds[0]
	}
	return ast.Unparen(e)
}

// mentions reports whether e, or the definition of a single-assignment local used in e,
// contains a sub-expression satisfying pred.
func (d c08defs) mentions(f *flow.Func, e ast.Expr, pred func(ast.Expr) bool) bool {
	found := false
	var walk func(n ast.Node, depth int)
	walk = func(n ast.Node, depth int) {
		ast.Inspect(n, func(x ast.Node) bool {
			if found {
				return false
			}
			ex, ok := x.(ast.Expr)
			if !ok {
				return true
			}
			if _, isLit := ex.(*ast.FuncLit); isLit {
				return false
			}
			if pred(ex) {
				found = true
				return false
			}
			if id, ok := ex.(*ast.Ident); ok && depth < 3 {
				if ds := d[f.Info.Uses[id]]; len(ds) == 1 && ds[0] != nil {
					walk(ds[0], depth+1)
				}
			}
			return true
		})
	}
	if e != nil {
		walk(e, 0)
	}
	return found
}

// c08cmp is a comparison found by the roles of its operands: role A against role B.
type c08cmp struct {
	node *ast.BinaryExpr
	aIsX bool
}

func c08isCmpOp(op token.Token, withEq bool) bool {
	switch op {
	case token.LSS, token.LEQ, token.GTR, token.GEQ:
		return true
	case token.EQL, token.NEQ:
		return withEq
	}
	return false
}

// c08findCmps lists the comparisons in body one side of which satisfies a and the other b.
func c08findCmps(body ast.Node, withEq bool, a, b func(ast.Expr) bool) []c08cmp {
	return c08findCmpsIn([]ast.Node{body}, withEq, a, b)
}

func c08findCmpsIn(bodies []ast.Node, withEq bool, a, b func(ast.Expr) bool) []c08cmp {
	var out []c08cmp
	for _, body := range bodies {
		c08findCmps1(body, withEq, a, b, &out)
	}
	return out
}

func c08findCmps1(body ast.Node, withEq bool, a, b func(ast.Expr) bool, res *[]c08cmp) {
	var out []c08cmp
	defer func() { *res = append(*res, out...) }()
	ast.Inspect(body, func(n ast.Node) bool {
		be, ok := n.(*ast.BinaryExpr)
		if !ok || !c08isCmpOp(be.Op, withEq) {
			return true
		}
		switch {
		case a(be.X) && b(be.Y):
			out = append(out, c08cmp{be, true})
		case a(be.Y) && b(be.X):
			out = append(out, c08cmp{be, false})
		}
		return true
	})
}

// c08rel is what a state knows about role A against role B.
type c08rel struct{ lt, le, gt, ge, eq, ne bool }

func (r c08rel) or(o c08rel) c08rel {
	return c08rel{r.lt || o.lt, r.le || o.le, r.gt || o.gt, r.ge || o.ge, r.eq || o.eq, r.ne || o.ne}
}

func (r c08rel) String() string {
	var s []string
	for _, p := range []struct {
		b bool
		n string
	}{{r.lt, "A<B"}, {r.le, "A<=B"}, {r.gt, "A>B"}, {r.ge, "A>=B"}, {r.eq, "A==B"}, {r.ne, "A!=B"}} {
		if p.b {
			s = append(s, p.n)
		}
	}
	if len(s) == 0 {
		return "unknown"
	}
	return strings.Join(s, ",")
}

func c08mirror(op token.Token) token.Token {
	switch op {
	case token.LSS:
		return token.GTR
	case token.GTR:
		return token.LSS
	case token.LEQ:
		return token.GEQ
	case token.GEQ:
		return token.LEQ
	}
	return op
}

// c08truth returns the truth value of a comparison node in st (Unknown if not decided).
func c08truth(f *flow.Func, st *flow.State, n ast.Expr) flow.Val {
	key, neg := f.Atom(n)
	v := st.Get(key)
	if v == flow.Unknown {
		return v
	}
	if (v == flow.True) != neg {
		return flow.True
	}
	return flow.False
}

// c08relOf reads the engine's fact about the comparison and turns it into knowledge about
// A against B (whatever operator and operand order the source uses).
func c08relOf(f *flow.Func, st *flow.State, cms []c08cmp) c08rel {
	var out c08rel
	for _, cm := range cms {
		t := c08truth(f, st, cm.node)
		if t == flow.Unknown {
			continue
		}
		truth := t == flow.True
		op := cm.node.Op
		if !cm.aIsX {
			op = c08mirror(op)
		}
		var r c08rel
		switch op {
		case token.LSS:
			if truth {
				r = c08rel{lt: true, le: true, ne: true}
			} else {
				r = c08rel{ge: true}
			}
		case token.LEQ:
			if truth {
				r = c08rel{le: true}
			} else {
				r = c08rel{gt: true, ge: true, ne: true}
			}
		case token.GTR:
			if truth {
				r = c08rel{gt: true, ge: true, ne: true}
			} else {
				r = c08rel{le: true}
			}
		case token.GEQ:
			if truth {
				r = c08rel{ge: true}
			} else {
				r = c08rel{lt: true, le: true, ne: true}
			}
		case token.EQL:
			if truth {
				r = c08rel{eq: true, le: true, ge: true}
			} else {
				r = c08rel{ne: true}
			}
		case token.NEQ:
			if truth {
				r = c08rel{ne: true}
			} else {
				r = c08rel{eq: true, le: true, ge: true}
			}
		}
		out = out.or(r)
	}
	return out
}

// c08constOf returns the constant value of e, if any.
func c08constOf(f *flow.Func, e ast.Expr) constant.Value {
	if tv, ok := f.Info.Types[e]; ok && tv.Value != nil {
		return tv.Value
	}
	return nil
}

// c08factKey strips the "=T"/"=F" suffix of a rendered fact.
func c08factKey(kv string) string {
	if len(kv) >= 2 && kv[len(kv)-2] == '=' {
		return kv[:len(kv)-2]
	}
	return kv
}

// c08count reads a saturating event counter ev:<name>:1..3.
func c08count(st *flow.State, name string) int {
	n := 0
	for i := 1; i <= 3; i++ {
		if st.Is(sprintf("ev:%s:%d", name, i), flow.True) {
			n = i
		}
	}
	return n
}

func c08bump(st *flow.State, name string) int {
	n := c08count(st, name)
	if n < 3 {
		n++
	}
	st.Set(sprintf("ev:%s:%d", name, n), flow.True)
	return n
}

// c08scan visits the expressions of one CFG node without descending into function literals
// (their bodies are separate nodes when they are deferred, separate units otherwise).
func c08scan(n ast.Node, visit func(ast.Node)) {
	ast.Inspect(n, func(x ast.Node) bool {
		if x == nil {
			return false
		}
		if _, isLit := x.(*ast.FuncLit); isLit {
			return false
		}
		visit(x)
		return true
	})
}

func c08dump(tag string, f *flow.Func, res *flow.Result) {
	if !c08debug || res == nil {
		return
	}
	for i, ex := range res.Exits {
		at := "?"
		if ex.At != nil {
			at = f.Pos(ex.At.Pos())
		}
		println("C08DEBUG", tag, "exit", i, "kind", ex.Kind, "at", at)
		for _, k := range ex.State.Facts() {
			println("    ", k)
		}
	}
}

// ---------------------------------------------------------------------------------------
// R-C08-1 lock discipline

type c08unit struct {
	pkg  *packages.Package
	fd   *ast.FuncDecl
	f    *flow.Func
	obj  *types.Func
	recv types.Object
	name string
}

type c08site struct {
	node  ast.Node
	what  string
	write bool
}

type c08unitResult struct {
	sites       int        // guarded accesses + calls to lock-requiring helpers seen by the engine
	bad         []string   // accesses without the lock
	badW        [][]string // witnesses
	undecided   []string
	needsCaller bool // some access relies on the caller holding the lock
	needs       []string
	exempt      int  // State() observer reads
	locks       bool // the unit takes the lock itself
	unreleased  []string
	unrelW      [][]string
	freshOK     int
	viaWrapper  int // function literals analysed as bodies run by a withLock-style helper
}

func c08Lock(v *c08env) {
	c := v.c
	var units []*c08unit
	for _, file := range v.pkg.Syntax {
		for _, d := range file.Decls {
			fd, ok := d.(*ast.FuncDecl)
			if !ok || fd.Body == nil {
				continue
			}
			u := &c08unit{pkg: v.pkg, fd: fd, f: flow.NewFunc(v.pkg, fd), name: declName(v.pkg, fd)}
			u.obj, _ = v.pkg.TypesInfo.Defs[fd.Name].(*types.Func)
			if fd.Recv != nil && len(fd.Recv.List) == 1 && len(fd.Recv.List[0].Names) == 1 {
				u.recv = v.pkg.TypesInfo.Defs[fd.Recv.List[0].Names[0]]
			}
			units = append(units, u)
		}
	}
	// EL: functions that touch guarded fields without taking the lock themselves and so
	// require it from their callers (fixpoint over the call chain inside the package).
	el := map[*types.Func]bool{}
	results := map[*c08unit]*c08unitResult{}
	wrappers := c08lockWrappers(v, units)
	c.Count("R-C08-1:withLock-style helpers", len(wrappers))
	for iter := 0; iter < 6; iter++ {
		changed := false
		for _, u := range units {
			if !c08touches(v, u, el) {
				continue
			}
			r := c08lockUnit(v, u, el, wrappers)
			if r == nil {
				return
			}
			results[u] = r
			if r.needsCaller && u.obj != nil && !el[u.obj] && !ast.IsExported(u.fd.Name.Name) {
				el[u.obj] = true
				changed = true
			}
		}
		if !changed {
			break
		}
	}
	n := 0
	exempt := 0
	for _, u := range units {
		r := results[u]
		if r == nil {
			continue
		}
		exempt += r.exempt
		if r.sites == 0 && len(r.undecided) == 0 {
			continue
		}
		n++
		cons := u.name + "|guarded fields under the breaker lock"
		at := pos(c, u.fd.Name)
		for _, ud := range r.undecided {
			c.Undecide("R-C08-1", cons, at, ud)
		}
		switch {
		case len(r.bad) > 0:
			c.Violate("R-C08-1", cons, at, "guarded breaker state is accessed without the lock ("+strings.Join(r.bad, "; ")+"): concurrent AcquirePermission/RecordResult calls race on the state machine (lost transitions, double admission)", r.badW[0]...)
		case r.needsCaller && ast.IsExported(u.fd.Name.Name):
			c.Violate("R-C08-1", cons, at, "exported function touches guarded breaker state before/without taking the lock ("+strings.Join(r.needs, "; ")+"); callers outside the package cannot hold it, so concurrent calls race on the state machine")
		case r.needsCaller:
			c.Discharge("R-C08-1", cons, at, sprintf("%d accesses rely on the callers; every call site holds the lock or works on a fresh breaker (checked in the callers)", r.sites))
		default:
			c.Discharge("R-C08-1", cons, at, sprintf("%d guarded accesses / helper calls, all with the lock held (%d on a freshly allocated breaker)", r.sites, r.freshOK))
		}
		if r.locks {
			c.Check(len(r.unreleased) == 0, "R-C08-1", u.name+"|lock released on every exit", at,
				"every return/panic exit has released the lock", "the breaker lock is still held at an exit ("+strings.Join(r.unreleased, "; ")+"): every later call blocks forever",
				func() []string {
					if len(r.unrelW) > 0 {
						return r.unrelW[0]
					}
					return nil
				}()...)
		}
	}
	c.Count("R-C08-1:observer reads exempt (State())", exempt)
	c.RequireCount("R-C08-1", "functions touching guarded breaker state", n, 4)
	// method values of lock-requiring helpers escape the call-site check
	for fnObj := range el {
		for _, u := range units {
			callFuns := map[ast.Node]bool{}
			for _, call := range calls(u.fd.Body, true) {
				callFuns[ast.Unparen(call.Fun)] = true
			}
			ast.Inspect(u.fd.Body, func(x ast.Node) bool {
				sel, ok := x.(*ast.SelectorExpr)
				if ok && u.f.Info.Uses[sel.Sel] == fnObj && !callFuns[sel] {
					c.Undecide("R-C08-1", u.name+"|method value of a lock-requiring helper", pos(c, sel), "the helper "+fnObj.Name()+" is used as a value; its callers cannot be enumerated")
				}
				return true
			})
		}
	}
}

// c08touches: does the unit select a guarded field or call a lock-requiring helper?
func c08touches(v *c08env, u *c08unit, el map[*types.Func]bool) bool {
	found := false
	ast.Inspect(u.fd.Body, func(x ast.Node) bool {
		switch t := x.(type) {
		case *ast.SelectorExpr:
			if fv, _ := c08sel(u.f, t); fv != nil && v.prot[fv] {
				found = true
			}
		case *ast.CallExpr:
			if fo, ok := u.f.Callee(t).(*types.Func); ok && el[fo] {
				found = true
			}
		}
		return !found
	})
	return found
}

// c08lockEvent updates the lock events for a call X.<mutex>.Lock/Unlock/RLock/RUnlock on the
// breaker's mutex field; it reports whether the call takes the lock.
func c08lockEvent(v *c08env, f *flow.Func, st *flow.State, call *ast.CallExpr, callee types.Object) bool {
	fo, ok := callee.(*types.Func)
	if !ok || fo.Pkg() == nil || fo.Pkg().Path() != "sync" {
		return false
	}
	sel, ok := ast.Unparen(call.Fun).(*ast.SelectorExpr)
	if !ok {
		return false
	}
	fv, base := c08sel(f, sel.X)
	if fv != v.lock {
		return false
	}
	k := "ev:lock:" + f.Render(ast.Unparen(base))
	switch fo.Name() {
	case "Lock":
		st.Set(k, flow.True)
		st.Set(k+":r", flow.Unknown)
		return true
	case "RLock":
		st.Set(k, flow.True)
		st.Set(k+":r", flow.True)
		return true
	case "Unlock", "RUnlock":
		st.Set(k, flow.False)
		st.Set(k+":r", flow.Unknown)
	}
	return false
}

// c08lockWrappers finds the withLock-style helpers: methods of the breaker with a function
// parameter which they call only while holding the receiver's lock (write lock), and which
// release the lock on every exit. Result: method -> index of the function parameter.
func c08lockWrappers(v *c08env, units []*c08unit) map[*types.Func]int {
	out := map[*types.Func]int{}
	c := v.c
	for _, u := range units {
		if u.recv == nil || u.obj == nil || u.fd.Type.Params == nil {
			continue
		}
		f := u.f
		idx, pidx := 0, -1
		var pobj types.Object
		n := 0
		for _, fl := range u.fd.Type.Params.List {
			for _, name := range fl.Names {
				if o := f.Info.Defs[name]; o != nil {
					if _, isSig := o.Type().Underlying().(*types.Signature); isSig {
						pidx, pobj = idx, o
						n++
					}
				}
				idx++
			}
		}
		if n != 1 {
			continue
		}
		// the parameter must only be called (not stored, passed on, or started as a goroutine)
		okUse := true
		callFuns := map[*ast.Ident]bool{}
		for _, call := range calls(u.fd.Body, true) {
			if id, ok := ast.Unparen(call.Fun).(*ast.Ident); ok && f.Info.Uses[id] == pobj {
				callFuns[id] = true
			}
		}
		ast.Inspect(u.fd.Body, func(x ast.Node) bool {
			switch t := x.(type) {
			case *ast.GoStmt:
				if id, ok := ast.Unparen(t.Call.Fun).(*ast.Ident); ok && f.Info.Uses[id] == pobj {
					okUse = false
				}
			case *ast.FuncLit:
				ast.Inspect(t.Body, func(y ast.Node) bool {
					if id, ok := y.(*ast.Ident); ok && f.Info.Uses[id] == pobj {
						okUse = false
					}
					return true
				})
				return false
			case *ast.Ident:
				if f.Info.Uses[t] == pobj && !callFuns[t] {
					okUse = false
				}
			}
			return true
		})
		if !okUse || len(callFuns) == 0 {
			continue
		}
		key := "ev:lock:" + f.Render(u.fd.Recv.List[0].Names[0])
		held, released, seen, locks := true, true, 0, false
		var badSt *flow.State
		res, err := flow.Analyze(f, flow.Config{
			NoHavoc: true,
			OnCall: func(st *flow.State, call *ast.CallExpr, callee types.Object, deferred bool) {
				if c08lockEvent(v, f, st, call, callee) {
					locks = true
				}
				if callee == pobj {
					seen++
					if !st.Is(key, flow.True) || st.Is(key+":r", flow.True) {
						held = false
						badSt = st
					}
				}
			},
		})
		if err != nil || res == nil {
			continue
		}
		for _, ex := range res.Exits {
			if ex.State.Is(key, flow.True) {
				released = false
			}
		}
		if held && released && seen > 0 {
			out[u.obj] = pidx
			c.Discharge("R-C08-1", u.name+"|runs its function argument under the breaker lock", pos(c, u.fd.Name), sprintf("%d call(s) of the argument, all with the write lock held; released on every exit", seen))
		} else if locks && seen > 0 {
			why := "the lock is still held at an exit"
			if !held {
				why = "the function argument is called without the (write) lock held"
			}
			c.Violate("R-C08-1", u.name+"|runs its function argument under the breaker lock", pos(c, u.fd.Name),
				"a helper that takes the breaker lock and runs a function handed to it: "+why+"; the state accesses of its callers' closures race / later calls block", witness(badSt)...)
		}
	}
	return out
}

func c08lockUnit(v *c08env, u *c08unit, el map[*types.Func]bool, wrappers map[*types.Func]int) *c08unitResult {
	f := u.f
	r := &c08unitResult{}
	defs := c08collectDefs(f, u.fd.Body)
	writes := map[ast.Node]bool{}
	ast.Inspect(u.fd.Body, func(x ast.Node) bool {
		switch s := x.(type) {
		case *ast.AssignStmt:
			for _, l := range s.Lhs {
				writes[ast.Unparen(l)] = true
			}
		case *ast.IncDecStmt:
			writes[ast.Unparen(s.X)] = true
		case *ast.UnaryExpr:
			if s.Op == token.AND {
				writes[ast.Unparen(s.X)] = true
			}
		}
		return true
	})
	isFresh := func(base ast.Expr) bool {
		id, ok := ast.Unparen(base).(*ast.Ident)
		if !ok {
			return false
		}
		ds := defs[c08obj(f, id)]
		if len(ds) == 0 {
			return false
		}
		for _, d := range ds {
			if d == nil {
				return false
			}
			d = ast.Unparen(d)
			var t types.Type
			switch x := d.(type) {
			case *ast.UnaryExpr:
				if cl, ok := x.X.(*ast.CompositeLit); ok && x.Op == token.AND {
					t = f.Info.Types[cl].Type
				}
			case *ast.CallExpr:
				if b, ok := f.Callee(x).(*types.Builtin); ok && b.Name() == "new" && len(x.Args) == 1 {
					t = f.Info.Types[x.Args[0]].Type
				}
			}
			if t == nil || !types.Identical(t, v.cbT) {
				return false
			}
		}
		return true
	}
	lockKey := func(base ast.Expr) string { return "ev:lock:" + f.Render(ast.Unparen(base)) }
	heldBase := "" // set while the body of a literal handed to a lock wrapper is analysed
	isObserver := u.recv != nil && u.fd.Name.Name == "State"
	visited := map[ast.Node]bool{}
	type verdict struct {
		bad    string
		w      []string
		und    string
		need   bool
		needAt string
		ok     bool
		fresh  bool
		exempt bool
	}
	siteRes := map[ast.Node]*verdict{}
	classify := func(st *flow.State, node ast.Node, base ast.Expr, what string, write bool, fieldV *types.Var) {
		visited[node] = true
		vd := siteRes[node]
		if vd == nil {
			vd = &verdict{}
			siteRes[node] = vd
		}
		id, isIdent := ast.Unparen(base).(*ast.Ident)
		if !isIdent {
			vd.und = what + " through a base expression that is not a variable"
			return
		}
		held := st.Get(lockKey(base))
		ronly := st.Is(lockKey(base)+":r", flow.True)
		if held == flow.Unknown && heldBase != "" && f.Render(ast.Unparen(base)) == heldBase {
			held = flow.True // inside a function literal run by a withLock-style helper on this breaker
		}
		switch {
		case held == flow.True && write && ronly:
			vd.bad = what + " written under a read lock at " + f.Pos(node.Pos())
			vd.w = witness(st)
		case held == flow.True:
			vd.ok = true
		case held == flow.False:
			vd.bad = what + " after the lock was released at " + f.Pos(node.Pos())
			vd.w = witness(st)
		default:
			switch {
			case isFresh(base):
				vd.fresh = true
				vd.ok = true
			case isObserver && !write && fieldV == v.fld["state"]:
				vd.exempt = true
			case u.recv != nil && c08obj(f, id) == u.recv:
				vd.need = true
				vd.needAt = what + " at " + f.Pos(node.Pos())
			default:
				vd.bad = what + " on " + id.Name + " without its lock at " + f.Pos(node.Pos())
				vd.w = witness(st)
			}
		}
	}
	cfg := flow.Config{
		NoHavoc: true,
		OnNode: func(st *flow.State, n ast.Node) {
			c08scan(n, func(x ast.Node) {
				switch t := x.(type) {
				case *ast.SelectorExpr:
					if fv, base := c08sel(f, t); fv != nil && v.prot[fv] {
						classify(st, t, base, "field "+fv.Name(), writes[t], fv)
					}
				case *ast.CallExpr:
					if fo, ok := f.Callee(t).(*types.Func); ok && el[fo] {
						if sel, ok := ast.Unparen(t.Fun).(*ast.SelectorExpr); ok {
							classify(st, t, sel.X, "lock-requiring helper "+fo.Name(), true, nil)
						} else {
							visited[t] = true
							siteRes[t] = &verdict{und: "call of lock-requiring helper " + fo.Name() + " without a receiver expression"}
						}
					}
				}
			})
		},
		OnCall: func(st *flow.State, call *ast.CallExpr, callee types.Object, deferred bool) {
			if c08lockEvent(v, f, st, call, callee) {
				r.locks = true
			}
		},
	}
	res := analyze(v.c, f, cfg)
	if res == nil {
		return nil
	}
	// function literals handed to a withLock-style helper run with that breaker's lock held
	wrapped := map[*ast.FuncLit]bool{}
	for _, call := range calls(u.fd.Body, true) {
		fo, ok := f.Callee(call).(*types.Func)
		if !ok {
			continue
		}
		pi, isW := wrappers[fo]
		if !isW || pi >= len(call.Args) {
			continue
		}
		lit, ok := ast.Unparen(call.Args[pi]).(*ast.FuncLit)
		sel, ok2 := ast.Unparen(call.Fun).(*ast.SelectorExpr)
		if !ok || !ok2 {
			continue
		}
		wrapped[lit] = true
		heldBase = f.Render(ast.Unparen(sel.X))
		sub := analyze(v.c, f.Lit(lit), cfg)
		heldBase = ""
		if sub == nil {
			return nil
		}
		r.viaWrapper++
	}
	nodes := make([]ast.Node, 0, len(siteRes))
	for n := range siteRes {
		nodes = append(nodes, n)
	}
	sort.Slice(nodes, func(i, j int) bool { return nodes[i].Pos() < nodes[j].Pos() })
	for _, n := range nodes {
		vd := siteRes[n]
		if vd.exempt && vd.bad == "" && vd.und == "" && !vd.need {
			r.exempt++
			continue
		}
		r.sites++
		if vd.fresh {
			r.freshOK++
		}
		switch {
		case vd.bad != "":
			r.bad = append(r.bad, vd.bad)
			r.badW = append(r.badW, vd.w)
		case vd.und != "":
			r.undecided = append(r.undecided, vd.und)
		case vd.need:
			r.needsCaller = true
			r.needs = append(r.needs, vd.needAt)
		}
	}
	// accesses the engine never executed: inside function literals that are not deferred
	var lits []*ast.FuncLit
	ast.Inspect(u.fd.Body, func(x ast.Node) bool {
		if l, ok := x.(*ast.FuncLit); ok {
			lits = append(lits, l)
		}
		return true
	})
	ast.Inspect(u.fd.Body, func(x ast.Node) bool {
		sel, ok := x.(*ast.SelectorExpr)
		if !ok || visited[sel] {
			return true
		}
		if fv, _ := c08sel(f, sel); fv != nil && v.prot[fv] {
			for _, l := range lits {
				if wrapped[l] {
					continue
				}
				if contains(l.Body, sel) {
					r.undecided = append(r.undecided, "field "+fv.Name()+" is accessed inside a function literal that is not a deferred call ("+f.Pos(sel.Pos())+"); when it runs is unknown")
					break
				}
			}
		}
		return true
	})
	for _, ex := range res.Exits {
		for _, kv := range ex.State.Facts() {
			k := c08factKey(kv)
			if strings.HasPrefix(k, "ev:lock:") && !strings.HasSuffix(k, ":r") && ex.State.Is(k, flow.True) {
				kind := "return"
				if ex.Kind == flow.ExitPanic {
					kind = "panic"
				}
				at := "end of function"
				if ex.At != nil {
					at = f.Pos(ex.At.Pos())
				}
				what := kind + " at " + at
				dup := false
				for _, o := range r.unreleased {
					dup = dup || o == what
				}
				if !dup {
					r.unreleased = append(r.unreleased, what)
					r.unrelW = append(r.unrelW, witness(ex.State))
				}
			}
		}
	}
	c08dump("lock:"+u.name, f, res)
	return r
}
