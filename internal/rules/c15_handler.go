package rules

import (
	"go/ast"
	"go/constant"
	"go/token"
	"go/types"
	"strings"

	"verif/internal/flow"
)

// R-C15-4: PUBACK echo and handler order.

func c15Puback(e *c15env) {
	c15ProcessPublish(e)
	wrappers := c15Wrappers(e)
	c15Table(e, wrappers)
}

// c15ProcessPublish: every QoS 1 PUBLISH handed to processPublish is answered by a Puback created
// for it whose MessageID is the incoming packet's.
func c15ProcessPublish(e *c15env) {
	c := e.c
	f := e.processPublish
	if f == nil {
		return
	}
	cons := e.name(f)
	fns := e.reachOf(f, 2)
	info := e.pkg.TypesInfo
	isPublishPkt := func(x ast.Expr) bool {
		tv, ok := info.Types[x]
		return ok && c15isPacket(tv.Type, "PublishPacket")
	}
	// the incoming packet: any expression of type *packets.PublishPacket in the reach of processPublish
	incoming := false
	qosTerms := map[string]bool{}
	for _, g := range fns {
		ast.Inspect(g.Body, func(n ast.Node) bool {
			switch x := n.(type) {
			case *ast.SelectorExpr:
				if isPublishPkt(x.X) {
					incoming = true
					if x.Sel.Name == "Qos" {
						qosTerms[g.Render(x)] = true
					}
				}
			case *ast.AssignStmt:
				if len(x.Lhs) == len(x.Rhs) {
					for i, r := range x.Rhs {
						if sel, ok := ast.Unparen(r).(*ast.SelectorExpr); ok && sel.Sel.Name == "Qos" && isPublishPkt(sel.X) {
							if id, ok := x.Lhs[i].(*ast.Ident); ok && id.Name != "_" {
								qosTerms[g.Render(id)] = true
							}
						}
					}
				}
			}
			return true
		})
	}
	if !incoming {
		c.Undecide("R-C15-4", cons+"|incoming packet", pos(c, f.Body), "cannot identify the incoming publish packet variable")
		return
	}
	isEcho := func(g *flow.Func, x ast.Expr) bool {
		ts := e.trace().origins(g, x)
		for _, t := range ts {
			sel, ok := t.expr.(*ast.SelectorExpr)
			if !ok || sel.Sel.Name != "MessageID" || !isPublishPkt(sel.X) {
				return false
			}
		}
		return len(ts) > 0
	}
	// Puback writes
	type write struct {
		site  c15write
		vars  map[types.Object]bool
		fresh bool
		what  string
	}
	var writes []write
	for _, s := range e.writesIn(fns) {
		if tv, ok := info.Types[s.pkt]; !ok || !c15isPacket(tv.Type, "PubackPacket") {
			// a Puback handed over as ControlPacket: look at where the value comes from
			isAck := false
			for _, term := range e.trace().origins(s.fn, s.pkt) {
				if term.expr != nil {
					if tv, ok := info.Types[term.expr]; ok && c15isPacket(tv.Type, "PubackPacket") {
						isAck = true
					}
				}
			}
			if !isAck {
				continue
			}
		}
		t := e.trace()
		w := write{site: s, fresh: true}
		for _, term := range t.origins(s.fn, s.pkt) {
			switch x := term.expr.(type) {
			case *ast.CallExpr: // packets.NewControlPacket(..) or another constructor call
			case *ast.UnaryExpr:
				if _, ok := ast.Unparen(x.X).(*ast.CompositeLit); !ok || x.Op != token.AND {
					w.fresh, w.what = false, term.String()
				}
			case *ast.CompositeLit:
			default:
				w.fresh, w.what = false, term.String()
			}
		}
		w.vars = t.vars
		writes = append(writes, w)
	}
	if len(writes) == 0 {
		c.Violate("R-C15-4", cons+"|puback carries incoming MessageID", pos(c, f.Body), "no Puback is written by processPublish")
		return
	}
	isWrite := map[ast.Node]bool{}
	for _, w := range writes {
		isWrite[w.site.node] = true
	}
	echoKey := func(g *flow.Func, id *ast.Ident) string { return "ev:idEcho:" + g.Render(id) }
	keysOf := map[types.Object]string{}
	// the assignments X.MessageID = R of the reach (judged statically; the engine says on which paths they ran)
	type idAssign struct {
		at   *ast.AssignStmt
		obj  types.Object
		echo bool
	}
	var assigns []idAssign
	for _, g := range fns {
		ast.Inspect(g.Body, func(n ast.Node) bool {
			as, ok := n.(*ast.AssignStmt)
			if !ok || len(as.Lhs) != len(as.Rhs) {
				return true
			}
			for i, l := range as.Lhs {
				if sel, ok := ast.Unparen(l).(*ast.SelectorExpr); ok && sel.Sel.Name == "MessageID" {
					if id, ok := ast.Unparen(sel.X).(*ast.Ident); ok {
						assigns = append(assigns, idAssign{as, c15objOf(g, id), isEcho(g, as.Rhs[i])})
					}
				}
			}
			return true
		})
	}
	res := e.analyse(f, fns, flow.Config{
		NoHavoc: true,
		Inline:  e.inline(f, e.writePacket),
		OnNode: func(st *flow.State, n ast.Node) {
			if _, ok := n.(*ast.SendStmt); ok && isWrite[n] {
				st.Set("ev:acked", flow.True)
			}
			as, ok := n.(*ast.AssignStmt)
			if !ok || len(as.Lhs) != len(as.Rhs) {
				return
			}
			for i, l := range as.Lhs {
				sel, ok := ast.Unparen(l).(*ast.SelectorExpr)
				if !ok || sel.Sel.Name != "MessageID" {
					continue
				}
				id, ok := ast.Unparen(sel.X).(*ast.Ident)
				if !ok {
					continue
				}
				g := e.fnAt(as.Pos())
				if g == nil {
					continue
				}
				k := echoKey(g, id)
				keysOf[c15objOf(g, id)] = k
				if isEcho(g, as.Rhs[i]) {
					st.Set(k, flow.True)
				} else {
					st.Set(k, flow.False)
				}
			}
		},
		OnCall: func(st *flow.State, call *ast.CallExpr, callee types.Object, deferred bool) {
			if isWrite[call] {
				st.Set("ev:acked", flow.True)
			}
		},
	})
	if res == nil {
		return
	}
	for _, w := range writes {
		wc := cons + "|puback carries incoming MessageID"
		if !w.fresh {
			c.Violate("R-C15-4", wc, pos(c, w.site.node), "the Puback written is not a packet created for this PUBLISH (it is "+w.what+"): a packet shared between calls gets the MessageID of the next PUBLISH before the writer has sent it")
			continue
		}
		states := res.at(w.site.node)
		if len(states) == 0 && (w.site.fn.Body != f.Body || c15enclosingLit(w.site.fn, w.site.node) != nil) {
			c.Undecide("R-C15-4", wc, pos(c, w.site.node), "the helper "+c15declName(w.site.fn)+" writing the Puback is not interpreted in place (go, defer or nested call)")
			continue
		}
		ok := len(states) > 0
		var bad *flow.State
		// a packet built in a call nested in another expression (c.writePacket(newPuback(id))): the engine
		// does not interpret that callee; then every assignment to the packet's MessageID must echo the id
		interpreted, static, nstatic := false, true, 0
		for _, a := range assigns {
			if w.vars[a.obj] {
				nstatic++
				static = static && a.echo
				if len(res.at(a.at)) > 0 {
					interpreted = true
				}
			}
		}
		if !interpreted && nstatic > 0 && ok {
			c.Check(static, "R-C15-4", wc, pos(c, w.site.node), sprintf("the %d assignment(s) to the Puback's MessageID all take the incoming packet's MessageID (constructor not interpreted in place)", nstatic),
				"the Puback written does not carry the incoming packet's MessageID")
			continue
		}
		for _, st := range states {
			hit, miss := false, false
			for o := range w.vars {
				if k := keysOf[o]; k != "" {
					switch st.Get(k) {
					case flow.True:
						hit = true
					case flow.False:
						miss = true
					}
				}
			}
			if !hit || miss {
				ok, bad = false, st
			}
		}
		c.Check(ok, "R-C15-4", wc, pos(c, w.site.node), "puback.MessageID = publish.MessageID precedes writePacket(puback)",
			"the Puback written does not carry the incoming packet's MessageID", witness(bad)...)
	}
	// QoS 1 ⇒ acknowledged: every return that is not known to be a non-QoS1 path has passed a Puback write
	qos1 := func(st *flow.State) flow.Val {
		for r := range qosTerms {
			if v := st.Get("eq:" + r + "==1"); v != flow.Unknown {
				return v
			}
		}
		for _, fact := range st.Facts() {
			if !strings.HasSuffix(fact, "=T") {
				continue
			}
			for r := range qosTerms {
				if pre := "eq:" + r + "=="; strings.HasPrefix(fact, pre) && fact[len(pre):len(fact)-2] != "1" {
					return flow.False // equal to another constant
				}
			}
		}
		return flow.Unknown
	}
	ok := true
	var bad *flow.State
	exits := 0
	for _, ex := range res.main.Exits {
		if ex.Kind != flow.ExitReturn {
			continue
		}
		exits++
		if !ex.State.Is("ev:acked", flow.True) && qos1(ex.State) != flow.False {
			ok, bad = false, ex.State
		}
	}
	if !ok {
		// shapes the path facts cannot express: the level looked up in a table / handed to a function that
		// is not interpreted in place, or the acknowledgement written inside a function literal
		opaque := ""
		for _, g := range fns {
			ast.Inspect(g.Body, func(n ast.Node) bool {
				switch x := n.(type) {
				case *ast.IndexExpr:
					if qosTerms[g.Render(ast.Unparen(x.Index))] {
						opaque = "the QoS level indexes a table at " + pos(c, x)
					}
				case *ast.CallExpr:
					o, _ := c15callee(g, x)
					if h := e.byObj[o]; h != nil && res.inlined(h) {
						return true
					}
					if tv, ok := g.Info.Types[x.Fun]; ok && tv.IsType() {
						return true
					}
					if tv, ok := g.Info.Types[x]; !ok || tv.Type == nil || !types.Identical(tv.Type.Underlying(), types.Typ[types.Bool]) {
						return true // only a predicate can decide the branch
					}
					for _, a := range x.Args {
						if qosTerms[g.Render(ast.Unparen(a))] {
							opaque = "the QoS level is handed to a call that is not interpreted in place at " + pos(c, x)
						}
					}
				}
				return true
			})
		}
		for _, w := range writes {
			if c15enclosingLit(w.site.fn, w.site.node) != nil {
				opaque = "the Puback is written inside a function literal"
			}
		}
		if opaque != "" {
			c.Undecide("R-C15-4", cons+"|QoS1 case writes the puback", pos(c, f.Body), "cannot decide on which QoS levels the Puback is written: "+opaque)
			return
		}
	}
	c.Check(ok && exits > 0, "R-C15-4", cons+"|QoS1 case writes the puback", pos(c, f.Body), sprintf("%d exits: each either wrote the Puback or is a path with Qos != 1", exits),
		"the QoS 1 case of processPublish does not write a Puback", witness(bad)...)
}

// c15Wrappers: the functions returning a closure that runs the pipeline and then the wrapped
// processing function (today: pipelineWrapper). fn(c,p) is called iff runPipeline returned nil.
func c15Wrappers(e *c15env) map[types.Object]bool {
	c := e.c
	out := map[types.Object]bool{}
	if e.runPipeline == nil {
		return out
	}
	runObj := e.obj(e.runPipeline)
	for _, f := range e.fns {
		sig := e.sig(f)
		if sig == nil || sig.Recv() != nil || sig.Results().Len() != 1 {
			continue
		}
		if _, ok := sig.Results().At(0).Type().Underlying().(*types.Signature); !ok {
			continue
		}
		var fparams []*types.Var
		for i := 0; i < sig.Params().Len(); i++ {
			if _, ok := sig.Params().At(i).Type().Underlying().(*types.Signature); ok {
				fparams = append(fparams, sig.Params().At(i))
			}
		}
		if len(fparams) == 0 {
			continue
		}
		// what the wrapper returns: a closure, or a method value of a struct holding the captured
		// variables as fields (`return pipelineProcessor{fn: fn, ..}.process`)
		var lf *flow.Func      // the body that runs per packet
		var at ast.Node        // position for reports
		var recvX ast.Expr     // method form: the receiver operand in the wrapper
		var recvV types.Object // method form: the receiver variable of the method
		ast.Inspect(f.Body, func(n ast.Node) bool {
			r, ok := n.(*ast.ReturnStmt)
			if !ok || len(r.Results) != 1 || lf != nil {
				return true
			}
			x := ast.Unparen(r.Results[0])
			if id, ok := x.(*ast.Ident); ok {
				if v, ok := c15objOf(f, id).(*types.Var); ok && !v.IsField() {
					if defs := c15defs(f, v); len(defs) == 1 && defs[0].rhs != nil && defs[0].idx < 0 {
						x = ast.Unparen(defs[0].rhs)
					}
				}
			}
			switch v := x.(type) {
			case *ast.FuncLit:
				lf, at = f.Lit(v), v
			case *ast.SelectorExpr:
				if s := f.Info.Selections[v]; s != nil && s.Kind() == types.MethodVal {
					if m := e.byObj[s.Obj()]; m != nil {
						if fd, ok := m.Node.(*ast.FuncDecl); ok && fd.Recv != nil && len(fd.Recv.List) == 1 && len(fd.Recv.List[0].Names) == 1 {
							lf, at, recvX, recvV = m, fd, v.X, m.Info.Defs[fd.Recv.List[0].Names[0]]
						}
					}
				}
			}
			return true
		})
		if lf == nil {
			continue
		}
		var runCall *ast.CallExpr
		for _, call := range calls(lf.Body, false) {
			if o, _ := c15callee(lf, call); o == runObj {
				runCall = call
			}
		}
		if runCall == nil {
			continue
		}
		// the wrapped function: the wrapper's function parameter, called in that body directly (closure) or
		// through the field it was stored in (method form)
		isParam := func(o types.Object) bool {
			for _, p := range fparams {
				if o == p {
					return true
				}
			}
			return false
		}
		var fnCall *ast.CallExpr
		unlinked := false
		for _, call := range calls(lf.Body, false) {
			switch fun := ast.Unparen(call.Fun).(type) {
			case *ast.Ident:
				if isParam(lf.Info.Uses[fun]) {
					fnCall = call
				}
			case *ast.SelectorExpr:
				s := lf.Info.Selections[fun]
				if s == nil || s.Kind() != types.FieldVal || recvV == nil {
					continue
				}
				fld, ok := s.Obj().(*types.Var)
				if !ok {
					continue
				}
				if _, isFunc := fld.Type().Underlying().(*types.Signature); !isFunc {
					continue
				}
				if id, ok := ast.Unparen(fun.X).(*ast.Ident); !ok || c15objOf(lf, id) != recvV {
					continue
				}
				// the field holds the wrapper's parameter: given in the composite literal of the receiver
				// operand, or assigned to it in the wrapper
				linked := false
				x := ast.Unparen(recvX)
				var holder types.Object
				if id, ok := x.(*ast.Ident); ok {
					holder = c15objOf(f, id)
					if defs := c15defs(f, holder); len(defs) == 1 && defs[0].rhs != nil && defs[0].idx < 0 {
						x = ast.Unparen(defs[0].rhs)
					}
				}
				if lit := litOf(x); lit != nil {
					if val := c15litField(f, lit, fld); val != nil {
						if id, ok := ast.Unparen(val).(*ast.Ident); ok && isParam(f.Info.Uses[id]) {
							linked = true
						}
					}
				}
				if holder != nil {
					ast.Inspect(f.Body, func(n ast.Node) bool {
						if as, ok := n.(*ast.AssignStmt); ok && len(as.Lhs) == len(as.Rhs) {
							for i, l := range as.Lhs {
								ls, ok := ast.Unparen(l).(*ast.SelectorExpr)
								if !ok || !e.selects(ls, fld) {
									continue
								}
								if id, ok := ast.Unparen(ls.X).(*ast.Ident); ok && c15objOf(f, id) == holder {
									id2, ok := ast.Unparen(as.Rhs[i]).(*ast.Ident)
									linked = ok && isParam(f.Info.Uses[id2])
								}
							}
						}
						return true
					})
				}
				if linked {
					fnCall = call
				} else {
					unlinked = true
				}
			}
		}
		lit := at
		if fnCall == nil && unlinked {
			out[e.obj(f)] = true
			c.Undecide("R-C15-4", e.name(f)+"|pipeline then process", pos(c, lit), "cannot see that the function field called after the pipeline holds the wrapper's function parameter")
			continue
		}
		out[e.obj(f)] = true
		cons := e.name(f)
		c.Count("functions_analysed", 1)
		if fnCall == nil {
			c.Violate("R-C15-4", cons+"|pipeline then process", pos(c, lit), "the wrapper does not call both the pipeline and the wrapped processing function")
			continue
		}
		errKey := lf.NilKey(runCall) // `if c.runPipeline(..) != nil`
		ast.Inspect(lf.Body, func(n ast.Node) bool {
			if as, ok := n.(*ast.AssignStmt); ok && len(as.Rhs) == 1 && ast.Unparen(as.Rhs[0]) == ast.Expr(runCall) && len(as.Lhs) == 1 {
				errKey = lf.NilKey(as.Lhs[0])
			}
			return true
		})
		res := analyze(c, lf, flow.Config{NoHavoc: true,
			OnCall: func(st *flow.State, call *ast.CallExpr, callee types.Object, d bool) {
				if call == fnCall {
					st.Set("ev:processed", flow.True)
				}
			}})
		if res == nil {
			continue
		}
		ok := true
		var bad *flow.State
		why := ""
		for _, st := range res.At[fnCall] {
			if !st.Is(errKey, flow.True) {
				ok, bad, why = false, st, "the processing function runs although the pipeline rejected the packet"
			}
		}
		for _, ex := range res.Exits {
			if ex.Kind == flow.ExitReturn && ex.State.Is(errKey, flow.True) && !ex.State.Is("ev:processed", flow.True) {
				ok, bad, why = false, ex.State, "the pipeline accepted the packet but the processing function (PUBACK) is skipped"
			}
		}
		c.Check(ok, "R-C15-4", cons+"|process iff pipeline accepted", pos(c, fnCall), "fn(c,p) reached exactly on the err==nil edge of runPipeline", why, witness(bad)...)
	}
	if len(out) == 0 {
		c.Errorf("R-C15-4: anchor: no function of %s returns a closure running the pipeline before a wrapped processing function (today: pipelineWrapper)", mq)
	}
	return out
}

// c15Table: the publish entry of the packet dispatch table runs limiter → wrapper(processPublish) .
func c15Table(e *c15env, wrappers map[types.Object]bool) {
	c := e.c
	pkg := e.pkg
	var value ast.Expr
	table := ""
	for _, file := range pkg.Syntax {
		for _, d := range file.Decls {
			gd, ok := d.(*ast.GenDecl)
			if !ok || gd.Tok != token.VAR {
				continue
			}
			for _, sp := range gd.Specs {
				vs := sp.(*ast.ValueSpec)
				for i, n := range vs.Names {
					if i >= len(vs.Values) {
						continue
					}
					cl, ok := ast.Unparen(vs.Values[i]).(*ast.CompositeLit)
					if !ok {
						continue
					}
					if tv, ok := pkg.TypesInfo.Types[cl]; !ok || tv.Type == nil {
						continue
					} else if m, ok := tv.Type.Underlying().(*types.Map); !ok {
						continue
					} else if _, ok := m.Elem().Underlying().(*types.Signature); !ok {
						continue
					}
					for _, el := range cl.Elts {
						kv, ok := el.(*ast.KeyValueExpr)
						if !ok {
							continue
						}
						if tv, ok := pkg.TypesInfo.Types[kv.Key]; ok && tv.Value != nil && tv.Value.Kind() == constant.String && constant.StringVal(tv.Value) == "*packets.PublishPacket" {
							value, table = kv.Value, n.Name
						}
					}
				}
			}
		}
	}
	if value == nil {
		c.Errorf("R-C15-4: anchor: no package-level dispatch table of %s has an entry for \"*packets.PublishPacket\" (today: processPacketMap)", mq)
		return
	}
	cons := mq + "." + table + "[publish]"
	var base *flow.Func
	bound := map[types.Object]ast.Expr{} // parameters of a combinator → the table's arguments
	switch v := ast.Unparen(value).(type) {
	case *ast.FuncLit:
		base = &flow.Func{Pkg: pkg, Info: pkg.TypesInfo, Fset: pkg.Fset, Name: cons, Node: v, Body: v.Body, Type: v.Type}
	case *ast.Ident:
		base = e.byObj[pkg.TypesInfo.Uses[v]]
	case *ast.SelectorExpr: // method expression (*Client).handlePublish
		probe := &flow.Func{Pkg: pkg, Info: pkg.TypesInfo, Fset: pkg.Fset, Body: &ast.BlockStmt{}}
		if o, _ := c15funcValue(probe, v); o != nil {
			base = e.byObj[o]
		}
	case *ast.CallExpr:
		probe := &flow.Func{Pkg: pkg, Info: pkg.TypesInfo, Fset: pkg.Fset, Body: &ast.BlockStmt{}}
		o, _ := c15callee(probe, v)
		if wrappers[o] {
			c.Violate("R-C15-4", mq+"."+table+"|publish entry order", pos(c, value), "the publish entry is not a closure running the publish limiter first")
			return
		}
		// a combinator `limited(next)` returning the closure: analyse the closure, its function
		// parameters standing for the arguments given in the table
		if h := e.byObj[o]; h != nil && !v.Ellipsis.IsValid() {
			var lit *ast.FuncLit
			ast.Inspect(h.Body, func(n ast.Node) bool {
				if r, ok := n.(*ast.ReturnStmt); ok && len(r.Results) == 1 && lit == nil {
					lit, _ = ast.Unparen(r.Results[0]).(*ast.FuncLit)
				}
				return true
			})
			if lit != nil {
				base = h.Lit(lit)
				base.Name = cons
				for i, a := range v.Args {
					if pid := e.paramIdent(h, i); pid != nil {
						bound[h.Info.Defs[pid]] = a
					}
				}
			}
		}
	}
	if base == nil {
		c.Undecide("R-C15-4", mq+"."+table+"|publish entry order", pos(c, value), "the publish entry is neither a function literal nor a declared function of the package: cannot see the limiter running first")
		return
	}
	c.Count("functions_analysed", 1)
	fns := e.reachOf(base, 2)
	// the limiter test: a call of the checkPublishLimit-role method, or (helper inlined) a bool method
	// called on a field of the client (c.publishLimit.acquirePermission(..))
	isLimit := func(g *flow.Func, call *ast.CallExpr) bool {
		o, recv := c15callee(g, call)
		if o == nil {
			return false
		}
		if e.checkLimit != nil && o == e.obj(e.checkLimit) {
			return true
		}
		fo, ok := o.(*types.Func)
		if !ok || recv == nil || fo.Pkg() != pkg.Types {
			return false
		}
		sig := fo.Type().(*types.Signature)
		if sig.Results().Len() != 1 || !types.Identical(sig.Results().At(0).Type().Underlying(), types.Typ[types.Bool]) {
			return false
		}
		sel, ok := ast.Unparen(recv).(*ast.SelectorExpr)
		if !ok {
			return false
		}
		tv, ok := pkg.TypesInfo.Types[sel.X]
		return ok && c15isNamed(tv.Type, e.clientT) && e.checkLimit == nil
	}
	var limits []c15site
	for _, g := range fns {
		if e.checkLimit != nil && g.Body == e.checkLimit.Body {
			continue
		}
		for _, call := range calls(g.Body, false) {
			if isLimit(g, call) {
				_, recv := c15callee(g, call)
				limits = append(limits, c15site{fn: g, call: call, recv: recv})
			}
		}
	}
	var wrapInner, wrapOuter *ast.CallExpr
	for _, g := range fns {
		for _, call := range calls(g.Body, false) {
			fun := ast.Unparen(call.Fun)
			if id, ok := fun.(*ast.Ident); ok {
				// fn := wrapper(..); fn(c, packet)
				if v, ok := c15objOf(g, id).(*types.Var); ok && !v.IsField() {
					if a := bound[v]; a != nil {
						fun = ast.Unparen(a)
					} else if defs := c15defs(g, v); len(defs) == 1 && defs[0].rhs != nil && defs[0].idx < 0 {
						fun = ast.Unparen(defs[0].rhs)
					}
				}
			}
			if inner, ok := fun.(*ast.CallExpr); ok {
				if o, _ := c15callee(g, inner); wrappers[o] {
					wrapInner, wrapOuter = inner, call
				}
			}
		}
	}
	if len(limits) != 1 || wrapInner == nil || wrapOuter == nil {
		c.Violate("R-C15-4", cons+"|limiter then pipeline then process", pos(c, value), "the publish entry does not call checkPublishLimit and pipelineWrapper(...)(c, packet)")
		return
	}
	limit := limits[0]
	argOK := false
	for _, a := range wrapInner.Args {
		// processPublish, (*Client).processPublish, or a local holding one of them
		x := ast.Unparen(a)
		if id, ok := x.(*ast.Ident); ok {
			if v, ok := pkg.TypesInfo.Uses[id].(*types.Var); ok && !v.IsField() {
				if g := e.fnAt(v.Pos()); g != nil {
					if defs := c15defs(g, v); len(defs) == 1 && defs[0].rhs != nil && defs[0].idx < 0 {
						x = ast.Unparen(defs[0].rhs)
					}
				}
			}
		}
		if o, _ := c15funcValue(base, x); o != nil && e.processPublish != nil && o == e.obj(e.processPublish) {
			argOK = true
		}
	}
	c.Check(argOK, "R-C15-4", cons+"|wrapper wraps processPublish", pos(c, wrapInner), "pipelineWrapper(processPublish, Publish)", "the publish entry does not hand the packet to processPublish")
	limKey := limit.fn.CallKey(limit.call)
	var except []*flow.Func
	except = append(except, e.checkLimit, e.processPublish, e.runPipeline)
	for o := range wrappers {
		except = append(except, e.byObj[o])
	}
	res := analyze(c, base, flow.Config{NoHavoc: true, Inline: e.inline(base, except...),
		OnCall: func(st *flow.State, call *ast.CallExpr, callee types.Object, d bool) {
			if call == wrapOuter {
				st.Set("ev:wrapped", flow.True)
			}
		}})
	if res == nil {
		return
	}
	ok := true
	var bad *flow.State
	why := ""
	states := res.At[wrapOuter]
	for _, st := range states {
		if !st.Is(limKey, flow.True) {
			ok, bad, why = false, st, "the pipeline/process step is reachable without the publish limiter having admitted the packet"
		}
	}
	for _, ex := range res.Exits {
		if ex.Kind == flow.ExitReturn && !ex.State.Is("ev:wrapped", flow.True) && ex.State.Is(limKey, flow.True) {
			ok, bad, why = false, ex.State, "a packet admitted by the limiter is dropped without pipeline/process"
		}
	}
	if len(states) == 0 {
		ok, why = false, "pipelineWrapper(...)(c, packet) is not reached"
	}
	c.Check(ok, "R-C15-4", cons+"|limiter then pipeline then process", pos(c, wrapOuter), "wrapper call reached exactly on checkPublishLimit = true", why, witness(bad)...)
}
