package rules

import (
	"go/ast"
	"go/types"
	"sort"

	"golang.org/x/tools/go/packages"

	"verif/internal/core"
	"verif/internal/flow"
)

// Robustness helpers of C11: anchors are resolved by role (what a type / field / function
// is and does), events are counted over a function *and the same-package functions it calls*
// (summaries), so that renames of unexported names and "extract function" keep the rules
// discharged while the same mutants are still reported.

// c11Router is the resolved generation machinery of the HTTP server package.
type c11Router struct {
	pkg       *packages.Package
	muxT      *types.Named // the http.Handler that holds the generation pointer
	instF     *types.Var   // its atomic.Value field
	miT       *types.Named // the generation type stored into instF
	serve     *types.Func  // (muxT).ServeHTTP
	serveInst *types.Func  // the method of miT serving one request
}

func c11IsNamed(t types.Type, pkgPath, name string) bool {
	if p, ok := t.(*types.Pointer); ok {
		t = p.Elem()
	}
	n, ok := types.Unalias(t).(*types.Named)
	return ok && n.Obj().Pkg() != nil && n.Obj().Pkg().Path() == pkgPath && n.Obj().Name() == name
}

// c11HandlerSig: func(http.ResponseWriter, *http.Request).
func c11HandlerSig(sig *types.Signature) bool {
	return sig.Params().Len() == 2 && sig.Results().Len() == 0 &&
		c11IsNamed(sig.Params().At(0).Type(), "net/http", "ResponseWriter") &&
		c11IsNamed(sig.Params().At(1).Type(), "net/http", "Request")
}

func c11Methods(n *types.Named) []*types.Func {
	var out []*types.Func
	for i := 0; i < n.NumMethods(); i++ {
		out = append(out, n.Method(i))
	}
	return out
}

// c11ResolveRouter finds, by role: the type of package httpserver that implements
// http.Handler and owns an atomic.Value (the generation pointer), the type stored into it,
// and that type's request-serving method. Current names are only tie-breakers.
func c11ResolveRouter(c *core.Ctx) *c11Router {
	pkg := c.Prog.Pkg(hs)
	if pkg == nil {
		c.Errorf("anchor: package %s not loaded", hs)
		return nil
	}
	r := &c11Router{pkg: pkg}
	scope := pkg.Types.Scope()
	type cand struct {
		n *types.Named
		f []*types.Var
		m *types.Func
	}
	var cands []cand
	for _, name := range scope.Names() {
		tn, ok := scope.Lookup(name).(*types.TypeName)
		if !ok || tn.IsAlias() {
			continue
		}
		n, ok := tn.Type().(*types.Named)
		if !ok {
			continue
		}
		st, ok := n.Underlying().(*types.Struct)
		if !ok {
			continue
		}
		var serve *types.Func
		for _, m := range c11Methods(n) {
			if m.Name() == "ServeHTTP" && c11HandlerSig(m.Type().(*types.Signature)) {
				serve = m
			}
		}
		if serve == nil {
			continue
		}
		var av []*types.Var
		for i := 0; i < st.NumFields(); i++ {
			if c11IsNamed(st.Field(i).Type(), "sync/atomic", "Value") {
				av = append(av, st.Field(i))
			}
		}
		if len(av) > 0 {
			cands = append(cands, cand{n, av, serve})
		}
	}
	if len(cands) != 1 {
		c.Errorf("R-C11: anchor: expected one http.Handler type with an atomic.Value generation pointer in %s, found %d", hs, len(cands))
		return nil
	}
	r.muxT, r.serve = cands[0].n, cands[0].m
	// the generation pointer: the atomic.Value whose stored values are pointers to a struct
	// of this package with a request-serving method
	decls := c11DeclOf(pkg)
	var fds []*ast.FuncDecl
	for _, fd := range decls {
		fds = append(fds, fd)
	}
	sort.Slice(fds, func(i, j int) bool { return fds[i].Pos() < fds[j].Pos() })
	type pair struct {
		f *types.Var
		t *types.Named
	}
	seen := map[pair]bool{}
	var pairs []pair
	for _, fd := range fds {
		f := flow.NewFunc(pkg, fd)
		for _, call := range calls(fd.Body, true) {
			for _, fv := range cands[0].f {
				if !c11FieldCall(f, call, fv, "Store") || len(call.Args) != 1 {
					continue
				}
				tv, ok := pkg.TypesInfo.Types[call.Args[0]]
				if !ok || tv.Type == nil {
					continue
				}
				p, ok := tv.Type.(*types.Pointer)
				if !ok {
					continue
				}
				n, ok := types.Unalias(p.Elem()).(*types.Named)
				if !ok || n.Obj().Pkg() != pkg.Types {
					continue
				}
				if !seen[pair{fv, n}] {
					seen[pair{fv, n}] = true
					pairs = append(pairs, pair{fv, n})
				}
			}
		}
	}
	// request-serving functions of a generation type: a method with the handler signature or a
	// package-level function (instance, http.ResponseWriter, *http.Request)
	servingOf := func(t *types.Named) []*types.Func {
		var out []*types.Func
		for _, m := range c11Methods(t) {
			if c11HandlerSig(m.Type().(*types.Signature)) {
				out = append(out, m)
			}
		}
		for o := range decls {
			sig := o.Type().(*types.Signature)
			if sig.Recv() != nil || sig.Params().Len() != 3 || sig.Results().Len() != 0 {
				continue
			}
			if c11IsNamed(sig.Params().At(0).Type(), pkg.Types.Path(), t.Obj().Name()) &&
				c11IsNamed(sig.Params().At(1).Type(), "net/http", "ResponseWriter") && c11IsNamed(sig.Params().At(2).Type(), "net/http", "Request") {
				out = append(out, o)
			}
		}
		sort.Slice(out, func(i, j int) bool { return out[i].Pos() < out[j].Pos() })
		return out
	}
	var fit []pair
	for _, p := range pairs {
		if len(servingOf(p.t)) > 0 {
			fit = append(fit, p)
		}
	}
	if len(fit) != 1 {
		c.Errorf("R-C11: anchor: expected one atomic.Value of %s that stores a request-serving generation type, found %d", r.muxT.Obj().Name(), len(fit))
		return nil
	}
	r.instF, r.miT = fit[0].f, fit[0].t
	serving := servingOf(r.miT)
	if len(serving) > 1 {
		for _, m := range serving {
			if m.Name() == "serveHTTP" {
				serving = []*types.Func{m}
			}
		}
	}
	if len(serving) != 1 {
		c.Errorf("R-C11: anchor: %s has %d functions with the request-serving signature", r.miT.Obj().Name(), len(serving))
		return nil
	}
	r.serveInst = serving[0]
	return r
}

// recvName renders the receiver type name of a method object.
func c11RecvName(m *types.Func) string {
	sig, ok := m.Type().(*types.Signature)
	if !ok || sig.Recv() == nil {
		return ""
	}
	t := sig.Recv().Type()
	if p, ok := t.(*types.Pointer); ok {
		t = p.Elem()
	}
	if n, ok := types.Unalias(t).(*types.Named); ok {
		return n.Obj().Name()
	}
	return ""
}

// ---------------------------------------------------------------------------------------
// event counting with callee summaries

// c11Counter computes the maximal number (saturating at 2) of events on any path through a
// function, where a call to a same-package function contributes that function's own maximum.
type c11Counter struct {
	c       *core.Ctx
	pkg     *packages.Package
	decls   map[*types.Func]*ast.FuncDecl
	isEvent func(g *flow.Func, call *ast.CallExpr) bool
	memo    map[*ast.FuncDecl]int
	minMemo map[*ast.FuncDecl]int
	busy    map[*ast.FuncDecl]bool
	wit     map[*ast.FuncDecl]*flow.State
}

func c11NewCounter(c *core.Ctx, pkg *packages.Package, decls map[*types.Func]*ast.FuncDecl, isEvent func(g *flow.Func, call *ast.CallExpr) bool) *c11Counter {
	return &c11Counter{c: c, pkg: pkg, decls: decls, isEvent: isEvent, memo: map[*ast.FuncDecl]int{}, minMemo: map[*ast.FuncDecl]int{}, busy: map[*ast.FuncDecl]bool{}, wit: map[*ast.FuncDecl]*flow.State{}}
}

func (k *c11Counter) weight(g *flow.Func, call *ast.CallExpr) int {
	if k.isEvent(g, call) {
		return 1
	}
	if callee, ok := g.Callee(call).(*types.Func); ok {
		if fd := k.decls[c11SoleImpl(k.pkg, callee.Origin())]; fd != nil {
			return k.max(fd)
		}
	}
	return 0
}

// minWeight is the number of events a call contributes on EVERY returning path of the callee.
func (k *c11Counter) minWeight(g *flow.Func, call *ast.CallExpr) int {
	if k.isEvent(g, call) {
		return 1
	}
	if callee, ok := g.Callee(call).(*types.Func); ok {
		if fd := k.decls[c11SoleImpl(k.pkg, callee.Origin())]; fd != nil {
			return k.min(fd)
		}
	}
	return 0
}

// min is the minimal number (saturating at 2) of events over the returning paths of fd.
func (k *c11Counter) min(fd *ast.FuncDecl) int {
	if _, ok := k.memo[fd]; !ok {
		if k.busy[fd] {
			return 0
		}
		k.max(fd)
	}
	return k.minMemo[fd]
}

func (k *c11Counter) max(fd *ast.FuncDecl) int {
	if n, ok := k.memo[fd]; ok {
		return n
	}
	if k.busy[fd] {
		return 0
	}
	k.busy[fd] = true
	defer delete(k.busy, fd)
	g := flow.NewFunc(k.pkg, fd)
	// function literals that are not deferred are not interpreted by the engine: whatever
	// they do is counted as if it happened once when the function runs
	deferred := map[*ast.FuncLit]bool{}
	ast.Inspect(fd.Body, func(n ast.Node) bool {
		if d, ok := n.(*ast.DeferStmt); ok {
			if lit, ok := ast.Unparen(d.Call.Fun).(*ast.FuncLit); ok {
				deferred[lit] = true
			}
		}
		return true
	})
	extra := 0
	var lits func(n ast.Node)
	lits = func(n ast.Node) {
		ast.Inspect(n, func(x ast.Node) bool {
			if lit, ok := x.(*ast.FuncLit); ok && !deferred[lit] {
				for _, call := range calls(lit.Body, true) {
					extra += k.weight(g, call)
				}
				return false
			}
			return true
		})
	}
	lits(fd.Body)
	res := analyze(k.c, g, flow.Config{NoHavoc: true, Track: func(string) bool { return false },
		OnCall: func(st *flow.State, call *ast.CallExpr, callee types.Object, deferredCall bool) {
			for i, n := 0, k.weight(g, call); i < n; i++ {
				c11Bump(st, "ev:n")
			}
			{
				for i, n := 0, k.minWeight(g, call); i < n; i++ {
					c11Bump(st, "ev:m")
				}
			}
		}})
	best := 0
	least := -1
	if res != nil {
		for _, ex := range res.Exits {
			if ex.Kind == flow.ExitReturn {
				m := 0
				if ex.State.Is("ev:m:2", flow.True) {
					m = 2
				} else if ex.State.Is("ev:m:1", flow.True) {
					m = 1
				}
				if least < 0 || m < least {
					least = m
				}
			}
			n := 0
			if ex.State.Is("ev:n:2", flow.True) {
				n = 2
			} else if ex.State.Is("ev:n:1", flow.True) {
				n = 1
			}
			if n > best || k.wit[fd] == nil {
				best = n
				k.wit[fd] = ex.State
			}
		}
	}
	best += extra
	if best > 2 {
		best = 2
	}
	if least < 0 {
		least = 0
	}
	k.minMemo[fd] = least
	k.memo[fd] = best
	return best
}

// c11EventSites lists the event call sites in the functions reachable from root.
func (k *c11Counter) sites(root *types.Func) []reachCall {
	var out []reachCall
	var os []*types.Func
	for o := range c11Reach(k.pkg, k.decls, root) {
		os = append(os, o)
	}
	sort.Slice(os, func(i, j int) bool { return os[i].Pos() < os[j].Pos() })
	for _, o := range os {
		g := flow.NewFunc(k.pkg, k.decls[o])
		for _, call := range calls(g.Body, true) {
			if k.isEvent(g, call) {
				out = append(out, reachCall{g, call})
			}
		}
	}
	return out
}

// ---------------------------------------------------------------------------------------
// construction helpers

// c11ParamIndex: obj is the receiver (-1) or the i-th parameter of fd, never reassigned in it.
func c11ParamIndex(info *types.Info, fd *ast.FuncDecl, obj types.Object) (int, bool) {
	if obj == nil {
		return 0, false
	}
	idx, found := 0, false
	if fd.Recv != nil {
		for _, fl := range fd.Recv.List {
			for _, n := range fl.Names {
				if info.Defs[n] == obj {
					idx, found = -1, true
				}
			}
		}
	}
	i := 0
	for _, fl := range fd.Type.Params.List {
		if len(fl.Names) == 0 {
			i++
			continue
		}
		for _, n := range fl.Names {
			if info.Defs[n] == obj {
				if _, variadic := fl.Type.(*ast.Ellipsis); variadic {
					return 0, false
				}
				idx, found = i, true
			}
			i++
		}
	}
	if !found {
		return 0, false
	}
	reassigned := false
	ast.Inspect(fd.Body, func(n ast.Node) bool {
		switch s := n.(type) {
		case *ast.AssignStmt:
			for _, l := range s.Lhs {
				if id, ok := l.(*ast.Ident); ok && info.Uses[id] == obj {
					reassigned = true
				}
			}
		case *ast.RangeStmt:
			for _, e := range []ast.Expr{s.Key, s.Value} {
				if id, ok := e.(*ast.Ident); ok && info.Uses[id] == obj {
					reassigned = true
				}
			}
		}
		return true
	})
	return idx, !reassigned
}

// c11CallSite is a static call of a same-package function.
type c11CallSite struct {
	caller *ast.FuncDecl
	call   *ast.CallExpr
	inLit  bool
}

// c11CallIndex lists, per function object, its call sites in the package and whether it is
// also used as a value (method value, function value).
func c11CallIndex(pkg *packages.Package, decls map[*types.Func]*ast.FuncDecl) (map[*types.Func][]c11CallSite, map[*types.Func]bool) {
	sites := map[*types.Func][]c11CallSite{}
	escapes := map[*types.Func]bool{}
	info := pkg.TypesInfo
	for _, fd := range decls {
		callFun := map[*ast.Ident]*ast.CallExpr{}
		for _, call := range calls(fd.Body, true) {
			switch x := ast.Unparen(call.Fun).(type) {
			case *ast.Ident:
				callFun[x] = call
			case *ast.SelectorExpr:
				callFun[x.Sel] = call
			}
		}
		var lits []*ast.FuncLit
		var visit func(n ast.Node) bool
		visit = func(n ast.Node) bool {
			switch x := n.(type) {
			case *ast.FuncLit:
				lits = append(lits, x)
				ast.Inspect(x.Body, visit)
				lits = lits[:len(lits)-1]
				return false
			case *ast.Ident:
				callee, ok := info.Uses[x].(*types.Func)
				if !ok {
					return true
				}
				callee = c11SoleImpl(pkg, callee.Origin())
				if decls[callee] == nil {
					return true
				}
				if call := callFun[x]; call != nil {
					sites[callee] = append(sites[callee], c11CallSite{caller: fd, call: call, inLit: len(lits) > 0})
				} else {
					escapes[callee] = true
				}
			}
			return true
		}
		ast.Inspect(fd.Body, visit)
	}
	return sites, escapes
}

// c11CtorCall: e is a call of a same-package function every return of which yields a
// freshly created object (a constructor).
func c11CtorCall(info *types.Info, decls map[*types.Func]*ast.FuncDecl, e ast.Expr, depth int) bool {
	call, ok := ast.Unparen(e).(*ast.CallExpr)
	if !ok || decls == nil || depth > 2 {
		return false
	}
	var callee *types.Func
	switch x := ast.Unparen(call.Fun).(type) {
	case *ast.Ident:
		callee, _ = info.Uses[x].(*types.Func)
	case *ast.SelectorExpr:
		callee, _ = info.Uses[x.Sel].(*types.Func)
	}
	if callee == nil {
		return false
	}
	fd := decls[callee.Origin()]
	if fd == nil || fd.Type.Results == nil || len(fd.Type.Results.List) == 0 {
		return false
	}
	n, good := 0, 0
	ast.Inspect(fd.Body, func(x ast.Node) bool {
		switch s := x.(type) {
		case *ast.FuncLit:
			return false
		case *ast.ReturnStmt:
			n++
			if len(s.Results) == 0 {
				return true // bare return with named results: not recognised
			}
			r := ast.Unparen(s.Results[0])
			if c11IsFreshExprD(info, decls, r, depth+1) {
				good++
			} else if id, ok := r.(*ast.Ident); ok && c11FreshLocalD(info, decls, fd.Body, info.Uses[id], depth+1) {
				good++
			} else if tv, ok := info.Types[r]; ok && tv.IsNil() {
				good++ // (nil, err)
			}
		}
		return true
	})
	return n > 0 && n == good
}

// c11GenTypes resolves the types that make up a router generation by role: the instance
// type, the struct types of the package reachable from it through fields (pointers, slices,
// arrays, maps) all of whose fields are unexported (muxRule, MuxPath today — the spec types
// with exported yaml fields are configuration, not generation state), and the small result
// type pairing a status with a path of the generation (route today: by name, else by shape).
func c11GenTypes(r *c11Router) []*types.Named {
	pkg := r.pkg.Types
	out := []*types.Named{r.miT}
	seen := map[*types.Named]bool{r.miT: true}
	allUnexported := func(st *types.Struct) bool {
		if st.NumFields() == 0 {
			return false
		}
		for i := 0; i < st.NumFields(); i++ {
			if st.Field(i).Exported() {
				return false
			}
		}
		return true
	}
	var walk func(t types.Type, depth int)
	walk = func(t types.Type, depth int) {
		if depth > 8 {
			return
		}
		switch x := types.Unalias(t).(type) {
		case *types.Pointer:
			walk(x.Elem(), depth+1)
		case *types.Slice:
			walk(x.Elem(), depth+1)
		case *types.Array:
			walk(x.Elem(), depth+1)
		case *types.Map:
			walk(x.Key(), depth+1)
			walk(x.Elem(), depth+1)
		case *types.Named:
			if x.Obj().Pkg() != pkg {
				return
			}
			st, ok := x.Underlying().(*types.Struct)
			if !ok {
				return
			}
			if x != r.miT {
				if seen[x] || !allUnexported(st) || x == r.muxT {
					return
				}
				seen[x] = true
				out = append(out, x)
			}
			for i := 0; i < st.NumFields(); i++ {
				walk(st.Field(i).Type(), depth+1)
			}
		}
	}
	walk(r.miT, 0)
	// the per-request result type
	isGenPtr := func(t types.Type) bool {
		p, ok := t.(*types.Pointer)
		if !ok {
			return false
		}
		n, ok := types.Unalias(p.Elem()).(*types.Named)
		return ok && seen[n] && n != r.miT
	}
	var byName, byShape []*types.Named
	for _, name := range pkg.Scope().Names() {
		tn, ok := pkg.Scope().Lookup(name).(*types.TypeName)
		if !ok || tn.IsAlias() {
			continue
		}
		n, ok := tn.Type().(*types.Named)
		if !ok || seen[n] {
			continue
		}
		st, ok := n.Underlying().(*types.Struct)
		if !ok || !allUnexported(st) {
			continue
		}
		if name == "route" {
			byName = append(byName, n)
		}
		if st.NumFields() == 2 {
			ints, ptrs := 0, 0
			for i := 0; i < 2; i++ {
				if b, ok := st.Field(i).Type().Underlying().(*types.Basic); ok && b.Info()&types.IsInteger != 0 {
					ints++
				}
				if isGenPtr(st.Field(i).Type()) {
					ptrs++
				}
			}
			if ints == 1 && ptrs == 1 {
				byShape = append(byShape, n)
			}
		}
	}
	switch {
	case len(byName) == 1:
		out = append(out, byName[0])
	case len(byShape) == 1:
		out = append(out, byShape[0])
	}
	return out
}

// c11FreshElement: e is an element / field of a container that is a fresh local of body and
// into which only freshly created objects are stored in body (`paths[j]` with
// `paths := make(...)`, `paths[j] = newMuxPath(...)`), or a range variable over such a
// container. Returns the container's root identifier.
func c11FreshElement(info *types.Info, decls map[*types.Func]*ast.FuncDecl, body *ast.BlockStmt, e ast.Expr) *ast.Ident {
	e = ast.Unparen(e)
	var root *ast.Ident
	if id, ok := e.(*ast.Ident); ok {
		// range value variable over a fresh container
		obj := info.Uses[id]
		ast.Inspect(body, func(x ast.Node) bool {
			if rs, ok := x.(*ast.RangeStmt); ok {
				if v, ok := rs.Value.(*ast.Ident); ok && info.Defs[v] == obj && obj != nil {
					if cid, ok := ast.Unparen(rs.X).(*ast.Ident); ok {
						root = cid
					}
				}
			}
			return true
		})
	} else {
		hop := false
		for {
			switch x := e.(type) {
			case *ast.IndexExpr:
				e, hop = ast.Unparen(x.X), true
				continue
			case *ast.Ident:
				if hop {
					root = x
				}
			}
			break
		}
	}
	if root == nil {
		return nil
	}
	cobj := info.Uses[root]
	if !c11FreshLocalD(info, decls, body, cobj, 0) {
		return nil
	}
	// every element stored into the container is itself freshly created
	ok := true
	ast.Inspect(body, func(x ast.Node) bool {
		as, isAs := x.(*ast.AssignStmt)
		if !isAs {
			return true
		}
		for i, l := range as.Lhs {
			ix, isIx := ast.Unparen(l).(*ast.IndexExpr)
			if !isIx {
				continue
			}
			if id, isID := ast.Unparen(ix.X).(*ast.Ident); !isID || info.Uses[id] != cobj {
				continue
			}
			if len(as.Rhs) != len(as.Lhs) || !c11IsFreshExprD(info, decls, as.Rhs[i], 0) {
				ok = false
			}
		}
		return true
	})
	if !ok {
		return nil
	}
	return root
}
