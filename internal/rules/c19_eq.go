package rules

import (
	"go/ast"
	"go/token"
	"go/types"
	"strings"

	"golang.org/x/tools/go/cfg"

	"verif/internal/core"
	"verif/internal/flow"
)

const (
	c19evBody = "ev:inbody" // inside an iteration of the per-key loop
	c19evDone = "ev:done"   // the per-key loop was exhausted
)

// c19valueSel reports whether e is `x.Value` with Value the field of mvccpb.KeyValue and
// returns x.
func c19valueSel(f *flow.Func, e ast.Expr) (ast.Expr, bool) {
	sel, ok := ast.Unparen(e).(*ast.SelectorExpr)
	if !ok {
		return nil, false
	}
	s := f.Info.Selections[sel]
	if s == nil {
		return nil, false
	}
	v, ok := s.Obj().(*types.Var)
	if !ok || !v.IsField() || v.Name() != "Value" || v.Pkg() == nil || !strings.HasSuffix(v.Pkg().Path(), "/mvccpb") {
		return nil, false
	}
	return ast.Unparen(sel.X), true
}

// c19valueAtoms returns the fact keys whose truth means "the Value bytes of the entries a and
// b are equal": bytes.Equal(a.Value, b.Value) and string(a.Value) == string(b.Value), in
// either argument order. isA / isB classify the entry expressions.
func c19valueAtoms(f *flow.Func, root ast.Node, isA, isB func(ast.Expr) bool) []string {
	var keys []string
	pair := func(x, y ast.Expr) bool {
		return (isA(x) && isB(y)) || (isA(y) && isB(x))
	}
	c19inspect(root, func(n ast.Node) bool {
		switch e := n.(type) {
		case *ast.CallExpr:
			if calleeFull(f, e) == "bytes.Equal" && len(e.Args) == 2 {
				x, ok1 := c19valueSel(f, e.Args[0])
				y, ok2 := c19valueSel(f, e.Args[1])
				if ok1 && ok2 && pair(x, y) {
					keys = append(keys, f.CallKey(e))
				}
			}
		case *ast.BinaryExpr:
			if e.Op != token.EQL && e.Op != token.NEQ {
				return true
			}
			conv := func(s ast.Expr) (ast.Expr, bool) {
				call, ok := ast.Unparen(s).(*ast.CallExpr)
				if !ok || len(call.Args) != 1 {
					return nil, false
				}
				if tv, ok := f.Info.Types[call.Fun]; !ok || !tv.IsType() || !c19isString(tv.Type) {
					return nil, false
				}
				return c19valueSel(f, call.Args[0])
			}
			x, ok1 := conv(e.X)
			y, ok2 := conv(e.Y)
			if ok1 && ok2 && pair(x, y) {
				keys = append(keys, f.EqKey(e.X, e.Y))
			}
		}
		return true
	})
	return keys
}

type c19eq struct {
	c     *core.Ctx
	reads *c19reads // for declOf
	kvOK  map[*types.Func]bool
}

// resultExpr returns the single result expression of a return exit.
func c19result(ex *flow.Exit) ast.Expr {
	if ex.Return == nil || len(ex.Return.Results) != 1 {
		return nil
	}
	return ex.Return.Results[0]
}

func c19Equality(c *core.Ctx, r *c19run) {
	if len(r.eqFns) == 0 {
		return // R-C19-1 reported the missing comparison
	}
	q := &c19eq{c: c, kvOK: map[*types.Func]bool{},
		reads: &c19reads{c: c, may: map[*types.Func]int{}, sums: map[ast.Node]*c19sum{}, decls: map[*types.Func]*c19decl{}}}
	for _, fo := range r.eqFns {
		q.mapEq(r, fo)
	}
}

// mapEq checks the snapshot comparison function.
func (q *c19eq) mapEq(r *c19run, fo *types.Func) {
	c := q.c
	d := q.reads.declOf(fo)
	if d == nil {
		c.Undecide("R-C19-4", fo.FullName()+"|snapshot comparison", "?", "the comparison function has no body in the module: not analysed")
		return
	}
	f := flow.NewFunc(d.pkg, d.fd)
	c.Count("functions_analysed", 1)
	cons := declName(d.pkg, d.fd)
	ps := c19params(f, f.Type)
	if len(ps) != 2 || !types.Identical(ps[0].Type(), r.snapT) || !types.Identical(ps[1].Type(), r.snapT) {
		c.Undecide("R-C19-4", cons+"|snapshot comparison", pos(c, d.fd), "the comparison does not take exactly two snapshots")
		return
	}
	isParam := func(e ast.Expr) int {
		switch c19obj(f, e) {
		case types.Object(ps[0]):
			return 1
		case types.Object(ps[1]):
			return 2
		}
		return 0
	}
	// len(a) ==/!= len(b)
	lenKey := ""
	lenOf := func(e ast.Expr) int {
		call, ok := ast.Unparen(e).(*ast.CallExpr)
		if !ok || len(call.Args) != 1 {
			return 0
		}
		if b, ok := f.Callee(call).(*types.Builtin); !ok || b.Name() != "len" {
			return 0
		}
		return isParam(call.Args[0])
	}
	c19inspect(f.Body, func(n ast.Node) bool {
		if be, ok := n.(*ast.BinaryExpr); ok && (be.Op == token.EQL || be.Op == token.NEQ) && lenKey == "" {
			if x, y := lenOf(be.X), lenOf(be.Y); x != 0 && y != 0 && x != y {
				lenKey = f.EqKey(be.X, be.Y)
			}
		}
		return true
	})
	// the per-key loop
	var loops []*ast.RangeStmt
	c19inspect(f.Body, func(n ast.Node) bool {
		if rs, ok := n.(*ast.RangeStmt); ok && isParam(rs.X) != 0 {
			loops = append(loops, rs)
		}
		return true
	})
	// Several loops over a snapshot (e.g. a key-existence loop followed by a value loop) are fine:
	// each may only leave early with false, and one of them must compare the values of every key.
	wantFor := func(L *ast.RangeStmt) (want []string, undecided string) {
		other := ps[2-isParam(L.X)]
		kObj, vObj := c19obj(f, L.Key), c19obj(f, L.Value)
		if kObj == nil {
			return nil, "the per-key loop does not bind the key"
		}
		ranged := ps[isParam(L.X)-1]
		// entries of the other snapshot under the same key
		isOtherAtKey := func(e ast.Expr) bool {
			ix, ok := ast.Unparen(e).(*ast.IndexExpr)
			return ok && c19obj(f, ix.X) == types.Object(other) && c19obj(f, ix.Index) == kObj
		}
		wObjs := map[types.Object]bool{}
		c19inspect(L.Body, func(n ast.Node) bool {
			if as, ok := n.(*ast.AssignStmt); ok && len(as.Rhs) == 1 && len(as.Lhs) >= 1 && isOtherAtKey(as.Rhs[0]) {
				if o := c19obj(f, as.Lhs[0]); o != nil {
					wObjs[o] = true
				}
			}
			return true
		})
		vObjs := map[types.Object]bool{}
		if vObj != nil {
			vObjs[vObj] = true
		}
		isRangedAtKey := func(e ast.Expr) bool {
			ix, ok := ast.Unparen(e).(*ast.IndexExpr)
			return ok && c19obj(f, ix.X) == types.Object(ranged) && c19obj(f, ix.Index) == kObj
		}
		c19inspect(L.Body, func(n ast.Node) bool {
			if as, ok := n.(*ast.AssignStmt); ok && len(as.Rhs) == 1 && len(as.Lhs) >= 1 && isRangedAtKey(as.Rhs[0]) {
				if o := c19obj(f, as.Lhs[0]); o != nil {
					vObjs[o] = true
				}
			}
			return true
		})
		isV := func(e ast.Expr) bool {
			if o := c19obj(f, e); o != nil && vObjs[o] {
				return true
			}
			return isRangedAtKey(e)
		}
		isW := func(e ast.Expr) bool {
			if o := c19obj(f, e); o != nil && wObjs[o] {
				return true
			}
			return isOtherAtKey(e)
		}
		want = c19valueAtoms(f, L.Body, isV, isW)
		for _, call := range calls(L.Body, false) {
			if len(call.Args) != 2 || !c19isBool(f.Info.TypeOf(call)) {
				continue
			}
			if !((isV(call.Args[0]) && isW(call.Args[1])) || (isV(call.Args[1]) && isW(call.Args[0]))) {
				continue
			}
			g, ok := f.Callee(call).(*types.Func)
			if !ok {
				continue
			}
			if q.kvEq(g) {
				want = append(want, f.CallKey(call))
			}
		}
		return want, ""
	}
	if len(loops) == 0 {
		if q.iterEq(r, f, d.fd, cons, ps, lenKey, wantFor) {
			return
		}
		c.Violate("R-C19-4", cons+"|values compared for every key", pos(c, d.fd),
			"the snapshot comparison has no loop over the entries of a snapshot: a change of a value (or a replaced key with the same count) is not detected, the new content is never delivered")
		return
	}
	var L *ast.RangeStmt
	var want []string
	for _, cand := range loops {
		w, und := wantFor(cand)
		if und != "" {
			c.Undecide("R-C19-4", cons+"|values compared for every key", pos(c, cand), und)
			return
		}
		if len(w) > 0 && L == nil {
			L, want = cand, w
		}
	}
	if L == nil {
		L = loops[0]
	}
	if len(want) == 0 {
		c.Violate("R-C19-4", cons+"|values compared for every key", pos(c, L),
			"no iteration of the per-key loop compares the entry's value with the other snapshot's entry under the same key: an update of a value is not detected and never delivered")
		return
	}
	var badIter *flow.State
	iters := 0
	res := analyze(c, f, flow.Config{NoHavoc: true,
		OnBlock: func(st *flow.State, b *cfg.Block) {
			if b.Stmt != L {
				return
			}
			switch b.Kind {
			case cfg.KindRangeBody:
				st.Set(c19evBody, flow.True)
			case cfg.KindRangeLoop:
				if st.Is(c19evBody, flow.True) {
					iters++
					ok := false
					for _, w := range want {
						if st.Is(w, flow.True) {
							ok = true
						}
					}
					if !ok && badIter == nil {
						badIter = st
					}
				}
				st.Set(c19evBody, flow.Unknown)
			case cfg.KindRangeDone:
				st.Set(c19evDone, flow.True)
			}
		}})
	if res == nil {
		return
	}
	if c.RequireCount("R-C19-4", "abstract iterations of the per-key loop", iters, 1) {
		c.Check(badIter == nil, "R-C19-4", cons+"|values compared for every key", pos(c, L),
			sprintf("%d abstract iteration end(s), all with the value comparison of (entry, other[key]) true", iters),
			"an iteration of the per-key loop goes on to the next key without having established that the entry's value equals the other snapshot's value under the same key: a changed value is reported as equal and never delivered", witness(badIter)...)
	}
	// non-false results
	var badLen, badEarly *flow.State
	undecided := ""
	trues := 0
	for _, ex := range res.Exits {
		if ex.Kind != flow.ExitReturn || c19phantom(ex) {
			continue
		}
		R := c19result(ex)
		if R == nil {
			undecided = "a return does not have a single result"
			continue
		}
		if v, isC := c19constBool(f, R); isC && !v {
			continue
		}
		trues++
		if !ex.State.Is(c19evDone, flow.True) || ex.State.Is(c19evBody, flow.True) {
			badEarly = ex.State
		}
		if lenKey != "" {
			holds, dec := c19implies(f, ex.State, R, []string{lenKey}, nil)
			if !dec {
				undecided = "cannot evaluate the result expression at " + pos(c, ex.Return)
			} else if !holds {
				badLen = ex.State
			}
		}
	}
	if undecided != "" {
		c.Undecide("R-C19-4", cons+"|snapshot comparison", pos(c, d.fd), undecided)
		return
	}
	c.RequireCount("R-C19-4", "non-false exits of the snapshot comparison", trues, 1)
	if lenKey == "" {
		c.Violate("R-C19-4", cons+"|equal only with equal lengths", pos(c, d.fd),
			"the lengths of the two snapshots are never compared: the loop only shows that one snapshot is contained in the other, so a created (or, the other way round, a deleted) key is reported as 'equal' and never delivered")
	} else {
		c.Check(badLen == nil, "R-C19-4", cons+"|equal only with equal lengths", pos(c, d.fd),
			sprintf("%d non-false exit(s), all with len(a) == len(b) established", trues),
			"the comparison can report 'equal' although the lengths differ: a created or deleted key is not detected and never delivered", witness(badLen)...)
	}
	var badBreak ast.Node
	var outs []ast.Node
	for _, lp := range loops {
		outs = append(outs, breaksOut(f, lp, labelOf(f.Body, lp))...)
	}
	for _, x := range outs {
		okx := false
		if rs, ok := x.(*ast.ReturnStmt); ok && len(rs.Results) == 1 {
			if v, isC := c19constBool(f, rs.Results[0]); isC && !v {
				okx = true
			}
		}
		if !okx {
			badBreak = x
		}
	}
	c.Check(badEarly == nil && badBreak == nil, "R-C19-4", cons+"|equal only after all keys were compared", pos(c, L),
		sprintf("%d non-false exit(s), all after the per-key loop was exhausted; the loop is left early only with false", trues),
		"the comparison can report 'equal' before every key has been compared (result depends on map iteration order): a change of a key visited later is not detected", witness(badEarly)...)
}

// kvEq checks the per-entry comparison g(a, b *KeyValue) bool: for non-nil a, b it returns
// true only if the Value bytes are equal. (The Key comparison is redundant for entries found
// under the same map key; nil entries are never stored by pull.)
func (q *c19eq) kvEq(g *types.Func) bool {
	if v, ok := q.kvOK[g]; ok {
		return v
	}
	q.kvOK[g] = true
	c := q.c
	d := q.reads.declOf(g)
	if d == nil {
		c.Undecide("R-C19-4", g.FullName()+"|entry comparison", "?", "the per-entry comparison has no body in the module: not analysed")
		return true
	}
	f := flow.NewFunc(d.pkg, d.fd)
	c.Count("functions_analysed", 1)
	cons := declName(d.pkg, d.fd)
	ps := c19params(f, f.Type)
	if len(ps) != 2 {
		c.Undecide("R-C19-4", cons+"|entry comparison", pos(c, d.fd), "the per-entry comparison does not take two entries")
		return true
	}
	isA := func(e ast.Expr) bool { return c19obj(f, e) == types.Object(ps[0]) }
	isB := func(e ast.Expr) bool { return c19obj(f, e) == types.Object(ps[1]) }
	want := c19valueAtoms(f, f.Body, isA, isB)
	role := cons + "|true only with equal Value bytes"
	if len(want) == 0 {
		c.Violate("R-C19-4", role, pos(c, d.fd),
			"the per-entry comparison never compares the Value bytes of the two entries: an update that changes the value of an existing key is reported as 'equal' and never delivered")
		return true
	}
	nilA := f.NilKey(c19defIdent(f, d.fd.Type, ps[0]))
	nilB := f.NilKey(c19defIdent(f, d.fd.Type, ps[1]))
	res := analyze(c, f, flow.Config{NoHavoc: true})
	if res == nil {
		return true
	}
	var bad *flow.Exit
	n := 0
	for _, ex := range res.Exits {
		if ex.Kind != flow.ExitReturn || c19phantom(ex) {
			continue
		}
		R := c19result(ex)
		if R == nil {
			c.Undecide("R-C19-4", role, pos(c, d.fd), "a return does not have a single result")
			return true
		}
		if v, isC := c19constBool(f, R); isC && !v {
			continue
		}
		n++
		holds, dec := c19implies(f, ex.State, R, want, []string{nilA, nilB})
		if !dec {
			c.Undecide("R-C19-4", role, pos(c, ex.Return), "cannot evaluate the result expression")
			return true
		}
		if !holds && bad == nil {
			bad = ex
		}
	}
	c.RequireCount("R-C19-4", "non-false exits of the per-entry comparison", n, 1)
	var w []string
	if bad != nil {
		w = append([]string{"return at " + pos(c, bad.Return)}, witness(bad.State)...)
	}
	c.Check(bad == nil, "R-C19-4", role, pos(c, d.fd),
		sprintf("%d non-false exit(s): for two non-nil entries each implies equal Value bytes", n),
		"the per-entry comparison can return true for two non-nil entries whose Value bytes differ: an update of a value is reported as 'equal' and never delivered", w...)
	return true
}

// iterEq: the per-key loop of the snapshot comparison is behind a callback iterator:
// `return every(a, func(k, v) bool { .. compare v with b[k] .. })`. Three things are checked in
// place of the loop rules: the iterator visits every entry and reports true only if the callback
// held for all of them; the callback returns non-false only with the value comparison of
// (v, other[k]) established; the comparison returns the iterator's verdict with equal lengths
// established. Returns false if the body does not have this form.
func (q *c19eq) iterEq(r *c19run, f *flow.Func, fd *ast.FuncDecl, cons string, ps []*types.Var, lenKey string,
	wantFor func(*ast.RangeStmt) ([]string, string)) bool {
	c := q.c
	var it *ast.CallExpr
	var lit *ast.FuncLit
	var hfd *ast.FuncDecl
	argIdx, fnIdx := -1, -1
	for _, call := range calls(fd.Body, false) {
		fo, ok := f.Callee(call).(*types.Func)
		if !ok || fo.Pkg() != f.Pkg.Types {
			continue
		}
		h := declOf(f.Pkg, fo)
		if h == nil {
			continue
		}
		ai, fi := -1, -1
		var l *ast.FuncLit
		for i, a := range call.Args {
			if o := c19obj(f, a); o != nil && (o == types.Object(ps[0]) || o == types.Object(ps[1])) {
				ai = i
			}
			if fl, ok := ast.Unparen(a).(*ast.FuncLit); ok {
				fi, l = i, fl
			}
		}
		if ai >= 0 && fi >= 0 && it == nil {
			it, lit, hfd, argIdx, fnIdx = call, l, h, ai, fi
		}
	}
	if it == nil {
		return false
	}
	if lit.Type.Params == nil || lit.Type.Params.NumFields() != 2 {
		c.Undecide("R-C19-4", cons+"|values compared for every key", pos(c, lit), "the callback of the iterator does not take (key, value)")
		return true
	}
	var pids []*ast.Ident
	for _, fld := range lit.Type.Params.List {
		pids = append(pids, fld.Names...)
	}
	if len(pids) != 2 {
		c.Undecide("R-C19-4", cons+"|values compared for every key", pos(c, lit), "the callback of the iterator does not name (key, value)")
		return true
	}
	// (A) the iterator
	h := flow.NewFunc(f.Pkg, hfd)
	c.Count("functions_analysed", 1)
	hps := c19params(h, hfd.Type)
	if len(hps) != len(it.Args) {
		c.Undecide("R-C19-4", cons+"|values compared for every key", pos(c, hfd), "cannot bind the iterator's parameters")
		return true
	}
	hp, hfn := hps[argIdx], hps[fnIdx]
	var hl *ast.RangeStmt
	nl := 0
	c19inspect(hfd.Body, func(n ast.Node) bool {
		if rs, ok := n.(*ast.RangeStmt); ok && c19obj(h, rs.X) == types.Object(hp) {
			hl = rs
			nl++
		}
		return true
	})
	var cb *ast.CallExpr
	if hl != nil {
		for _, call := range calls(hl.Body, false) {
			if c19obj(h, call.Fun) == types.Object(hfn) && len(call.Args) == 2 &&
				c19obj(h, call.Args[0]) != nil && c19obj(h, call.Args[0]) == c19obj(h, hl.Key) &&
				c19obj(h, call.Args[1]) != nil && c19obj(h, call.Args[1]) == c19obj(h, hl.Value) {
				cb = call
			}
		}
	}
	itName := declName(f.Pkg, hfd)
	if nl != 1 || cb == nil {
		c.Undecide("R-C19-4", cons+"|values compared for every key", pos(c, hfd), "the helper that receives the callback is not a single range loop calling it with (key, value)")
		return true
	}
	cbKey := h.CallKey(cb)
	var badIter, badEarly *flow.State
	iters, trues := 0, 0
	hres := analyze(c, h, flow.Config{NoHavoc: true,
		OnBlock: func(st *flow.State, b *cfg.Block) {
			if b.Stmt != hl {
				return
			}
			switch b.Kind {
			case cfg.KindRangeBody:
				st.Set(c19evBody, flow.True)
			case cfg.KindRangeLoop:
				if st.Is(c19evBody, flow.True) {
					iters++
					if !st.Is(cbKey, flow.True) && badIter == nil {
						badIter = st
					}
				}
				st.Set(c19evBody, flow.Unknown)
			case cfg.KindRangeDone:
				st.Set(c19evDone, flow.True)
			}
		}})
	if hres == nil {
		return true
	}
	for _, ex := range hres.Exits {
		if ex.Kind != flow.ExitReturn || c19phantom(ex) {
			continue
		}
		R := c19result(ex)
		if R == nil {
			c.Undecide("R-C19-4", cons+"|values compared for every key", pos(c, hfd), "the iterator does not return a single bool")
			return true
		}
		if v, isC := c19constBool(h, R); isC && !v {
			continue
		}
		trues++
		if v, isC := c19constBool(h, R); !isC || !v || !ex.State.Is(c19evDone, flow.True) || ex.State.Is(c19evBody, flow.True) {
			badEarly = ex.State
		}
	}
	var badBreak ast.Node
	for _, x := range breaksOut(h, hl, labelOf(hfd.Body, hl)) {
		okx := false
		if rs, ok := x.(*ast.ReturnStmt); ok && len(rs.Results) == 1 {
			if v, isC := c19constBool(h, rs.Results[0]); isC && !v {
				okx = true
			}
		}
		if !okx {
			badBreak = x
		}
	}
	c.RequireCount("R-C19-4", "abstract iterations of the iterator "+itName, iters, 1)
	c.Check(badEarly == nil && badBreak == nil && trues > 0, "R-C19-4", cons+"|equal only after all keys were compared", pos(c, hl),
		sprintf("iterator %s: %d true exit(s), all after its loop was exhausted; the loop is left early only with false", itName, trues),
		"the iterator the comparison relies on can report 'all entries hold' before every entry was visited (or leaves its loop early with a result other than false): a change of a key visited later is not detected", witness(badEarly)...)
	// (B) the callback
	fake := &ast.RangeStmt{Key: pids[0], Value: pids[1], X: it.Args[argIdx], Body: lit.Body}
	want, und := wantFor(fake)
	if und != "" {
		c.Undecide("R-C19-4", cons+"|values compared for every key", pos(c, lit), und)
		return true
	}
	if len(want) == 0 {
		c.Violate("R-C19-4", cons+"|values compared for every key", pos(c, lit),
			"the callback handed to the iterator never compares the entry's value with the other snapshot's entry under the same key: an update of a value is not detected and never delivered")
		return true
	}
	lf := f.Lit(lit)
	lres := analyze(c, lf, flow.Config{NoHavoc: true})
	if lres == nil {
		return true
	}
	var badCb *flow.State
	ncb := 0
	for _, ex := range lres.Exits {
		if ex.Kind != flow.ExitReturn || c19phantom(ex) {
			continue
		}
		R := c19result(ex)
		if R == nil {
			c.Undecide("R-C19-4", cons+"|values compared for every key", pos(c, lit), "the callback does not return a single bool")
			return true
		}
		if v, isC := c19constBool(lf, R); isC && !v {
			continue
		}
		ncb++
		holds, dec := c19implies(lf, ex.State, R, want, nil)
		if !dec {
			c.Undecide("R-C19-4", cons+"|values compared for every key", pos(c, ex.Return), "cannot evaluate the callback's result expression")
			return true
		}
		if !holds && badCb == nil {
			badCb = ex.State
		}
	}
	c.Check(badIter == nil && badCb == nil && ncb > 0, "R-C19-4", cons+"|values compared for every key", pos(c, lit),
		sprintf("callback iterator %s: every completed iteration had the callback true; the callback's %d non-false exit(s) imply the value comparison of (entry, other[key])", itName, ncb),
		"an entry can pass (the iterator goes on although the callback did not hold, or the callback returns true) without the entry's value having been found equal to the other snapshot's value under the same key: a changed value is reported as equal and never delivered", func() []string {
			if badCb != nil {
				return witness(badCb)
			}
			return witness(badIter)
		}()...)
	// (C) the comparison returns the iterator's verdict, with equal lengths established
	var badLen, badRes *flow.State
	n := 0
	fres := analyze(c, f, flow.Config{NoHavoc: true})
	if fres == nil {
		return true
	}
	hasIt := func(e ast.Expr) bool {
		found := false
		var walk func(e ast.Expr)
		walk = func(e ast.Expr) {
			e = ast.Unparen(e)
			if e == ast.Expr(it) {
				found = true
			}
			if be, ok := e.(*ast.BinaryExpr); ok && be.Op == token.LAND {
				walk(be.X)
				walk(be.Y)
			}
		}
		walk(e)
		return found
	}
	for _, ex := range fres.Exits {
		if ex.Kind != flow.ExitReturn || c19phantom(ex) {
			continue
		}
		R := c19result(ex)
		if R == nil {
			continue
		}
		if v, isC := c19constBool(f, R); isC && !v {
			continue
		}
		n++
		if !hasIt(R) {
			badRes = ex.State
		}
		if lenKey != "" {
			if holds, dec := c19implies(f, ex.State, R, []string{lenKey}, nil); dec && !holds {
				badLen = ex.State
			}
		}
	}
	c.RequireCount("R-C19-4", "non-false exits of the snapshot comparison", n, 1)
	if badRes != nil {
		c.Violate("R-C19-4", cons+"|equal only after all keys were compared", pos(c, fd), "the comparison can report 'equal' on a path that does not return the iterator's verdict", witness(badRes)...)
	}
	if lenKey == "" {
		c.Violate("R-C19-4", cons+"|equal only with equal lengths", pos(c, fd),
			"the lengths of the two snapshots are never compared: the iteration only shows that one snapshot is contained in the other, so a created (or, the other way round, a deleted) key is reported as 'equal' and never delivered")
	} else {
		c.Check(badLen == nil, "R-C19-4", cons+"|equal only with equal lengths", pos(c, fd),
			sprintf("%d non-false exit(s), all with len(a) == len(b) established", n),
			"the comparison can report 'equal' although the lengths differ: a created or deleted key is not detected and never delivered", witness(badLen)...)
	}
	return true
}
