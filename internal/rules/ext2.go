package rules

import (
	"go/ast"
	"go/token"
	"go/types"
	"strings"

	"golang.org/x/tools/go/cfg"

	"verif/internal/core"
	"verif/internal/flow"
)

// Rules added after the second round of independently seeded changes (see DESIGN.md §8).
// Each is a structural necessary condition stated independently of the seeded patch's text;
// the mutants and behaviour-preserving edits they were tested with are in
// selftest/mutants/<ID>.json.

// ---------------------------------------------------------------------------------------
// R-C01-8: the rewrite mode applied agrees with how the request matched.

func c01Rewrite(c *core.Ctx) {
	c.Rule("R-C01-8", "rewrite mode agrees with the match: MuxPath.rewrite installs the bare rewriteTarget only when the request path equals the entry's exact path, the prefix form only when the path has the entry's prefix, and the regexp form only when neither of the two matched (an entry may configure several matchers; the rewrite must follow the one that matched this request)")
	f := fn(c, hs, "MuxPath", "rewrite")
	if f == nil {
		return
	}
	cons := fname(hs, "MuxPath", "rewrite")
	prefixF := structField(c, hs, "MuxPath", "pathPrefix")
	targetF := structField(c, hs, "MuxPath", "rewriteTarget")
	fieldIn := func(e ast.Expr, fld *types.Var) bool {
		found := false
		ast.Inspect(e, func(n ast.Node) bool {
			if sel, ok := n.(*ast.SelectorExpr); ok {
				if s := f.Info.Selections[sel]; s != nil && s.Obj() == fld {
					found = true
				}
			}
			return true
		})
		return found
	}
	// mode of an expression that becomes the new path
	modeOf := func(e ast.Expr) string {
		e = ast.Unparen(e)
		isRepl := false
		ast.Inspect(e, func(n ast.Node) bool {
			if call, ok := n.(*ast.CallExpr); ok && strings.HasSuffix(calleeFull(f, call), "regexp.Regexp).ReplaceAllString") {
				isRepl = true
			}
			return true
		})
		switch {
		case isRepl:
			return "regexp"
		case fieldIn(e, prefixF):
			return "prefix"
		case fieldIn(e, targetF):
			if sel, ok := e.(*ast.SelectorExpr); ok {
				if s := f.Info.Selections[sel]; s != nil && s.Obj() == targetF {
					return "exact"
				}
			}
			return "other"
		}
		return ""
	}
	var sets []*ast.CallExpr
	for _, call := range calls(f.Body, false) {
		if calleeIs(f, call, "(*pkg/protocols/httpprot.Request).SetPath") && len(call.Args) == 1 {
			sets = append(sets, call)
		}
	}
	if !c.RequireCount("R-C01-8", "SetPath calls in MuxPath.rewrite", len(sets), 1) {
		return
	}
	// atoms: request path variable = local assigned from r.Path()
	var pathVar types.Object
	ast.Inspect(f.Body, func(n ast.Node) bool {
		if as, ok := n.(*ast.AssignStmt); ok && len(as.Lhs) == 1 && len(as.Rhs) == 1 {
			if call, ok := as.Rhs[0].(*ast.CallExpr); ok && calleeIs(f, call, "(*pkg/protocols/httpprot.Request).Path") {
				if id, ok := as.Lhs[0].(*ast.Ident); ok && pathVar == nil {
					pathVar = f.Info.Defs[id]
				}
			}
		}
		return true
	})
	// facts are found by scanning the state for keys mentioning the fields
	exactKnown := func(st *flow.State) flow.Val { // request path == mp.path
		for _, fact := range st.Facts() {
			if strings.HasPrefix(fact, "eq:") && strings.Contains(fact, ".path==") || strings.HasPrefix(fact, "eq:") && strings.HasSuffix(fact[:len(fact)-2], ".path") {
				if strings.Contains(fact, `==""`) {
					continue
				}
				if strings.HasSuffix(fact, "=T") {
					return flow.True
				}
				return flow.False
			}
		}
		return flow.Unknown
	}
	emptyKnown := func(st *flow.State, field string) flow.Val {
		for _, fact := range st.Facts() {
			if strings.HasPrefix(fact, "eq:") && strings.Contains(fact, "."+field+`==""`) {
				if strings.HasSuffix(fact, "=T") {
					return flow.True
				}
				return flow.False
			}
		}
		return flow.Unknown
	}
	prefixKnown := func(st *flow.State) flow.Val {
		for _, fact := range st.Facts() {
			if strings.HasPrefix(fact, "call:strings.HasPrefix(") && strings.Contains(fact, ".pathPrefix)") {
				if strings.HasSuffix(fact, "=T") {
					return flow.True
				}
				return flow.False
			}
		}
		return flow.Unknown
	}
	// judge decides, in the state in which the new path is computed, whether the form used
	// agrees with the matcher outcomes known there
	judge := func(st *flow.State, mode string) string {
		ex, pre := exactKnown(st), prefixKnown(st)
		exOff := ex == flow.False || emptyKnown(st, "path") == flow.True
		preOff := pre == flow.False || emptyKnown(st, "pathPrefix") == flow.True
		switch mode {
		case "exact":
			if ex != flow.True {
				return "the bare rewriteTarget replaces the path although the request path is not known to equal the entry's exact path (the entry matched through another of its matchers)"
			}
		case "prefix":
			if pre != flow.True {
				return "the prefix rewrite is applied although the request path is not known to have the entry's pathPrefix"
			}
		case "regexp":
			if !exOff || !preOff {
				return "the regexp rewrite is applied although the exact path or the prefix may have matched"
			}
		default:
			return "the path handed to SetPath is not one of the three rewrite forms"
		}
		return ""
	}
	whys := map[string]string{}
	res := analyze(c, f, flow.Config{NoHavoc: true,
		OnNode: func(st *flow.State, n ast.Node) {
			as, ok := n.(*ast.AssignStmt)
			if !ok || len(as.Lhs) != 1 || len(as.Rhs) != 1 {
				return
			}
			id, ok := as.Lhs[0].(*ast.Ident)
			if !ok {
				return
			}
			obj := f.Info.Uses[id]
			if obj == nil {
				obj = f.Info.Defs[id]
			}
			if obj == nil || obj != pathVar {
				return
			}
			st.Set("ev:modeok", flow.Unknown)
			if m := modeOf(as.Rhs[0]); m != "" {
				// facts about the old path die with this assignment: judge now
				if w := judge(st, m); w != "" {
					st.Set("ev:modeok", flow.False)
					whys[w] = w
					st.Set("ev:why:"+w, flow.True)
				} else {
					st.Set("ev:modeok", flow.True)
				}
			}
		},
	})
	if res == nil {
		return
	}
	var bad *flow.State
	why := ""
	n := 0
	for _, call := range sets {
		for _, st := range res.At[call] {
			n++
			if mode := modeOf(call.Args[0]); mode != "" {
				if w := judge(st, mode); w != "" {
					bad, why = st, w
				}
				continue
			}
			switch st.Get("ev:modeok") {
			case flow.True:
			case flow.False:
				bad = st
				for w := range whys {
					if st.Is("ev:why:"+w, flow.True) {
						why = w
					}
				}
			default:
				bad, why = st, "the path handed to SetPath is not one of the three rewrite forms"
			}
		}
	}
	c.Check(bad == nil && n > 0, "R-C01-8", cons+"|rewrite form follows the matcher that matched", pos(c, f.Body), sprintf("%d states at SetPath: exact form under path equality, prefix form under HasPrefix, regexp form after both failed", n), why, witness(bad)...)
}

// ---------------------------------------------------------------------------------------
// R-C01-9: the header matcher depends on a header value only through its two predicates.

func c01HeaderValue(c *core.Ctx) {
	c.Rule("R-C01-9", "header conditions: in MuxPath.matchHeaders a request header value is used only as the argument of the value-list test and of the regexp test (no additional condition on the value, e.g. emptiness: an absent header can satisfy a condition whose values/regexp admit the empty string)")
	f := fn(c, hs, "MuxPath", "matchHeaders")
	if f == nil {
		return
	}
	cons := fname(hs, "MuxPath", "matchHeaders")
	vals := map[types.Object]bool{}
	ast.Inspect(f.Body, func(n ast.Node) bool {
		if as, ok := n.(*ast.AssignStmt); ok && len(as.Lhs) == 1 && len(as.Rhs) == 1 {
			if call, ok := as.Rhs[0].(*ast.CallExpr); ok {
				full := calleeFull(f, call)
				if full == "(net/http.Header).Get" || full == "(net/http.Header).Values" {
					if id, ok := as.Lhs[0].(*ast.Ident); ok {
						obj := f.Info.Defs[id]
						if obj == nil {
							obj = f.Info.Uses[id]
						}
						vals[obj] = true
					}
				}
			}
		}
		return true
	})
	if !c.RequireCount("R-C01-9", "header value variables in matchHeaders", len(vals), 1) {
		return
	}
	pm := parentMap(f.Body)
	var badUse ast.Node
	uses := 0
	ast.Inspect(f.Body, func(n ast.Node) bool {
		id, ok := n.(*ast.Ident)
		if !ok || !vals[f.Info.Uses[id]] {
			return true
		}
		uses++
		p := pm[id]
		for {
			if pe, ok := p.(*ast.ParenExpr); ok {
				p = pm[pe]
				continue
			}
			break
		}
		call, ok := p.(*ast.CallExpr)
		okUse := false
		if ok {
			full := calleeFull(f, call)
			if strings.HasSuffix(full, "pkg/util/stringtool.StrInSlice") && len(call.Args) > 0 && ast.Unparen(call.Args[0]) == ast.Expr(id) {
				okUse = true
			}
			if strings.HasSuffix(full, "regexp.Regexp).MatchString") {
				okUse = true
			}
		}
		if !okUse {
			badUse = id
		}
		return true
	})
	c.Check(badUse == nil && uses > 0, "R-C01-9", cons+"|header value used only by the two predicates", pos(c, badUse),
		sprintf("%d uses, all as argument of StrInSlice / MatchString", uses),
		"the header value is used outside the value-list and regexp tests (an extra condition on the value): the entry's header condition no longer means 'value in values / value matches regexp'")
}

// ---------------------------------------------------------------------------------------
// R-C02-9: Context.UseNamespace("") selects the default namespace.

func c02UseNamespace(c *core.Ctx) {
	c.Rule("R-C02-9", "each node runs in its configured namespace: Context.UseNamespace stores its argument as the active namespace, and the default namespace exactly when the argument is empty (a node without a namespace must not inherit the previous node's)")
	f := fn(c, "pkg/context", "Context", "UseNamespace")
	if f == nil {
		return
	}
	cons := fname("pkg/context", "Context", "UseNamespace")
	activeF := structField(c, "pkg/context", "Context", "activeNs")
	if f.Type.Params == nil || len(f.Type.Params.List) != 1 || len(f.Type.Params.List[0].Names) != 1 {
		c.Undecide("R-C02-9", cons+"|signature", pos(c, f.Body), "unexpected signature")
		return
	}
	param := f.Type.Params.List[0].Names[0]
	emptyKey := "eq:" + f.Render(param) + `==""`
	res := analyze(c, f, flow.Config{NoHavoc: true, OnNode: func(st *flow.State, n ast.Node) {
		as, ok := n.(*ast.AssignStmt)
		if !ok || len(as.Lhs) != 1 || len(as.Rhs) != 1 {
			return
		}
		sel, ok := ast.Unparen(as.Lhs[0]).(*ast.SelectorExpr)
		if !ok {
			return
		}
		if s := f.Info.Selections[sel]; s == nil || s.Obj() != activeF {
			return
		}
		st.Set("ev:ns:param", flow.Unknown)
		st.Set("ev:ns:default", flow.Unknown)
		r := ast.Unparen(as.Rhs[0])
		if id, ok := r.(*ast.Ident); ok && f.Info.Uses[id] == f.Info.Defs[param] {
			// the parameter itself — unless it was overwritten with the default before
			if st.Is("ev:param:defaulted", flow.True) {
				st.Set("ev:ns:default", flow.True)
			} else {
				st.Set("ev:ns:param", flow.True)
			}
			return
		}
		if tv, ok := f.Info.Types[r]; ok && tv.Value != nil {
			if id, ok := r.(*ast.Ident); ok {
				if cst, ok := f.Info.Uses[id].(*types.Const); ok && cst.Name() == "DefaultNamespace" {
					st.Set("ev:ns:default", flow.True)
				}
			}
		}
	}})
	if res == nil {
		return
	}
	// `ns = DefaultNamespace` on the parameter
	var bad *flow.State
	why := ""
	n := 0
	for _, ex := range res.Exits {
		if ex.Kind != flow.ExitReturn {
			continue
		}
		n++
		st := ex.State
		switch st.Get(emptyKey) {
		case flow.True:
			if !st.Is("ev:ns:default", flow.True) {
				bad, why = st, "an empty namespace argument does not select the default namespace: the node runs in whatever namespace the previous node left active"
			}
		case flow.False:
			if !st.Is("ev:ns:param", flow.True) {
				bad, why = st, "a non-empty namespace argument is not stored as the active namespace"
			}
		default:
			if !st.Is("ev:ns:param", flow.True) && !st.Is("ev:ns:default", flow.True) {
				bad, why = st, "the active namespace is not set on this path"
			} else if st.Is("ev:ns:param", flow.True) {
				bad, why = st, "the argument is stored without the empty case being mapped to the default namespace"
			}
		}
	}
	c.Check(bad == nil && n > 0, "R-C02-9", cons+"|active namespace = argument, default when empty", pos(c, f.Body), sprintf("%d exits", n), why, witness(bad)...)
}

// ---------------------------------------------------------------------------------------
// R-C05-5 (extension): every successfully parsed entry is inserted.

func c05EveryEntryInserted(c *core.Ctx) {
	f := fn(c, ipf, "", "New")
	if f == nil {
		return
	}
	cons := fname(ipf, "", "New")
	var lit *ast.FuncLit
	ast.Inspect(f.Body, func(n ast.Node) bool {
		if l, ok := n.(*ast.FuncLit); ok && lit == nil {
			for _, call := range calls(l.Body, false) {
				if methodName(call) == "Insert" {
					lit = l
				}
			}
		}
		return true
	})
	body := f
	if lit != nil {
		body = f.Lit(lit)
	}
	var loop *ast.RangeStmt
	ast.Inspect(body.Body, func(n ast.Node) bool {
		if rs, ok := n.(*ast.RangeStmt); ok && loop == nil {
			for _, call := range calls(rs.Body, false) {
				if methodName(call) == "Insert" {
					loop = rs
				}
			}
		}
		return true
	})
	if loop == nil {
		c.Undecide("R-C05-5", cons+"|every parsed entry is inserted", pos(c, body.Body), "no loop over the configured entries inserts into the ranger")
		return
	}
	var ipID, errID *ast.Ident
	ast.Inspect(loop.Body, func(n ast.Node) bool {
		as, ok := n.(*ast.AssignStmt)
		if !ok || len(as.Rhs) != 1 {
			return true
		}
		if call, ok := ast.Unparen(as.Rhs[0]).(*ast.CallExpr); ok {
			switch calleeFull(f, call) {
			case "net.ParseIP":
				ipID, _ = as.Lhs[0].(*ast.Ident)
			case "net.ParseCIDR":
				if len(as.Lhs) == 3 {
					errID, _ = as.Lhs[2].(*ast.Ident)
				}
			}
		}
		return true
	})
	if ipID == nil || errID == nil {
		return // reported by the first half of R-C05-5
	}
	ipNil, errNil := body.NilKey(ipID), body.NilKey(errID)
	var bad *flow.State
	iters := 0
	res := analyze(c, body, flow.Config{NoHavoc: true,
		OnCall: func(st *flow.State, call *ast.CallExpr, callee types.Object, deferred bool) {
			if methodName(call) == "Insert" && contains(loop, call) {
				st.Set("ev:inserted", flow.True)
			}
		},
		OnBlock: func(st *flow.State, b *cfg.Block) {
			if b.Stmt != loop {
				return
			}
			switch b.Kind {
			case cfg.KindRangeBody:
				st.Set("ev:inbody", flow.True)
				st.Set("ev:inserted", flow.Unknown)
			case cfg.KindRangeLoop:
				if st.Is("ev:inbody", flow.True) {
					iters++
					parsed := st.Is(ipNil, flow.False) || (st.Is(ipNil, flow.True) && st.Is(errNil, flow.True))
					if parsed && !st.Is("ev:inserted", flow.True) {
						bad = st
					}
				}
				st.Set("ev:inbody", flow.Unknown)
				st.Set("ev:inserted", flow.Unknown)
				st.Set(ipNil, flow.Unknown)
				st.Set(errNil, flow.Unknown)
			}
		},
	})
	if res == nil {
		return
	}
	c.RequireCount("R-C05-5", "abstract iterations over the configured entries", iters, 2)
	c.Check(bad == nil, "R-C05-5", cons+"|every parsed entry is inserted", pos(c, loop), sprintf("%d abstract iteration ends: a successfully parsed address or CIDR always reaches Insert", iters),
		"an entry that parsed successfully is skipped without being inserted into the ranger: a configured address/CIDR is silently ignored (e.g. a wider CIDR listed after a narrower one)", witness(bad)...)
	exits := breaksOut(body, loop, labelOf(body.Body, loop))
	c.Check(len(exits) == 0, "R-C05-5", cons+"|all entries are visited", pos(c, loop), "the loop over the configured entries has no early exit", "the loop over the configured entries can be left early: later entries are ignored")
}

// ---------------------------------------------------------------------------------------
// R-C07-6: a read error of the source survives compression.

func c07GzipPull(c *core.Ctx) {
	c.Rule("R-C07-6", "a body shorter than declared stays an error under compression: in GZipCompressReader.pull the error of the copy from the source is kept as the reader's error unless it is io.EOF (a failed read must not be turned into a clean end of the gzip stream)")
	rd := "pkg/util/readers"
	f := fn(c, rd, "GZipCompressReader", "pull")
	if f == nil {
		return
	}
	cons := fname(rd, "GZipCompressReader", "pull")
	errF := structField(c, rd, "GZipCompressReader", "err")
	var cp *ast.CallExpr
	for _, call := range calls(f.Body, false) {
		switch calleeFull(f, call) {
		case "io.CopyN", "io.Copy", "io.CopyBuffer":
			cp = call
		}
	}
	if cp == nil {
		c.Undecide("R-C07-6", cons+"|source error kept", pos(c, f.Body), "no io.Copy* from the source in pull")
		return
	}
	// where does the copy's error go?
	var errTarget ast.Expr
	ast.Inspect(f.Body, func(n ast.Node) bool {
		if as, ok := n.(*ast.AssignStmt); ok && len(as.Rhs) == 1 && as.Rhs[0] == ast.Expr(cp) && len(as.Lhs) == 2 {
			errTarget = as.Lhs[1]
		}
		return true
	})
	if id, ok := errTarget.(*ast.Ident); errTarget == nil || (ok && id.Name == "_") {
		c.Violate("R-C07-6", cons+"|source error kept", pos(c, cp), "the error of the copy from the source is discarded: a backend body that ends early (connection died, shorter than Content-Length) becomes a clean end of the gzip stream and the client gets a truncated 200")
		return
	}
	isField := func(e ast.Expr) bool {
		sel, ok := ast.Unparen(e).(*ast.SelectorExpr)
		if !ok {
			return false
		}
		s := f.Info.Selections[sel]
		return s != nil && s.Obj() == errF
	}
	tgtKeyNil := f.NilKey(errTarget)
	tgtEOF := "eq:" + f.Render(errTarget) + "==@io.EOF"
	// once the copy error has been stored into the reader's error field, tests on that field
	// speak about the copy error too
	fieldEOF, fieldNil := "", ""
	eofIs := func(st *flow.State, v flow.Val) bool {
		if st.Is(tgtEOF, v) {
			return true
		}
		return fieldEOF != "" && st.Is("ev:kept", flow.True) && !st.Is("ev:replaced", flow.True) && st.Is(fieldEOF, v)
	}
	res := analyze(c, f, flow.Config{NoHavoc: true, OnNode: func(st *flow.State, n ast.Node) {
		as, ok := n.(*ast.AssignStmt)
		if !ok {
			return
		}
		for i, l := range as.Lhs {
			if !isField(l) {
				continue
			}
			// r.err = <copy error> keeps it; any other store after the copy replaces it
			if len(as.Rhs) == 1 && as.Rhs[0] == ast.Expr(cp) && i == 1 {
				st.Set("ev:kept", flow.True)
				continue
			}
			if len(as.Rhs) == len(as.Lhs) {
				if id, ok := ast.Unparen(as.Rhs[i]).(*ast.Ident); ok && !isField(errTarget) && f.Info.Uses[id] != nil && f.Render(id) == f.Render(errTarget) {
					st.Set("ev:kept", flow.True)
					fieldEOF = "eq:" + f.Render(l) + "==@io.EOF"
					fieldNil = f.NilKey(l)
					continue
				}
			}
			if !eofIs(st, flow.True) {
				st.Set("ev:replaced", flow.True)
			} else {
				st.Set("ev:eofHandled", flow.True)
			}
		}
	}})
	if res == nil {
		return
	}
	var bad *flow.State
	n := 0
	for _, ex := range res.Exits {
		if ex.Kind != flow.ExitReturn {
			continue
		}
		n++
		st := ex.State
		// states in which the copy error is a real failure: non-nil and not EOF. If the code
		// never distinguishes, the state is unknown: then the error must have been kept and not replaced.
		if st.Is("ev:eofHandled", flow.True) && !st.Is("ev:replaced", flow.True) {
			continue // the source was drained (io.EOF); what follows concerns the gzip trailer
		}
		isNil := st.Is(tgtKeyNil, flow.True) || (fieldNil != "" && st.Is("ev:kept", flow.True) && st.Is(fieldNil, flow.True))
		failure := eofIs(st, flow.False) && !isNil
		unknown := !eofIs(st, flow.True) && !eofIs(st, flow.False) && !isNil
		kept := st.Is("ev:kept", flow.True) || isField(errTarget)
		if (failure || unknown) && (!kept || st.Is("ev:replaced", flow.True)) {
			bad = st
		}
	}
	c.Check(bad == nil && n > 0, "R-C07-6", cons+"|source error kept", pos(c, cp), sprintf("%d exits: a non-EOF copy error is the reader's error", n),
		"on a path where the copy from the source may have failed with an error other than io.EOF the reader's error is lost or replaced: a short backend body is delivered as a complete gzip stream", witness(bad)...)
}

// ---------------------------------------------------------------------------------------
// R-C09-6: the default policy reference matters only for rules without their own reference.

func c09DefaultRef(c *core.Ctx) {
	c.Rule("R-C09-6", "an unchanged rule keeps its limiter: in the two-generation policy comparison the filters' defaultPolicyRef values are compared only when the rule has no policyRef of its own (a reload that changes only the default must not reset rules that name their policy)")
	rl := "pkg/filters/ratelimiter"
	f := fn(c, rl, "", "isSamePolicy")
	if f == nil {
		return
	}
	cons := fname(rl, "", "isSamePolicy")
	defF := structField(c, rl, "Spec", "DefaultPolicyRef")
	if f.Type.Params == nil {
		return
	}
	// the string parameter = the rule's policy name
	var nameParam *ast.Ident
	for _, fld := range f.Type.Params.List {
		for _, n := range fld.Names {
			if tv := f.Info.Defs[n]; tv != nil && tv.Type().String() == "string" {
				nameParam = n
			}
		}
	}
	if nameParam == nil {
		c.Undecide("R-C09-6", cons+"|signature", pos(c, f.Body), "no policy-name parameter")
		return
	}
	emptyKey := "eq:" + f.Render(nameParam) + `==""`
	// comparison nodes: binary ==/!= whose both sides select DefaultPolicyRef
	var cmps []*ast.BinaryExpr
	ast.Inspect(f.Body, func(n ast.Node) bool {
		be, ok := n.(*ast.BinaryExpr)
		if !ok || (be.Op != token.EQL && be.Op != token.NEQ) {
			return true
		}
		isDef := func(e ast.Expr) bool {
			sel, ok := ast.Unparen(e).(*ast.SelectorExpr)
			if !ok {
				return false
			}
			s := f.Info.Selections[sel]
			return s != nil && s.Obj() == defF
		}
		if isDef(be.X) && isDef(be.Y) {
			cmps = append(cmps, be)
		}
		return true
	})
	if len(cmps) == 0 {
		c.Violate("R-C09-6", cons+"|default reference compared only for rules without a policyRef", pos(c, f.Body), "the default policy references of the two generations are never compared: a rule relying on the default keeps its limiter although the default now names another policy")
		return
	}
	res := analyze(c, f, flow.Config{NoHavoc: true})
	if res == nil {
		return
	}
	var bad *flow.State
	n := 0
	for node, sts := range res.At {
		e, ok := node.(ast.Expr)
		if !ok {
			continue
		}
		has := false
		for _, cm := range cmps {
			if contains(e, cm) {
				has = true
			}
		}
		if _, isCall := node.(*ast.CallExpr); isCall || !has {
			continue
		}
		for _, st := range sts {
			n++
			// the condition node may itself contain `name == "" && a != b`
			if st.Is(emptyKey, flow.True) {
				continue
			}
			if be, ok := ast.Unparen(e).(*ast.BinaryExpr); ok && be.Op == token.LAND {
				if k, neg := f.Atom(be.X); k == emptyKey && !neg {
					continue
				}
			}
			bad = st
		}
	}
	c.Check(bad == nil && n > 0, "R-C09-6", cons+"|default reference compared only for rules without a policyRef", pos(c, cmps[0]),
		sprintf("%d states at the comparison, all with an empty rule policyRef", n),
		"the defaultPolicyRef of the two generations is compared for a rule that names its own policy: changing only the default resets the limiter of unchanged rules (up to twice limitForPeriod requests released in the running period)", witness(bad)...)
}

// ---------------------------------------------------------------------------------------
// R-C11-7: Spec.Equals compares the immutable raw specs.

func c11SpecEquals(c *core.Ctx) {
	c.Rule("R-C11-7", "applying an unchanged spec is a no-op: supervisor.Spec.Equals compares the raw (parsed, canonical) configuration only; it does not read the typed object spec, which running objects mutate in place (filter instances bound into the flow, compiled regexps), so that a running object's spec would never equal its identical re-parsed spec")
	sv := "pkg/supervisor"
	f := fn(c, sv, "Spec", "Equals")
	if f == nil {
		return
	}
	cons := fname(sv, "Spec", "Equals")
	objF := structField(c, sv, "Spec", "objectSpec")
	var badAt ast.Node
	ast.Inspect(f.Body, func(n ast.Node) bool {
		switch x := n.(type) {
		case *ast.CallExpr:
			if calleeIs(f, x, "(*"+sv+".Spec).ObjectSpec") {
				badAt = x
			}
		case *ast.SelectorExpr:
			if s := f.Info.Selections[x]; s != nil && s.Obj() == objF {
				badAt = x
			}
		}
		return true
	})
	usesRaw := false
	for _, call := range calls(f.Body, false) {
		if calleeIs(f, call, "(*"+sv+".Spec).RawSpec") || calleeIs(f, call, "(*"+sv+".Spec).YAMLConfig") {
			usesRaw = true
		}
	}
	ast.Inspect(f.Body, func(n ast.Node) bool {
		if sel, ok := n.(*ast.SelectorExpr); ok {
			if s := f.Info.Selections[sel]; s != nil && (s.Obj().Name() == "rawSpec" || s.Obj().Name() == "yamlConfig") {
				usesRaw = true
			}
		}
		return true
	})
	c.Check(badAt == nil && usesRaw, "R-C11-7", cons+"|compares the raw configuration, not the live object spec", pos(c, f.Body),
		"Equals reads only the raw spec", map[bool]string{true: "Spec.Equals reads the typed object spec, which running objects mutate in place: an unchanged object never compares equal and is rebuilt (new generation, state reset) on every configuration event", false: "Spec.Equals does not compare the raw configuration"}[badAt != nil])
}

// ---------------------------------------------------------------------------------------
// Third pass (round-3 seeded changes).

// R-C01-10: the path matcher depends on the request path only through its three predicates.
func c01PathValue(c *core.Ctx) {
	c.Rule("R-C01-10", "path conditions: in MuxPath.matchPath the request path is used only in the equality test against the entry's exact path, the prefix test against the entry's pathPrefix and the entry's regexp MatchString (no further condition on the path, e.g. a literal-prefix pre-filter, which is unsound for unanchored expressions)")
	f := fn(c, hs, "MuxPath", "matchPath")
	if f == nil {
		return
	}
	cons := fname(hs, "MuxPath", "matchPath")
	pathF := structField(c, hs, "MuxPath", "path")
	prefixF := structField(c, hs, "MuxPath", "pathPrefix")
	reF := structField(c, hs, "MuxPath", "pathRE")
	vals := map[types.Object]bool{}
	ast.Inspect(f.Body, func(n ast.Node) bool {
		if as, ok := n.(*ast.AssignStmt); ok && len(as.Lhs) == 1 && len(as.Rhs) == 1 {
			if call, ok := as.Rhs[0].(*ast.CallExpr); ok && calleeIs(f, call, "(*pkg/protocols/httpprot.Request).Path") {
				if id, ok := as.Lhs[0].(*ast.Ident); ok {
					vals[f.Info.Defs[id]] = true
				}
			}
		}
		return true
	})
	if !c.RequireCount("R-C01-10", "request path variables in matchPath", len(vals), 1) {
		return
	}
	isField := func(e ast.Expr, fld *types.Var) bool {
		sel, ok := ast.Unparen(e).(*ast.SelectorExpr)
		if !ok {
			return false
		}
		s := f.Info.Selections[sel]
		return s != nil && s.Obj() == fld
	}
	pm := parentMap(f.Body)
	var badUse ast.Node
	uses := 0
	ast.Inspect(f.Body, func(n ast.Node) bool {
		id, ok := n.(*ast.Ident)
		if !ok || !vals[f.Info.Uses[id]] {
			return true
		}
		uses++
		p := pm[id]
		for {
			if pe, ok := p.(*ast.ParenExpr); ok {
				p = pm[pe]
				continue
			}
			break
		}
		okUse := false
		switch x := p.(type) {
		case *ast.BinaryExpr:
			if x.Op == token.EQL || x.Op == token.NEQ {
				other := x.X
				if ast.Unparen(x.X) == ast.Expr(id) {
					other = x.Y
				}
				okUse = isField(other, pathF)
			}
		case *ast.CallExpr:
			full := calleeFull(f, x)
			if full == "strings.HasPrefix" && len(x.Args) == 2 && ast.Unparen(x.Args[0]) == ast.Expr(id) && isField(x.Args[1], prefixF) {
				okUse = true
			}
			if strings.HasSuffix(full, "regexp.Regexp).MatchString") {
				if sel, ok := ast.Unparen(x.Fun).(*ast.SelectorExpr); ok && isField(sel.X, reF) {
					okUse = true
				}
			}
		}
		if !okUse {
			badUse = id
		}
		return true
	})
	c.Check(badUse == nil && uses > 0, "R-C01-10", cons+"|request path used only by the three matchers", pos(c, badUse),
		sprintf("%d uses: == path, HasPrefix(pathPrefix), pathRE.MatchString", uses),
		"the request path is subjected to a condition other than the entry's exact / prefix / regexp matcher: an entry whose configured matcher accepts the path can be skipped")
}

// R-C01-5 (extension): the backend lookup precedes everything that can fail on the body.
func c01LookupFirst(c *core.Ctx) {
	s := analyzeServe(c, "R-C01-5")
	if s == nil {
		return
	}
	f := s.f
	okKey := f.VarKey(s.okVar)
	var bad *flow.State
	for _, st := range s.res.At[s.fetch] {
		if !st.Is(okKey, flow.True) {
			bad = st
		}
	}
	c.Check(bad == nil && len(s.res.At[s.fetch]) > 0, "R-C01-5", s.cons+"|backend resolved before the body is read", pos(c, s.fetch),
		"FetchPayload is reached only with a found backend", "the request body is fetched (413 / 400 possible) before the backend lookup has succeeded: a route whose backend does not exist answers 413/400 instead of 503 for some bodies", witness(bad)...)
}

// R-C05-3 (extension): an own-level filter is omitted only for an absent spec.
func c05NewIPFilter(c *core.Ctx) {
	f := fn(c, hs, "", "newIPFilter")
	if f == nil {
		return
	}
	cons := fname(hs, "", "newIPFilter")
	if f.Type.Params == nil || len(f.Type.Params.List) != 1 || len(f.Type.Params.List[0].Names) != 1 {
		c.Undecide("R-C05-3", cons+"|signature", pos(c, f.Body), "unexpected signature")
		return
	}
	specNil := f.NilKey(f.Type.Params.List[0].Names[0])
	res := analyze(c, f, flow.Config{NoHavoc: true})
	if res == nil {
		return
	}
	var bad *flow.State
	n := 0
	for _, ex := range res.Exits {
		if ex.Kind != flow.ExitReturn || ex.Return == nil || len(ex.Return.Results) != 1 {
			continue
		}
		n++
		if f.Info.Types[ex.Return.Results[0]].IsNil() && !ex.State.Is(specNil, flow.True) {
			bad = ex.State
		}
		if !f.Info.Types[ex.Return.Results[0]].IsNil() {
			// must be ipfilter.New(spec)
			call, ok := ast.Unparen(ex.Return.Results[0]).(*ast.CallExpr)
			if !ok || !calleeIs(f, call, "pkg/util/ipfilter.New") {
				bad = ex.State
			}
		}
	}
	c.Check(bad == nil && n >= 2, "R-C05-3", cons+"|no filter only for an absent spec", pos(c, f.Body), sprintf("%d exits: nil iff spec == nil, otherwise ipfilter.New(spec)", n),
		"a configured IP filter spec yields no filter (e.g. a deny-all filter {blockByDefault: true} without entries is ignored on the uncached path while the cached path's chain still applies it)", witness(bad)...)
}

// R-C15-3 (extension): the resend queue is maintained only by publish and doResend.
func c15QueueWriters(c *core.Ctx) {
	pkg := c.Prog.Pkg(mq)
	queueF := structField(c, mq, "Session", "pendingQueue")
	if pkg == nil || queueF == nil {
		return
	}
	allowed := map[string]bool{"publish": true, "doResend": true, "init": true, "newSessionFromYaml": true}
	writers := 0
	for _, file := range pkg.Syntax {
		for _, d := range file.Decls {
			fd, ok := d.(*ast.FuncDecl)
			if !ok || fd.Body == nil {
				continue
			}
			f := flow.NewFunc(pkg, fd)
			var at ast.Node
			ast.Inspect(fd.Body, func(n ast.Node) bool {
				if as, ok := n.(*ast.AssignStmt); ok {
					for _, l := range as.Lhs {
						e := ast.Unparen(l)
						if ix, ok := e.(*ast.IndexExpr); ok {
							e = ast.Unparen(ix.X)
						}
						if sel, ok := e.(*ast.SelectorExpr); ok {
							if s := f.Info.Selections[sel]; s != nil && s.Obj() == queueF {
								at = as
							}
						}
					}
				}
				return true
			})
			if at == nil {
				continue
			}
			writers++
			c.Check(allowed[fd.Name.Name], "R-C15-3", declName(pkg, fd)+"|resend queue written only by publish / doResend / constructors", pos(c, at),
				"queue writer is the enqueueing or the resending function", "the resend queue is modified outside publish/doResend (e.g. trimmed when a PUBACK arrives): doResend retransmits only ids it finds in the queue, so ids dropped from it while still pending are never retransmitted although unacknowledged")
		}
	}
	c.RequireCount("R-C15-3", "functions writing Session.pendingQueue", writers, 2)
}
