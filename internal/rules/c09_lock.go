package rules

import (
	"go/ast"
	"go/constant"
	"go/token"
	"go/types"
	"sort"
	"strings"

	"golang.org/x/tools/go/cfg"
	"golang.org/x/tools/go/packages"

	"verif/internal/core"
	"verif/internal/flow"
)

// c09limiter describes the guarded state of the two limiter types.
type c09limiter struct {
	pkg    *packages.Package
	guards map[*types.Var]string    // guarded field → "Type.field"
	types  map[*types.TypeName]bool // RateLimiter, MultiRateLimiter
	tokens map[*types.Var]bool      // the tokens fields
	cycle  map[*types.Var]bool      // the cycle fields
	state  map[*types.Var]bool      // the state fields
}

func (l *c09limiter) isLimiter(t types.Type) bool {
	if t == nil {
		return false
	}
	if p, ok := types.Unalias(t).(*types.Pointer); ok {
		t = p.Elem()
	}
	n, ok := types.Unalias(t).(*types.Named)
	return ok && l.types[n.Obj()]
}

// c09fn is one analysed function (or non-deferred function literal) of the limiter package.
type c09fn struct {
	f      *flow.Func
	fd     *ast.FuncDecl // nil for literals
	obj    *types.Func
	recv   types.Object
	name   string
	res    *flow.Result
	groups map[string]*c09group
	// the function touches guarded state through its receiver without having taken the
	// lock itself: its callers must hold it
	needsEntry bool
	needsWrite bool
	// plays the acquire role: method of a limiter type returning (bool, time.Duration, ...)
	// that touches the guarded state itself
	acquire bool
	// a literal handed to a same-package helper that only calls it (callback iterator): it runs
	// synchronously during that call, i.e. in the lock state the enclosing function has there
	syncStates []*flow.State
	syncParent *c09fn
}

type c09group struct {
	evals       int
	held        int
	write       bool
	unheld      *flow.State
	unheldAt    ast.Node
	unknownRecv bool
	unknownAt   ast.Node
	unknownSt   *flow.State
	fresh       int
	clock       bool // the group stands for reads of the clock the state update is computed from
	before      bool // the unheld access precedes the function's own Lock
}

// c09lockOp recognises X.lock.Lock() / X.Lock() (embedded mutex) on a limiter X.
func c09lockOp(f *flow.Func, lim *c09limiter, call *ast.CallExpr, callee types.Object) (base ast.Expr, op string) {
	fo, ok := callee.(*types.Func)
	if !ok || fo.Pkg() == nil || fo.Pkg().Path() != "sync" {
		return nil, ""
	}
	switch fo.Name() {
	case "Lock", "Unlock", "RLock", "RUnlock":
	default:
		return nil, ""
	}
	sel, ok := ast.Unparen(call.Fun).(*ast.SelectorExpr)
	if !ok {
		return nil, ""
	}
	x := ast.Unparen(sel.X)
	if tv, ok := f.Info.Types[x]; ok && lim.isLimiter(tv.Type) {
		return x, fo.Name()
	}
	if s2, ok := x.(*ast.SelectorExpr); ok {
		if tv, ok := f.Info.Types[s2.X]; ok && lim.isLimiter(tv.Type) {
			return s2.X, fo.Name()
		}
	}
	return nil, ""
}

// c09writeTargets returns the selectors that are written (assigned, inc/dec'ed, address taken).
func c09writeTargets(body ast.Node) map[*ast.SelectorExpr]bool {
	w := map[*ast.SelectorExpr]bool{}
	mark := func(e ast.Expr) {
		if s := c09storeTarget(e); s != nil {
			w[s] = true
		}
	}
	ast.Inspect(body, func(n ast.Node) bool {
		switch s := n.(type) {
		case *ast.AssignStmt:
			for _, l := range s.Lhs {
				mark(l)
			}
		case *ast.IncDecStmt:
			mark(s.X)
		case *ast.UnaryExpr:
			if s.Op == token.AND {
				mark(s.X)
			}
		case *ast.RangeStmt:
			if s.Tok == token.ASSIGN {
				if s.Key != nil {
					mark(s.Key)
				}
				if s.Value != nil {
					mark(s.Value)
				}
			}
		}
		return true
	})
	return w
}

// c09freshLocal: base is a local variable that only ever holds an object allocated in this
// function (&T{...}, T{...}, new(T)) — not yet shared, no lock needed.
func c09freshLocal(f *flow.Func, base ast.Expr) bool {
	id, ok := ast.Unparen(base).(*ast.Ident)
	if !ok {
		return false
	}
	obj := c09obj(f, id)
	if obj == nil {
		return false
	}
	n, fresh := 0, 0
	isFresh := func(r ast.Expr) bool {
		switch x := ast.Unparen(r).(type) {
		case *ast.CompositeLit:
			return true
		case *ast.UnaryExpr:
			_, ok := ast.Unparen(x.X).(*ast.CompositeLit)
			return ok && x.Op == token.AND
		case *ast.CallExpr:
			if b, ok := f.Callee(x).(*types.Builtin); ok && b.Name() == "new" {
				return true
			}
		}
		return false
	}
	ast.Inspect(f.Body, func(x ast.Node) bool {
		switch s := x.(type) {
		case *ast.AssignStmt:
			for i, l := range s.Lhs {
				if lid, ok := ast.Unparen(l).(*ast.Ident); ok && c09obj(f, lid) == obj {
					n++
					if len(s.Lhs) == len(s.Rhs) && isFresh(s.Rhs[i]) {
						fresh++
					}
				}
			}
		case *ast.ValueSpec:
			for i, nm := range s.Names {
				if c09obj(f, nm) == obj {
					n++
					if len(s.Values) == 0 {
						// var x T — zero value of a struct type is fresh too
						if _, isPtr := obj.Type().Underlying().(*types.Pointer); !isPtr {
							fresh++
						}
					} else if i < len(s.Values) && isFresh(s.Values[i]) {
						fresh++
					}
				}
			}
		}
		return true
	})
	return n > 0 && n == fresh
}

// c09lockAnalyze runs the lock typestate over one function and fills fn.groups.
func c09lockAnalyze(c *core.Ctx, lim *c09limiter, fn *c09fn) {
	f := fn.f
	writes := c09writeTargets(f.Body)
	fn.groups = map[string]*c09group{}
	clock, clockName := c09clockReads(f, lim, fn)
	// does the function take the lock of its own receiver? then nobody else can hold it for the
	// function, and anything touched before that Lock is touched without the lock
	locksSelf := false
	for _, call := range calls(f.Body, false) {
		if base, op := c09lockOp(f, lim, call, f.Callee(call)); base != nil && (op == "Lock" || op == "RLock") {
			if id, ok := ast.Unparen(base).(*ast.Ident); ok && fn.recv != nil && c09obj(f, id) == fn.recv {
				locksSelf = true
			}
		}
	}
	fn.res = analyze(c, f, flow.Config{
		NoHavoc: true,
		OnCall: func(st *flow.State, call *ast.CallExpr, callee types.Object, deferred bool) {
			if clock[call] && fn.recv != nil {
				g := fn.groups[clockName]
				if g == nil {
					g = &c09group{clock: true}
					fn.groups[clockName] = g
				}
				g.evals++
				k := f.Render(c09recvIdent(f))
				w, r := st.Get("ev:w:"+k), st.Get("ev:r:"+k)
				switch {
				case w == flow.True || r == flow.True:
					g.held++
				case w == flow.Unknown && r == flow.Unknown && !locksSelf:
					g.unknownRecv = true
					fn.needsEntry = true
				default:
					if g.unheld == nil {
						g.unheld, g.unheldAt = st, call
						g.before = w == flow.Unknown && r == flow.Unknown
					}
				}
			}
			base, op := c09lockOp(f, lim, call, callee)
			if base == nil {
				return
			}
			k := f.Render(base)
			switch op {
			case "Lock":
				st.Set("ev:w:"+k, flow.True)
			case "Unlock":
				st.Set("ev:w:"+k, flow.False)
			case "RLock":
				st.Set("ev:r:"+k, flow.True)
			case "RUnlock":
				st.Set("ev:r:"+k, flow.False)
			}
		},
		OnNode: func(st *flow.State, n ast.Node) {
			ast.Inspect(n, func(x ast.Node) bool {
				if _, isLit := x.(*ast.FuncLit); isLit {
					return false
				}
				sel, ok := x.(*ast.SelectorExpr)
				if !ok {
					return true
				}
				fld := c09fieldOf(f, sel)
				if fld == nil {
					return true
				}
				gname, guarded := lim.guards[fld]
				if !guarded {
					return true
				}
				g := fn.groups[gname]
				if g == nil {
					g = &c09group{}
					fn.groups[gname] = g
				}
				g.evals++
				write := writes[sel]
				g.write = g.write || write
				if c09freshLocal(f, sel.X) {
					g.fresh++
					g.held++
					return true
				}
				k := f.Render(sel.X)
				w, r := st.Get("ev:w:"+k), st.Get("ev:r:"+k)
				switch {
				case w == flow.True || (!write && r == flow.True):
					g.held++
				case w == flow.Unknown && r == flow.Unknown && fn.syncStates != nil:
					// the closure runs during the call it is handed to: the caller's lock state counts
					all, none := true, false
					for _, ps := range fn.syncStates {
						pw, pr := ps.Get("ev:w:"+k), ps.Get("ev:r:"+k)
						switch {
						case pw == flow.True || (!write && pr == flow.True):
						case pw == flow.Unknown && pr == flow.Unknown:
							all = false
						default:
							all, none = false, true
						}
					}
					root, _ := ast.Unparen(sel.X).(*ast.Ident)
					p := fn.syncParent
					switch {
					case all:
						g.held++
					case !none && p != nil && p.fd != nil && root != nil && p.recv != nil && c09obj(f, root) == p.recv:
						// neither the closure nor its caller locks: the caller's callers must
						p.needsEntry = true
						p.needsWrite = p.needsWrite || write
						g.held++
					default:
						if g.unheld == nil {
							g.unheld, g.unheldAt = st, sel
						}
					}
				case w == flow.Unknown && r == flow.Unknown:
					root, _ := ast.Unparen(sel.X).(*ast.Ident)
					if root != nil && fn.recv != nil && c09obj(f, root) == fn.recv && fn.fd != nil && locksSelf {
						if g.unheld == nil {
							g.unheld, g.unheldAt, g.before = st, sel, true
						}
					} else if root != nil && fn.recv != nil && c09obj(f, root) == fn.recv && fn.fd != nil {
						g.unknownRecv = true
						fn.needsEntry = true
						fn.needsWrite = fn.needsWrite || write
					} else if g.unknownAt == nil {
						g.unknownAt, g.unknownSt = sel, st
					}
				default:
					if g.unheld == nil {
						g.unheld, g.unheldAt = st, sel
					}
				}
				return true
			})
		},
	})
}

// c09Locks is the lock-discipline half of R-C09-1. It returns the limiter description and the
// analysed functions (for the reservation typestate and the wrapper checks).
func c09Locks(c *core.Ctx) (*c09limiter, []*c09fn) {
	pkg := c.Prog.Pkg(c09lib)
	if pkg == nil {
		c.Errorf("anchor: package %s not loaded", c09lib)
		return nil, nil
	}
	lim := &c09limiter{pkg: pkg, guards: map[*types.Var]string{}, types: map[*types.TypeName]bool{},
		tokens: map[*types.Var]bool{}, state: map[*types.Var]bool{}, cycle: map[*types.Var]bool{}}
	for _, typ := range []string{"RateLimiter", "MultiRateLimiter"} {
		n := namedType(c, c09lib, typ)
		if n == nil {
			return nil, nil
		}
		lim.types[n.Obj()] = true
		roles := c09limiterFields(c, pkg, n)
		if roles == nil {
			return nil, nil
		}
		for _, fld := range []string{"state", "startTime", "cycle", "tokens"} {
			v := roles[fld]
			lim.guards[v] = typ + "." + v.Name()
			if fld == "tokens" {
				lim.tokens[v] = true
			}
			if fld == "cycle" {
				lim.cycle[v] = true
			}
			if fld == "state" {
				lim.state[v] = true
			}
		}
	}

	var fns []*c09fn
	byObj := map[*types.Func]*c09fn{}
	goCalls := map[*ast.CallExpr]bool{}
	inLit := map[*ast.CallExpr]bool{}
	for _, fd := range c09pkgFuncs(pkg) {
		f := flow.NewFunc(pkg, fd)
		fn := &c09fn{f: f, fd: fd, name: declName(pkg, fd), recv: c09recv(f)}
		fn.obj, _ = pkg.TypesInfo.Defs[fd.Name].(*types.Func)
		c.Count("functions_analysed", 1)
		c09lockAnalyze(c, lim, fn)
		if fn.res == nil {
			return nil, nil
		}
		fns = append(fns, fn)
		if fn.obj != nil {
			byObj[fn.obj] = fn
		}
		// function literals that are not deferred run at an unknown time: analyse them on their own
		deferred := map[*ast.FuncLit]bool{}
		ast.Inspect(fd.Body, func(n ast.Node) bool {
			switch s := n.(type) {
			case *ast.DeferStmt:
				if lit, ok := ast.Unparen(s.Call.Fun).(*ast.FuncLit); ok {
					deferred[lit] = true
				}
			case *ast.GoStmt:
				goCalls[s.Call] = true
			}
			return true
		})
		ast.Inspect(fd.Body, func(n ast.Node) bool {
			lit, ok := n.(*ast.FuncLit)
			if !ok || deferred[lit] {
				return true
			}
			for _, call := range calls(lit.Body, true) {
				inLit[call] = true
			}
			lf := &c09fn{f: f.Lit(lit), name: fn.name + "$closure"}
			if call := c09syncCallbackCall(f, pkg, fd.Body, lit); call != nil && !goCalls[call] {
				lf.syncStates, lf.syncParent = fn.res.At[call], fn
				if len(lf.syncStates) == 0 {
					return true // the call is unreachable
				}
			}
			c09lockAnalyze(c, lim, lf)
			if lf.res != nil {
				fns = append(fns, lf)
			}
			return true
		})
	}

	// helpers that rely on the caller's lock: every in-package call site must hold it
	type badSite struct {
		at  ast.Node
		why string
		st  *flow.State
	}
	bad := map[*c09fn][]badSite{}
	sites := map[*c09fn]int{}
	for changed := true; changed; {
		changed = false
		for k := range sites {
			delete(sites, k)
		}
		for k := range bad {
			delete(bad, k)
		}
		for _, g := range fns {
			for _, call := range calls(g.f.Body, true) {
				callee, _ := g.f.Callee(call).(*types.Func)
				h := byObj[callee]
				if h == nil || !h.needsEntry {
					continue
				}
				if g.fd == nil && !contains(g.f.Body, call) {
					continue
				}
				if g.fd != nil && inLit[call] {
					continue // counted when the literal itself is visited
				}
				sites[h]++
				sel, ok := ast.Unparen(call.Fun).(*ast.SelectorExpr)
				if !ok {
					bad[h] = append(bad[h], badSite{call, "called through a method expression", nil})
					continue
				}
				if goCalls[call] {
					bad[h] = append(bad[h], badSite{call, "started as a goroutine (runs without the caller's lock)", nil})
					continue
				}
				if c09freshLocal(g.f, sel.X) {
					continue // the object was allocated in the caller and is not shared yet (constructor)
				}
				k := g.f.Render(sel.X)
				for _, st := range g.res.At[call] {
					w, r := st.Get("ev:w:"+k), st.Get("ev:r:"+k)
					switch {
					case w == flow.True || (!h.needsWrite && r == flow.True):
					case w == flow.Unknown && r == flow.Unknown && g.fd != nil && g.recv != nil && c09obj(g.f, c09root(sel.X)) == g.recv && ast.Unparen(sel.X) == ast.Expr(c09root(sel.X)):
						if !g.needsEntry || (h.needsWrite && !g.needsWrite) {
							g.needsEntry = true
							g.needsWrite = g.needsWrite || h.needsWrite
							changed = true
						}
					default:
						bad[h] = append(bad[h], badSite{call, "called without the instance lock held", st})
					}
				}
			}
		}
	}
	// method values of lock-requiring helpers escape the discipline
	for _, g := range fns {
		if g.fd == nil {
			continue
		}
		callFuns := map[ast.Expr]bool{}
		for _, call := range calls(g.fd.Body, true) {
			callFuns[ast.Unparen(call.Fun)] = true
		}
		ast.Inspect(g.fd.Body, func(n ast.Node) bool {
			sel, ok := n.(*ast.SelectorExpr)
			if !ok || callFuns[sel] {
				return true
			}
			if o, ok := g.f.Info.Uses[sel.Sel].(*types.Func); ok {
				if h := byObj[o]; h != nil && h.needsEntry {
					bad[h] = append(bad[h], badSite{sel, "taken as a method value (may run without the lock)", nil})
				}
			}
			return true
		})
	}

	// report
	total := map[string]int{}
	for _, fn := range fns {
		keys := make([]string, 0, len(fn.groups))
		for k := range fn.groups {
			keys = append(keys, k)
		}
		sort.Strings(keys)
		for _, gname := range keys {
			g := fn.groups[gname]
			total[gname] += g.evals
			cons := fn.name + "|" + gname + " under the instance lock"
			what := "read"
			if g.write {
				what = "read/written"
			}
			if g.clock {
				cons = fn.name + "|clock read under the instance lock"
			}
			switch {
			case g.unheld != nil && g.clock:
				when := "after the instance lock was released"
				if g.before {
					when = "before the instance lock is taken"
				}
				c.Violate("R-C09-1", cons, pos(c, g.unheldAt), "the time the cycle / tokens update is computed from is read "+when+": two concurrent acquirers can take the lock in the opposite order of their time stamps — the later-stamped one rolls the cycle forward and clamps the unused permits, the earlier-stamped one then sees a negative cycle difference and is charged a full extra limitForPeriod (an arrival in a period with spare permits is rejected or made to wait)", witness(g.unheld)...)
			case g.unheld != nil && g.before:
				c.Violate("R-C09-1", cons, pos(c, g.unheldAt), gname+" is "+what+" before the function takes the instance lock: concurrent acquirers race on the token count", witness(g.unheld)...)
			case g.unheld != nil:
				c.Violate("R-C09-1", cons, pos(c, g.unheldAt), gname+" is "+what+" after the instance lock was released: a concurrent acquirer can interleave between the reject test and the reservation (two requests take the same permit)", witness(g.unheld)...)
			case g.unknownAt != nil:
				c.Violate("R-C09-1", cons, pos(c, g.unknownAt), gname+" is "+what+" without the instance lock of that limiter having been taken: concurrent acquirers race on the token count", witness(g.unknownSt)...)
			case g.unknownRecv:
				// decided by the call sites below
				h := fn
				switch {
				case len(bad[h]) > 0:
					b := bad[h][0]
					c.Violate("R-C09-1", cons, pos(c, b.at), fn.name+" touches "+gname+" without locking and is "+b.why, witness(b.st)...)
				case ast.IsExported(fn.fd.Name.Name) && g.clock:
					c.Violate("R-C09-1", cons, pos(c, fn.fd), "exported method reads the time the cycle / tokens update is computed from without holding the instance lock (callers outside the package cannot hold it): concurrent acquirers can be serialised in the opposite order of their time stamps, and the earlier-stamped one is charged a full extra limitForPeriod")
				case ast.IsExported(fn.fd.Name.Name):
					c.Violate("R-C09-1", cons, pos(c, fn.fd), "exported method touches "+gname+" without taking the instance lock (callers outside the package cannot hold it)")
				default:
					c.Discharge("R-C09-1", cons, pos(c, fn.fd), sprintf("helper relies on the caller's lock; held at all %d call site(s)", sites[h]))
				}
			default:
				d := sprintf("%d access evaluation(s), lock held at all", g.evals)
				if g.fresh > 0 {
					d = sprintf("%d access evaluation(s), lock held or object not yet shared (allocated in this function)", g.evals)
				}
				c.Discharge("R-C09-1", cons, pos(c, fn.f.Body), d)
			}
		}
	}
	// functions that only pass the lock requirement on (they call a lock-requiring helper on
	// their receiver without locking)
	for _, fn := range fns {
		if !fn.needsEntry || fn.fd == nil {
			continue
		}
		direct := false
		for _, g := range fn.groups {
			if g.unknownRecv {
				direct = true
			}
		}
		if direct {
			continue
		}
		cons := fn.name + "|helpers touching limiter state are called under the instance lock"
		switch {
		case len(bad[fn]) > 0:
			b := bad[fn][0]
			c.Violate("R-C09-1", cons, pos(c, b.at), fn.name+" calls a helper that touches the limiter state without locking and is itself "+b.why, witness(b.st)...)
		case ast.IsExported(fn.fd.Name.Name):
			c.Violate("R-C09-1", cons, pos(c, fn.fd), "exported method calls a helper that reads/writes the limiter state but never takes the instance lock (callers outside the package cannot hold it): concurrent acquirers race on the token count")
		default:
			c.Discharge("R-C09-1", cons, pos(c, fn.fd), sprintf("relies on the caller's lock; held at all %d call site(s)", sites[fn]))
		}
	}
	for _, gname := range sortedKeys(lim.guardNames()) {
		c.RequireCount("R-C09-1", "accesses to "+gname, total[gname], 1)
	}
	return lim, fns
}

func (l *c09limiter) guardNames() map[string]bool {
	out := map[string]bool{}
	for _, g := range l.guards {
		out[g] = true
	}
	return out
}

// c09Reserve is the typestate half of R-C09-1 on the acquire functions (methods of a limiter
// type returning (bool, time.Duration, ...) that touch the guarded state themselves).
func c09Reserve(c *core.Ctx, lim *c09limiter, fns []*c09fn) {
	disabled := ""
	if o, ok := lim.pkg.Types.Scope().Lookup("StateDisabled").(*types.Const); ok {
		disabled = o.Val().ExactString()
	} else {
		c.Errorf("R-C09-1: anchor: constant %s.StateDisabled not found", c09lib)
		return
	}
	perType := map[string]int{}
	for _, fn := range fns {
		if fn.fd == nil || fn.obj == nil || len(fn.groups) == 0 {
			continue
		}
		sig := fn.obj.Type().(*types.Signature)
		if sig.Recv() == nil || !lim.isLimiter(sig.Recv().Type()) || !c09verdictSig(sig) {
			continue
		}
		rt := sig.Recv().Type()
		if p, ok := rt.(*types.Pointer); ok {
			rt = p.Elem()
		}
		perType[rt.(*types.Named).Obj().Name()]++
		fn.acquire = true
		c09reserveOne(c, lim, fn, disabled)
	}
	for _, typ := range []string{"RateLimiter", "MultiRateLimiter"} {
		c.RequireCount("R-C09-1", "acquire functions of "+typ, perType[typ], 1)
	}
}

func c09reserveOne(c *core.Ctx, lim *c09limiter, fn *c09fn, disabled string) {
	f := fn.f
	// the acquire function together with the same-package helpers it reaches (the read-modify-write
	// may be split at the lock boundary: acquire() { lock; return rl.reserve(now, n) })
	gs := reach(f, 2)
	// values derived from the parameters (the requested count)
	tainted := map[types.Object]bool{}
	for _, g := range gs {
		for _, p := range c09params(g) {
			tainted[p] = true
		}
	}
	for changed := true; changed; {
		changed = false
		taint := func(l ast.Expr) {
			if id, ok := ast.Unparen(l).(*ast.Ident); ok {
				if o := c09obj(f, id); o != nil && !tainted[o] {
					tainted[o] = true
					changed = true
				}
			}
		}
		for _, g := range gs {
			ast.Inspect(g.Body, func(n ast.Node) bool {
				switch s := n.(type) {
				case *ast.AssignStmt:
					for _, r := range s.Rhs {
						if c09mentions(f, r, tainted) {
							for _, l := range s.Lhs {
								taint(l)
							}
						}
					}
				case *ast.ValueSpec:
					for _, r := range s.Values {
						if c09mentions(f, r, tainted) {
							for _, l := range s.Names {
								taint(l)
							}
						}
					}
				case *ast.RangeStmt:
					if c09mentions(f, s.X, tainted) && s.Value != nil {
						taint(s.Value)
					}
				}
				return true
			})
		}
	}
	// reservation stores: tokens (or an element) := something derived from the count
	stores := map[ast.Node]bool{}
	loops := map[ast.Stmt]bool{}
	// write-backs of the (cycle, tokens) pair, whatever is stored
	tokStores, cycStores := map[ast.Node]bool{}, map[ast.Node]bool{}
	tokLoops, cycLoops := map[ast.Stmt]bool{}, map[ast.Stmt]bool{}
	holds := map[*ast.BlockStmt]bool{} // helpers that store into the (cycle, tokens) pair
	// stores made by a literal handed to a callback iterator (forEachToken(tokens, func(i, t int) bool
	// {..})) count where the iterator is called: the store is made for every element it visits
	type cbFlags struct{ reserve, tok, cyc bool }
	cbStores := map[*ast.CallExpr]*cbFlags{}
	for _, g := range gs {
		gBody := g.Body
		syncLit := map[*ast.FuncLit]*ast.CallExpr{}
		ast.Inspect(g.Body, func(n ast.Node) bool {
			if lit, ok := n.(*ast.FuncLit); ok {
				if call := c09syncCallbackCall(g, lim.pkg, gBody, lit); call != nil {
					syncLit[lit] = call
				}
			}
			return true
		})
		ast.Inspect(g.Body, func(n ast.Node) bool {
			if lit, isLit := n.(*ast.FuncLit); isLit {
				call := syncLit[lit]
				if call == nil {
					return false
				}
				if cbStores[call] == nil {
					cbStores[call] = &cbFlags{}
				}
				ast.Inspect(lit.Body, func(m ast.Node) bool {
					if _, nested := m.(*ast.FuncLit); nested {
						return false
					}
					var targets []ast.Expr
					switch t := m.(type) {
					case *ast.AssignStmt:
						targets = t.Lhs
						for _, l := range t.Lhs {
							if sel := c09storeTarget(l); sel != nil && lim.tokens[c09fieldOf(f, sel)] {
								for _, r := range t.Rhs {
									if c09mentions(f, r, tainted) {
										cbStores[call].reserve = true
									}
								}
							}
						}
					case *ast.IncDecStmt:
						targets = []ast.Expr{t.X}
					}
					for _, l := range targets {
						if sel := c09storeTarget(l); sel != nil {
							switch fld := c09fieldOf(f, sel); {
							case lim.tokens[fld]:
								cbStores[call].tok = true
							case lim.cycle[fld]:
								cbStores[call].cyc = true
							}
						}
					}
					return true
				})
				return false
			}
			var targets []ast.Expr
			switch s := n.(type) {
			case *ast.AssignStmt:
				targets = s.Lhs
			case *ast.IncDecStmt:
				targets = []ast.Expr{s.X}
			}
			for _, l := range targets {
				sel := c09storeTarget(l)
				if sel == nil {
					continue
				}
				fld := c09fieldOf(f, sel)
				ls := enclosingLoops(gBody, n)
				switch {
				case lim.tokens[fld]:
					holds[gBody] = true
					tokStores[n] = true
					if len(ls) > 0 {
						tokLoops[ls[0]] = true
					}
				case lim.cycle[fld]:
					holds[gBody] = true
					cycStores[n] = true
					if len(ls) > 0 {
						cycLoops[ls[0]] = true
					}
				}
			}
			as, ok := n.(*ast.AssignStmt)
			if !ok {
				return true
			}
			for _, l := range as.Lhs {
				sel := c09storeTarget(l)
				if sel == nil || !lim.tokens[c09fieldOf(f, sel)] {
					continue
				}
				for _, r := range as.Rhs {
					if c09mentions(f, r, tainted) {
						stores[as] = true
						if ls := enclosingLoops(gBody, as); len(ls) > 0 {
							loops[ls[0]] = true
						}
					}
				}
			}
			return true
		})
	}
	// facts "state == StateDisabled"
	disabledKeys := map[string]bool{}
	for _, g := range gs {
		ast.Inspect(g.Body, func(n ast.Node) bool {
			if sel, ok := n.(*ast.SelectorExpr); ok && lim.state[c09fieldOf(f, sel)] {
				disabledKeys["eq:"+f.Render(sel)+"=="+disabled] = true
			}
			return true
		})
	}
	// helpers interpreted in place: those holding a store of the pair, and those whose result is
	// returned as the verdict
	inlineWanted := func(call *ast.CallExpr, callee *types.Func) bool {
		fd := declOf(f.Pkg, callee)
		if fd == nil {
			return false
		}
		if holds[fd.Body] {
			return true
		}
		sig := callee.Type().(*types.Signature)
		return sig.Recv() != nil && lim.isLimiter(sig.Recv().Type()) && c09verdictSig(sig)
	}
	inl := inlineSamePkg(f)
	named := c09resultsOf(f)
	const (
		reserved = "ev:reserved"
		tokEv    = "ev:tokensStored"
		cycEv    = "ev:cycleStored"
	)
	res := analyze(c, f, flow.Config{
		NoHavoc: true,
		Inline: func(call *ast.CallExpr, callee *types.Func) *flow.Func {
			if callee == nil || !inlineWanted(call, callee) {
				return nil
			}
			return inl(call, callee)
		},
		OnNode: func(st *flow.State, n ast.Node) {
			named.onNode(st, n)
			if stores[n] {
				st.Set(reserved, flow.True)
			}
			if tokStores[n] {
				st.Set(tokEv, flow.True)
			}
			if cycStores[n] {
				st.Set(cycEv, flow.True)
			}
		},
		OnCall: func(st *flow.State, call *ast.CallExpr, callee types.Object, deferred bool) {
			if fl := cbStores[call]; fl != nil {
				if fl.reserve {
					st.Set(reserved, flow.True)
				}
				if fl.tok {
					st.Set(tokEv, flow.True)
				}
				if fl.cyc {
					st.Set(cycEv, flow.True)
				}
			}
		},
		OnBlock: func(st *flow.State, b *cfg.Block) {
			if b.Kind == cfg.KindRangeLoop || b.Kind == cfg.KindForLoop {
				if tokLoops[b.Stmt] {
					st.Set(tokEv, flow.True)
				}
				if cycLoops[b.Stmt] {
					st.Set(cycEv, flow.True)
				}
			}
			if (b.Kind == cfg.KindRangeLoop || b.Kind == cfg.KindForLoop) && loops[b.Stmt] {
				// the loop that reserves element-wise is reached: the reservation is made for
				// every dimension the loop covers
				st.Set(reserved, flow.True)
			}
		},
	})
	if res == nil {
		return
	}
	permits, rejects := 0, 0
	var badPermit, badReject, badPair *flow.Exit
	pairWhy := ""
	for _, ex := range res.Exits {
		if ex.Kind != flow.ExitReturn {
			continue
		}
		// (cycle, tokens) denote "tokens reserved since the start of cycle `cycle`": the epoch
		// must not be advanced without rebasing the count, and a rejected arrival must not
		// leave half of the pair updated
		tok, cyc := ex.State.Is(tokEv, flow.True), ex.State.Is(cycEv, flow.True)
		verdict := c09boolResult(f, ex, 0)
		if v, known := named.constant(ex, 0); known && v.Kind() == constant.Bool {
			verdict = c09val(constant.BoolVal(v))
		} else if v, known := c09structVerdict(f, named.expr(ex, 0)); known {
			verdict = c09val(v)
		}
		if badPair == nil {
			switch {
			case cyc && !tok && verdict == flow.False:
				badPair, pairWhy = ex, "a rejected arrival stores the current period into the cycle field while the tokens field still holds the count relative to the older period: every rejection in a later period cancels that period's refill of limitForPeriod permits, so the limiter keeps rejecting although the reservations have long been paid off"
			case cyc && !tok:
				badPair, pairWhy = ex, "the cycle field is advanced on a path that does not write the rebased count back to the tokens field: the refill of the elapsed periods is lost"
			case tok && !cyc && verdict == flow.False:
				badPair, pairWhy = ex, "a rejected arrival writes the tokens field but not the cycle field it is relative to: the count is decayed again on the next arrival (more than limitForPeriod requests are released per period)"
			}
		}
		switch verdict {
		case flow.True:
			permits++
			isDisabled := false
			for k := range disabledKeys {
				if ex.State.Is(k, flow.True) {
					isDisabled = true
				}
			}
			if !ex.State.Is(reserved, flow.True) && !isDisabled && badPermit == nil {
				badPermit = ex
			}
		case flow.False:
			rejects++
			if ex.State.Is(reserved, flow.True) && badReject == nil {
				badReject = ex
			}
		default:
			c.Undecide("R-C09-1", fn.name+"|verdict of every exit is known", pos(c, ex.At), "cannot tell whether this exit permits or rejects")
			return
		}
	}
	exitWitness := func(ex *flow.Exit) []string {
		if ex == nil {
			return nil
		}
		return append([]string{"exit at " + pos(c, ex.At)}, witness(ex.State)...)
	}
	switch {
	case permits == 0:
		c.Violate("R-C09-1", fn.name+"|permit exits reserve tokens", pos(c, f.Body), "the acquire function has no permitting exit")
	default:
		c.Check(badPermit == nil, "R-C09-1", fn.name+"|permit exits reserve tokens", pos(c, f.Body),
			sprintf("%d permitting exit(s): each has stored tokens+count (or the limiter is disabled)", permits),
			"a request is permitted without its tokens having been added to the reservation (and the limiter is not disabled): later arrivals see spare permits that are already used — more than limitForPeriod requests are released in the period", exitWitness(badPermit)...)
	}
	c.Check(badPair == nil, "R-C09-1", fn.name+"|cycle and tokens are written back together", pos(c, f.Body),
		sprintf("%d exit(s): the cycle field is never stored without the tokens field, and a rejecting exit stores both or neither", permits+rejects),
		pairWhy, exitWitness(badPair)...)
	switch {
	case rejects == 0:
		c.Violate("R-C09-1", fn.name+"|reject exits reserve nothing", pos(c, f.Body), "the acquire function never rejects: no upper bound on reserved permits (waits grow beyond timeoutDuration)")
	default:
		c.Check(badReject == nil, "R-C09-1", fn.name+"|reject exits reserve nothing", pos(c, f.Body),
			sprintf("%d rejecting exit(s), none after the reservation store", rejects),
			"tokens are reserved before the reject test: a rejected request still consumes permits, so later requests are rejected/delayed although permits up to the timeout horizon are not all reserved", exitWitness(badReject)...)
	}
}

// c09Dimensions: R-C09-7 — in an acquire function of a limiter whose token count is a slice (one
// entry per dimension) the dimensions are independent: what a loop over the dimensions computes
// for dimension i may depend on loop-invariant values and on dimension i only, and is combined
// with the other dimensions by an overwrite under a comparison (max of the waits), a flag or an
// early exit. An arithmetic accumulation into a scalar that lives across the iterations
// (`x += …`, `x = x + …`, `x++`) makes the result for one dimension depend on the depth of the
// others — e.g. the release slot of a queued arrival becomes the SUM of the per-dimension
// offsets instead of their maximum, and the arrival is admitted with a wait above timeoutDuration.
func c09Dimensions(c *core.Ctx, lim *c09limiter, fns []*c09fn) {
	subjects := 0
	for _, fn := range fns {
		if !fn.acquire || fn.fd == nil {
			continue
		}
		// multi-dimensional limiter: the receiver's tokens field is a slice
		sig := fn.obj.Type().(*types.Signature)
		rt := sig.Recv().Type()
		if p, ok := rt.(*types.Pointer); ok {
			rt = p.Elem()
		}
		st, ok := rt.Underlying().(*types.Struct)
		if !ok {
			continue
		}
		multi := false
		for i := 0; i < st.NumFields(); i++ {
			if lim.tokens[st.Field(i)] {
				_, multi = st.Field(i).Type().Underlying().(*types.Slice)
			}
		}
		if !multi {
			continue
		}
		f := fn.f
		var loops []ast.Node
		ast.Inspect(f.Body, func(n ast.Node) bool {
			switch n.(type) {
			case *ast.FuncLit:
				// the body of a loop over the dimensions handed to a callback iterator
				// (forEachToken(tokens, func(i, token int) bool {..})): the helper holds the loop
				lit := n.(*ast.FuncLit)
				if call := c09syncCallbackCall(f, lim.pkg, f.Body, lit); call != nil {
					if fo, ok := f.Callee(call).(*types.Func); ok {
						if hd := declOf(lim.pkg, fo); hd != nil {
							hasLoop := false
							ast.Inspect(hd.Body, func(x ast.Node) bool {
								switch x.(type) {
								case *ast.RangeStmt, *ast.ForStmt:
									hasLoop = true
								}
								return !hasLoop
							})
							if hasLoop {
								loops = append(loops, lit)
							}
						}
					}
				}
				return false
			case *ast.RangeStmt, *ast.ForStmt:
				loops = append(loops, n)
			}
			return true
		})
		subjects += len(loops)
		cons := fn.name + "|dimensions are combined without arithmetic accumulation"
		influences := c09influencing(f)
		var badAt ast.Node
		badVar := ""
		for _, l := range loops {
			var body *ast.BlockStmt
			var post ast.Stmt
			switch x := l.(type) {
			case *ast.RangeStmt:
				body = x.Body
			case *ast.ForStmt:
				body, post = x.Body, x.Post
			case *ast.FuncLit:
				body = x.Body
			}
			carriedVar := func(e ast.Expr) types.Object {
				id, ok := ast.Unparen(e).(*ast.Ident)
				if !ok {
					return nil
				}
				v, ok := c09obj(f, id).(*types.Var)
				if !ok || v.IsField() || v.Pkg() == nil || v.Parent() == v.Pkg().Scope() {
					return nil
				}
				if l.Pos() <= v.Pos() && v.Pos() < l.End() {
					return nil // declared by / inside the loop: fresh in every iteration (or the loop counter)
				}
				switch v.Type().Underlying().(type) {
				case *types.Slice, *types.Map, *types.Array:
					return nil // a container built element by element (append) keeps the dimensions apart
				}
				if !influences[v] {
					return nil // feeds no decision, result or limiter state (e.g. a total kept for a log line)
				}
				return v
			}
			ast.Inspect(body, func(n ast.Node) bool {
				if badAt != nil {
					return false
				}
				switch s := n.(type) {
				case *ast.FuncLit:
					return false
				case *ast.IncDecStmt:
					if s == post {
						return true
					}
					if v := carriedVar(s.X); v != nil {
						badAt, badVar = s, v.Name()
					}
				case *ast.AssignStmt:
					for i, lh := range s.Lhs {
						v := carriedVar(lh)
						if v == nil {
							continue
						}
						switch {
						case s.Tok != token.ASSIGN && s.Tok != token.DEFINE:
							badAt, badVar = s, v.Name()
						case len(s.Lhs) == len(s.Rhs):
							// x = <arithmetic mentioning x>; max/min(x, …) and boolean &&/|| are reductions
							r := ast.Unparen(s.Rhs[i])
							if !c09mentions(f, r, map[types.Object]bool{v: true}) {
								continue
							}
							if call, ok := r.(*ast.CallExpr); ok {
								if b, ok := f.Callee(call).(*types.Builtin); ok && (b.Name() == "max" || b.Name() == "min") {
									continue
								}
							}
							if be, ok := r.(*ast.BinaryExpr); ok && (be.Op == token.LAND || be.Op == token.LOR) {
								continue
							}
							badAt, badVar = s, v.Name()
						}
					}
				}
				return true
			})
		}
		c.Check(badAt == nil, "R-C09-7", cons, pos(c, func() ast.Node {
			if badAt != nil {
				return badAt
			}
			return f.Body
		}()),
			sprintf("%d loop(s) over the dimensions: no scalar that lives across the iterations is accumulated arithmetically", len(loops)),
			"the loop over the limiter's dimensions accumulates into `"+badVar+"`, which lives across the iterations: the value used for one dimension includes the contributions of the dimensions visited before (sum instead of maximum) — e.g. the release slot of a queued arrival is pushed (depth of dim 0 + depth of dim 1 + …) periods ahead, so it is admitted with a wait above timeoutDuration and released in a period that later arrivals fill as well")
	}
	c.RequireCount("R-C09-7", "loops over the dimensions in multi-dimensional acquire functions", subjects, 1)
}

// c09influencing returns the locals of f whose value can reach a decision of the function: a branch condition, a
// returned value, a store into a field / element (limiter state) or an argument of a call other than a logger's — directly
// or through assignments to other such locals (a backward closure over the assignments of the body; flow-insensitive).
func c09influencing(f *flow.Func) map[types.Object]bool {
	in := map[types.Object]bool{}
	changed := false
	add := func(e ast.Node) {
		if e == nil {
			return
		}
		ast.Inspect(e, func(n ast.Node) bool {
			if _, ok := n.(*ast.FuncLit); ok {
				return false
			}
			if id, ok := n.(*ast.Ident); ok {
				if v, ok := c09obj(f, id).(*types.Var); ok && !v.IsField() && !in[v] {
					in[v] = true
					changed = true
				}
			}
			return true
		})
	}
	isLog := func(call *ast.CallExpr) bool {
		fnObj, _ := f.Callee(call).(*types.Func)
		return fnObj != nil && fnObj.Pkg() != nil && (strings.HasSuffix(fnObj.Pkg().Path(), "/logger") || fnObj.Pkg().Path() == "log" || fnObj.Pkg().Path() == "fmt")
	}
	for {
		changed = false
		ast.Inspect(f.Body, func(n ast.Node) bool {
			switch s := n.(type) {
			case *ast.IfStmt:
				add(s.Cond)
			case *ast.ForStmt:
				add(s.Cond)
			case *ast.SwitchStmt:
				add(s.Tag)
			case *ast.CaseClause:
				for _, e := range s.List {
					add(e)
				}
			case *ast.ReturnStmt:
				for _, e := range s.Results {
					add(e)
				}
			case *ast.CallExpr:
				if !isLog(s) {
					for _, a := range s.Args {
						add(a)
					}
				}
			case *ast.IncDecStmt:
				if _, ok := ast.Unparen(s.X).(*ast.Ident); !ok {
					add(s.X)
				}
			case *ast.AssignStmt:
				for i, lh := range s.Lhs {
					var rhs ast.Expr
					if len(s.Lhs) == len(s.Rhs) {
						rhs = s.Rhs[i]
					} else if len(s.Rhs) == 1 {
						rhs = s.Rhs[0]
					}
					if id, ok := ast.Unparen(lh).(*ast.Ident); ok {
						if v, ok := c09obj(f, id).(*types.Var); ok && in[v] {
							add(rhs)
						}
						continue
					}
					add(lh) // store into a field / element: the index and the stored value matter
					add(rhs)
				}
			}
			return true
		})
		if !changed {
			return in
		}
	}
}

// c09limiterFields resolves the guarded fields of a limiter struct by role, so that renaming the
// unexported fields does not lose them: state = the field of the package's State type, startTime =
// the time.Time field, tokens = the []int field (multi limiter) or the int field that some method
// of the type assigns a value computed from one of its parameters (the reservation), cycle = the
// other int field. The declared names tokens / cycle break ties. Ambiguity is a checker error.
func c09limiterFields(c *core.Ctx, pkg *packages.Package, n *types.Named) map[string]*types.Var {
	st, ok := n.Underlying().(*types.Struct)
	if !ok {
		c.Errorf("anchor: %s.%s is not a struct", c09lib, n.Obj().Name())
		return nil
	}
	roles := map[string]*types.Var{}
	var ints []*types.Var
	put := func(role string, v *types.Var) bool {
		if roles[role] != nil {
			c.Errorf("anchor: %s.%s has two fields that fit the role %q (%s, %s)", c09lib, n.Obj().Name(), role, roles[role].Name(), v.Name())
			return false
		}
		roles[role] = v
		return true
	}
	for i := 0; i < st.NumFields(); i++ {
		v := st.Field(i)
		t := v.Type()
		switch {
		case t.String() == "time.Time":
			if !put("startTime", v) {
				return nil
			}
		case t.String() == pkg.PkgPath+".State":
			if !put("state", v) {
				return nil
			}
		default:
			switch u := t.Underlying().(type) {
			case *types.Slice:
				if b, ok := u.Elem().Underlying().(*types.Basic); ok && b.Kind() == types.Int {
					if !put("tokens", v) {
						return nil
					}
				}
			case *types.Basic:
				if u.Kind() == types.Int && types.Identical(t, types.Typ[types.Int]) {
					ints = append(ints, v)
				}
			}
		}
	}
	if roles["tokens"] != nil {
		// multi limiter: the only int field is the cycle
		if len(ints) == 1 {
			roles["cycle"] = ints[0]
		}
	} else if len(ints) == 2 {
		// which of the two is assigned something computed from a method parameter?
		fromParam := map[*types.Var]bool{}
		for _, fd := range c09pkgFuncs(pkg) {
			g := flow.NewFunc(pkg, fd)
			rv := c09recv(g)
			if rv == nil {
				continue
			}
			rt := rv.Type()
			if p, ok := rt.(*types.Pointer); ok {
				rt = p.Elem()
			}
			if !types.Identical(rt, n) {
				continue
			}
			params := map[types.Object]bool{}
			for _, p := range c09params(g) {
				params[p] = true
			}
			ast.Inspect(fd.Body, func(x ast.Node) bool {
				as, ok := x.(*ast.AssignStmt)
				if !ok {
					return true
				}
				for _, l := range as.Lhs {
					fld := c09fieldOf(g, l)
					if fld != ints[0] && fld != ints[1] {
						continue
					}
					for _, r := range as.Rhs {
						if c09mentions(g, r, params) {
							fromParam[fld] = true
						}
					}
				}
				return true
			})
		}
		switch {
		case fromParam[ints[0]] && !fromParam[ints[1]]:
			roles["tokens"], roles["cycle"] = ints[0], ints[1]
		case fromParam[ints[1]] && !fromParam[ints[0]]:
			roles["tokens"], roles["cycle"] = ints[1], ints[0]
		}
	}
	// declared names as tie-breaker / fallback
	for _, role := range []string{"tokens", "cycle"} {
		if roles[role] == nil {
			for i := 0; i < st.NumFields(); i++ {
				if st.Field(i).Name() == role {
					roles[role] = st.Field(i)
				}
			}
		}
	}
	for _, role := range []string{"state", "startTime", "cycle", "tokens"} {
		if roles[role] == nil {
			c.Errorf("anchor: cannot identify the %s field of %s.%s by role (type and usage)", role, c09lib, n.Obj().Name())
			return nil
		}
	}
	if roles["tokens"] == roles["cycle"] {
		c.Errorf("anchor: tokens and cycle of %s.%s resolve to the same field", c09lib, n.Obj().Name())
		return nil
	}
	return roles
}

// c09recvIdent returns the receiver identifier of a method declaration (nil otherwise).
func c09recvIdent(f *flow.Func) *ast.Ident {
	fd, ok := f.Node.(*ast.FuncDecl)
	if !ok || fd.Recv == nil || len(fd.Recv.List) != 1 || len(fd.Recv.List[0].Names) != 1 {
		return nil
	}
	return fd.Recv.List[0].Names[0]
}

// c09clockReads returns the reads of the clock (time.Now or a package-level func() time.Time
// variable such as nowFunc) in a method of a limiter type whose value flows into the limiter's
// state: into a store to a guarded field, or into an argument of a method call on a limiter.
// These reads belong to the read-modify-write: they must happen inside the critical section.
func c09clockReads(f *flow.Func, lim *c09limiter, fn *c09fn) (map[*ast.CallExpr]bool, string) {
	out := map[*ast.CallExpr]bool{}
	if fn.fd == nil || fn.recv == nil || !lim.isLimiter(fn.recv.Type()) || c09recvIdent(f) == nil {
		return out, ""
	}
	rt := fn.recv.Type()
	if p, ok := rt.(*types.Pointer); ok {
		rt = p.Elem()
	}
	name := rt.(*types.Named).Obj().Name() + " clock"
	isClock := func(call *ast.CallExpr) bool {
		if len(call.Args) != 0 {
			return false
		}
		if tv, ok := f.Info.Types[call]; !ok || tv.Type == nil || tv.Type.String() != "time.Time" {
			return false
		}
		var o types.Object
		switch x := ast.Unparen(call.Fun).(type) {
		case *ast.Ident:
			o = c09obj(f, x)
		case *ast.SelectorExpr:
			o = f.Info.Uses[x.Sel]
		}
		switch t := o.(type) {
		case *types.Func:
			return t.Pkg() != nil && t.Pkg().Path() == "time" && t.Name() == "Now"
		case *types.Var:
			return t.Pkg() != nil && t.Parent() == t.Pkg().Scope()
		}
		return false
	}
	var clocks []*ast.CallExpr
	for _, call := range calls(f.Body, false) {
		if isClock(call) {
			clocks = append(clocks, call)
		}
	}
	if len(clocks) == 0 {
		return out, name
	}
	hasClock := func(n ast.Node) bool {
		for _, cl := range clocks {
			if contains(n, cl) {
				return true
			}
		}
		return false
	}
	tainted := map[types.Object]bool{}
	dirty := func(e ast.Node) bool { return e != nil && (hasClock(e) || c09mentions(f, e, tainted)) }
	for changed := true; changed; {
		changed = false
		ast.Inspect(f.Body, func(n ast.Node) bool {
			var lhs, rhs []ast.Expr
			switch s := n.(type) {
			case *ast.AssignStmt:
				lhs, rhs = s.Lhs, s.Rhs
			case *ast.ValueSpec:
				for _, nm := range s.Names {
					lhs = append(lhs, nm)
				}
				rhs = s.Values
			default:
				return true
			}
			any := false
			for _, r := range rhs {
				if dirty(r) {
					any = true
				}
			}
			if !any {
				return true
			}
			for _, l := range lhs {
				if id, ok := ast.Unparen(l).(*ast.Ident); ok {
					if o := c09obj(f, id); o != nil && !tainted[o] {
						tainted[o] = true
						changed = true
					}
				}
			}
			return true
		})
	}
	influences := false
	ast.Inspect(f.Body, func(n ast.Node) bool {
		switch s := n.(type) {
		case *ast.FuncLit:
			return false
		case *ast.AssignStmt:
			for _, l := range s.Lhs {
				if sel := c09storeTarget(l); sel != nil {
					if _, guarded := lim.guards[c09fieldOf(f, sel)]; guarded {
						for _, r := range s.Rhs {
							if dirty(r) {
								influences = true
							}
						}
					}
				}
			}
		case *ast.CallExpr:
			if fo, ok := f.Callee(s).(*types.Func); ok && fo.Pkg() == lim.pkg.Types {
				if rv := fo.Type().(*types.Signature).Recv(); rv != nil && lim.isLimiter(rv.Type()) {
					for _, a := range s.Args {
						if dirty(a) {
							influences = true
						}
					}
				}
			}
		}
		return true
	})
	if influences {
		for _, cl := range clocks {
			out[cl] = true
		}
	}
	return out, name
}

// c09verdictSig: the result list of an acquire function — (bool, time.Duration, ...) or one struct
// value with exactly one bool field (the verdict) and a time.Duration field (the wait).
func c09verdictSig(sig *types.Signature) bool {
	rs := sig.Results()
	if rs.Len() >= 2 {
		b, ok := rs.At(0).Type().Underlying().(*types.Basic)
		return ok && b.Kind() == types.Bool && rs.At(1).Type().String() == "time.Duration"
	}
	if rs.Len() != 1 {
		return false
	}
	st, ok := rs.At(0).Type().Underlying().(*types.Struct)
	if !ok {
		return false
	}
	bools, durs := 0, 0
	for i := 0; i < st.NumFields(); i++ {
		if b, ok := st.Field(i).Type().Underlying().(*types.Basic); ok && b.Kind() == types.Bool {
			bools++
		}
		if st.Field(i).Type().String() == "time.Duration" {
			durs++
		}
	}
	return bools == 1 && durs >= 1
}

// c09structVerdict reads the verdict out of a returned struct literal `permission{granted: true}`
// (an omitted bool field is false).
func c09structVerdict(f *flow.Func, e ast.Expr) (bool, bool) {
	if e == nil {
		return false, false
	}
	if u, ok := ast.Unparen(e).(*ast.UnaryExpr); ok && u.Op == token.AND {
		e = u.X
	}
	cl, ok := ast.Unparen(e).(*ast.CompositeLit)
	if !ok {
		return false, false
	}
	tv, ok := f.Info.Types[cl]
	if !ok || tv.Type == nil {
		return false, false
	}
	st, ok := tv.Type.Underlying().(*types.Struct)
	if !ok {
		return false, false
	}
	for i, el := range cl.Elts {
		var fld *types.Var
		val := el
		if kv, ok := el.(*ast.KeyValueExpr); ok {
			if k, ok := kv.Key.(*ast.Ident); ok {
				fld, _ = f.Info.Uses[k].(*types.Var)
			}
			val = kv.Value
		} else if i < st.NumFields() {
			fld = st.Field(i)
		}
		if fld == nil {
			continue
		}
		if b, ok := fld.Type().Underlying().(*types.Basic); ok && b.Kind() == types.Bool {
			if v, ok := f.Info.Types[val]; ok && v.Value != nil && v.Value.Kind() == constant.Bool {
				return constant.BoolVal(v.Value), true
			}
			return false, false
		}
	}
	return false, true
}

// c09syncCallbackCall: lit is an argument of a call (in body) to a same-package function that does
// nothing with the corresponding func parameter but call it (a callback iterator such as
// forEachToken(tokens, fn)): the literal then runs synchronously during that call. Returns the call.
func c09syncCallbackCall(f *flow.Func, pkg *packages.Package, body ast.Node, lit *ast.FuncLit) *ast.CallExpr {
	var found *ast.CallExpr
	ast.Inspect(body, func(n ast.Node) bool {
		call, ok := n.(*ast.CallExpr)
		if !ok || found != nil {
			return found == nil
		}
		for i, a := range call.Args {
			if ast.Unparen(a) != ast.Expr(lit) {
				continue
			}
			fo, ok := f.Callee(call).(*types.Func)
			if !ok || fo.Pkg() != pkg.Types {
				return true
			}
			hd := declOf(pkg, fo)
			if hd == nil || hd.Type.Params == nil || call.Ellipsis.IsValid() {
				return true
			}
			// the i-th parameter
			var param types.Object
			k := 0
			for _, fld := range hd.Type.Params.List {
				for _, nm := range fld.Names {
					if k == i {
						param = pkg.TypesInfo.Defs[nm]
					}
					k++
				}
			}
			if param == nil {
				return true
			}
			// every use of the parameter in the helper is "call it", outside go statements and literals
			onlyCalled := true
			callFuns := map[*ast.Ident]bool{}
			ast.Inspect(hd.Body, func(x ast.Node) bool {
				switch t := x.(type) {
				case *ast.GoStmt:
					if id, ok := ast.Unparen(t.Call.Fun).(*ast.Ident); ok && pkg.TypesInfo.Uses[id] == param {
						onlyCalled = false
					}
				case *ast.CallExpr:
					if id, ok := ast.Unparen(t.Fun).(*ast.Ident); ok {
						callFuns[id] = true
					}
				case *ast.FuncLit:
					// used inside a nested literal: may run later
					ast.Inspect(t.Body, func(y ast.Node) bool {
						if id, ok := y.(*ast.Ident); ok && pkg.TypesInfo.Uses[id] == param {
							onlyCalled = false
						}
						return true
					})
					return false
				}
				return true
			})
			ast.Inspect(hd.Body, func(x ast.Node) bool {
				if id, ok := x.(*ast.Ident); ok && pkg.TypesInfo.Uses[id] == param && !callFuns[id] {
					onlyCalled = false
				}
				return true
			})
			if onlyCalled {
				found = call
			}
		}
		return true
	})
	return found
}
