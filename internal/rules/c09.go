package rules

// C09 — rate limiter (DESIGN.md §3 "C09").
//
// The headline clause (at most limitForPeriod releases per period, waits <= timeout) is token /
// time arithmetic over arrival histories and is NOT decided here. Decided are the structural
// necessary conditions R-C09-1..4:
//
//	R-C09-1  c09_lock.go   lock discipline of the limiter state + reject/permit typestate
//	R-C09-2  c09_filter.go decision table of the filter's Handle
//	R-C09-3  c09_filter.go state carry-over in the filter's reload
//	R-C09-4  c09_mqtt.go   MQTT limiter wiring + the 1-permit / N-permit wrappers
//	R-C09-5  c09_filter.go configured timeoutDuration reaches the limiter's policy (added in the second pass)
//	R-C09-6  ext2.go       (coordinator) default policy reference comparison in isSamePolicy
//	R-C09-7  c09_lock.go   dimensions of the multi limiter are independent (added in the third pass)
//	R-C09-8  c09_ext.go    equality functions of the carry-over decision compare configuration only
//
// Mutants tried in /tmp/vw/C09/repo (each compiles; one at a time, on top of fix-1 so that the
// exit code is meaningful; diffs in /tmp/vw/C09/out/mutants) → obligation that fires:
//
//	M1   util acquirePermission: `rl.tokens = tokens + count; rl.cycle = cycle` moved above the
//	     reject test                                   → R-C09-1 |reject exits reserve nothing
//	M2   util acquirePermission: lock released early (before the state update)
//	                                                   → R-C09-1 |RateLimiter.{cycle,tokens,state,startTime} under the instance lock
//	M3   util SetState: Lock/defer Unlock dropped      → R-C09-1 (SetState) |RateLimiter.* under the instance lock
//	M4   multi AcquirePermission: reservation loop replaced by copy(rl.tokens, tokens)
//	                                                   → R-C09-1 |permit exits reserve tokens
//	M5   util acquirePermission: `if rl.state != StateDisabled { return true, 0 }`
//	                                                   → R-C09-1 |permit exits reserve tokens
//	M22  unlocked helper + new exported method calling it without the lock
//	                                                   → R-C09-1 (Reserved) |helpers … called under the instance lock
//	M23  `go rl.notifyListener(..)` with notifyListener reading rl.tokens
//	                                                   → R-C09-1 (notifyListener) |RateLimiter.tokens under the instance lock
//	M6   filter Handle: `if d <= 0 { continue }` (break dropped after a match)
//	                                                   → R-C09-2 |at most one acquire per request
//	M7   filter Handle: `if !u.Match(..)` guard deleted → R-C09-2 |acquire only for a matching rule
//	M8   filter Handle: rejected branch returns ""     → R-C09-2 |rejected ⇒ 429 + rateLimited
//	M9   filter Handle: StatusTooManyRequests → StatusServiceUnavailable
//	                                                   → R-C09-2 |rejected ⇒ 429 + rateLimited
//	M10  filter Handle: `d <= time.Second` / `d >= 0` instead of `d <= 0`
//	                                                   → R-C09-2 |permitted with a wait ⇒ the wait is served
//	M11  filter Handle: `default:` added to the wait select; time.NewTimer(0)
//	                                                   → R-C09-2 |permitted with a wait ⇒ the wait is served
//	M12  filter reload: `continue OuterLoop` → `break` (always createRateLimiter)
//	                                                   → R-C09-3 |no new limiter after carry-over
//	M13  filter reload: isSamePolicy test deleted      → R-C09-3 |carry-over only for an unchanged rule and policy
//	M14  filter reload: `url.rl = prev.rl` deleted     → R-C09-3 |unchanged rule keeps its limiter state
//	M14b filter reload: DeepEqual test negated         → R-C09-3 |carry-over only for an unchanged rule and policy
//	M14c filter reload (fixed tree): nil guard negated → R-C09-3 |carried limiter is live
//	M14d filter reload: createRateLimiterForURL(url) after the inner loop deleted
//	                                                   → R-C09-3 |every URL rule ends with a limiter
//	M15  mqtt acquirePermission: `[]int{byteNum, 1}`   → R-C09-4 |multiLimiter charge matches configured rate
//	M16  mqtt acquirePermission: byteLimiter.AcquirePermission()
//	                                                   → R-C09-4 |byteLimiter charge matches configured rate
//	M17  mqtt newLimiter: timeout 0 → time.Second      → R-C09-4 |requestLimiter timeout 0
//	M18  mqtt acquirePermission: `return true` after the request limiter was charged
//	                                                   → R-C09-4 |result is the charged limiter's verdict
//	M19  util AcquirePermission: acquirePermission(0)  → R-C09-4 (AcquirePermission) |charges 1
//	M20  mqtt newLimiter: byte limiter built with spec.RequestRate
//	                                                   → R-C09-4 |byteLimiter charge matches configured rate
//	M21  mqtt acquirePermission: `if l.requestLimiter != nil && l.byteLimiter != nil`
//	                                                   → R-C09-4 |result is the charged limiter's verdict
//
// Second pass (seeded regressions /verif/seeded/C09/{a,b}; /repo already contains the reload fix):
//
//	A1   seeded a: `rl.cycle = cycle` moved above the reject test
//	                                                   → R-C09-1 |cycle and tokens are written back together
//	A2   multi AcquirePermission: `rl.cycle = cycle` before the reject loop       → same
//	A3   util: `rl.cycle = cycle` inside the reject branch                        → same
//	A4   util: `rl.tokens = tokens` (rebased) before the reject test, cycle after → same
//	B1   seeded b: parse, then `if policy.TimeoutDuration <= 0 { default }`
//	                                                   → R-C09-5 |configured timeoutDuration reaches the limiter policy
//	B2   `d != "" && d != "0s"`                        → same
//	B3   default first, overridden only `if err == nil && v > 0`                  → same
//	B4   timeout parsed from url.policy.LimitRefreshPeriod                        → same
//	B5   `if policy.TimeoutDuration == 0 { default }` after the parse             → same
//	PA   (preserving) `rl.tokens, rl.cycle = tokens, cycle` before the reject test, `rl.tokens = tokens + count` after
//	PB1  (preserving) default in the Policy literal, overridden `if setting != ""`
//	PB2  (preserving) `timeout, err := ParseDuration(setting); if err != nil { timeout = default }`
//
// Third pass (round-3 seeded regressions /tmp/mut3/out/C09/{a,b}):
//
//	D1   round-3 a: wait loop of the multi limiter, `cycle += token / limit[i]` instead of a
//	     per-dimension temporary                       → R-C09-7 |dimensions are combined without arithmetic accumulation
//	D2   `timeToWait += wait` instead of the maximum   → same
//	D3   `tmpCycle` hoisted out of the loop, `tmpCycle = tmpCycle + token/limit[i]` → same
//	D4   `scale++` inside the maxTokens loop           → same
//	PD1  (preserving) `var tmpCycle int` hoisted, assigned `cycle + …` in the loop; `timeToWait < wait`
//	PD2  (preserving) reservation loop as `for i := 0; …; i++` with `rl.tokens[i] += count[i]`
//	I1   round-3 b: `url.Init()` dropped in the inheriting branch of reload
//	                                                   → R-C09-3 |every URL rule is initialised
//	I2   `u.Init()` dropped from createRateLimiterForURL → same
//	I3   `prev.Init()` instead of `url.Init()`         → same
//	I4   separate init loop that skips rules without a policyRef → same
//	PI1  (preserving) `url.Init()` moved behind setStateListenerForURL
//	PI2  (preserving) one loop `for _, u := range rl.spec.URLs { u.Init() }` in front of the carry-over loop
//
// Robustness pass (behaviour-preserving refactorings /verif/preserving/C09/r1..r4, all exit 0 now):
//
//	c09_util.go: canon (identity of variables across helper boundaries: single call site
//	parameters, single-definition locals, helper results), c09loop (range / index / three-clause
//	loops with `e := s[i]`), c09callee (calls through method values), c09results (named results
//	with bare return). R-C09-2/3 run with flow inlining over the reach of Handle / reload;
//	R-C09-3 resolves reload, R-C09-4 the MQTT acquire method and R-C09-6 the policy comparison
//	by role. Mutants re-applied on top of the r3 and r4 shapes are still reported (12 tried).
//
// Robustness pass, second set (/verif/preserving/C09/r5..r8, all exit 0 now): canon follows
// results of multi-valued helpers (`u, req := rl.matchURL(ctx)`), result variables fed from one
// source (`var prev *T; … prev = cand; break`) and roots that stand for a path (`spec := rl.spec`);
// R-C09-5 follows the policy into a helper that builds it; R-C09-7 is about scalars (append into
// a slice keeps the dimensions apart); the guarded fields of the limiters and the filter's fields
// are resolved by type and usage (renamed cycle/tokens/rl); R-C09-4 finds the charge sites in
// methods or closures and decides the dispatch through a func-typed field of Limiter.
// 17 mutants re-applied on top of the r6, r7 and r8 shapes are all reported.
//
// Robustness pass, third set (/verif/preserving/C09/r9..r12, all exit 0 now): the policy
// comparison is recognised as a function OR a method of Spec (two *Spec incl. the receiver, one
// name → bool; R-C09-3/-6/-8); the reserve typestate reads named results with bare return and
// verdicts carried in a result struct (`permission{granted: true}`), and runs over the reach of
// the acquire function with the helpers holding the stores interpreted in place (acquire split at
// the lock boundary); a lock-requiring helper called on an object allocated in the caller
// (constructor sharing restart() with SetState) needs no lock; R-C09-4 follows the limiter
// through a field of any struct of the package (stores and struct literals) and decides the
// dispatch through an interface-typed field by the methods of the types stored into it.
// 13 mutants re-applied on the r10, r11 and r12 shapes are all reported.
//
// Robustness pass, fourth set (/verif/preserving/C09/r13..r16, all exit 0 now): a function literal
// handed to a same-package helper that does nothing with the parameter but call it (callback
// iterator forEachToken(tokens, fn)) runs synchronously during that call — the lock discipline
// judges it in the lock state of the enclosing function at the call (c09syncCallbackCall; a `go`
// of the parameter or a use inside a nested literal disqualifies the helper); stores made by
// such a literal count for the reserve typestate where the iterator is called; R-C09-7 treats the
// literal as the body of a loop over the dimensions. 6 mutants on the r15 shape are reported.
//
// Fourth round of seeded changes (slips inside refactorings, /verif/seeded/C09/{g,h}):
//
//	g  helpers extracted, `now := nowFunc()` left above rl.lock.Lock()
//	     → R-C09-1 |clock read under the instance lock (c09clockReads: a clock read whose value
//	       flows into a guarded-field store or into a limiter method call belongs to the critical
//	       section; anything touched before the function's own Lock is touched without it)
//	   same kind: clock above the Lock in MultiRateLimiter.AcquirePermission; Unlock/read/Lock;
//	   SetState with `start := nowFunc()` before the Lock. Correct refactoring (clock after the
//	   Lock) and r1..r8 stay silent.
//	h  URLRule.DeepEqual as `r.URL == r1.URL` (StringMatch holds the regexp cache `re`)
//	     → R-C09-8 |compares configuration fields only (c09_ext.go)
//	   same kind: `r.URL != r1.URL`, `r.id == r1.id`, reflect.DeepEqual(spec1.URLs, spec2.URLs) in
//	   the policy comparison. Field-by-field simplification stays silent.
//
// Not caught by design (arithmetic, see NotDecided): `tokens > maxTokens`, a wrong wait
// computation, a dropped `rl.cycle = cycle` on the permit path, a wrong refresh period in the MQTT policies.
//
// Behaviour-preserving edits tried (exit 0 on the fixed tree):
//
//	E1  util acquirePermission: decay computation extracted into an unexported helper method
//	    that reads rl.tokens / rl.cycle without locking (its only caller holds the lock)
//	E2  util New: `rl := &RateLimiter{}; rl.policy = policy; rl.startTime = nowFunc()`;
//	    `maxTokens <= tokens`; `n := tokens + count; rl.tokens = n`
//	E3  filter Handle: req hoisted, `matched := rule.Match(..)`, `limiter := rule.rl`,
//	    `ok == false`, `0 >= d` + early `return ""`
//	E4  filter reload: `same := isSamePolicy(..)`, positive nesting `if DeepEqual && same {…}`,
//	    `old := prev.rl; url.rl = old`
//	E5  mqtt: `counts := []int{1, byteNum}` local, policy/l locals inlined
//	E6  fix variant: nil guard placed after the two comparisons, right before the carry-over
//	E7  fix variant: `prev.rl = nil` removed instead of adding a guard
//	E9  filter Handle: timer+select replaced by time.Sleep(d)
//	E10 util acquirePermission: `switch rl.state { case StateDisabled: return true, 0 }`
//
// Genuine defect found (left violated on the unchanged tree, demo + fix in /tmp/vw/C09/out):
//
//	R-C09-3 |carried limiter is live — reload moves prev.rl to the new rule and sets prev.rl = nil
//	without testing prev.rl != nil: a spec listing the same URL rule twice panics on reload
//	(nil dereference in setStateListenerForURL → RateLimiter.SetStateListener).

import (
	"go/ast"
	"go/token"
	"go/types"

	"golang.org/x/tools/go/packages"

	"verif/internal/core"
	"verif/internal/flow"
)

const (
	c09lib = "pkg/util/ratelimiter"
	c09flt = "pkg/filters/ratelimiter"

	c09infeasible = "ev:infeasible"
)

func init() { Registry["C09"] = c09 }

func c09(c *core.Ctx) string {
	c.Rule("R-C09-1", "atomic read-modify-write: cycle, tokens, startTime, state of RateLimiter / MultiRateLimiter are read and written only with the instance lock held (helpers: at every call site); in the acquire functions no reject exit has reserved tokens and every permit exit has (unless the limiter is disabled)")
	c.Rule("R-C09-2", "filter Handle decision table: the limiter of a URL rule is charged only after that rule's Match returned true and at most once per request; rejected ⇒ 429 on the output response + result rateLimited; permitted ⇒ empty result and the imposed wait is served unless it is <= 0; no rule matched ⇒ empty result")
	c.Rule("R-C09-3", "filter reload carry-over: a limiter is taken from the previous generation only where URLRule.DeepEqual and the policy comparison hold, whenever they hold it is taken, the carried limiter is live (non-nil), no new limiter is created after a carry-over, and every URL rule ends with a carried or a new limiter")
	c.Rule("R-C09-4", "limiter wiring: RateLimiter.AcquirePermission charges 1 and AcquireNPermission(n) charges n; every MQTT limiter is built with timeout 0 (its wait is discarded), is configured with the rate of the unit it is charged in (1 per packet ↔ RequestRate, byteNum ↔ BytesRate, same order for the multi limiter), and Limiter.acquirePermission returns the verdict of the limiter it charged (true only when none is configured)")
	c.Rule("R-C09-5", "policy translation: the timeout handed to the limiter constructor by the filter is the value parsed from the configured timeoutDuration; a built-in constant stands in only on paths where the setting is empty (or did not parse) — an explicit zero timeout is a legal policy and is not replaced by the default")
	c.Rule("R-C09-7", "independent dimensions: in the acquire function of the multi-dimensional limiter no loop over the dimensions accumulates arithmetically (x += …, x = x + …, x++) into a scalar that lives across the iterations; dimensions are combined only by overwrite under a comparison (maximum wait), flags and early exits")
	c.NotDecided = []string{
		"headline clause: at most limitForPeriod releases per period and wait <= timeoutDuration (token/time arithmetic over arrival histories)",
		"value semantics of URLRule.Match, URLRule.DeepEqual and of the policy comparison",
		"the refresh-period argument of the MQTT policies (time.Duration arithmetic)",
		"that (cycle, tokens) are rebased consistently (arithmetic)",
		"schedules: lock discipline is checked, interleavings are not explored",
	}

	lim, fns := c09Locks(c)
	if lim != nil {
		c09Reserve(c, lim, fns)
		c09Dimensions(c, lim, fns)
	}
	c09Handle(c)
	c09Reload(c)
	c09Policy(c)
	c09Mqtt(c, lim, fns)
	c09DefaultRef(c)
	c09Equality(c)
	c09Clamp(c)
	return "Structural necessary conditions of the rate limiter: lock discipline and reject-before-reserve typestate of the two limiter types (path-sensitive, all paths), the complete decision table of the filter's Handle (match → single acquire → 429/rateLimited | wait | pass), the carry-over logic of reload (all paths of the nested loops) and the unit/timeout wiring of the MQTT limiters. Not decided: the token/time arithmetic (per-period release bound, wait bound), value semantics of Match/DeepEqual, interleavings."
}

// ---------------------------------------------------------------------------------------
// small helpers (prefixed c09)

func c09obj(f *flow.Func, id *ast.Ident) types.Object {
	if id == nil {
		return nil
	}
	if o := f.Info.Uses[id]; o != nil {
		return o
	}
	return f.Info.Defs[id]
}

// c09root strips parens, &, *, selectors and indexes and returns the root identifier.
func c09root(e ast.Expr) *ast.Ident {
	for e != nil {
		switch x := ast.Unparen(e).(type) {
		case *ast.Ident:
			return x
		case *ast.SelectorExpr:
			e = x.X
		case *ast.StarExpr:
			e = x.X
		case *ast.IndexExpr:
			e = x.X
		case *ast.SliceExpr:
			e = x.X
		case *ast.UnaryExpr:
			if x.Op != token.AND {
				return nil
			}
			e = x.X
		default:
			return nil
		}
	}
	return nil
}

// c09storeTarget strips parens, indexes, slices and derefs from an assignment target and
// returns the selector that is written through (nil if the target is not a field).
func c09storeTarget(e ast.Expr) *ast.SelectorExpr {
	for e != nil {
		switch x := ast.Unparen(e).(type) {
		case *ast.SelectorExpr:
			return x
		case *ast.IndexExpr:
			e = x.X
		case *ast.SliceExpr:
			e = x.X
		case *ast.StarExpr:
			e = x.X
		default:
			return nil
		}
	}
	return nil
}

// c09fieldOf returns the struct field a selector expression denotes (nil otherwise).
func c09fieldOf(f *flow.Func, e ast.Expr) *types.Var {
	sel, ok := ast.Unparen(e).(*ast.SelectorExpr)
	if !ok {
		return nil
	}
	if s := f.Info.Selections[sel]; s != nil {
		if v, ok := s.Obj().(*types.Var); ok && v.IsField() {
			return v
		}
	}
	return nil
}

// c09resolve follows local variables that are defined exactly once in the function (x := r)
// to their defining expression (at most 4 steps), so that extracting a local does not change
// what a rule sees.
func c09resolve(f *flow.Func, e ast.Expr) ast.Expr {
	for depth := 0; depth < 4; depth++ {
		id, ok := ast.Unparen(e).(*ast.Ident)
		if !ok {
			return ast.Unparen(e)
		}
		rhs := c09singleDef(f, c09obj(f, id))
		if rhs == nil {
			return id
		}
		e = rhs
	}
	return ast.Unparen(e)
}

// c09singleDef returns the defining expression of a local variable that is assigned exactly once
// in f (x := r, var x = r) and never has its address taken; nil otherwise.
func c09singleDef(f *flow.Func, o types.Object) ast.Expr {
	obj, ok := o.(*types.Var)
	if !ok || obj.IsField() || obj.Pkg() == nil || obj.Parent() == obj.Pkg().Scope() {
		return nil
	}
	var rhs ast.Expr
	n := 0
	isObj := func(x ast.Expr) bool {
		xid, ok := ast.Unparen(x).(*ast.Ident)
		return ok && c09obj(f, xid) == obj
	}
	ast.Inspect(f.Body, func(x ast.Node) bool {
		switch s := x.(type) {
		case *ast.AssignStmt:
			for i, l := range s.Lhs {
				if isObj(l) {
					n++
					if len(s.Lhs) == len(s.Rhs) && (s.Tok == token.DEFINE || s.Tok == token.ASSIGN) {
						rhs = s.Rhs[i]
					} else {
						n++
					}
				}
			}
		case *ast.ValueSpec:
			for i, nm := range s.Names {
				if c09obj(f, nm) == obj {
					n++
					if i < len(s.Values) && len(s.Values) == len(s.Names) {
						rhs = s.Values[i]
					} else {
						n++
					}
				}
			}
		case *ast.IncDecStmt:
			if isObj(s.X) {
				n += 2
			}
		case *ast.RangeStmt:
			if (s.Key != nil && isObj(s.Key)) || (s.Value != nil && isObj(s.Value)) {
				n += 2
			}
		case *ast.UnaryExpr:
			if s.Op == token.AND && isObj(s.X) {
				n += 2
			}
		}
		return true
	})
	if n != 1 {
		return nil
	}
	return rhs
}

// c09tupleDef: the local is defined exactly once by a multi-valued call `a, b := h(..)`;
// returns the call and the position of the variable among the results.
func c09tupleDef(f *flow.Func, o types.Object) (*ast.CallExpr, int) {
	obj, ok := o.(*types.Var)
	if !ok || obj.IsField() || obj.Pkg() == nil || obj.Parent() == obj.Pkg().Scope() {
		return nil, -1
	}
	var call *ast.CallExpr
	idx, n := -1, 0
	isObj := func(x ast.Expr) bool {
		xid, ok := ast.Unparen(x).(*ast.Ident)
		return ok && c09obj(f, xid) == obj
	}
	ast.Inspect(f.Body, func(x ast.Node) bool {
		switch s := x.(type) {
		case *ast.AssignStmt:
			for i, l := range s.Lhs {
				if isObj(l) {
					n++
					if len(s.Rhs) == 1 && len(s.Lhs) > 1 {
						if c, ok := ast.Unparen(s.Rhs[0]).(*ast.CallExpr); ok {
							call, idx = c, i
						}
					}
				}
			}
		case *ast.ValueSpec:
			for _, nm := range s.Names {
				if c09obj(f, nm) == obj {
					n += 2
				}
			}
		case *ast.IncDecStmt:
			if isObj(s.X) {
				n += 2
			}
		case *ast.RangeStmt:
			if (s.Key != nil && isObj(s.Key)) || (s.Value != nil && isObj(s.Value)) {
				n += 2
			}
		case *ast.UnaryExpr:
			if s.Op == token.AND && isObj(s.X) {
				n += 2
			}
		}
		return true
	})
	if n != 1 || call == nil {
		return nil, -1
	}
	return call, idx
}

// c09soleSource: every assignment to the local is nil / a zero-value declaration or one and the
// same other variable (`var found *T; for .. { found = cand; break }`): whenever the local is
// non-nil it holds that variable's value. Returns that variable.
func c09soleSource(f *flow.Func, o types.Object) types.Object {
	obj, ok := o.(*types.Var)
	if !ok || obj.IsField() || obj.Pkg() == nil || obj.Parent() == obj.Pkg().Scope() {
		return nil
	}
	var src types.Object
	bad := false
	isObj := func(x ast.Expr) bool {
		xid, ok := ast.Unparen(x).(*ast.Ident)
		return ok && c09obj(f, xid) == obj
	}
	from := func(r ast.Expr) {
		if tv, ok := f.Info.Types[r]; ok && tv.IsNil() {
			return
		}
		id, ok := ast.Unparen(r).(*ast.Ident)
		if !ok {
			bad = true
			return
		}
		so, isVar := c09obj(f, id).(*types.Var)
		if !isVar || (src != nil && src != so) {
			bad = true
			return
		}
		src = so
	}
	ast.Inspect(f.Body, func(x ast.Node) bool {
		switch s := x.(type) {
		case *ast.AssignStmt:
			for i, l := range s.Lhs {
				if isObj(l) {
					if len(s.Lhs) == len(s.Rhs) && (s.Tok == token.ASSIGN || s.Tok == token.DEFINE) {
						from(s.Rhs[i])
					} else {
						bad = true
					}
				}
			}
		case *ast.ValueSpec:
			for i, nm := range s.Names {
				if c09obj(f, nm) == obj && len(s.Values) > 0 {
					if i < len(s.Values) && len(s.Values) == len(s.Names) {
						from(s.Values[i])
					} else {
						bad = true
					}
				}
			}
		case *ast.IncDecStmt:
			if isObj(s.X) {
				bad = true
			}
		case *ast.RangeStmt:
			if (s.Key != nil && isObj(s.Key)) || (s.Value != nil && isObj(s.Value)) {
				bad = true
			}
		case *ast.UnaryExpr:
			if s.Op == token.AND && isObj(s.X) {
				bad = true
			}
		}
		return true
	})
	if bad {
		return nil
	}
	return src
}

// c09mentions reports whether expression e mentions one of the objects.
func c09mentions(f *flow.Func, e ast.Node, objs map[types.Object]bool) bool {
	found := false
	ast.Inspect(e, func(n ast.Node) bool {
		if id, ok := n.(*ast.Ident); ok {
			if o := c09obj(f, id); o != nil && objs[o] {
				found = true
			}
		}
		return !found
	})
	return found
}

// c09constIs reports whether e is a constant expression with the given exact rendering.
func c09constIs(f *flow.Func, e ast.Expr, exact string) bool {
	tv, ok := f.Info.Types[e]
	return ok && tv.Value != nil && tv.Value.ExactString() == exact
}

// c09params returns the parameter objects of f (without the receiver).
func c09params(f *flow.Func) []*types.Var {
	var out []*types.Var
	if f.Type == nil || f.Type.Params == nil {
		return nil
	}
	for _, fld := range f.Type.Params.List {
		for _, n := range fld.Names {
			if v, ok := f.Info.Defs[n].(*types.Var); ok {
				out = append(out, v)
			}
		}
	}
	return out
}

// c09recv returns the receiver variable of a method declaration (nil if unnamed / function).
func c09recv(f *flow.Func) types.Object {
	fd, ok := f.Node.(*ast.FuncDecl)
	if !ok || fd.Recv == nil || len(fd.Recv.List) != 1 || len(fd.Recv.List[0].Names) != 1 {
		return nil
	}
	return f.Info.Defs[fd.Recv.List[0].Names[0]]
}

// c09pkgFuncs lists the function declarations of a package.
func c09pkgFuncs(pkg *packages.Package) []*ast.FuncDecl {
	var out []*ast.FuncDecl
	for _, file := range pkg.Syntax {
		for _, d := range file.Decls {
			if fd, ok := d.(*ast.FuncDecl); ok && fd.Body != nil {
				out = append(out, fd)
			}
		}
	}
	return out
}

// c09reach returns the functions of pkg that satisfy seed directly or statically call (also
// from function literals) a function of the set — fixpoint over the package's call graph.
func c09reach(pkg *packages.Package, seed func(f *flow.Func) bool) map[*types.Func]bool {
	set := map[*types.Func]bool{}
	fds := c09pkgFuncs(pkg)
	fl := map[*ast.FuncDecl]*flow.Func{}
	for _, fd := range fds {
		fl[fd] = flow.NewFunc(pkg, fd)
		if o, ok := pkg.TypesInfo.Defs[fd.Name].(*types.Func); ok && seed(fl[fd]) {
			set[o] = true
		}
	}
	for changed := true; changed; {
		changed = false
		for _, fd := range fds {
			o, ok := pkg.TypesInfo.Defs[fd.Name].(*types.Func)
			if !ok || set[o] {
				continue
			}
			for _, call := range calls(fd.Body, true) {
				if callee, ok := fl[fd].Callee(call).(*types.Func); ok && set[callee] {
					set[o] = true
					changed = true
					break
				}
			}
		}
	}
	return set
}

// c09lastCommClauses returns, for every select statement without a default clause in body,
// its last communication clause: the cfg block "after" that clause stands for "no case was
// taken", which cannot happen — states entering it are infeasible.
func c09lastCommClauses(body ast.Node) map[ast.Stmt]bool {
	out := map[ast.Stmt]bool{}
	ast.Inspect(body, func(n ast.Node) bool {
		sel, ok := n.(*ast.SelectStmt)
		if !ok {
			return true
		}
		var last ast.Stmt
		for _, cl := range sel.Body.List {
			cc := cl.(*ast.CommClause)
			if cc.Comm == nil {
				return true // has default
			}
			last = cc
		}
		if last != nil {
			out[last] = true
		}
		return true
	})
	return out
}

// c09boolResult classifies the i-th result of a return as constant/known bool.
func c09boolResult(f *flow.Func, ex *flow.Exit, i int) flow.Val {
	if ex.Return == nil || len(ex.Return.Results) <= i {
		return flow.Unknown
	}
	r := ast.Unparen(ex.Return.Results[i])
	if tv, ok := f.Info.Types[r]; ok && tv.Value != nil {
		switch tv.Value.ExactString() {
		case "true":
			return flow.True
		case "false":
			return flow.False
		}
		return flow.Unknown
	}
	if id, ok := r.(*ast.Ident); ok {
		return ex.State.Get(f.VarKey(id))
	}
	return flow.Unknown
}
