package rules

import (
	"go/ast"
	"go/constant"
	"go/token"
	"go/types"
	"strings"

	"golang.org/x/tools/go/cfg"

	"verif/internal/core"
	"verif/internal/flow"
)

// c09kindResults returns the result strings the filter kind declares (filters.Kind{Results: …}).
func c09kindResults(c *core.Ctx) map[string]bool {
	pkg := c.Prog.Pkg(c09flt)
	if pkg == nil {
		return nil
	}
	out := map[string]bool{}
	for _, file := range pkg.Syntax {
		ast.Inspect(file, func(n ast.Node) bool {
			cl, ok := n.(*ast.CompositeLit)
			if !ok {
				return true
			}
			tv, ok := pkg.TypesInfo.Types[cl]
			if !ok || tv.Type == nil {
				return true
			}
			nt, ok := tv.Type.(*types.Named)
			if !ok || nt.Obj().Pkg() == nil || nt.Obj().Pkg().Path() != Mod+"pkg/filters" || nt.Obj().Name() != "Kind" {
				return true
			}
			for _, el := range cl.Elts {
				kv, ok := el.(*ast.KeyValueExpr)
				if !ok {
					continue
				}
				if k, ok := kv.Key.(*ast.Ident); !ok || k.Name != "Results" {
					continue
				}
				if rl, ok := ast.Unparen(kv.Value).(*ast.CompositeLit); ok {
					for _, e := range rl.Elts {
						if v, ok := pkg.TypesInfo.Types[e]; ok && v.Value != nil && v.Value.Kind() == constant.String {
							out[constant.StringVal(v.Value)] = true
						}
					}
				}
			}
			return true
		})
	}
	return out
}

func c09timeCall(f *flow.Func, call *ast.CallExpr) string {
	if fo, ok := f.Callee(call).(*types.Func); ok && fo.Pkg() != nil && fo.Pkg().Path() == "time" && fo.Type().(*types.Signature).Recv() == nil {
		return fo.Name()
	}
	return ""
}

// c09Handle: R-C09-2.
func c09Handle(c *core.Ctx) {
	f := fn(c, c09flt, "RateLimiter", "Handle")
	rlF, _, _ := c09filterFields(c)
	if f == nil || rlF == nil {
		return
	}
	cons := fname(c09flt, "RateLimiter", "Handle")
	fs := reach(f, 3)
	x := c09indexOf(f.Pkg)
	acqNames := []string{"(*" + c09lib + ".RateLimiter).AcquirePermission", "(*" + c09lib + ".RateLimiter).AcquireNPermission"}
	var acqs []*ast.CallExpr
	inHelper := 0
	for _, g := range fs {
		for _, call := range calls(g.Body, false) {
			if c09calleeIs(g, call, acqNames...) {
				if g == f {
					acqs = append(acqs, call)
				} else {
					inHelper++
				}
			}
		}
	}
	if len(acqs) == 0 && inHelper > 0 {
		c.Undecide("R-C09-2", cons+"|single acquire site", pos(c, f.Body), "the limiter is charged inside a helper of Handle; the decision-table rule follows the verdict only within Handle itself")
		return
	}
	if !c.RequireCount("R-C09-2", "limiter acquire call sites in Handle", len(acqs), 1) {
		return
	}
	if len(acqs) != 1 {
		c.Undecide("R-C09-2", cons+"|single acquire site", pos(c, acqs[1]), "Handle has more than one acquire call site; the decision-table rule is written for one")
		return
	}
	a := acqs[0]
	results := c09kindResults(c)
	if len(results) == 0 {
		c.Errorf("R-C09-2: anchor: Results of the filter kind in %s not found", c09flt)
		return
	}
	pm := c09parents(fs)
	as, ok := pm[a].(*ast.AssignStmt)
	if !ok || len(as.Lhs) != 2 || len(as.Rhs) != 1 {
		c.Undecide("R-C09-2", cons+"|acquire results", pos(c, a), "the (permitted, wait) results of the acquire call are not assigned to two variables")
		return
	}
	permID, _ := as.Lhs[0].(*ast.Ident)
	dID, _ := as.Lhs[1].(*ast.Ident)
	if permID == nil || permID.Name == "_" {
		c.Violate("R-C09-2", cons+"|rejected ⇒ 429 + rateLimited", pos(c, as), "the verdict of the limiter is discarded: rejected requests are forwarded")
		return
	}
	permKey := f.VarKey(permID)
	var dObj types.Object
	posKey := "" // fact "0 < d"
	if dID != nil && dID.Name != "_" {
		dObj = c09obj(f, dID)
		posKey = "lt:0<" + f.Render(dID)
	}

	// the rule whose limiter is charged
	var uObj types.Object
	if _, recv := c09callee(f, a); recv != nil {
		r := c09resolve(f, recv)
		if c09fieldOf(f, r) == rlF {
			uObj = x.canonRoot(f, r)
		}
	}
	if uObj == nil {
		c.Undecide("R-C09-2", cons+"|acquire only for a matching rule", pos(c, a), "cannot identify the URL rule whose limiter is charged")
		return
	}
	var matches []*ast.CallExpr
	for _, g := range fs {
		for _, m := range calls(g.Body, false) {
			if !c09calleeIs(g, m, "(*pkg/util/urlrule.URLRule).Match") {
				continue
			}
			if _, recv := c09callee(g, m); recv != nil && x.canonRoot(g, recv) == uObj {
				matches = append(matches, m)
			}
		}
	}

	// the wait construct
	armed := map[*ast.CallExpr]bool{}
	sleeps := map[*ast.CallExpr]bool{}
	timers := map[types.Object]bool{}
	for _, g := range fs {
		if dObj == nil {
			break
		}
		for _, call := range calls(g.Body, false) {
			name := c09timeCall(g, call)
			if len(call.Args) != 1 {
				continue
			}
			// the imposed wait, also when it was handed to a helper as a parameter
			if id, ok := c09resolve(g, call.Args[0]).(*ast.Ident); !ok || x.canon(c09obj(g, id)) != x.canon(dObj) {
				continue
			}
			switch name {
			case "Sleep":
				sleeps[call] = true
			case "NewTimer", "After":
				armed[call] = true
				if tas, ok := pm[call].(*ast.AssignStmt); ok && len(tas.Lhs) == 1 && len(tas.Rhs) == 1 {
					if tid, ok := tas.Lhs[0].(*ast.Ident); ok {
						timers[c09obj(f, tid)] = true
					}
				}
			}
		}
	}
	blockingRecv := func(u *ast.UnaryExpr) (isWait, direct bool) {
		if u.Op != token.ARROW {
			return false, false
		}
		switch x := ast.Unparen(u.X).(type) {
		case *ast.CallExpr:
			if !armed[x] {
				return false, false
			}
			direct = true
		case *ast.SelectorExpr:
			id, ok := ast.Unparen(x.X).(*ast.Ident)
			if !ok || x.Sel.Name != "C" || !timers[c09obj(f, id)] {
				return false, false
			}
		case *ast.Ident:
			if !timers[c09obj(f, x)] { // ch := time.After(d)
				return false, false
			}
		default:
			return false, false
		}
		// a select with a default clause does not block
		for p := pm[u]; p != nil; p = pm[p] {
			if cc, ok := p.(*ast.CommClause); ok {
				if blk, ok := pm[cc].(*ast.BlockStmt); ok {
					if sel, ok := pm[blk].(*ast.SelectStmt); ok {
						for _, cl := range sel.Body.List {
							if cl.(*ast.CommClause).Comm == nil {
								return false, false
							}
						}
					}
				}
				break
			}
			if _, isStmt := p.(*ast.BlockStmt); isStmt {
				break
			}
		}
		return true, direct
	}
	lastComm := map[ast.Stmt]bool{}
	for _, g := range fs {
		for k := range c09lastCommClauses(g.Body) {
			lastComm[k] = true
		}
	}
	named := c09resultsOf(f)

	const (
		acquired = "ev:acquired"
		armedEv  = "ev:armed"
		waited   = "ev:waited"
	)
	res := analyze(c, f, flow.Config{
		Inline: inlineSamePkg(f),
		OnBlock: func(st *flow.State, b *cfg.Block) {
			if b.Kind == cfg.KindSelectAfterCase && lastComm[b.Stmt] {
				st.Set(c09infeasible, flow.True)
			}
		},
		OnCall: func(st *flow.State, call *ast.CallExpr, callee types.Object, deferred bool) {
			switch {
			case call == a:
				st.Set(acquired, flow.True)
			case armed[call]:
				st.Set(armedEv, flow.True)
			case sleeps[call]:
				st.Set(waited, flow.True)
			case calleeIs(f, call, "(*pkg/protocols/httpprot.Response).SetStatusCode"):
				if sel, ok := ast.Unparen(call.Fun).(*ast.SelectorExpr); ok && len(call.Args) == 1 {
					k := "ev:429:" + f.Render(c09resolve(f, sel.X))
					if c09constIs(f, call.Args[0], "429") {
						st.Set(k, flow.True)
					} else {
						st.Set(k, flow.False)
					}
				}
			case calleeIs(f, call, "(*pkg/context.Context).SetOutputResponse"):
				if len(call.Args) == 1 {
					st.Set("ev:out:"+f.Render(c09resolve(f, call.Args[0])), flow.True)
				}
			}
		},
		OnNode: func(st *flow.State, n ast.Node) {
			named.onNode(st, n)
			ast.Inspect(n, func(x ast.Node) bool {
				if _, isLit := x.(*ast.FuncLit); isLit {
					return false
				}
				if u, ok := x.(*ast.UnaryExpr); ok {
					if isWait, direct := blockingRecv(u); isWait && (direct || st.Is(armedEv, flow.True)) {
						st.Set(waited, flow.True)
					}
				}
				return true
			})
		},
	})
	if res == nil {
		return
	}

	// --- the limiter is charged only for a matching rule, at most once per request
	var unmatched, twice *flow.State
	n := 0
	for _, st := range res.At[a] {
		if st.Is(c09infeasible, flow.True) {
			continue
		}
		n++
		ok := false
		for _, m := range matches {
			if st.Is(f.CallKey(m), flow.True) {
				ok = true
			}
		}
		if !ok && unmatched == nil {
			unmatched = st
		}
		if st.Is(acquired, flow.True) && twice == nil {
			twice = st
		}
	}
	if n == 0 {
		c.Violate("R-C09-2", cons+"|acquire only for a matching rule", pos(c, a), "the limiter is never consulted (acquire call unreachable)")
	} else {
		c.Check(unmatched == nil, "R-C09-2", cons+"|acquire only for a matching rule", pos(c, a),
			sprintf("%d state(s) reach the acquire call, all with Match(request) = true for the same URL rule", n),
			"the limiter of a URL rule is charged although that rule's Match(request) has not returned true: requests to URLs that match no rule (or another rule) are limited", witness(unmatched)...)
		c.Check(twice == nil, "R-C09-2", cons+"|at most one acquire per request", pos(c, a),
			"no state reaches the acquire call after an earlier acquire (first matching rule only)",
			"after a limiter has admitted the request the rule loop goes on and charges a second limiter: the request consumes permits of several rules and can be rejected by a later rule after having been admitted", witness(twice)...)
	}

	// --- decision table over the exits
	type verdict struct {
		ex  *flow.Exit
		why string
	}
	var badRej, badPerm, badWait, badNone *verdict
	nRej, nPerm, nNone := 0, 0, 0
	for _, ex := range res.Exits {
		st := ex.State
		if ex.Kind != flow.ExitReturn || st.Is(c09infeasible, flow.True) {
			continue
		}
		val, known := "", false
		if v, ok := named.constant(ex, 0); ok && v.Kind() == constant.String {
			val, known = constant.StringVal(v), true
		}
		if !known {
			c.Undecide("R-C09-2", cons+"|results are constants", pos(c, ex.At), "Handle returns a non-constant result")
			return
		}
		if !st.Is(acquired, flow.True) {
			nNone++
			if val != "" && badNone == nil {
				badNone = &verdict{ex, sprintf("result %q is returned although no limiter was consulted", val)}
			}
			continue
		}
		switch st.Get(permKey) {
		case flow.False:
			nRej++
			has429 := false
			for _, fact := range st.Facts() {
				if strings.HasPrefix(fact, "ev:429:") && strings.HasSuffix(fact, "=T") {
					r := strings.TrimSuffix(strings.TrimPrefix(fact, "ev:429:"), "=T")
					if st.Is("ev:out:"+r, flow.True) {
						has429 = true
					}
				}
			}
			switch {
			case badRej != nil:
			case val == "" || !results[val]:
				badRej = &verdict{ex, sprintf("a rejected request leaves Handle with result %q (not a declared result of the kind): the pipeline forwards it as if it had been admitted", val)}
			case !has429:
				badRej = &verdict{ex, "a rejected request is answered without status 429 being set on the response installed as output response"}
			}
		case flow.True:
			nPerm++
			if val != "" && badPerm == nil {
				badPerm = &verdict{ex, sprintf("an admitted request leaves Handle with the non-empty result %q", val)}
			}
			if !st.Is(waited, flow.True) && !(posKey != "" && st.Is(posKey, flow.False)) && badWait == nil {
				badWait = &verdict{ex, "an admitted request proceeds without serving the wait the limiter imposed (no blocking wait for d on this path and d <= 0 not established): requests reserved for a later period are released in the current one"}
			}
		default:
			if badRej == nil {
				badRej = &verdict{ex, "Handle returns after consulting the limiter without having tested its verdict: a rejected request is forwarded"}
			}
			nRej++
		}
	}
	w := func(v *verdict) []string {
		if v == nil {
			return nil
		}
		return append([]string{"exit at " + pos(c, v.ex.At)}, witness(v.ex.State)...)
	}
	why := func(v *verdict) string {
		if v == nil {
			return ""
		}
		return v.why
	}
	if nRej == 0 {
		c.Violate("R-C09-2", cons+"|rejected ⇒ 429 + rateLimited", pos(c, a), "no exit of Handle handles a rejected request")
	} else {
		c.Check(badRej == nil, "R-C09-2", cons+"|rejected ⇒ 429 + rateLimited", pos(c, a),
			sprintf("%d rejecting exit(s): declared result, status 429 on the output response", nRej), why(badRej), w(badRej)...)
	}
	if nPerm == 0 {
		c.Violate("R-C09-2", cons+"|permitted ⇒ empty result", pos(c, a), "no exit of Handle admits a request")
	} else {
		c.Check(badPerm == nil, "R-C09-2", cons+"|permitted ⇒ empty result", pos(c, a),
			sprintf("%d admitting exit(s), all return \"\"", nPerm), why(badPerm), w(badPerm)...)
		c.Check(badWait == nil, "R-C09-2", cons+"|permitted with a wait ⇒ the wait is served", pos(c, a),
			sprintf("%d admitting exit(s): each blocked on a timer/sleep of the imposed wait or has d <= 0", nPerm), why(badWait), w(badWait)...)
	}
	if nNone == 0 {
		c.Violate("R-C09-2", cons+"|no rule matched ⇒ empty result", pos(c, f.Body), "Handle has no exit for requests that match no URL rule")
	} else {
		c.Check(badNone == nil, "R-C09-2", cons+"|no rule matched ⇒ empty result", pos(c, f.Body),
			sprintf("%d exit(s) without a limiter consulted, all return \"\"", nNone), why(badNone), w(badNone)...)
	}
}

// c09Reload: R-C09-3. The analysis runs on reload with its same-package helpers interpreted in
// place (flow inlining) and all constructs are looked up over the reach of reload, so that the
// loops, the comparison and the carry-over may live in helpers; variables are identified across
// helper boundaries by c09index.canon; loops over the rules may be range / index / three-clause.
func c09Reload(c *core.Ctx) {
	rlF, urlsF, specF := c09filterFields(c)
	pkg := c.Prog.Pkg(c09flt)
	if rlF == nil || urlsF == nil || specF == nil || pkg == nil {
		return
	}
	filterT := namedType(c, c09flt, "RateLimiter")
	if filterT == nil {
		return
	}
	isFilterPtr := func(t types.Type) bool {
		p, ok := t.(*types.Pointer)
		return ok && types.Identical(p.Elem(), filterT)
	}
	// role: the method of the filter that takes the previous generation (a *RateLimiter parameter)
	cands := funcsByRole(c, c09flt, func(g *flow.Func, fd *ast.FuncDecl) bool {
		if fd.Recv == nil || c09recv(g) == nil || !isFilterPtr(c09recv(g).Type()) {
			return false
		}
		for _, p := range c09params(g) {
			if isFilterPtr(p.Type()) {
				return true
			}
		}
		return false
	})
	// helpers that receive the previous generation from the entry point are not entry points
	x := c09indexOf(pkg)
	var entries []*flow.Func
	for _, g := range cands {
		fo, _ := pkg.TypesInfo.Defs[g.Node.(*ast.FuncDecl).Name].(*types.Func)
		calledByCand := false
		for _, s := range x.sites[fo] {
			for _, h := range cands {
				if s.g.Body == h.Body && h != g {
					calledByCand = true
				}
			}
		}
		if !calledByCand {
			entries = append(entries, g)
		}
	}
	if len(entries) != 1 {
		if f := fnOpt(c, c09flt, "RateLimiter", "reload"); f != nil {
			entries = []*flow.Func{f}
		}
	}
	if len(entries) != 1 {
		c.Errorf("R-C09-3: anchor: the filter method taking the previous generation was not found in %s (%d candidates)", c09flt, len(entries))
		return
	}
	f := entries[0]
	c.Count("functions_analysed", 1)
	fd0 := f.Node.(*ast.FuncDecl)
	cons := fname(c09flt, "RateLimiter", fd0.Name.Name)
	recvObj := c09recv(f)
	var prevObj types.Object
	for _, p := range c09params(f) {
		if isFilterPtr(p.Type()) {
			prevObj = p
		}
	}
	if recvObj == nil || prevObj == nil {
		c.Errorf("R-C09-3: anchor: receiver / previous-generation parameter of %s not found", cons)
		return
	}
	fs := reach(f, 3)
	owner := c09owner(fs)

	isNewCall := func(fl *flow.Func, e ast.Expr) bool {
		call, ok := ast.Unparen(e).(*ast.CallExpr)
		return ok && calleeIs(fl, call, c09lib+".New")
	}
	storesRL := func(fl *flow.Func, as *ast.AssignStmt) []int {
		var idx []int
		for i, l := range as.Lhs {
			if c09fieldOf(fl, l) == rlF {
				idx = append(idx, i)
			}
		}
		return idx
	}
	creators := c09reach(pkg, func(fl *flow.Func) bool {
		for _, call := range calls(fl.Body, true) {
			if calleeIs(fl, call, c09lib+".New") {
				return true
			}
		}
		return false
	})
	writers := c09reach(pkg, func(fl *flow.Func) bool {
		found := false
		ast.Inspect(fl.Body, func(n ast.Node) bool {
			if as, ok := n.(*ast.AssignStmt); ok && len(storesRL(fl, as)) > 0 {
				found = true
			}
			return !found
		})
		return found
	})
	// does any function of the package store nil into URLRule.rl (hand-over of ownership)?
	var nilStore ast.Node
	for _, fd := range c09pkgFuncs(pkg) {
		fl := flow.NewFunc(pkg, fd)
		ast.Inspect(fd.Body, func(n ast.Node) bool {
			if as, ok := n.(*ast.AssignStmt); ok && len(as.Lhs) == len(as.Rhs) {
				for _, i := range storesRL(fl, as) {
					if tv, ok := fl.Info.Types[as.Rhs[i]]; ok && tv.IsNil() && nilStore == nil {
						nilStore = as
					}
				}
			}
			return true
		})
	}

	// loops over URL rules (any spelling), in reload or its helpers
	var allLoops []*c09loop
	loopOf := map[ast.Stmt]*c09loop{}
	for _, g := range fs {
		ast.Inspect(g.Body, func(n ast.Node) bool {
			switch n.(type) {
			case *ast.RangeStmt, *ast.ForStmt:
				if l := c09loopOf(g, n.(ast.Stmt)); l != nil {
					allLoops = append(allLoops, l)
					loopOf[l.stmt] = l
				}
			}
			return true
		})
	}
	isURLsOf := func(l *c09loop, gen types.Object) bool {
		return c09fieldOf(l.g, l.slice) == urlsF && x.canonRoot(l.g, l.slice) == gen
	}
	var outer []*c09loop
	for _, l := range allLoops {
		if isURLsOf(l, recvObj) {
			outer = append(outer, l)
		}
	}
	if !c.RequireCount("R-C09-3", "loops over the new generation's URL rules in reload", len(outer), 1) {
		return
	}
	// isNewRule: e denotes the current rule of a loop over the new generation
	isNewRule := func(g *flow.Func, e ast.Expr) bool {
		for _, l := range outer {
			if l.isElemExpr(g, x, e) {
				return true
			}
		}
		return false
	}

	// carry-over stores X.rl = Y.rl
	type carry struct {
		g        *flow.Func
		as       *ast.AssignStmt
		rhs      ast.Expr
		to, from types.Object // canonical
	}
	var carries []*carry
	carryAt := map[ast.Node]*carry{}
	createStore := map[ast.Node]bool{}
	for _, g := range fs {
		ast.Inspect(g.Body, func(n ast.Node) bool {
			as, ok := n.(*ast.AssignStmt)
			if !ok || len(as.Lhs) != len(as.Rhs) {
				return true
			}
			for _, i := range storesRL(g, as) {
				r := c09resolve(g, as.Rhs[i])
				switch {
				case c09fieldOf(g, r) == rlF:
					cr := &carry{g: g, as: as, rhs: as.Rhs[i], to: x.canonRoot(g, as.Lhs[i]), from: x.canonRoot(g, r)}
					carries = append(carries, cr)
					carryAt[as] = cr
				case isNewCall(g, r):
					createStore[as] = true
				default:
					// X.rl = h(..) with h a creating helper of the package (a constructor returning the limiter)
					if call, ok := r.(*ast.CallExpr); ok {
						if fo, ok := g.Callee(call).(*types.Func); ok && creators[fo] {
							createStore[as] = true
						}
					}
				}
			}
			return true
		})
	}
	if len(carries) == 0 {
		c.Violate("R-C09-3", cons+"|unchanged rule keeps its limiter state", pos(c, f.Body), "reload never takes a limiter over from the previous generation: every reload resets the accumulated reservations, so a burst straddling a reload is admitted twice")
		return
	}
	// guards
	type pairCall struct {
		g    *flow.Func
		call *ast.CallExpr
		a, b types.Object
	}
	var deepEq []pairCall
	for _, g := range fs {
		for _, call := range calls(g.Body, false) {
			if !c09calleeIs(g, call, "(*pkg/util/urlrule.URLRule).DeepEqual") || len(call.Args) != 1 {
				continue
			}
			if _, recv := c09callee(g, call); recv != nil {
				deepEq = append(deepEq, pairCall{g, call, x.canonRoot(g, recv), x.canonRoot(g, call.Args[0])})
			}
		}
	}
	type gcall struct {
		g    *flow.Func
		call *ast.CallExpr
	}
	var samePol []gcall
	var opaque []types.Object
	for _, g := range fs {
		for _, call := range calls(g.Body, false) {
			fo, ok := g.Callee(call).(*types.Func)
			if !ok || fo.Pkg() != pkg.Types {
				continue
			}
			sig := fo.Type().(*types.Signature)
			if sig.Results().Len() != 1 {
				continue
			}
			if b, ok := sig.Results().At(0).Type().Underlying().(*types.Basic); !ok || b.Kind() != types.Bool {
				continue
			}
			cur, prev := false, false
			operands := append([]ast.Expr{}, call.Args...)
			if sel, ok := ast.Unparen(call.Fun).(*ast.SelectorExpr); ok && sig.Recv() != nil {
				operands = append(operands, sel.X) // the comparison as a method of one of the specs
			}
			for _, arg := range operands {
				r := c09resolve(g, arg)
				if c09fieldOf(g, r) == specF {
					switch x.canonRoot(g, r) {
					case recvObj:
						cur = true
					case prevObj:
						prev = true
					}
				}
			}
			if cur && prev {
				samePol = append(samePol, gcall{g, call})
				opaque = append(opaque, fo)
			}
		}
	}
	for fo := range creators {
		opaque = append(opaque, fo)
	}
	// Only helpers that hold a construct of this rule are interpreted in place (the lookup of the
	// inheritable rule, the carry-over block); the others stay opaque calls. (Interpreting all of
	// them also works around an engine defect: the write-back of parameter facts at the exit of an
	// inlined call merges the parameter into the dependencies of the caller's own fact, which is
	// then killed at the next entry of any helper taking the same argument.)
	interesting := map[*ast.BlockStmt]bool{}
	for changed := true; changed; {
		changed = false
		for _, g := range fs {
			if g == f || interesting[g.Body] {
				continue
			}
			hit := false
			ast.Inspect(g.Body, func(n ast.Node) bool {
				switch t := n.(type) {
				case *ast.AssignStmt:
					if carryAt[t] != nil || createStore[t] {
						hit = true
					}
				case *ast.CallExpr:
					if c09calleeIs(g, t, "(*pkg/util/urlrule.URLRule).DeepEqual") {
						hit = true
					}
					for _, sp := range samePol {
						if sp.call == t {
							hit = true
						}
					}
					if fo, ok := g.Callee(t).(*types.Func); ok && fo.Pkg() == pkg.Types && !creators[fo] {
						if fd := declOf(pkg, fo); fd != nil && interesting[fd.Body] {
							hit = true
						}
					}
				case *ast.RangeStmt, *ast.ForStmt:
					if l := loopOf[t.(ast.Stmt)]; l != nil && c09fieldOf(l.g, l.slice) == urlsF {
						hit = true
					}
				}
				return !hit
			})
			if hit {
				interesting[g.Body] = true
				changed = true
			}
		}
	}
	for _, g := range fs {
		if g != f && !interesting[g.Body] {
			if fo, ok := pkg.TypesInfo.Defs[g.Node.(*ast.FuncDecl).Name].(*types.Func); ok {
				opaque = append(opaque, fo)
			}
		}
	}
	inner := map[ast.Stmt]*carry{}
	for _, cr := range carries {
		for _, l := range allLoops {
			if l.elem != nil && cr.from != nil && x.canon(l.elem) == cr.from {
				inner[l.stmt] = cr
			}
		}
	}
	guardsHold := func(st *flow.State, cr *carry) (deq, same bool) {
		for _, d := range deepEq {
			if d.a == nil || d.b == nil {
				continue
			}
			if ((d.a == cr.to && d.b == cr.from) || (d.a == cr.from && d.b == cr.to)) && st.Is(d.g.CallKey(d.call), flow.True) {
				deq = true
			}
		}
		for _, s := range samePol {
			if st.Is(s.g.CallKey(s.call), flow.True) {
				same = true
			}
		}
		return
	}

	const (
		inBody  = "ev:inbody"
		inInner = "ev:ininner"
		carried = "ev:carried"
		created = "ev:created"
		inited  = "ev:inited"
	)
	// URLRule.Init (compiles the regular expression, sets the id) must have run for every rule
	// of the new generation, in the carry-over branch as in the create branch
	const initFull = "(*pkg/util/urlrule.URLRule).Init"
	initers := c09reach(pkg, func(fl *flow.Func) bool {
		return len(callsTo(fl, fl.Body, true, initFull)) > 0
	})
	limiterLoop := map[ast.Stmt]bool{}
	auxIdx := map[ast.Stmt]int{}
	isOuter := map[ast.Stmt]*c09loop{}
	for _, l := range outer {
		isOuter[l.stmt] = l
		for _, cr := range carries {
			if contains(l.stmt, cr.as) {
				limiterLoop[l.stmt] = true
			}
		}
		for n := range createStore {
			if contains(l.stmt, n) {
				limiterLoop[l.stmt] = true
			}
		}
		for _, call := range calls(l.body, false) {
			if fo, ok := l.g.Callee(call).(*types.Func); ok && (creators[fo] || writers[fo]) {
				limiterLoop[l.stmt] = true
			}
		}
		if !limiterLoop[l.stmt] {
			auxIdx[l.stmt] = len(auxIdx)
		}
	}
	initsRule := func(call *ast.CallExpr, callee types.Object) bool {
		fo, ok := callee.(*types.Func)
		g := owner[call]
		if !ok || g == nil {
			return false
		}
		if c09calleeIs(g, call, initFull) {
			_, recv := c09callee(g, call)
			return recv != nil && isNewRule(g, recv)
		}
		if !initers[fo] {
			return false
		}
		for _, a := range call.Args {
			if isNewRule(g, a) {
				return true
			}
		}
		if sel, ok := ast.Unparen(call.Fun).(*ast.SelectorExpr); ok && isNewRule(g, sel.X) {
			return true
		}
		return false
	}
	type iterEnd struct {
		st     *flow.State
		loop   ast.Stmt
		inited bool
	}
	var limiterEnds []iterEnd
	auxBad := map[int]bool{}

	type bad struct {
		st  *flow.State
		at  ast.Node
		why string
	}
	var badGuard, badLive, badAfter, badEnd, badKeep *bad
	nCarry, nEnds, nInnerEnds := 0, 0, 0
	keepCheck := func(st *flow.State, at ast.Node) {
		for _, cr := range carries {
			deq, same := guardsHold(st, cr)
			// the lookup variable itself says "nothing found" (e.g. `if prev == nil { create }`)
			srcNil := false
			if id := c09root(cr.rhs); id != nil && st.Is(cr.g.NilKey(id), flow.True) {
				srcNil = true
			}
			if deq && same && !srcNil && !st.Is(carried, flow.True) && !st.Is(cr.g.NilKey(cr.rhs), flow.True) && badKeep == nil {
				badKeep = &bad{st, at, "the previous generation has an identical URL rule with an identical policy, yet its limiter is not taken over: reloading with an unchanged rule loses the accumulated reservations"}
			}
		}
	}
	res := analyze(c, f, flow.Config{
		Inline: inlineSamePkg(f, opaque...),
		Pure: func(call *ast.CallExpr, callee types.Object) bool {
			fo, ok := callee.(*types.Func)
			if !ok {
				return false
			}
			if r := fo.Type().(*types.Signature).Recv(); r != nil && types.IsInterface(r.Type()) {
				return false
			}
			if fo.Pkg() == pkg.Types {
				return !writers[fo]
			}
			return true // code of other packages cannot store the unexported field
		},
		OnBlock: func(st *flow.State, b *cfg.Block) {
			if l := isOuter[b.Stmt]; l != nil {
				i, isAux := auxIdx[b.Stmt]
				switch {
				case l.isBody(b):
					st.Set(inBody, flow.True)
					st.Set(carried, flow.False)
					st.Set(created, flow.False)
					st.Set(inited, flow.False)
				case l.isDone(b):
					if isAux {
						st.Set(sprintf("ev:auxdone:%d", i), flow.True)
					}
				case l.isIterEnd(b):
					if isAux {
						if st.Is(inBody, flow.True) && !st.Is(inited, flow.True) {
							auxBad[i] = true
						}
						st.Set(inBody, flow.Unknown)
						st.Set(inited, flow.Unknown)
						break
					}
					if st.Is(inBody, flow.True) {
						limiterEnds = append(limiterEnds, iterEnd{st, b.Stmt, st.Is(inited, flow.True)})
						nEnds++
						if !st.Is(carried, flow.True) && !st.Is(created, flow.True) && badEnd == nil {
							badEnd = &bad{st, b.Stmt, "an iteration over the new generation's URL rules ends with the rule having neither a carried-over nor a new limiter: Handle dereferences a nil limiter for that rule"}
						}
						// the rule was found unchanged (e.g. by a lookup helper) but got a new limiter
						keepCheck(st, b.Stmt)
					}
					st.Set(inBody, flow.Unknown)
					st.Set(carried, flow.Unknown)
					st.Set(created, flow.Unknown)
					st.Set(inited, flow.Unknown)
				}
			}
			if cr := inner[b.Stmt]; cr != nil {
				l := loopOf[b.Stmt]
				switch {
				case l.isBody(b):
					st.Set(inInner, flow.True)
				case l.isIterEnd(b):
					if st.Is(inInner, flow.True) {
						nInnerEnds++
						keepCheck(st, b.Stmt)
					}
					st.Set(inInner, flow.Unknown)
				}
			}
		},
		OnCall: func(st *flow.State, call *ast.CallExpr, callee types.Object, deferred bool) {
			if initsRule(call, callee) {
				st.Set(inited, flow.True)
			}
			if fo, ok := callee.(*types.Func); ok && creators[fo] {
				if st.Is(carried, flow.True) && badAfter == nil {
					badAfter = &bad{st, call, "a new limiter is created for a URL rule after the previous generation's limiter was carried over to it: the accumulated state is discarded on every reload"}
				}
				st.Set(created, flow.True)
			}
		},
		OnNode: func(st *flow.State, n ast.Node) {
			if createStore[n] {
				if st.Is(carried, flow.True) && badAfter == nil {
					badAfter = &bad{st, n, "a new limiter is stored into a URL rule after the previous generation's limiter was carried over to it"}
				}
				st.Set(created, flow.True)
			}
			cr := carryAt[n]
			if cr == nil {
				return
			}
			nCarry++
			deq, same := guardsHold(st, cr)
			if badGuard == nil {
				switch {
				case !deq:
					badGuard = &bad{st, n, "a limiter is carried over although URLRule.DeepEqual(new rule, previous rule) has not returned true: the new rule inherits reservations (and the policy baked into the limiter) of a different rule"}
				case !same:
					badGuard = &bad{st, n, "a limiter is carried over although the comparison of the two generations' policies has not returned true: the old limitForPeriod/period/timeout stay in force after the policy was changed"}
				case st.Is(created, flow.True):
					badGuard = &bad{st, n, "a limiter is carried over onto a rule that was already given a new limiter in this iteration"}
				}
			}
			if nilStore != nil && !st.Is(cr.g.NilKey(cr.rhs), flow.False) && badLive == nil {
				badLive = &bad{st, n, "reload moves the previous rule's limiter to the new rule and clears the source (" + pos(c, nilStore) + " stores nil), but the carry-over is not guarded by a test that the source limiter is still there: a second URL rule of the new spec that equals the same previous rule (the same rule listed twice) is handed a nil limiter and the reload panics with a nil dereference"}
			}
			st.Set(carried, flow.True)
		},
	})
	if res == nil {
		return
	}
	w := func(b *bad) []string {
		if b == nil {
			return nil
		}
		return witness(b.st)
	}
	why := func(b *bad) string {
		if b == nil {
			return ""
		}
		return b.why
	}
	at := func(b *bad, dflt ast.Node) string {
		if b == nil {
			return pos(c, dflt)
		}
		return pos(c, b.at)
	}
	first := carries[0].as
	if nCarry == 0 {
		c.Violate("R-C09-3", cons+"|unchanged rule keeps its limiter state", pos(c, first), "the carry-over assignment is unreachable")
		return
	}
	c.Check(badGuard == nil, "R-C09-3", cons+"|carry-over only for an unchanged rule and policy", at(badGuard, first),
		sprintf("%d state(s) reach the carry-over store, all with DeepEqual = true and the policy comparison = true", nCarry), why(badGuard), w(badGuard)...)
	c.Check(badLive == nil, "R-C09-3", cons+"|carried limiter is live", at(badLive, first),
		"the carried limiter is known non-nil at the carry-over store (or no nil is ever stored into URLRule.rl)", why(badLive), w(badLive)...)
	c.Check(badAfter == nil, "R-C09-3", cons+"|no new limiter after carry-over", at(badAfter, first),
		"no limiter creation is reachable in an iteration after the carry-over", why(badAfter), w(badAfter)...)
	if c.RequireCount("R-C09-3", "abstract iteration ends of the URL loops", nEnds, 1) {
		ok := badEnd == nil
		whyEnd := why(badEnd)
		var wEnd []string
		for s := range limiterLoop {
			l := isOuter[s]
			if ex := breaksOut(l.g, s, labelOf(l.g.Body, s)); len(ex) > 0 && ok {
				ok = false
				whyEnd = "the loop over the new generation's URL rules can be left early (" + pos(c, ex[0]) + "): the remaining rules get no limiter"
			}
		}
		if badEnd != nil {
			wEnd = w(badEnd)
		}
		c.Check(ok, "R-C09-3", cons+"|every URL rule ends with a limiter", at(badEnd, f.Body),
			sprintf("%d abstract iteration end(s): carried or created in each; loops are not left early", nEnds), whyEnd, wEnd...)
	}
	{
		var badInit *iterEnd
		for i := range limiterEnds {
			e := &limiterEnds[i]
			ok := e.inited
			for _, ai := range auxIdx {
				if !auxBad[ai] && e.st.Is(sprintf("ev:auxdone:%d", ai), flow.True) {
					ok = true // a separate loop over the new rules initialised all of them before
				}
			}
			if !ok && badInit == nil {
				badInit = e
			}
		}
		var wInit []string
		atInit := pos(c, f.Body)
		if badInit != nil {
			wInit, atInit = witness(badInit.st), pos(c, badInit.loop)
		}
		c.Check(badInit == nil, "R-C09-3", cons+"|every URL rule is initialised", atInit,
			sprintf("%d abstract iteration end(s): URLRule.Init has run for the rule in each (directly or inside the creating helper)", len(limiterEnds)),
			"an iteration over the new generation's URL rules ends without URLRule.Init having run for the rule on this path: its regular expression is never compiled and its id never set, so after the reload a `regex` rule matches nothing and its requests bypass the limiter altogether", wInit...)
	}
	if len(inner) == 0 {
		c.Undecide("R-C09-3", cons+"|unchanged rule keeps its limiter state", pos(c, first), "the carry-over store is not fed from a loop over the previous generation's rules that the rule can identify")
		return
	}
	if c.RequireCount("R-C09-3", "abstract iteration ends of the previous-generation loop", nInnerEnds, 1) {
		detail := sprintf("%d abstract iteration end(s) of the loop over previous rules and %d of the loop over new rules: none with DeepEqual ∧ same policy ∧ live limiter but no carry-over", nInnerEnds, nEnds)
		if len(res.Inlined) > 0 {
			detail += "; helpers interpreted in place: " + strings.Join(res.Inlined, ", ")
		}
		c.Check(badKeep == nil, "R-C09-3", cons+"|unchanged rule keeps its limiter state", at(badKeep, first), detail, why(badKeep), w(badKeep)...)
	}
}

// c09Policy: R-C09-5 — translation of the filter's policy into the limiter's policy. The
// property quantifies over all policies "including timeout = 0": an explicitly configured
// timeoutDuration (also a zero one: never queue) must reach librl.Policy.TimeoutDuration as
// parsed; a built-in default may stand in only when the setting is empty (or does not parse).
// Typestate of the value: parsed-from-the-setting / constant / other, followed through locals
// and the policy struct up to the limiter constructor.
func c09Policy(c *core.Ctx) {
	pkg := c.Prog.Pkg(c09flt)
	libTO := structField(c, c09lib, "Policy", "TimeoutDuration")
	specTO := structField(c, c09flt, "Policy", "TimeoutDuration")
	if pkg == nil || libTO == nil || specTO == nil {
		return
	}
	sinks := 0
	perFn := map[*ast.FuncDecl][]c09policySink{}
	var order []*ast.FuncDecl
	add := func(fd *ast.FuncDecl, s c09policySink) {
		if _, seen := perFn[fd]; !seen {
			order = append(order, fd)
		}
		perFn[fd] = append(perFn[fd], s)
	}
	for _, fd := range c09pkgFuncs(pkg) {
		f := flow.NewFunc(pkg, fd)
		for _, call := range calls(fd.Body, false) {
			if !calleeIs(f, call, c09lib+".New") || len(call.Args) != 1 {
				continue
			}
			sinks++
			// the policy may be built by a same-package helper (`librl.New(p.toLibPolicy())`):
			// then the helper's return statements are the points where the policy is complete
			if mk, ok := c09resolve(f, call.Args[0]).(*ast.CallExpr); ok {
				if fo, ok := f.Callee(mk).(*types.Func); ok && fo.Pkg() == pkg.Types {
					if hd := declOf(pkg, fo); hd != nil && fo.Type().(*types.Signature).Results().Len() == 1 {
						ast.Inspect(hd.Body, func(n ast.Node) bool {
							switch r := n.(type) {
							case *ast.FuncLit:
								return false
							case *ast.ReturnStmt:
								if len(r.Results) == 1 {
									add(hd, c09policySink{r, r.Results[0]})
								}
							}
							return true
						})
						continue
					}
				}
			}
			add(fd, c09policySink{call, call.Args[0]})
		}
	}
	for _, fd := range order {
		c.Count("functions_analysed", 1)
		c09policyFn(c, flow.NewFunc(pkg, fd), declName(pkg, fd), perFn[fd], libTO, specTO)
	}
	c.RequireCount("R-C09-5", "limiter constructor call sites in "+c09flt, sinks, 1)
}

// c09policySink is a point where the limiter's policy is complete: the constructor call (arg =
// its argument) or a return statement of a helper that builds the policy (arg = the result).
type c09policySink struct {
	at  ast.Node
	arg ast.Expr
}

func c09policyFn(c *core.Ctx, f *flow.Func, name string, news []c09policySink, libTO, specTO *types.Var) {
	cons := name + "|configured timeoutDuration reaches the limiter policy"
	isSpecStr := func(e ast.Expr) bool { return c09fieldOf(f, c09resolve(f, e)) == specTO }
	isDuration := func(e ast.Expr) bool {
		tv, ok := f.Info.Types[e]
		if ok && tv.Type != nil {
			return tv.Type.String() == "time.Duration"
		}
		if id, ok := e.(*ast.Ident); ok {
			if o := c09obj(f, id); o != nil {
				return o.Type().String() == "time.Duration"
			}
		}
		return false
	}
	isParse := func(e ast.Expr) (*ast.CallExpr, bool) {
		call, ok := ast.Unparen(e).(*ast.CallExpr)
		if !ok || len(call.Args) != 1 {
			return nil, false
		}
		fo, ok := f.Callee(call).(*types.Func)
		return call, ok && fo.Pkg() != nil && fo.Pkg().Path() == "time" && fo.Name() == "ParseDuration"
	}
	// facts "the setting is empty" / "the setting did not parse"
	emptyKeys := map[string]bool{}
	errKeys := map[string]bool{}
	ast.Inspect(f.Body, func(n ast.Node) bool {
		switch x := n.(type) {
		case *ast.Ident:
			if tv, ok := f.Info.Types[x]; ok && tv.Type != nil && isSpecStr(x) {
				emptyKeys["eq:"+f.Render(x)+`==""`] = true
			}
		case *ast.SelectorExpr:
			if c09fieldOf(f, x) == specTO {
				emptyKeys["eq:"+f.Render(x)+`==""`] = true
			}
		case *ast.AssignStmt:
			if len(x.Lhs) == 2 && len(x.Rhs) == 1 {
				if call, ok := isParse(x.Rhs[0]); ok && isSpecStr(call.Args[0]) {
					if id, ok := x.Lhs[1].(*ast.Ident); ok && id.Name != "_" {
						errKeys[f.NilKey(id)] = true
					}
				}
			}
		}
		return true
	})
	kKey := func(r string) string { return "ev:k:" + r } // T = parsed from the setting, F = constant
	oKey := func(r string) string { return "ev:o:" + r } // T = anything else was stored
	set := func(st *flow.State, target string, k, o flow.Val) {
		st.Set(kKey(target), k)
		st.Set(oKey(target), o)
	}
	var wrong *ast.CallExpr // a duration parsed from another setting flows towards the timeout
	classify := func(st *flow.State, r ast.Expr) (k, o flow.Val) {
		r = ast.Unparen(r)
		if tv, ok := f.Info.Types[r]; ok && tv.Value != nil {
			return flow.False, flow.False
		}
		if call, ok := isParse(r); ok {
			if isSpecStr(call.Args[0]) {
				return flow.True, flow.False
			}
			wrong = call
			return flow.Unknown, flow.Unknown
		}
		switch r.(type) {
		case *ast.Ident, *ast.SelectorExpr:
			k, o = st.Get(kKey(f.Render(r))), st.Get(oKey(f.Render(r)))
			if k == flow.Unknown && o == flow.Unknown {
				o = flow.True
			}
			return k, o
		}
		return flow.Unknown, flow.True
	}
	tracked := func(l ast.Expr) (string, bool) {
		l = ast.Unparen(l)
		if c09fieldOf(f, l) == libTO {
			return f.Render(l), true
		}
		if id, ok := l.(*ast.Ident); ok && id.Name != "_" && isDuration(id) {
			return f.Render(id), true
		}
		return "", false
	}
	// policy struct literal: P := librl.Policy{TimeoutDuration: v, ...}
	litInit := func(st *flow.State, l, r ast.Expr) bool {
		r = ast.Unparen(r)
		if u, ok := r.(*ast.UnaryExpr); ok && u.Op == token.AND {
			r = ast.Unparen(u.X)
		}
		cl, ok := r.(*ast.CompositeLit)
		if !ok {
			return false
		}
		tv, ok := f.Info.Types[cl]
		if !ok || tv.Type == nil {
			return false
		}
		stt, ok := tv.Type.Underlying().(*types.Struct)
		if !ok {
			return false
		}
		has := false
		for i := 0; i < stt.NumFields(); i++ {
			if stt.Field(i) == libTO {
				has = true
			}
		}
		id, isID := ast.Unparen(l).(*ast.Ident)
		if !has || !isID {
			return false
		}
		target := f.Render(id) + "." + libTO.Name()
		set(st, target, flow.Unknown, flow.Unknown) // zero value unless the literal sets it
		for _, el := range cl.Elts {
			if kv, ok := el.(*ast.KeyValueExpr); ok {
				if k, ok := kv.Key.(*ast.Ident); ok && f.Info.Uses[k] == libTO {
					kk, oo := classify(st, kv.Value)
					set(st, target, kk, oo)
				}
			}
		}
		return true
	}
	res := analyze(c, f, flow.Config{
		NoHavoc: true,
		OnNode: func(st *flow.State, n ast.Node) {
			var lhs, rhs []ast.Expr
			tok := token.ASSIGN
			switch s := n.(type) {
			case *ast.AssignStmt:
				lhs, rhs, tok = s.Lhs, s.Rhs, s.Tok
			case *ast.ValueSpec:
				for _, nm := range s.Names {
					lhs = append(lhs, nm)
				}
				rhs, tok = s.Values, token.DEFINE
			case *ast.IncDecStmt:
				if t, ok := tracked(s.X); ok {
					set(st, t, flow.Unknown, flow.True)
				}
				return
			default:
				return
			}
			switch {
			case len(rhs) == 1 && len(lhs) == 2:
				if t, ok := tracked(lhs[0]); ok {
					k, o := classify(st, rhs[0])
					set(st, t, k, o)
				}
			case len(lhs) == len(rhs):
				type upd struct {
					t    string
					k, o flow.Val
				}
				var upds []upd
				for i := range lhs {
					if litInit(st, lhs[i], rhs[i]) {
						continue
					}
					t, ok := tracked(lhs[i])
					if !ok {
						continue
					}
					if tok != token.ASSIGN && tok != token.DEFINE {
						upds = append(upds, upd{t, flow.Unknown, flow.True})
						continue
					}
					k, o := classify(st, rhs[i])
					upds = append(upds, upd{t, k, o})
				}
				for _, u := range upds {
					set(st, u.t, u.k, u.o)
				}
			}
		},
	})
	if res == nil {
		return
	}
	if wrong != nil {
		c.Violate("R-C09-5", cons, pos(c, wrong), "the timeout of the limiter's policy is parsed from "+types.ExprString(wrong.Args[0])+", which is not the policy's timeoutDuration setting")
		return
	}
	for _, sk := range news {
		sink := sk.at
		arg := c09resolve(f, sk.arg)
		var bad, unset *flow.State
		why, undecided := "", ""
		n := 0
		for _, st := range res.At[sink] {
			n++
			var k, o flow.Val
			if mk, ok := arg.(*ast.CallExpr); ok && calleeIs(f, mk, c09lib+".NewPolicy") && len(mk.Args) == 3 {
				k, o = classify(st, mk.Args[0])
			} else if root := c09root(arg); root != nil {
				t := f.Render(root) + "." + libTO.Name()
				k, o = st.Get(kKey(t)), st.Get(oKey(t))
			} else {
				undecided = "cannot identify the policy handed to the limiter constructor"
				break
			}
			switch {
			case o == flow.True:
				undecided = "the timeout handed to the limiter is neither the parsed setting nor a constant; the rule needs review"
			case k == flow.True:
			case k == flow.False:
				ok := false
				for key := range emptyKeys {
					if st.Is(key, flow.True) {
						ok = true
					}
				}
				for key := range errKeys {
					if st.Is(key, flow.False) {
						ok = true
					}
				}
				if !ok && bad == nil {
					bad, why = st, "a built-in constant replaces the configured timeoutDuration on a path where the setting is not known to be empty (or unparsable): an explicit `timeoutDuration: 0ms` (never queue) is silently turned into the default, so requests that must be rejected with 429 are admitted and queued into future periods and admitted requests wait although the policy says they never do"
				}
			default:
				if unset == nil {
					unset = st
				}
			}
		}
		if bad == nil && unset != nil {
			bad, why = unset, "no value derived from the configured timeoutDuration reaches the limiter's policy on this path (the policy keeps the zero timeout whatever is configured)"
		}
		switch {
		case undecided != "":
			c.Undecide("R-C09-5", cons, pos(c, sink), undecided)
		case n == 0:
			c.Discharge("R-C09-5", cons, pos(c, sink), "constructor call unreachable")
		default:
			c.Check(bad == nil, "R-C09-5", cons, pos(c, sink),
				sprintf("%d state(s) reach the limiter constructor: the timeout is the parsed setting, or a constant chosen while the setting is empty", n), why, witness(bad)...)
		}
	}
}
