package rules

import (
	"go/ast"
	"go/types"
	"sort"

	"golang.org/x/tools/go/cfg"

	"verif/internal/flow"
)

// R-C15-1 / R-C15-2: the fan-out. The subject is every call of Session.publish (delivery to one
// subscriber): it must sit — in its own function or up the chain of its same-package callers — in
// a range loop over the map returned by findSubscribers; the loop has no early exit, and, with the
// helpers between loop and publish interpreted in place, an iteration publishes iff
// subscription QoS >= message QoS and the client is connected.

// c15frame is one function on the way from the delivery loop down to the publish call.
type c15frame struct {
	fn *flow.Func
	at *ast.CallExpr // the call inside fn leading to publish (or publish itself)
}

func c15FanOut(e *c15env) {
	c := e.c
	if e.publish == nil {
		return
	}
	sites := e.sites[e.obj(e.publish)]
	if !c.RequireCount("R-C15-1", "call sites of Session.publish (delivery to one subscriber)", len(sites), 1) {
		return
	}
	for _, s := range sites {
		c15fanOutSite(e, s)
	}
}

func c15fanOutSite(e *c15env, site c15site) {
	c := e.c
	pub := site.call
	chain := []c15frame{{site.fn, site.call}}
	if c15enclosingLit(site.fn, pub) != nil {
		c.Undecide("R-C15-1", e.name(site.fn)+"|fan-out loop", pos(c, pub), "Session.publish is called from a function literal: the code of one iteration cannot be interpreted in place")
		return
	}
	var loopStmt ast.Stmt
	for {
		top := chain[len(chain)-1]
		if loops := enclosingLoops(top.fn.Body, top.at); len(loops) > 0 {
			loopStmt = loops[len(loops)-1]
			break
		}
		callers := e.sites[e.obj(top.fn)]
		if len(callers) == 0 || len(chain) > 3 {
			c.Violate("R-C15-1", e.name(top.fn)+"|fan-out loop", pos(c, top.at), "Session.publish is not called from a loop over the subscribers")
			return
		}
		if len(callers) > 1 {
			c.Undecide("R-C15-1", e.name(top.fn)+"|fan-out loop", pos(c, top.at), sprintf("the function delivering to one subscriber has %d call sites: cannot tell which loop is the fan-out", len(callers)))
			return
		}
		chain = append(chain, c15frame{callers[0].fn, callers[0].call})
	}
	k := len(chain) - 1
	L := chain[k].fn
	cons := e.name(L)
	loop, ok := loopStmt.(*ast.RangeStmt)
	if !ok {
		c.Undecide("R-C15-1", cons+"|fan-out loop", pos(c, pub), "innermost loop around publish is not a range statement")
		return
	}
	// the ranged value must be the map returned by findSubscribers
	fromSubs := func(g *flow.Func, x ast.Expr) bool {
		terms := e.trace(e.findSubs).origins(g, x)
		if len(terms) == 0 {
			return false
		}
		for _, t := range terms {
			call, ok := t.expr.(*ast.CallExpr)
			if !ok || t.idx != 0 {
				return false
			}
			if o, _ := c15callee(t.fn, call); o != e.obj(e.findSubs) {
				return false
			}
		}
		return true
	}
	if tv, ok := L.Info.Types[loop.X]; !ok || !fromSubs(L, loop.X) {
		c.Undecide("R-C15-1", cons+"|fan-out loop", pos(c, loop), "loop does not range over the result of findSubscribers")
		return
	} else if _, isMap := tv.Type.Underlying().(*types.Map); !isMap {
		c.Undecide("R-C15-1", cons+"|fan-out loop", pos(c, loop), "loop does not range over the subscriber map itself")
		return
	}

	// ---- R-C15-1: no early exit
	exits := breaksOut(L, loop, labelOf(L.Body, loop))
	for _, fr := range chain[:k] {
		// a return in a helper called from the loop body only ends the iteration; a panic ends the loop
		ast.Inspect(fr.fn.Body, func(n ast.Node) bool {
			if es, ok := n.(*ast.ExprStmt); ok {
				if call, ok := es.X.(*ast.CallExpr); ok {
					if b, ok := fr.fn.Callee(call).(*types.Builtin); ok && b.Name() == "panic" {
						exits = append(exits, es)
					}
				}
			}
			return true
		})
	}
	if len(exits) == 0 {
		c.Discharge("R-C15-1", cons+"|no early exit", pos(c, loop), "no return/break/goto/panic inside the subscriber loop")
	} else {
		for _, x := range exits {
			c.Violate("R-C15-1", cons+"|no early exit", pos(c, x),
				"a statement inside the loop over subscribers leaves the loop: one subscriber silently suppresses delivery to all subscribers visited after it (map order)")
		}
	}

	// ---- the code of one iteration: the loop body and the same-package functions it calls
	// (publish itself and getClient stay opaque: they are the events / the lookup)
	region := map[types.Object]*flow.Func{}
	var order []*flow.Func
	{
		frontier := []ast.Node{loop.Body}
		owner := []*flow.Func{L}
		for d := 0; d < 3 && len(frontier) > 0; d++ {
			var nf []ast.Node
			var no []*flow.Func
			for i, body := range frontier {
				g := owner[i]
				ast.Inspect(body, func(n ast.Node) bool {
					call, ok := n.(*ast.CallExpr)
					if !ok {
						return true
					}
					o, _ := c15callee(g, call)
					h := e.byObj[o]
					if h == nil || h == e.publish || h == e.getClient || region[o] != nil || h.Body == L.Body {
						return true
					}
					region[o] = h
					order = append(order, h)
					nf = append(nf, h.Body)
					no = append(no, h)
					return true
				})
			}
			frontier, owner = nf, no
		}
	}
	type piece struct {
		fn   *flow.Func
		body ast.Node
	}
	pieces := []piece{{L, loop.Body}}
	for _, h := range order {
		pieces = append(pieces, piece{h, h.Body})
	}

	// ---- terms: subscription QoS (S), message QoS (Q), client variables
	S := map[string]bool{}
	Q := map[string]bool{}
	if id, ok := loop.Value.(*ast.Ident); ok && id.Name != "_" {
		S[L.Render(id)] = true
	}
	for _, p := range pieces {
		ast.Inspect(p.body, func(n ast.Node) bool {
			as, ok := n.(*ast.AssignStmt)
			if !ok || len(as.Rhs) != 1 || len(as.Lhs) == 0 {
				return true
			}
			ix, ok := ast.Unparen(as.Rhs[0]).(*ast.IndexExpr)
			if !ok || !fromSubs(p.fn, ix.X) {
				return true
			}
			if id, ok := as.Lhs[0].(*ast.Ident); ok && id.Name != "_" {
				S[p.fn.Render(id)] = true
			}
			return true
		})
	}
	// message QoS: the byte parameter of publish
	qi := -1
	if sig := e.sig(e.publish); sig != nil {
		for i := 0; i < sig.Params().Len(); i++ {
			if types.Identical(sig.Params().At(i).Type().Underlying(), types.Typ[types.Uint8]) {
				if qi >= 0 {
					qi = -2
					break
				}
				qi = i
			}
		}
	}
	stableTerm := func(x ast.Expr) bool {
		for {
			switch t := ast.Unparen(x).(type) {
			case *ast.Ident:
				return t.Name != "_"
			case *ast.SelectorExpr:
				x = t.X
			default:
				return false
			}
		}
	}
	if qi >= 0 && qi < len(pub.Args) && stableTerm(pub.Args[qi]) {
		arg := ast.Unparen(pub.Args[qi])
		Q[site.fn.Render(arg)] = true
		// upwards along the chain: a parameter of a helper is the argument at its call site
		for i := 0; i < k; i++ {
			id, ok := arg.(*ast.Ident)
			if !ok {
				break
			}
			o, ok := c15objOf(chain[i].fn, id).(*types.Var)
			if !ok {
				break
			}
			pi, isRecv, isPar := e.paramIndex(o)
			up := chain[i+1].at
			if !isPar || isRecv || pi >= len(up.Args) || !stableTerm(up.Args[pi]) {
				break
			}
			arg = ast.Unparen(up.Args[pi])
			Q[chain[i+1].fn.Render(arg)] = true
		}
	}
	if len(S) == 0 || len(Q) == 0 {
		c.Undecide("R-C15-2", cons+"|qos comparison", pos(c, loop), "cannot identify subscription QoS (range value) or message QoS (publish argument)")
		return
	}
	// downwards: a term passed as an argument is also known under the parameter's name
	for round := 0; round < 4; round++ {
		for _, p := range pieces {
			ast.Inspect(p.body, func(n ast.Node) bool {
				call, ok := n.(*ast.CallExpr)
				if !ok {
					return true
				}
				o, _ := c15callee(p.fn, call)
				h := region[o]
				if h == nil {
					return true
				}
				for i, a := range call.Args {
					if !stableTerm(a) {
						continue
					}
					r := p.fn.Render(ast.Unparen(a))
					pid := e.paramIdent(h, i)
					if pid == nil {
						continue
					}
					if S[r] {
						S[h.Render(pid)] = true
					}
					if Q[r] {
						Q[h.Render(pid)] = true
					}
				}
				return true
			})
		}
	}
	var ltKeys, nilKeys, okKeys []string
	for s := range S {
		for q := range Q {
			ltKeys = append(ltKeys, "lt:"+s+"<"+q)
		}
	}
	// "client not connected": a nil *Client / *Session variable of the iteration, or a failed
	// comma-ok lookup in the client table
	seenKey := map[string]bool{}
	for _, p := range pieces {
		ast.Inspect(p.fn.Body, func(n ast.Node) bool {
			switch x := n.(type) {
			case *ast.Ident:
				if v, ok := c15objOf(p.fn, x).(*types.Var); ok && !v.IsField() && (c15isNamed(v.Type(), e.clientT) || c15isNamed(v.Type(), e.sessT)) {
					if _, isPtr := v.Type().Underlying().(*types.Pointer); isPtr {
						if k := p.fn.NilKey(x); !seenKey[k] {
							seenKey[k] = true
							nilKeys = append(nilKeys, k)
						}
					}
				}
			case *ast.AssignStmt:
				if len(x.Lhs) == 2 && len(x.Rhs) == 1 {
					if ix, ok := ast.Unparen(x.Rhs[0]).(*ast.IndexExpr); ok && e.selects(ix.X, e.clientsF) {
						if id, ok := x.Lhs[1].(*ast.Ident); ok && id.Name != "_" {
							okKeys = append(okKeys, p.fn.VarKey(id))
						}
					}
				}
			}
			return true
		})
	}
	sort.Strings(ltKeys)
	lt := func(st *flow.State) flow.Val {
		for _, k := range ltKeys {
			if v := st.Get(k); v != flow.Unknown {
				return v
			}
		}
		return flow.Unknown
	}
	offline := func(st *flow.State) bool {
		for _, k := range nilKeys {
			if st.Is(k, flow.True) {
				return true
			}
		}
		for _, k := range okKeys {
			if st.Is(k, flow.False) {
				return true
			}
		}
		return false
	}
	forget := func(st *flow.State) {
		for _, k := range ltKeys {
			st.Set(k, flow.Unknown)
		}
		for _, k := range nilKeys {
			st.Set(k, flow.Unknown)
		}
		for _, k := range okKeys {
			st.Set(k, flow.Unknown)
		}
	}
	cache := map[*flow.Func]*flow.Func{}
	inline := func(call *ast.CallExpr, callee *types.Func) *flow.Func {
		h := region[callee.Origin()]
		if h == nil {
			return nil
		}
		if cache[h] == nil {
			cache[h] = h
		}
		return cache[h]
	}
	type bad struct {
		st  *flow.State
		why string
	}
	var bads []bad
	iterations := 0
	res := analyze(c, L, flow.Config{
		NoHavoc: true,
		Inline:  inline,
		OnBlock: func(st *flow.State, b *cfg.Block) {
			if b.Stmt != loop {
				return
			}
			switch b.Kind {
			case cfg.KindRangeBody:
				st.Set("ev:inbody", flow.True)
				st.Set("ev:published", flow.False)
				forget(st) // facts of an earlier iteration are dead
			case cfg.KindRangeLoop:
				if st.Is("ev:inbody", flow.True) {
					iterations++
					if !st.Is("ev:published", flow.True) && lt(st) != flow.True && !offline(st) {
						bads = append(bads, bad{st, "an iteration ends without publishing although subQoS >= qos and the client is connected"})
					}
				}
				st.Set("ev:inbody", flow.Unknown)
				st.Set("ev:published", flow.Unknown)
				forget(st)
			}
		},
		OnCall: func(st *flow.State, call *ast.CallExpr, callee types.Object, deferred bool) {
			if call == pub {
				st.Set("ev:published", flow.True)
			}
		},
	})
	if res == nil {
		return
	}
	for _, fr := range chain[:k] {
		if !c15inlined(res, fr.fn) {
			c.Undecide("R-C15-2", cons+"|publish guarded by subQoS>=qos", pos(c, chain[k].at),
				"the helper "+c15declName(fr.fn)+" on the way from the subscriber loop to publish is not called as a plain statement / assignment / condition (go, defer or nested call): its body cannot be interpreted in place")
			return
		}
	}
	c.RequireCount("R-C15-2", "abstract loop iterations explored", iterations, 1)
	inl := ""
	if len(res.Inlined) > 0 {
		inl = sprintf(" (interpreted in place: %v)", res.Inlined)
	}
	// publish only with subQoS >= qos established
	okPub := true
	n := 0
	for _, st := range res.At[pub] {
		n++
		if lt(st) != flow.False {
			okPub = false
			c.Violate("R-C15-2", cons+"|publish guarded by subQoS>=qos", pos(c, pub),
				"Session.publish is reachable without the test (subscription QoS < message QoS) having failed: fact "+ltKeys[0]+" is "+lt(st).String(), witness(st)...)
			break
		}
	}
	if n == 0 {
		c.Violate("R-C15-2", cons+"|publish guarded by subQoS>=qos", pos(c, pub), "Session.publish is unreachable in the subscriber loop")
	} else if okPub {
		c.Discharge("R-C15-2", cons+"|publish guarded by subQoS>=qos", pos(c, pub), sprintf("all %d abstract states reaching publish have (subscription QoS < message QoS) = F%s", n, inl))
	}
	if len(bads) == 0 {
		c.Discharge("R-C15-2", cons+"|skip only when subQoS<qos or client offline", pos(c, loop), sprintf("%d abstract iteration ends checked%s", iterations, inl))
	} else {
		c.Violate("R-C15-2", cons+"|skip only when subQoS<qos or client offline", pos(c, loop), bads[0].why, witness(bads[0].st)...)
	}
}
