package rules

import (
	"go/ast"
	"go/types"
	"sort"
	"strings"

	"golang.org/x/tools/go/cfg"

	"verif/internal/flow"
)

// R-C15-1 / R-C15-2: the fan-out. The subject is every call of Session.publish (delivery to one
// subscriber): it must sit — in its own function or up the chain of its same-package callers — in
// a range loop over the map returned by findSubscribers; the loop has no early exit, and, with the
// helpers between loop and publish interpreted in place, an iteration publishes iff
// subscription QoS >= message QoS and the client is connected.

// c15frame is one function on the way from the delivery loop down to the publish call.
type c15frame struct {
	fn *flow.Func
	at *ast.CallExpr // the call inside fn leading to publish (or publish itself)
}

func c15FanOut(e *c15env) {
	c := e.c
	if e.publish == nil {
		return
	}
	sites := e.sites[e.obj(e.publish)]
	if !c.RequireCount("R-C15-1", "call sites of Session.publish (delivery to one subscriber)", len(sites), 1) {
		return
	}
	for _, s := range sites {
		c15fanOutSite(e, s)
	}
}

func c15fanOutSite(e *c15env, site c15site) {
	c := e.c
	pub := site.call
	chain := []c15frame{{site.fn, site.call}}
	if c15enclosingLit(site.fn, pub) != nil {
		c.Undecide("R-C15-1", e.name(site.fn)+"|fan-out loop", pos(c, pub), "Session.publish is called from a function literal: the code of one iteration cannot be interpreted in place")
		return
	}
	var loopStmt ast.Stmt
	for {
		top := chain[len(chain)-1]
		if loops := enclosingLoops(top.fn.Body, top.at); len(loops) > 0 {
			loopStmt = loops[len(loops)-1]
			break
		}
		callers := e.sites[e.obj(top.fn)]
		if len(callers) == 0 || len(chain) > 3 {
			c.Violate("R-C15-1", e.name(top.fn)+"|fan-out loop", pos(c, top.at), "Session.publish is not called from a loop over the subscribers")
			return
		}
		if len(callers) > 1 {
			c.Undecide("R-C15-1", e.name(top.fn)+"|fan-out loop", pos(c, top.at), sprintf("the function delivering to one subscriber has %d call sites: cannot tell which loop is the fan-out", len(callers)))
			return
		}
		chain = append(chain, c15frame{callers[0].fn, callers[0].call})
	}
	k := len(chain) - 1
	L := chain[k].fn
	cons := e.name(L)
	loop, ok := loopStmt.(*ast.RangeStmt)
	if !ok {
		c.Undecide("R-C15-1", cons+"|fan-out loop", pos(c, pub), "innermost loop around publish is not a range statement")
		return
	}
	// the ranged value must be the map returned by findSubscribers
	fromSubs := func(g *flow.Func, x ast.Expr) bool {
		terms := e.trace(e.findSubs).origins(g, x)
		if len(terms) == 0 {
			return false
		}
		for _, t := range terms {
			call, ok := t.expr.(*ast.CallExpr)
			if !ok || t.idx != 0 {
				return false
			}
			if o, _ := c15callee(t.fn, call); o != e.obj(e.findSubs) {
				return false
			}
		}
		return true
	}
	if tv, ok := L.Info.Types[loop.X]; !ok || !fromSubs(L, loop.X) {
		c.Undecide("R-C15-1", cons+"|fan-out loop", pos(c, loop), "loop does not range over the result of findSubscribers")
		return
	} else if _, isMap := tv.Type.Underlying().(*types.Map); !isMap {
		c.Undecide("R-C15-1", cons+"|fan-out loop", pos(c, loop), "loop does not range over the subscriber map itself")
		return
	}

	// ---- R-C15-1: no early exit
	exits := breaksOut(L, loop, labelOf(L.Body, loop))
	for _, fr := range chain[:k] {
		// a return in a helper called from the loop body only ends the iteration; a panic ends the loop
		ast.Inspect(fr.fn.Body, func(n ast.Node) bool {
			if es, ok := n.(*ast.ExprStmt); ok {
				if call, ok := es.X.(*ast.CallExpr); ok {
					if b, ok := fr.fn.Callee(call).(*types.Builtin); ok && b.Name() == "panic" {
						exits = append(exits, es)
					}
				}
			}
			return true
		})
	}
	if len(exits) == 0 {
		c.Discharge("R-C15-1", cons+"|no early exit", pos(c, loop), "no return/break/goto/panic inside the subscriber loop")
	} else {
		for _, x := range exits {
			c.Violate("R-C15-1", cons+"|no early exit", pos(c, x),
				"a statement inside the loop over subscribers leaves the loop: one subscriber silently suppresses delivery to all subscribers visited after it (map order)")
		}
	}

	// ---- the code of one iteration: the loop body and the same-package functions it calls
	// (publish itself and getClient stay opaque: they are the events / the lookup)
	region := map[types.Object]*flow.Func{}
	var order []*flow.Func
	{
		frontier := []ast.Node{loop.Body}
		owner := []*flow.Func{L}
		for d := 0; d < 3 && len(frontier) > 0; d++ {
			var nf []ast.Node
			var no []*flow.Func
			for i, body := range frontier {
				g := owner[i]
				ast.Inspect(body, func(n ast.Node) bool {
					call, ok := n.(*ast.CallExpr)
					if !ok {
						return true
					}
					o, _ := c15callee(g, call)
					h := e.byObj[o]
					if h == nil || h == e.publish || h == e.getClient || region[o] != nil || h.Body == L.Body {
						return true
					}
					region[o] = h
					order = append(order, h)
					nf = append(nf, h.Body)
					no = append(no, h)
					return true
				})
			}
			frontier, owner = nf, no
		}
	}
	type piece struct {
		fn   *flow.Func
		body ast.Node
	}
	pieces := []piece{{L, loop.Body}}
	for _, h := range order {
		pieces = append(pieces, piece{h, h.Body})
	}

	// ---- terms: subscription QoS (S), message QoS (Q), client variables
	S := map[string]bool{}
	Q := map[string]bool{}
	if id, ok := loop.Value.(*ast.Ident); ok && id.Name != "_" {
		S[L.Render(id)] = true
	}
	for _, p := range pieces {
		ast.Inspect(p.body, func(n ast.Node) bool {
			as, ok := n.(*ast.AssignStmt)
			if !ok || len(as.Rhs) != 1 || len(as.Lhs) == 0 {
				return true
			}
			ix, ok := ast.Unparen(as.Rhs[0]).(*ast.IndexExpr)
			if !ok || !fromSubs(p.fn, ix.X) {
				return true
			}
			if id, ok := as.Lhs[0].(*ast.Ident); ok && id.Name != "_" {
				S[p.fn.Render(id)] = true
			}
			return true
		})
	}
	// message QoS: the byte argument of publish, or the byte field of a struct argument (a parameter
	// object carrying topic, payload and QoS) — then also the value that field was given
	stableTerm := func(x ast.Expr) bool {
		for {
			switch t := ast.Unparen(x).(type) {
			case *ast.Ident:
				return t.Name != "_"
			case *ast.SelectorExpr:
				x = t.X
			default:
				return false
			}
		}
	}
	isByte := func(t types.Type) bool { return t != nil && types.Identical(t.Underlying(), types.Typ[types.Uint8]) }
	looksQoS := func(name string) bool { return strings.Contains(strings.ToLower(name), "qos") }
	type qterm struct {
		frame  int      // index into chain: the function x belongs to
		x      ast.Expr // ident / selector chain
		suffix string   // field path appended to the rendering of x
		name   string   // parameter / field name (to decide between several byte values)
	}
	var qts []qterm
	psig := e.sig(e.publish)
	pargs := c15args(site.fn, pub)
	for ai, a := range pargs {
		tv, ok := site.fn.Info.Types[a]
		if !ok || tv.Type == nil {
			continue
		}
		if lit := litOf(a); lit != nil && e.transient(tv.Type) {
			// the parameter object is built in the call: the values its byte fields are given
			st := c15deref(tv.Type).Underlying().(*types.Struct)
			for fi := 0; fi < st.NumFields(); fi++ {
				if fld := st.Field(fi); isByte(fld.Type()) {
					if val := c15litField(site.fn, lit, fld); val != nil && stableTerm(val) {
						qts = append(qts, qterm{x: ast.Unparen(val), name: fld.Name()})
					}
				}
			}
			continue
		}
		if !stableTerm(a) {
			continue
		}
		pname := ""
		if psig != nil && ai < psig.Params().Len() {
			pname = psig.Params().At(ai).Name()
		}
		if isByte(tv.Type) {
			if sel, ok := ast.Unparen(a).(*ast.SelectorExpr); ok {
				pname = sel.Sel.Name
			}
			qts = append(qts, qterm{x: ast.Unparen(a), name: pname})
			continue
		}
		if !e.transient(tv.Type) {
			continue
		}
		st := c15deref(tv.Type).Underlying().(*types.Struct)
		for fi := 0; fi < st.NumFields(); fi++ {
			if fld := st.Field(fi); isByte(fld.Type()) {
				qts = append(qts, qterm{x: ast.Unparen(a), suffix: "." + fld.Name(), name: fld.Name()})
			}
		}
	}
	// several byte values travel to publish: the one called qos
	names := map[string]bool{}
	for _, q := range qts {
		names[q.name] = true
	}
	if len(names) > 1 {
		var keep []qterm
		names = map[string]bool{}
		for _, q := range qts {
			if looksQoS(q.name) {
				keep = append(keep, q)
				names[q.name] = true
			}
		}
		qts = keep
		if len(names) > 1 {
			qts = nil
		}
	}
	// follow each term: up the chain (a parameter / receiver of a helper is the operand at its call
	// site) and into the struct value it is a field of (the value the field was given where the struct
	// was built, or assigned later)
	for n := 0; n < len(qts) && n < 32; n++ {
		q := qts[n]
		g := chain[q.frame].fn
		Q[g.Render(q.x)+q.suffix] = true
		root := c15rootIdent(q.x)
		if root == nil {
			continue
		}
		o, ok := c15objOf(g, root).(*types.Var)
		if !ok {
			continue
		}
		if pi, isRecv, isPar := e.paramIndex(o); isPar {
			if q.frame+1 > k {
				continue
			}
			upf, upc := chain[q.frame+1].fn, chain[q.frame+1].at
			var arg ast.Expr
			if isRecv {
				_, arg = c15callee(upf, upc)
			} else if up := c15args(upf, upc); pi < len(up) {
				arg = up[pi]
			}
			if arg == nil || !stableTerm(arg) {
				continue
			}
			// p.a.b with p bound to arg: arg.a.b
			rest := strings.TrimPrefix(g.Render(q.x), g.Render(root))
			qts = append(qts, qterm{frame: q.frame + 1, x: ast.Unparen(arg), suffix: rest + q.suffix, name: q.name})
			continue
		}
		// holder.f with holder a local struct value
		var fname string
		switch x := q.x.(type) {
		case *ast.Ident:
			if strings.Count(q.suffix, ".") != 1 {
				continue
			}
			fname = q.suffix[1:]
		case *ast.SelectorExpr:
			if q.suffix != "" || ast.Unparen(x.X) != ast.Expr(root) {
				continue
			}
			fname = x.Sel.Name
		}
		if !e.transient(o.Type()) {
			continue
		}
		var fld *types.Var
		st := c15deref(o.Type()).Underlying().(*types.Struct)
		for fi := 0; fi < st.NumFields(); fi++ {
			if st.Field(fi).Name() == fname {
				fld = st.Field(fi)
			}
		}
		if fld == nil {
			continue
		}
		if defs := c15defs(g, o); len(defs) == 1 && defs[0].rhs != nil && defs[0].idx < 0 {
			if lit := litOf(defs[0].rhs); lit != nil {
				if val := c15litField(g, lit, fld); val != nil && stableTerm(val) {
					qts = append(qts, qterm{frame: q.frame, x: ast.Unparen(val), name: q.name})
				}
			}
		}
		ast.Inspect(g.Body, func(nd ast.Node) bool {
			if as, ok := nd.(*ast.AssignStmt); ok && len(as.Lhs) == len(as.Rhs) {
				for i, l := range as.Lhs {
					ls, ok := ast.Unparen(l).(*ast.SelectorExpr)
					if !ok || !e.selects(ls, fld) {
						continue
					}
					if id, ok := ast.Unparen(ls.X).(*ast.Ident); ok && c15objOf(g, id) == o && stableTerm(as.Rhs[i]) {
						qts = append(qts, qterm{frame: q.frame, x: ast.Unparen(as.Rhs[i]), name: q.name})
					}
				}
			}
			return true
		})
	}
	if len(S) == 0 || len(Q) == 0 {
		c.Undecide("R-C15-2", cons+"|qos comparison", pos(c, loop), "cannot identify subscription QoS (range value) or message QoS (publish argument)")
		return
	}
	// downwards: a term passed as an argument is also known under the parameter's name; a term stored in
	// a field of a local struct value (sub := subscription{id, subQoS}) is also known as that field
	for round := 0; round < 4; round++ {
		for _, p := range pieces {
			ast.Inspect(p.body, func(n ast.Node) bool {
				if as, ok := n.(*ast.AssignStmt); ok && len(as.Lhs) == len(as.Rhs) {
					for i, r := range as.Rhs {
						lit := litOf(r)
						id, isID := as.Lhs[i].(*ast.Ident)
						if lit == nil || !isID || id.Name == "_" {
							continue
						}
						tv, ok := p.fn.Info.Types[lit]
						if !ok || !e.transient(tv.Type) {
							continue
						}
						st := c15deref(tv.Type).Underlying().(*types.Struct)
						for fi := 0; fi < st.NumFields(); fi++ {
							val := c15litField(p.fn, lit, st.Field(fi))
							if val == nil || !stableTerm(val) {
								continue
							}
							r := p.fn.Render(ast.Unparen(val))
							for _, set := range []map[string]bool{S, Q} {
								if set[r] {
									set[p.fn.Render(id)+"."+st.Field(fi).Name()] = true
								}
							}
						}
					}
				}
				call, ok := n.(*ast.CallExpr)
				if !ok {
					return true
				}
				o, _ := c15callee(p.fn, call)
				h := region[o]
				if h == nil {
					return true
				}
				operands := append([]ast.Expr(nil), c15args(p.fn, call)...)
				if _, recv := c15callee(p.fn, call); recv != nil {
					operands = append(operands, recv) // last: the receiver
				}
				for i, a := range operands {
					if !stableTerm(a) {
						continue
					}
					r := p.fn.Render(ast.Unparen(a))
					pid := e.paramIdent(h, i)
					if i == len(operands)-1 && len(operands) > len(c15args(p.fn, call)) {
						pid = nil
						if fd, ok := h.Node.(*ast.FuncDecl); ok && fd.Recv != nil && len(fd.Recv.List) == 1 && len(fd.Recv.List[0].Names) == 1 {
							pid = fd.Recv.List[0].Names[0]
						}
					}
					if pid == nil {
						continue
					}
					pr := h.Render(pid)
					for _, set := range []map[string]bool{S, Q} {
						for t := range set {
							if t == r || strings.HasPrefix(t, r+".") {
								set[pr+t[len(r):]] = true
							}
						}
					}
				}
				return true
			})
		}
	}
	var ltKeys, nilKeys, okKeys []string
	for s := range S {
		for q := range Q {
			ltKeys = append(ltKeys, "lt:"+s+"<"+q)
		}
	}
	// "client not connected": a nil *Client / *Session variable of the iteration, or a failed
	// comma-ok lookup in the client table
	seenKey := map[string]bool{}
	for _, p := range pieces {
		ast.Inspect(p.fn.Body, func(n ast.Node) bool {
			switch x := n.(type) {
			case *ast.Ident:
				if v, ok := c15objOf(p.fn, x).(*types.Var); ok && !v.IsField() && (c15isNamed(v.Type(), e.clientT) || c15isNamed(v.Type(), e.sessT)) {
					if _, isPtr := v.Type().Underlying().(*types.Pointer); isPtr {
						if k := p.fn.NilKey(x); !seenKey[k] {
							seenKey[k] = true
							nilKeys = append(nilKeys, k)
						}
					}
				}
			case *ast.AssignStmt:
				if len(x.Lhs) == 2 && len(x.Rhs) == 1 {
					if key := e.clientLookup(p.fn, x.Rhs[0]); key != nil {
						if id, ok := x.Lhs[1].(*ast.Ident); ok && id.Name != "_" {
							okKeys = append(okKeys, p.fn.VarKey(id))
						}
					}
				}
			}
			return true
		})
	}
	sort.Strings(ltKeys)
	lt := func(st *flow.State) flow.Val {
		for _, k := range ltKeys {
			if v := st.Get(k); v != flow.Unknown {
				return v
			}
		}
		return flow.Unknown
	}
	offline := func(st *flow.State) bool {
		for _, k := range nilKeys {
			if st.Is(k, flow.True) {
				return true
			}
		}
		for _, k := range okKeys {
			if st.Is(k, flow.False) {
				return true
			}
		}
		return false
	}
	forget := func(st *flow.State) {
		for _, k := range ltKeys {
			st.Set(k, flow.Unknown)
		}
		for _, k := range nilKeys {
			st.Set(k, flow.Unknown)
		}
		for _, k := range okKeys {
			st.Set(k, flow.Unknown)
		}
	}
	cache := map[*flow.Func]*flow.Func{}
	inline := func(call *ast.CallExpr, callee *types.Func) *flow.Func {
		h := region[callee.Origin()]
		if h == nil {
			return nil
		}
		if cache[h] == nil {
			cache[h] = h
		}
		return cache[h]
	}
	// the session functions that hand a packet to the client's queue (publish and, when delivery is split by
	// QoS level, its siblings)
	deliverers := map[types.Object]bool{}
	for _, g := range e.methodsOf(e.sessT, func(g *flow.Func, sig *types.Signature) bool { return true }) {
		if g == e.doResend || g == e.bgResend {
			continue
		}
		for _, h := range e.reachSync(g, 2) {
			if e.writePacket != nil && h.Body == e.writePacket.Body {
				continue
			}
			ast.Inspect(h.Body, func(n ast.Node) bool {
				if snd, ok := n.(*ast.SendStmt); ok && e.selects(snd.Chan, e.writeChF) {
					deliverers[e.obj(g)] = true
				}
				return true
			})
		}
		if len(e.writesIn(e.reachSync(g, 2))) > 0 {
			deliverers[e.obj(g)] = true
		}
	}
	type bad struct {
		st  *flow.State
		why string
	}
	var bads []bad
	iterations := 0
	res := analyze(c, L, flow.Config{
		NoHavoc: true,
		Inline:  inline,
		OnBlock: func(st *flow.State, b *cfg.Block) {
			if b.Stmt != loop {
				return
			}
			switch b.Kind {
			case cfg.KindRangeBody:
				st.Set("ev:inbody", flow.True)
				st.Set("ev:published", flow.False)
				forget(st) // facts of an earlier iteration are dead
			case cfg.KindRangeLoop:
				if st.Is("ev:inbody", flow.True) {
					iterations++
					if !st.Is("ev:published", flow.True) && lt(st) != flow.True && !offline(st) {
						bads = append(bads, bad{st, "an iteration ends without publishing although subQoS >= qos and the client is connected"})
					}
				}
				st.Set("ev:inbody", flow.Unknown)
				st.Set("ev:published", flow.Unknown)
				forget(st)
			}
		},
		OnCall: func(st *flow.State, call *ast.CallExpr, callee types.Object, deferred bool) {
			if call == pub {
				st.Set("ev:published", flow.True)
				return
			}
			// delivery split over several session functions (one per QoS level): a call of any of them delivers
			if g := e.fnAt(call.Pos()); g != nil {
				if o, _ := c15callee(g, call); o != nil && deliverers[o] {
					st.Set("ev:published", flow.True)
				}
			}
		},
	})
	if res == nil {
		return
	}
	for _, fr := range chain[:k] {
		if !c15inlined(res, fr.fn) {
			c.Undecide("R-C15-2", cons+"|publish guarded by subQoS>=qos", pos(c, chain[k].at),
				"the helper "+c15declName(fr.fn)+" on the way from the subscriber loop to publish is not called as a plain statement / assignment / condition (go, defer or nested call): its body cannot be interpreted in place")
			return
		}
	}
	c.RequireCount("R-C15-2", "abstract loop iterations explored", iterations, 1)
	inl := ""
	if len(res.Inlined) > 0 {
		inl = sprintf(" (interpreted in place: %v)", res.Inlined)
	}
	// publish only with subQoS >= qos established
	okPub := true
	n := 0
	for _, st := range res.At[pub] {
		n++
		if lt(st) != flow.False {
			okPub = false
			c.Violate("R-C15-2", cons+"|publish guarded by subQoS>=qos", pos(c, pub),
				"Session.publish is reachable without the test (subscription QoS < message QoS) having failed: fact "+ltKeys[0]+" is "+lt(st).String(), witness(st)...)
			break
		}
	}
	if n == 0 {
		c.Violate("R-C15-2", cons+"|publish guarded by subQoS>=qos", pos(c, pub), "Session.publish is unreachable in the subscriber loop")
	} else if okPub {
		c.Discharge("R-C15-2", cons+"|publish guarded by subQoS>=qos", pos(c, pub), sprintf("all %d abstract states reaching publish have (subscription QoS < message QoS) = F%s", n, inl))
	}
	if len(bads) == 0 {
		c.Discharge("R-C15-2", cons+"|skip only when subQoS<qos or client offline", pos(c, loop), sprintf("%d abstract iteration ends checked%s", iterations, inl))
	} else {
		c.Violate("R-C15-2", cons+"|skip only when subQoS<qos or client offline", pos(c, loop), bads[0].why, witness(bads[0].st)...)
	}
}
