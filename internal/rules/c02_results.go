package rules

import (
	"go/ast"
	"go/constant"
	"go/token"
	"go/types"
	"sort"
	"strings"

	"golang.org/x/tools/go/packages"
	"golang.org/x/tools/go/ssa"
	"golang.org/x/tools/go/ssa/ssautil"

	"verif/internal/core"
	"verif/internal/load"
)

// R-C02-8: declared results, sibling rule over every registered filter kind.
//
// For every filters.Kind literal: the Handle method of the type its CreateInstance returns
// is sliced backwards (SSA) from its returns through phis, static calls into module
// functions (parameters are bound to the arguments of the call being followed), loads of
// struct fields (every store to that field in the module), captured/address-taken locals
// (every store, closures included) and package-level variables. Every string constant met
// is a possible result; values computed at run time are counted as dynamic sources and not
// compared. The slice is flow-insensitive (an over-approximation of the constants).

type c02Kind struct {
	pkg     *packages.Package
	lit     *ast.CompositeLit
	name    string
	results ast.Expr
	create  ast.Expr
	varObj  types.Object // package-level variable holding the literal
}

func c02Results(c *core.Ctx) {
	kindT := namedType(c, c02fl, "Kind")
	if kindT == nil {
		return
	}
	var kinds []*c02Kind
	byVar := map[types.Object]*c02Kind{}
	for _, p := range c.Prog.Module {
		for _, file := range p.Syntax {
			for _, dcl := range file.Decls {
				gd, ok := dcl.(*ast.GenDecl)
				var specs []ast.Spec
				if ok && gd.Tok == token.VAR {
					specs = gd.Specs
				}
				owner := map[*ast.CompositeLit]types.Object{}
				for _, s := range specs {
					vs := s.(*ast.ValueSpec)
					if len(vs.Names) == len(vs.Values) {
						for i, v := range vs.Values {
							v = ast.Unparen(v)
							if u, ok := v.(*ast.UnaryExpr); ok && u.Op == token.AND {
								v = ast.Unparen(u.X)
							}
							if cl, ok := v.(*ast.CompositeLit); ok {
								owner[cl] = p.TypesInfo.Defs[vs.Names[i]]
							}
						}
					}
				}
				ast.Inspect(dcl, func(n ast.Node) bool {
					cl, ok := n.(*ast.CompositeLit)
					if !ok {
						return true
					}
					tv := p.TypesInfo.Types[cl]
					if tv.Type == nil || !types.Identical(tv.Type, kindT) {
						return true
					}
					k := &c02Kind{pkg: p, lit: cl, varObj: owner[cl]}
					for _, el := range cl.Elts {
						kv, ok := el.(*ast.KeyValueExpr)
						if !ok {
							continue
						}
						key, _ := kv.Key.(*ast.Ident)
						if key == nil {
							continue
						}
						switch key.Name {
						case "Name":
							if v := p.TypesInfo.Types[kv.Value]; v.Value != nil && v.Value.Kind() == constant.String {
								k.name = constant.StringVal(v.Value)
							}
						case "Results":
							k.results = kv.Value
						case "CreateInstance":
							k.create = kv.Value
						}
					}
					kinds = append(kinds, k)
					if k.varObj != nil {
						byVar[k.varObj] = k
					}
					return true
				})
			}
		}
	}
	if !c.RequireCount("R-C02-8", "filters.Kind literals in production code", len(kinds), 20) {
		return
	}
	// every filters.Register argument is one of these literals
	regs := 0
	eachFunc(c, func(p *packages.Package, fd *ast.FuncDecl) {
		for _, call := range calls(fd.Body, true) {
			fo, ok := p.TypesInfo.Uses[calleeIdent(call)].(*types.Func)
			if !ok || fo.Pkg() == nil || fo.Pkg().Path() != Mod+c02fl || fo.Name() != "Register" || len(call.Args) != 1 {
				continue
			}
			regs++
			arg := ast.Unparen(call.Args[0])
			known := false
			if id, ok := arg.(*ast.Ident); ok && byVar[p.TypesInfo.Uses[id]] != nil {
				known = true
			}
			if u, ok := arg.(*ast.UnaryExpr); ok && u.Op == token.AND {
				if _, ok := ast.Unparen(u.X).(*ast.CompositeLit); ok {
					known = true // literal in place: collected above
				}
			}
			if !known {
				c.Undecide("R-C02-8", declName(p, fd)+"|registered kind is a literal", pos(c, call), "filters.Register is called with a value that is not a package-level filters.Kind literal; its Results cannot be read")
			}
		}
	})
	c.RequireCount("R-C02-8", "filters.Register call sites", regs, 20)

	prog, _ := c.Prog.SSA()
	sl := &c02Slicer{prog: prog}
	totalConst, totalDyn := 0, 0
	for _, k := range kinds {
		label := k.name
		if label == "" {
			label = "?"
		}
		cons := relPkg(k.pkg.PkgPath) + ".Kind(" + label + ")|constant results of Handle are declared"
		// declared results
		declared, closed, okDecl := c02EvalStrings(k.pkg, k.results)
		if !okDecl {
			c.Undecide("R-C02-8", cons, pos(c, k.lit), "cannot read the Results of this kind literal")
			continue
		}
		// Handle of the created type
		hf := c02HandleOf(k, prog)
		if hf == nil {
			c.Undecide("R-C02-8", cons, pos(c, k.lit), "cannot resolve the Handle method of the type created by CreateInstance")
			continue
		}
		c.Count("functions_analysed", 1)
		found := sl.run(hf)
		totalConst += len(found.consts)
		totalDyn += len(found.dynamic)
		if len(found.consts) == 0 && len(found.dynamic) == 0 {
			c.Undecide("R-C02-8", cons, pos(c, k.lit), "no result value of Handle could be traced")
			continue
		}
		var undeclared, open []string
		for _, v := range sortedKeys(found.consts) {
			if v == "" || declared[v] {
				continue
			}
			if closed {
				undeclared = append(undeclared, sprintf("%q (%s)", v, c.Prog.Rel(found.consts[v])))
			} else {
				open = append(open, v)
			}
		}
		var decl []string
		for v := range declared {
			decl = append(decl, v)
		}
		sort.Strings(decl)
		switch {
		case len(undeclared) > 0:
			c.Violate("R-C02-8", cons, pos(c, k.lit),
				"Handle of filter kind "+label+" can return "+strings.Join(undeclared, ", ")+", not listed in the kind's Results "+sprintf("%q", decl)+
					": validation rejects a jumpIf on an undeclared result, so this result can never be routed and always ends the pipeline")
		case len(open) > 0:
			c.Undecide("R-C02-8", cons, pos(c, k.lit), "Results is extended at run time and the constant result(s) "+strings.Join(open, ", ")+" are not in its initialiser")
		default:
			c.Discharge("R-C02-8", cons, pos(c, k.lit), sprintf("%d constant result(s) %q ⊆ {\"\"} ∪ Results %q; %d dynamic source(s) not compared", len(found.consts), sortedKeys(found.consts), decl, len(found.dynamic)))
		}
	}
	c.Count("R-C02-8:constant results traced", totalConst)
	c.Count("R-C02-8:dynamic result sources", totalDyn)
}

func calleeIdent(call *ast.CallExpr) *ast.Ident {
	switch f := ast.Unparen(call.Fun).(type) {
	case *ast.SelectorExpr:
		return f.Sel
	case *ast.Ident:
		return f
	}
	return nil
}

// c02EvalStrings evaluates a []string expression made of constants and package-level
// variables. closed=false when a variable involved is assigned elsewhere in its package.
func c02EvalStrings(p *packages.Package, e ast.Expr) (set map[string]bool, closed, ok bool) {
	set = map[string]bool{}
	closed, ok = true, true
	if e == nil {
		return set, true, true // no Results: nil slice
	}
	// package-level variable initialisers and reassignment
	initOf := func(o types.Object) ast.Expr {
		for _, file := range p.Syntax {
			for _, dcl := range file.Decls {
				gd, isGen := dcl.(*ast.GenDecl)
				if !isGen {
					continue
				}
				for _, s := range gd.Specs {
					vs, isVS := s.(*ast.ValueSpec)
					if !isVS || len(vs.Names) != len(vs.Values) {
						continue
					}
					for i, id := range vs.Names {
						if p.TypesInfo.Defs[id] == o {
							return vs.Values[i]
						}
					}
				}
			}
		}
		return nil
	}
	reassigned := func(o types.Object) bool {
		hit := false
		for _, file := range p.Syntax {
			ast.Inspect(file, func(n ast.Node) bool {
				switch x := n.(type) {
				case *ast.AssignStmt:
					for _, l := range x.Lhs {
						if id, isID := ast.Unparen(l).(*ast.Ident); isID && p.TypesInfo.Uses[id] == o {
							hit = true
						}
						if ix, isIx := ast.Unparen(l).(*ast.IndexExpr); isIx {
							if id, isID := ast.Unparen(ix.X).(*ast.Ident); isID && p.TypesInfo.Uses[id] == o {
								hit = true
							}
						}
					}
				case *ast.UnaryExpr:
					if id, isID := ast.Unparen(x.X).(*ast.Ident); isID && x.Op == token.AND && p.TypesInfo.Uses[id] == o {
						hit = true
					}
				}
				return true
			})
		}
		return hit
	}
	var str func(e ast.Expr, depth int)
	str = func(e ast.Expr, depth int) {
		if tv := p.TypesInfo.Types[e]; tv.Value != nil && tv.Value.Kind() == constant.String {
			set[constant.StringVal(tv.Value)] = true
			return
		}
		if id, isID := ast.Unparen(e).(*ast.Ident); isID && depth < 4 {
			if v, isVar := p.TypesInfo.Uses[id].(*types.Var); isVar && v.Parent() == p.Types.Scope() {
				if in := initOf(v); in != nil {
					if reassigned(v) {
						closed = false
					}
					str(in, depth+1)
					return
				}
			}
		}
		ok = false
	}
	var list func(e ast.Expr, depth int)
	list = func(e ast.Expr, depth int) {
		e = ast.Unparen(e)
		switch x := e.(type) {
		case *ast.CompositeLit:
			for _, el := range x.Elts {
				if _, isKV := el.(*ast.KeyValueExpr); isKV {
					ok = false
					continue
				}
				str(el, 0)
			}
		case *ast.Ident:
			if x.Name == "nil" {
				return
			}
			if v, isVar := p.TypesInfo.Uses[x].(*types.Var); isVar && v.Parent() == p.Types.Scope() && depth < 4 {
				if in := initOf(v); in != nil {
					if reassigned(v) {
						closed = false
					}
					list(in, depth+1)
					return
				}
			}
			ok = false
		default:
			ok = false
		}
	}
	list(e, 0)
	return set, closed, ok
}

// c02HandleOf resolves the SSA function of the Handle method of the type CreateInstance
// returns.
func c02HandleOf(k *c02Kind, prog *ssa.Program) *ssa.Function {
	var body *ast.BlockStmt
	switch x := ast.Unparen(k.create).(type) {
	case *ast.FuncLit:
		body = x.Body
	case *ast.Ident:
		if fo, ok := k.pkg.TypesInfo.Uses[x].(*types.Func); ok {
			for _, file := range k.pkg.Syntax {
				for _, dcl := range file.Decls {
					if fd, ok := dcl.(*ast.FuncDecl); ok && k.pkg.TypesInfo.Defs[fd.Name] == types.Object(fo) {
						body = fd.Body
					}
				}
			}
		}
	}
	if body == nil {
		return nil
	}
	var typ types.Type
	multiple := false
	ast.Inspect(body, func(n ast.Node) bool {
		switch x := n.(type) {
		case *ast.FuncLit:
			return false
		case *ast.ReturnStmt:
			if len(x.Results) == 1 {
				t := k.pkg.TypesInfo.Types[x.Results[0]].Type
				if t == nil || types.IsInterface(t) {
					multiple = true
				} else if typ != nil && !types.Identical(typ, t) {
					multiple = true
				} else {
					typ = t
				}
			}
		}
		return true
	})
	if typ == nil || multiple {
		return nil
	}
	sel := types.NewMethodSet(typ).Lookup(k.pkg.Types, "Handle")
	if sel == nil {
		return nil
	}
	fo, ok := sel.Obj().(*types.Func)
	if !ok {
		return nil
	}
	return prog.FuncValue(fo)
}

// ---- backward slicer over SSA

type c02Found struct {
	consts  map[string]token.Pos
	dynamic map[string]bool
}

type c02Frame struct {
	fn     *ssa.Function
	call   *ssa.Call
	parent *c02Frame
}

type c02Slicer struct {
	prog         *ssa.Program
	fieldStores  map[*types.Var][]*ssa.Store
	globalStores map[*ssa.Global][]*ssa.Store
	indexed      bool
	out          *c02Found
	seen         map[[2]any]bool
}

func (s *c02Slicer) index() {
	if s.indexed {
		return
	}
	s.indexed = true
	s.fieldStores = map[*types.Var][]*ssa.Store{}
	s.globalStores = map[*ssa.Global][]*ssa.Store{}
	for fn := range ssautil.AllFunctions(s.prog) {
		if fn.Pkg == nil || fn.Pkg.Pkg == nil || !strings.HasPrefix(fn.Pkg.Pkg.Path(), load.ModulePath) {
			if fn.Parent() == nil || fn.Blocks == nil {
				continue
			}
			// closures carry the package of their parent
		}
		if p := c02FnPkg(fn); p == nil || !strings.HasPrefix(p.Path(), load.ModulePath) {
			continue
		}
		for _, b := range fn.Blocks {
			for _, in := range b.Instrs {
				st, ok := in.(*ssa.Store)
				if !ok {
					continue
				}
				switch a := st.Addr.(type) {
				case *ssa.FieldAddr:
					if f := c02FieldOf(a.X.Type(), a.Field); f != nil {
						s.fieldStores[f] = append(s.fieldStores[f], st)
					}
				case *ssa.Global:
					s.globalStores[a] = append(s.globalStores[a], st)
				}
			}
		}
	}
}

func c02FnPkg(fn *ssa.Function) *types.Package {
	for fn != nil {
		if fn.Pkg != nil {
			return fn.Pkg.Pkg
		}
		if fn.Parent() == nil {
			if o := fn.Object(); o != nil {
				return o.Pkg()
			}
			// instantiation / wrapper
			if fn.Origin() != nil && fn.Origin() != fn {
				fn = fn.Origin()
				continue
			}
			return nil
		}
		fn = fn.Parent()
	}
	return nil
}

func c02FieldOf(t types.Type, i int) *types.Var {
	if p, ok := t.Underlying().(*types.Pointer); ok {
		t = p.Elem()
	}
	st, ok := t.Underlying().(*types.Struct)
	if !ok || i >= st.NumFields() {
		return nil
	}
	return st.Field(i)
}

func (s *c02Slicer) run(fn *ssa.Function) *c02Found {
	s.index()
	s.out = &c02Found{consts: map[string]token.Pos{}, dynamic: map[string]bool{}}
	s.seen = map[[2]any]bool{}
	s.returns(fn, 0, &c02Frame{fn: fn}, 0)
	return s.out
}

func (s *c02Slicer) returns(fn *ssa.Function, idx int, fr *c02Frame, depth int) {
	for _, b := range fn.Blocks {
		if len(b.Instrs) == 0 {
			continue
		}
		if ret, ok := b.Instrs[len(b.Instrs)-1].(*ssa.Return); ok && idx < len(ret.Results) {
			s.slice(ret.Results[idx], fr, depth, ret.Pos())
		}
	}
}

func (s *c02Slicer) dyn(what string) { s.out.dynamic[what] = true }

func isStringType(t types.Type) bool {
	b, ok := t.Underlying().(*types.Basic)
	return ok && b.Info()&types.IsString != 0
}

func (s *c02Slicer) slice(v ssa.Value, fr *c02Frame, depth int, at token.Pos) {
	if depth > 10 {
		s.dyn("slice depth exceeded")
		return
	}
	var callKey any
	if fr != nil {
		callKey = fr.call
	}
	k := [2]any{v, callKey}
	if _, isConst := v.(*ssa.Const); !isConst {
		if s.seen[k] {
			return
		}
		s.seen[k] = true
	}
	if in, ok := v.(ssa.Instruction); ok && in.Pos().IsValid() {
		at = in.Pos()
	}
	switch x := v.(type) {
	case *ssa.Const:
		if x.Value != nil && x.Value.Kind() == constant.String {
			val := constant.StringVal(x.Value)
			if _, dup := s.out.consts[val]; !dup {
				s.out.consts[val] = at
			}
		} else if x.Value == nil && isStringType(x.Type()) {
			s.out.consts[""] = at // zero value
		}
	case *ssa.Phi:
		for _, e := range x.Edges {
			s.slice(e, fr, depth, at)
		}
	case *ssa.Call:
		s.call(x, 0, fr, depth, at)
	case *ssa.Extract:
		if call, ok := x.Tuple.(*ssa.Call); ok {
			s.call(call, x.Index, fr, depth, at)
		} else {
			s.dyn("tuple element of " + x.Tuple.String())
		}
	case *ssa.Parameter:
		if fr != nil && fr.call != nil && fr.fn == x.Parent() {
			for i, p := range fr.fn.Params {
				if p == x && i < len(fr.call.Common().Args) {
					s.slice(fr.call.Common().Args[i], fr.parent, depth+1, at)
					return
				}
			}
		}
		s.dyn("parameter " + x.Name() + " of " + x.Parent().Name())
	case *ssa.ChangeType:
		s.slice(x.X, fr, depth, at)
	case *ssa.Convert:
		if isStringType(x.X.Type()) {
			s.slice(x.X, fr, depth, at)
		} else {
			s.dyn("conversion to string")
		}
	case *ssa.Field:
		s.field(c02FieldOf(x.X.Type(), x.Field), fr, depth, at)
	case *ssa.UnOp:
		if x.Op != token.MUL {
			s.dyn("operator " + x.Op.String())
			return
		}
		switch a := x.X.(type) {
		case *ssa.FieldAddr:
			s.field(c02FieldOf(a.X.Type(), a.Field), fr, depth, at)
		case *ssa.Alloc, *ssa.FreeVar:
			s.cell(a, fr, depth, at)
		case *ssa.Global:
			stores := s.globalStores[a]
			if len(stores) == 0 {
				s.dyn("package variable " + a.Name() + " without visible store")
			}
			for _, st := range stores {
				s.slice(st.Val, s.frameFor(st, fr), depth+1, st.Pos())
			}
		default:
			s.dyn("load through " + strings.TrimPrefix(sprintf("%T", a), "*ssa."))
		}
	default:
		s.dyn(strings.TrimPrefix(sprintf("%T", v), "*ssa."))
	}
}

func (s *c02Slicer) frameFor(in ssa.Instruction, fr *c02Frame) *c02Frame {
	if fr != nil && in.Parent() == fr.fn {
		return fr
	}
	return &c02Frame{fn: in.Parent()}
}

func (s *c02Slicer) call(call *ssa.Call, idx int, fr *c02Frame, depth int, at token.Pos) {
	callee := call.Common().StaticCallee()
	if callee == nil {
		if call.Common().IsInvoke() {
			s.dyn("interface method " + call.Common().Method.Name())
		} else {
			s.dyn("call of a function value")
		}
		return
	}
	p := c02FnPkg(callee)
	if p == nil || !strings.HasPrefix(p.Path(), load.ModulePath) || callee.Blocks == nil {
		name := callee.Name()
		if p != nil {
			name = p.Name() + "." + name
		}
		s.dyn("call of " + name)
		return
	}
	s.returns(callee, idx, &c02Frame{fn: callee, call: call, parent: fr}, depth+1)
}

func (s *c02Slicer) field(f *types.Var, fr *c02Frame, depth int, at token.Pos) {
	if f == nil {
		s.dyn("unknown field")
		return
	}
	stores := s.fieldStores[f]
	if f.Exported() || len(stores) == 0 {
		// may be filled by (un)marshalling or outside the module
		s.dyn("field " + f.Name())
	}
	for _, st := range stores {
		s.slice(st.Val, s.frameFor(st, fr), depth+1, st.Pos())
	}
}

// cell handles loads of a local cell (address-taken or captured variable).
func (s *c02Slicer) cell(a ssa.Value, fr *c02Frame, depth int, at token.Pos) {
	root := a
	for i := 0; i < 6; i++ {
		fv, ok := root.(*ssa.FreeVar)
		if !ok {
			break
		}
		fn := fv.Parent()
		parent := fn.Parent()
		var bound ssa.Value
		if parent != nil {
			for _, b := range parent.Blocks {
				for _, in := range b.Instrs {
					if mc, ok := in.(*ssa.MakeClosure); ok && mc.Fn == ssa.Value(fn) {
						for j, v := range fn.FreeVars {
							if v == fv && j < len(mc.Bindings) {
								bound = mc.Bindings[j]
							}
						}
					}
				}
			}
		}
		if bound == nil {
			s.dyn("captured variable " + fv.Name())
			return
		}
		root = bound
	}
	visited := map[ssa.Value]bool{}
	var collect func(cell ssa.Value)
	collect = func(cell ssa.Value) {
		if visited[cell] {
			return
		}
		visited[cell] = true
		refs := cell.Referrers()
		if refs == nil {
			s.dyn("cell without referrers")
			return
		}
		for _, in := range *refs {
			switch r := in.(type) {
			case *ssa.Store:
				if r.Addr == cell {
					s.slice(r.Val, s.frameFor(r, fr), depth+1, r.Pos())
				} else {
					s.dyn("address of local stored")
				}
			case *ssa.UnOp, *ssa.DebugRef:
			case *ssa.MakeClosure:
				fn := r.Fn.(*ssa.Function)
				for j, b := range r.Bindings {
					if b == cell && j < len(fn.FreeVars) {
						collect(fn.FreeVars[j])
					}
				}
			default:
				s.dyn("address of local escapes")
			}
		}
	}
	collect(root)
}
