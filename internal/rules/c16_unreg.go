package rules

// R-C16-3, extension to every un-registration (round 4): a `delete(Broker.clients, id)` outside
// the connection-teardown chain (the handler of the session-delete watch event, any future
// caller) removes whatever is registered under the id at that moment. It removes the entry the
// code has just dealt with - and not the registration of a connection that took the id over in
// between - only if the entry was looked up in the SAME critical section: at every state reaching
// the delete the broker lock is held continuously since a lookup of Broker.clients[...].
// A lookup through getClient() (own, already released read lock) or in an earlier critical section
// does not count. The delete may sit in a helper that its callers run under their lock: then the
// callers are analysed with the helper interpreted in place.

import (
	"go/ast"
	"go/types"

	"verif/internal/flow"
)

func (e *c16Env) isClientsDelete(f *flow.Func, call *ast.CallExpr) bool {
	return calleeFull(f, call) == "builtin.delete" && len(call.Args) == 2 && c16Sel(f, call.Args[0], e.clientsF)
}

// deleteStates analyses root (with the same-package helpers that look the registry up, lock or
// delete interpreted in place) and returns the states reaching the delete.
func (e *c16Env) deleteStates(root *flow.Func, del *ast.CallExpr) []*flow.State {
	res := analyze(e.c, root, flow.Config{
		NoHavoc:        true,
		InlineClosures: true,
		Inline: e.inlineWhere(root, func(g *flow.Func, n ast.Node) bool {
			switch x := n.(type) {
			case *ast.CallExpr:
				if e.isClientsDelete(g, x) {
					return true
				}
				if fo, ok := c16FnOK(g, x); ok && e.brokerLockCall(g, x, fo) != "" {
					return true
				}
			case *ast.IndexExpr:
				return c16Sel(g, x.X, e.clientsF)
			}
			return false
		}),
		OnNode: func(st *flow.State, n ast.Node) {
			if as, ok := n.(*ast.AssignStmt); ok && len(as.Rhs) == 1 && e.isClientsLookup(root, as.Rhs[0]) {
				if st.Is(c16Locked, flow.True) {
					st.Set(c16Fresh, flow.True)
				} else {
					st.Set(c16Fresh, flow.False)
				}
			}
		},
		OnCall: func(st *flow.State, call *ast.CallExpr, callee types.Object, deferred bool) {
			switch e.brokerLockCall(root, call, callee) {
			case "lock":
				st.Set(c16Locked, flow.True)
			case "unlock":
				st.Set(c16Locked, flow.False)
				st.Set(c16Fresh, flow.False)
			}
		},
	})
	if res == nil {
		return nil
	}
	return res.At[del]
}

func c16Unregistrations(e *c16Env, covered map[string]bool) {
	c := e.c
	var decls []*ast.FuncDecl
	for _, d := range e.decls {
		decls = append(decls, d)
	}
	sortDecls(decls)
	n := 0
	for _, d := range decls {
		f := funcOf(e.pkg, d)
		for _, call := range calls(d.Body, true) {
			if !e.isClientsDelete(f, call) {
				continue
			}
			n++
			cons := declName(e.pkg, d) + "|" + c16OpUnreg
			if covered[cons] {
				continue // decided on the teardown chain
			}
			// registry reads of the function; with more than one, identity between them is demanded
			var regIDs []*ast.Ident
			reads := 0
			ast.Inspect(d.Body, func(n ast.Node) bool {
				if as, ok := n.(*ast.AssignStmt); ok && len(as.Rhs) == 1 && e.isRegistryRead(f, as.Rhs[0]) {
					reads++
					if id, ok := as.Lhs[0].(*ast.Ident); ok && c16Obj(f, id) != nil {
						regIDs = append(regIDs, id)
					}
				}
				return true
			})
			idKeys := []string{}
			if reads > 1 {
				idKeys = append(idKeys, "ev:c16never") // identity demanded even if it cannot be expressed
			}
			if len(regIDs) > 1 {
				for i := range regIDs {
					for j := i + 1; j < len(regIDs); j++ {
						idKeys = c16AddKey(idKeys, f.EqKey(regIDs[i], regIDs[j]))
					}
				}
			}
			judge := func(states []*flow.State) (ok bool, bad *flow.State, why string) {
				if len(states) == 0 {
					return false, nil, ""
				}
				for _, st := range states {
					switch {
					case !st.Is(c16Locked, flow.True):
						return false, st, "the broker lock is not held at the delete"
					case !st.Is(c16Fresh, flow.True):
						return false, st, "the entry registered under the id was not looked up in the critical section that deletes it (a lookup through getClient() or before the lock was taken says nothing about what is registered now)"
					case len(idKeys) > 0:
						// the connection that was dealt with was read from the registry earlier: the entry
						// looked up now must be that very connection
						same := false
						for _, k := range idKeys {
							same = same || st.Is(k, flow.True)
						}
						if !same {
							return false, st, "the connection that was closed was read from the registry before this critical section, and the entry found now is not compared with it"
						}
					}
				}
				return true, nil, ""
			}
			ok, bad, why := judge(e.deleteStates(f, call))
			via := ""
			if !ok {
				// a helper run under its callers' lock: decide at the callers
				var callers []*flow.Func
				for _, d2 := range decls {
					if d2 == d {
						continue
					}
					g := funcOf(e.pkg, d2)
					if c16BodyCallsSync(g, func(c2 *ast.CallExpr) bool { return e.callTo(g, c2, f) }) {
						callers = append(callers, g)
					}
				}
				if len(callers) > 0 {
					all := true
					for _, g := range callers {
						ok2, bad2, why2 := judge(e.deleteStates(g, call))
						if !ok2 {
							all = false
							if bad2 != nil {
								bad, why = bad2, why2+" (on the path through "+e.fnameOf(g)+")"
							}
						}
					}
					if all {
						ok, via = true, " (decided at its callers, which hold the lock)"
					}
				}
			}
			if why == "" {
				why = "the delete is unreachable"
			}
			c.Check(ok, "R-C16-3", cons, pos(c, call),
				"every state reaching the delete holds the broker lock continuously since a lookup of Broker.clients"+via,
				"a registration is deleted from Broker.clients without the entry having been looked up in the same critical section: "+why+". If a new connection takes the client id over between the lookup and the delete, the delete removes the NEW connection's registration - it stays open but is unreachable for delivery ('an admin delete disconnects that client only')", witness(bad)...)
		}
	}
	c.RequireCount("R-C16-3", "deletes from Broker.clients in the package", n, 1)
}

func sortDecls(ds []*ast.FuncDecl) {
	for i := 1; i < len(ds); i++ {
		for j := i; j > 0 && ds[j].Pos() < ds[j-1].Pos(); j-- {
			ds[j], ds[j-1] = ds[j-1], ds[j]
		}
	}
}
