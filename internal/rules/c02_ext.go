package rules

import (
	"go/ast"
	"go/types"

	"verif/internal/core"
	"verif/internal/flow"
)

// Rules added after the second and third round of independently seeded changes (see DESIGN.md §8).
// Each is a structural necessary condition stated independently of the seeded patch's text;
// the mutants and behaviour-preserving edits they were tested with are in selftest/mutants/C02.json.

// R-C02-9: Context.UseNamespace("") selects the default namespace.

func c02UseNamespace(c *core.Ctx) {
	c.Rule("R-C02-9", "each node runs in its configured namespace: Context.UseNamespace stores its argument as the active namespace, and the default namespace exactly when the argument is empty (a node without a namespace must not inherit the previous node's)")
	f := fn(c, "pkg/context", "Context", "UseNamespace")
	if f == nil {
		return
	}
	cons := fname("pkg/context", "Context", "UseNamespace")
	activeF := c02ActiveNsField(c)
	if f.Type.Params == nil || len(f.Type.Params.List) != 1 || len(f.Type.Params.List[0].Names) != 1 {
		c.Undecide("R-C02-9", cons+"|signature", pos(c, f.Body), "unexpected signature")
		return
	}
	param := f.Type.Params.List[0].Names[0]
	emptyKey := "eq:" + f.Render(param) + `==""`
	// the parameter and single-definition local copies of it (`name := ns`)
	d := c02NewDefs(f)
	holder := map[types.Object]bool{f.Info.Defs[param]: true}
	ast.Inspect(f.Body, func(n ast.Node) bool {
		if id, ok := n.(*ast.Ident); ok {
			if o := f.Info.Defs[id]; o != nil && d.rootObj(id) == f.Info.Defs[param] {
				holder[o] = true
			}
		}
		return true
	})
	isHolder := func(e ast.Expr) bool { o := c02Obj(f, e); return o != nil && holder[o] }
	isDefault := func(e ast.Expr) bool {
		// the default-namespace constant by value (whatever it is called)
		dflt := f.Pkg.Types.Scope().Lookup("DefaultNamespace")
		tv, ok := f.Info.Types[e]
		if !ok || tv.Value == nil || dflt == nil {
			return false
		}
		cst, ok := dflt.(*types.Const)
		return ok && cst.Val().ExactString() == tv.Value.ExactString()
	}
	helperOK := map[types.Object]bool{}
	mapsEmptyToDefault := func(call *ast.CallExpr) bool {
		fo, ok := f.Callee(call).(*types.Func)
		if !ok || fo.Pkg() != f.Pkg.Types {
			return false
		}
		if v, done := helperOK[fo]; done {
			return v
		}
		helperOK[fo] = false
		hd := declOf(f.Pkg, fo)
		if hd == nil || hd.Type.Params == nil || len(hd.Type.Params.List) != 1 || len(hd.Type.Params.List[0].Names) != 1 {
			return false
		}
		h := flow.NewFunc(f.Pkg, hd)
		hp := hd.Type.Params.List[0].Names[0]
		hk := "eq:" + h.Render(hp) + `==""`
		hres := analyze(c, h, flow.Config{NoHavoc: true})
		if hres == nil {
			return false
		}
		good, n := true, 0
		for _, ex := range hres.Exits {
			if ex.Kind != flow.ExitReturn || ex.Return == nil || len(ex.Return.Results) != 1 {
				good = false
				continue
			}
			n++
			r := ast.Unparen(ex.Return.Results[0])
			switch ex.State.Get(hk) {
			case flow.True:
				good = good && isDefault(r)
			case flow.False:
				good = good && c02Obj(h, r) == h.Info.Defs[hp] && c02NewDefs(h).n[h.Info.Defs[hp]] == 1
			default:
				good = false
			}
		}
		helperOK[fo] = good && n > 0
		return helperOK[fo]
	}
	res := analyze(c, f, flow.Config{NoHavoc: true, OnNode: func(st *flow.State, n ast.Node) {
		as, ok := n.(*ast.AssignStmt)
		if !ok || len(as.Lhs) != 1 || len(as.Rhs) != 1 {
			return
		}
		// `ns = DefaultNamespace` on the parameter (or a local copy of it): from here on the
		// variable holds the default, not the argument
		if id, ok := ast.Unparen(as.Lhs[0]).(*ast.Ident); ok && holder[c02Obj(f, id)] {
			r := ast.Unparen(as.Rhs[0])
			switch {
			case isDefault(r):
				st.Set("ev:param:defaulted", flow.True)
				if st.Is(emptyKey, flow.True) {
					st.Set("ev:param:defaultedWhenEmpty", flow.True)
				}
			case isHolder(r):
				// copy of the argument: nothing changes
			default:
				st.Set("ev:param:other", flow.True)
			}
			return
		}
		sel, ok := ast.Unparen(as.Lhs[0]).(*ast.SelectorExpr)
		if !ok {
			return
		}
		if s := f.Info.Selections[sel]; s == nil || s.Obj() != activeF {
			return
		}
		st.Set("ev:ns:param", flow.Unknown)
		st.Set("ev:ns:default", flow.Unknown)
		r := ast.Unparen(as.Rhs[0])
		// `ctx.field = namespaceOrDefault(ns)`: a same-package helper that maps "" to the default and
		// returns its argument otherwise (verified on all its paths)
		if call, ok := r.(*ast.CallExpr); ok && len(call.Args) == 1 && isHolder(call.Args[0]) && mapsEmptyToDefault(call) {
			switch {
			case st.Is("ev:param:other", flow.True):
			case st.Is("ev:param:defaulted", flow.True):
				st.Set("ev:ns:default", flow.True)
			case st.Is(emptyKey, flow.True):
				st.Set("ev:ns:default", flow.True)
			case st.Is(emptyKey, flow.False):
				st.Set("ev:ns:param", flow.True)
			default:
				st.Set("ev:ns:mapped", flow.True) // both cases handled by the helper
			}
			return
		}
		if isHolder(r) {
			// the parameter (or its copy) — unless it was overwritten before
			switch {
			case st.Is("ev:param:other", flow.True):
			case st.Is("ev:param:defaulted", flow.True):
				st.Set("ev:ns:default", flow.True)
			default:
				st.Set("ev:ns:param", flow.True)
			}
			return
		}
		if isDefault(r) {
			st.Set("ev:ns:default", flow.True)
		}
	}})
	if res == nil {
		return
	}
	// `ns = DefaultNamespace` on the parameter
	var bad *flow.State
	why := ""
	n := 0
	for _, ex := range res.Exits {
		if ex.Kind != flow.ExitReturn {
			continue
		}
		n++
		st := ex.State
		emp := st.Get(emptyKey)
		if emp == flow.Unknown && st.Is("ev:param:defaulted", flow.True) {
			// the parameter was overwritten with the default: that is the empty case only if the
			// overwrite happened under ns == ""
			if st.Is("ev:param:defaultedWhenEmpty", flow.True) {
				emp = flow.True
			} else {
				bad, why = st, "the namespace argument is replaced by the default namespace without having been found empty: a node's configured namespace is ignored"
				continue
			}
		}
		switch emp {
		case flow.True:
			if !st.Is("ev:ns:default", flow.True) {
				bad, why = st, "an empty namespace argument does not select the default namespace: the node runs in whatever namespace the previous node left active"
			}
		case flow.False:
			if !st.Is("ev:ns:param", flow.True) {
				bad, why = st, "a non-empty namespace argument is not stored as the active namespace"
			}
		default:
			if st.Is("ev:ns:mapped", flow.True) {
				break // stored through a verified ""→default mapping helper
			}
			if !st.Is("ev:ns:param", flow.True) && !st.Is("ev:ns:default", flow.True) {
				bad, why = st, "the active namespace is not set on this path"
			} else if st.Is("ev:ns:param", flow.True) {
				bad, why = st, "the argument is stored without the empty case being mapped to the default namespace"
			}
		}
	}
	c.Check(bad == nil && n > 0, "R-C02-9", cons+"|active namespace = argument, default when empty", pos(c, f.Body), sprintf("%d exits", n), why, witness(bad)...)
}
