package rules

import (
	"go/ast"
	"go/types"
	"strings"

	"golang.org/x/tools/go/packages"

	"verif/internal/core"
	"verif/internal/flow"
)

// decompressing reader constructors (a content coding is undone)
var c03decoders = []string{
	"pkg/util/readers.NewGZipDecompressReader",
	"compress/gzip.NewReader",
}

// c03Coding decides R-C03-12: a function that undoes the gzip coding of an HTTP message body
// (its payload is replaced by a decompressing reader / its output) may delete the
// Content-Encoding header only where the label is known to be EXACTLY "gzip" — the coding
// removed is then the only labelled coding. A weaker test (the label merely contains "gzip", on
// any header line) also fires for `Content-Encoding: deflate, gzip` or repeated lines: only the
// gzip layer is undone but the whole label disappears, and the client (or backend) receives
// bytes still coded with the remaining codings and declared as identity.
func c03Coding(c *core.Ctx) {
	subjects := 0
	eachFunc(c, func(pkg *packages.Package, fd *ast.FuncDecl) {
		if strings.HasPrefix(relPkg(pkg.PkgPath), "pkg/util/readers") {
			return
		}
		f := funcOf(pkg, fd)
		if len(callsTo(f, fd.Body, true, c03decoders...)) == 0 {
			return
		}
		sc := newC03scope(f, 2)
		c03with(sc, func() {
			isCE := func(e ast.Expr) bool {
				k, ok := c03constKey(f, e)
				return ok && k == "Content-Encoding"
			}
			// the deletions of the label, and everything derived from reading it
			var dels []*ast.CallExpr
			derived := map[types.Object]bool{}
			var reads []*ast.CallExpr
			for _, g := range sc.fns {
				for _, call := range calls(g.Body, true) {
					op, _ := c03hdrOp(f, call)
					switch {
					case op == "Del" && len(call.Args) == 1 && isCE(call.Args[0]):
						dels = append(dels, call)
					case (op == "Get" || op == "Values") && len(call.Args) == 1 && isCE(call.Args[0]):
						reads = append(reads, call)
					}
				}
			}
			if len(dels) == 0 {
				return
			}
			subjects++
			c.Count("functions_analysed", 1)
			name := declName(pkg, fd)
			isRead := func(e ast.Expr) bool {
				for _, r := range reads {
					if ast.Unparen(e) == ast.Expr(r) {
						return true
					}
				}
				return false
			}
			mentions := func(e ast.Node) bool {
				found := false
				if e == nil {
					return false
				}
				ast.Inspect(e, func(n ast.Node) bool {
					if x, ok := n.(ast.Expr); ok && isRead(x) {
						found = true
					}
					if id, ok := n.(*ast.Ident); ok && derived[c03obj(f, id)] {
						found = true
					}
					return !found
				})
				return found
			}
			for changed := true; changed; {
				changed = false
				taint := func(l ast.Expr) {
					if id, ok := ast.Unparen(l).(*ast.Ident); ok && id.Name != "_" {
						if o := c03obj(f, id); o != nil && !derived[o] {
							derived[o] = true
							changed = true
						}
					}
				}
				for _, g := range sc.fns {
					ast.Inspect(g.Body, func(n ast.Node) bool {
						switch x := n.(type) {
						case *ast.AssignStmt:
							for i, r := range x.Rhs {
								if mentions(r) {
									if len(x.Lhs) == len(x.Rhs) {
										taint(x.Lhs[i])
									} else {
										for _, l := range x.Lhs {
											taint(l)
										}
									}
								}
							}
						case *ast.RangeStmt:
							if mentions(x.X) {
								if x.Value != nil {
									taint(x.Value)
								}
								if x.Key != nil {
									taint(x.Key)
								}
							}
						}
						return true
					})
				}
			}
			// renderings of "the label" and the tests made on it
			var labels []string
			for _, r := range reads {
				if op, _ := c03hdrOp(f, r); op == "Get" {
					labels = append(labels, f.Render(r))
				}
			}
			var labelIdents []*ast.Ident
			var weak, exactCalls []*ast.CallExpr
			for _, g := range sc.fns {
				ast.Inspect(g.Body, func(n ast.Node) bool {
					switch x := n.(type) {
					case *ast.Ident:
						if derived[c03obj(f, x)] {
							labelIdents = append(labelIdents, x)
						}
					case *ast.CallExpr:
						if len(x.Args) == 2 && mentions(x.Args[0]) {
							if tv, ok := f.Info.Types[x.Args[1]]; ok && tv.Value != nil && strings.Contains(strings.ToLower(tv.Value.ExactString()), "gzip") {
								switch {
								case calleeIs(f, x, "strings.Contains", "strings.HasPrefix", "strings.HasSuffix", "strings.ContainsAny", "bytes.Contains"):
									weak = append(weak, x)
								case calleeIs(f, x, "strings.EqualFold"):
									exactCalls = append(exactCalls, x)
								}
							}
						}
					}
					return true
				})
			}
			seen := map[string]bool{}
			for _, id := range labelIdents {
				if r := f.Render(id); !seen[r] {
					seen[r] = true
					labels = append(labels, r)
				}
			}
			res := analyze(c, f, flow.Config{NoHavoc: true, Inline: sc.inline()})
			if res == nil {
				return
			}
			for i, del := range dels {
				cons := name + sprintf("|Content-Encoding deleted only for the exact label #%d", i+1)
				states := res.At[del]
				if len(states) == 0 {
					c.Undecide("R-C03-12", cons, pos(c, del), "the deletion is not reached by the analysis")
					continue
				}
				var bad, unknown *flow.State
				why := ""
				for _, st := range states {
					exact := false
					for _, l := range labels {
						if st.Is("eq:"+l+`=="gzip"`, flow.True) {
							exact = true
						}
					}
					for _, x := range exactCalls {
						if st.Is(f.CallKey(x), flow.True) {
							exact = true
						}
					}
					if exact {
						continue
					}
					isWeak := false
					for _, x := range weak {
						if st.Is(f.CallKey(x), flow.True) {
							isWeak = true
						}
					}
					about := false
					for _, fa := range st.Facts() {
						for _, l := range labels {
							if strings.Contains(fa, l) {
								about = true
							}
						}
					}
					switch {
					case isWeak:
						if bad == nil {
							bad = st
							why = "the Content-Encoding header is deleted after the gzip coding was undone although the label is only known to CONTAIN \"gzip\" (substring test), not to be exactly \"gzip\": for `Content-Encoding: deflate, gzip` or repeated Content-Encoding lines only the gzip layer is undone but the whole label disappears — the receiver gets bytes still coded with the other codings, declared as identity"
						}
					case about:
						if unknown == nil {
							unknown = st
						}
					default:
						if bad == nil {
							bad = st
							why = "the Content-Encoding header is deleted after the gzip coding was undone without the label having been compared with \"gzip\" on this path: a body labelled with several codings loses its whole label although only the gzip layer was undone"
						}
					}
				}
				switch {
				case bad != nil:
					c.Violate("R-C03-12", cons, pos(c, del), why, witness(bad)...)
				case unknown != nil:
					c.Undecide("R-C03-12", cons, pos(c, del), "the label is tested in a way the analysis does not interpret (neither label == \"gzip\" nor a substring test)")
				default:
					c.Discharge("R-C03-12", cons, pos(c, del), sprintf("%d state(s) reach the deletion, all with the label known to equal \"gzip\"", len(states)))
				}
			}
		})
	})
	c.RequireCount("R-C03-12", "functions that undo the gzip coding of an HTTP body and delete Content-Encoding", subjects, 2)
}
