package rules

import (
	"go/ast"
	"go/types"
	"strings"

	"golang.org/x/tools/go/packages"

	"verif/internal/core"
	"verif/internal/flow"
)

// decompressing reader constructors (a content coding is undone)
var c03decoders = []string{
	"pkg/util/readers.NewGZipDecompressReader",
	"compress/gzip.NewReader",
}

// c03Coding decides R-C03-12: a function that undoes the gzip coding of an HTTP message body
// (its payload is replaced by a decompressing reader / its output) may delete the
// Content-Encoding header only where the label is known to be EXACTLY "gzip" — the coding
// removed is then the only labelled coding. A weaker test (the label merely contains "gzip", on
// any header line) also fires for `Content-Encoding: deflate, gzip` or repeated lines: only the
// gzip layer is undone but the whole label disappears, and the client (or backend) receives
// bytes still coded with the remaining codings and declared as identity.
func c03Coding(c *core.Ctx) {
	c03codingRule(c, false)
	c03codingRule(c, true)
}

// encoding reader constructors (a content coding is applied)
var c03encoders = []string{
	"pkg/util/readers.NewGZipCompressReader",
	"compress/gzip.NewWriter",
	"compress/gzip.NewWriterLevel",
}

// c03codingRule decides R-C03-12 (mirror = false) or its mirror R-C03-13 (mirror = true): a
// function that APPLIES the gzip coding to an HTTP body (compressing reader) may overwrite the
// Content-Encoding header with "gzip" (Header.Set) only in states where the message is known
// to carry no Content-Encoding at all (Get(CE) == "", len(Values(CE)) == 0). A weaker test
// ("the label does not contain gzip") lets a body that is already coded otherwise — br,
// deflate, zstd chosen by the backend from the client's Accept-Encoding — be gzipped on top
// and relabelled "gzip": the receiver undoes gzip and is left with the other coding's bytes
// declared as identity. (Appending the coding with Header.Add keeps the label truthful and is
// not constrained.)
func c03codingRule(c *core.Ctx, mirror bool) {
	rule, ctors, wantOp := "R-C03-12", c03decoders, "Del"
	if mirror {
		rule, ctors, wantOp = "R-C03-13", c03encoders, "Set"
	}
	subjects := 0
	eachFunc(c, func(pkg *packages.Package, fd *ast.FuncDecl) {
		if strings.HasPrefix(relPkg(pkg.PkgPath), "pkg/util/readers") {
			return
		}
		f := funcOf(pkg, fd)
		if len(callsTo(f, fd.Body, true, ctors...)) == 0 {
			return
		}
		sc := newC03scope(f, 2)
		c03with(sc, func() {
			isCE := func(e ast.Expr) bool {
				k, ok := c03constKey(f, e)
				return ok && k == "Content-Encoding"
			}
			// the deletions of the label, and everything derived from reading it
			var dels []*ast.CallExpr
			derived := map[types.Object]bool{}
			var reads []*ast.CallExpr
			for _, g := range sc.fns {
				for _, call := range calls(g.Body, true) {
					op, _ := c03hdrOp(f, call)
					switch {
					case op == wantOp && !mirror && len(call.Args) == 1 && isCE(call.Args[0]):
						dels = append(dels, call)
					case op == wantOp && mirror && len(call.Args) == 2 && isCE(call.Args[0]):
						// the label is overwritten with a constant naming gzip
						if tv, ok := f.Info.Types[call.Args[1]]; ok && tv.Value != nil && strings.Contains(strings.ToLower(tv.Value.ExactString()), "gzip") {
							dels = append(dels, call)
						}
					case (op == "Get" || op == "Values") && len(call.Args) == 1 && isCE(call.Args[0]):
						reads = append(reads, call)
					}
				}
			}
			if len(dels) == 0 {
				return
			}
			subjects++
			c.Count("functions_analysed", 1)
			name := declName(pkg, fd)
			isRead := func(e ast.Expr) bool {
				for _, r := range reads {
					if ast.Unparen(e) == ast.Expr(r) {
						return true
					}
				}
				return false
			}
			mentions := func(e ast.Node) bool {
				found := false
				if e == nil {
					return false
				}
				ast.Inspect(e, func(n ast.Node) bool {
					if x, ok := n.(ast.Expr); ok && isRead(x) {
						found = true
					}
					if id, ok := n.(*ast.Ident); ok && derived[c03obj(f, id)] {
						found = true
					}
					return !found
				})
				return found
			}
			for changed := true; changed; {
				changed = false
				taint := func(l ast.Expr) {
					if id, ok := ast.Unparen(l).(*ast.Ident); ok && id.Name != "_" {
						if o := c03obj(f, id); o != nil && !derived[o] {
							derived[o] = true
							changed = true
						}
					}
				}
				for _, g := range sc.fns {
					ast.Inspect(g.Body, func(n ast.Node) bool {
						switch x := n.(type) {
						case *ast.AssignStmt:
							for i, r := range x.Rhs {
								if mentions(r) {
									if len(x.Lhs) == len(x.Rhs) {
										taint(x.Lhs[i])
									} else {
										for _, l := range x.Lhs {
											taint(l)
										}
									}
								}
							}
						case *ast.RangeStmt:
							if mentions(x.X) {
								if x.Value != nil {
									taint(x.Value)
								}
								if x.Key != nil {
									taint(x.Key)
								}
							}
						}
						return true
					})
				}
			}
			// renderings of "the label" and the tests made on it
			var labels []string
			var labelExprs []ast.Expr
			for _, r := range reads {
				labelExprs = append(labelExprs, r)
				if op, _ := c03hdrOp(f, r); op == "Get" {
					labels = append(labels, f.Render(r))
				}
			}
			var labelIdents []*ast.Ident
			var weak, exactCalls []*ast.CallExpr
			for _, g := range sc.fns {
				ast.Inspect(g.Body, func(n ast.Node) bool {
					switch x := n.(type) {
					case *ast.Ident:
						if derived[c03obj(f, x)] {
							labelIdents = append(labelIdents, x)
						}
					case *ast.CallExpr:
						if len(x.Args) == 2 && mentions(x.Args[0]) {
							if tv, ok := f.Info.Types[x.Args[1]]; ok && tv.Value != nil && strings.Contains(strings.ToLower(tv.Value.ExactString()), "gzip") {
								switch {
								case calleeIs(f, x, "strings.Contains", "strings.HasPrefix", "strings.HasSuffix", "strings.ContainsAny", "bytes.Contains"):
									weak = append(weak, x)
								case calleeIs(f, x, "strings.EqualFold"):
									exactCalls = append(exactCalls, x)
								}
							}
						}
					}
					return true
				})
			}
			seen := map[string]bool{}
			for _, id := range labelIdents {
				if r := f.Render(id); !seen[r] {
					seen[r] = true
					labels = append(labels, r)
					labelExprs = append(labelExprs, id)
				}
			}
			res := analyze(c, f, flow.Config{NoHavoc: true, Inline: sc.inline()})
			if res == nil {
				return
			}
			for i, del := range dels {
				cons := name + sprintf("|Content-Encoding deleted only for the exact label #%d", i+1)
				if mirror {
					cons = name + sprintf("|Content-Encoding set to gzip only for an unlabelled body #%d", i+1)
				}
				states := res.At[del]
				if len(states) == 0 {
					c.Undecide(rule, cons, pos(c, del), "the header operation is not reached by the analysis")
					continue
				}
				var bad, unknown *flow.State
				why := ""
				for _, st := range states {
					good := false
					if !mirror {
						for _, l := range labels {
							if st.Is("eq:"+l+`=="gzip"`, flow.True) {
								good = true
							}
						}
						for _, x := range exactCalls {
							if st.Is(f.CallKey(x), flow.True) {
								good = true
							}
						}
					} else {
						for _, e := range labelExprs {
							if c03empty(f, st, e) == flow.True || c03emptyColl(f, st, e) {
								good = true
							}
						}
					}
					if good {
						continue
					}
					isWeak := false
					if mirror {
						// the label is known to be something (non-empty), or only known to differ
						// from "gzip": an existing coding may be overwritten
						for _, e := range labelExprs {
							if c03empty(f, st, e) == flow.False {
								isWeak = true
							}
						}
						for _, l := range labels {
							if st.Is("eq:"+l+`=="gzip"`, flow.False) {
								isWeak = true
							}
						}
					}
					for _, x := range weak {
						if (!mirror && st.Is(f.CallKey(x), flow.True)) || (mirror && st.Is(f.CallKey(x), flow.False)) {
							isWeak = true
						}
					}
					about := false
					for _, fa := range st.Facts() {
						for _, l := range labels {
							if strings.Contains(fa, l) {
								about = true
							}
						}
					}
					switch {
					case isWeak && !mirror:
						if bad == nil {
							bad = st
							why = "the Content-Encoding header is deleted after the gzip coding was undone although the label is only known to CONTAIN \"gzip\" (substring test), not to be exactly \"gzip\": for `Content-Encoding: deflate, gzip` or repeated Content-Encoding lines only the gzip layer is undone but the whole label disappears — the receiver gets bytes still coded with the other codings, declared as identity"
						}
					case isWeak && mirror:
						if bad == nil {
							bad = st
							why = "the body is gzipped and the Content-Encoding header overwritten with \"gzip\" although the message is only known not to be labelled \"gzip\" (or even known to carry a label), not to be unlabelled: a body the backend already coded with br/deflate/zstd is gzipped on top and relabelled \"gzip\" — the receiver undoes gzip and is left with the other coding's bytes declared as identity"
						}
					case about:
						if unknown == nil {
							unknown = st
						}
					case !mirror:
						if bad == nil {
							bad = st
							why = "the Content-Encoding header is deleted after the gzip coding was undone without the label having been compared with \"gzip\" on this path: a body labelled with several codings loses its whole label although only the gzip layer was undone"
						}
					default:
						if bad == nil {
							bad = st
							why = "the body is gzipped and the Content-Encoding header overwritten with \"gzip\" on a path on which nothing is known about an existing label (e.g. the label has no values matching a gzip test, or is not tested at all): a body the backend already coded with br/deflate/zstd is gzipped on top and relabelled \"gzip\" — the receiver undoes gzip and is left with the other coding's bytes declared as identity"
						}
					}
				}
				switch {
				case bad != nil:
					c.Violate(rule, cons, pos(c, del), why, witness(bad)...)
				case unknown != nil && !mirror:
					c.Undecide(rule, cons, pos(c, del), "the label is tested in a way the analysis does not interpret (neither label == \"gzip\" nor a substring test)")
				case unknown != nil:
					c.Undecide(rule, cons, pos(c, del), "the label is tested in a way the analysis does not interpret (neither an emptiness test nor a substring test)")
				case !mirror:
					c.Discharge(rule, cons, pos(c, del), sprintf("%d state(s) reach the deletion, all with the label known to equal \"gzip\"", len(states)))
				default:
					c.Discharge(rule, cons, pos(c, del), sprintf("%d state(s) reach the Set, all with the message known to carry no Content-Encoding", len(states)))
				}
			}
		})
	})
	if mirror {
		c.RequireCount(rule, "functions that gzip an HTTP body and overwrite Content-Encoding", subjects, 3)
		return
	}
	c.RequireCount("R-C03-12", "functions that undo the gzip coding of an HTTP body and delete Content-Encoding", subjects, 2)
}
