package rules

import (
	"go/ast"
	"go/types"
	"sort"
	"strings"

	"golang.org/x/tools/go/cfg"

	"verif/internal/core"
	"verif/internal/flow"
)

// R-C11-11: sibling agreement of the two ways a generation's filter comes to life.
//
// A filter of a new pipeline generation is either initialised from scratch (Filter.Init) or
// inherits from the filter of the same name in the previous generation (Filter.Inherit).
// Whatever optional capability of package filters (an interface other than Filter, today
// Resiliencer / InjectResiliencePolicy) is considered for a freshly initialised filter
// before it is bound into the pipeline must be considered on the inherit path as well, and
// vice versa: otherwise the filters kept across an update differ from what either
// generation's spec describes (no retry / circuit-breaker wrappers after the update).
//
// Decided path-sensitively over Pipeline.Init and Pipeline.Inherit with their same-package
// callees interpreted in place (the per-filter block may live in reload, in an extracted
// helper, or partly in each): one record per filter birth (end of the loop iteration / exit
// of the function), holding which way it was born and which capabilities were considered.

func c11Birth(c *core.Ctx) {
	c.Rule("R-C11-11", "inherited and initialised filters are configured alike: on every path of Pipeline.Init / Pipeline.Inherit (same-package helpers interpreted in place) a filter born by Filter.Inherit has had the same optional filters-package capabilities considered (type assertion to / call of an interface of package filters other than Filter, e.g. Resiliencer.InjectResiliencePolicy) as a filter born by Filter.Init before the iteration / function ends")
	pkg := c.Prog.Pkg(c11PL)
	if pkg == nil {
		c.Errorf("anchor: package %s not loaded", c11PL)
		return
	}
	filtersPath := Mod + "pkg/filters"
	decls := c11DeclOf(pkg)
	isBirth := func(g *flow.Func, call *ast.CallExpr) string {
		switch {
		case ifaceMethodCall(g, call, "pkg/filters", "Filter", "Init"):
			return "init"
		case ifaceMethodCall(g, call, "pkg/filters", "Filter", "Inherit"):
			return "inherit"
		}
		return ""
	}
	// capability interfaces: the interfaces of package filters (other than Filter) that a Filter
	// value is asserted to somewhere in package pipeline
	isFilterT := func(t types.Type) bool { return c11IsNamed(t, filtersPath, "Filter") && types.IsInterface(t) }
	capSet := map[string]bool{}
	for _, file := range pkg.Syntax {
		ast.Inspect(file, func(x ast.Node) bool {
			if ta, ok := x.(*ast.TypeAssertExpr); ok && ta.Type != nil {
				xv, ok1 := pkg.TypesInfo.Types[ta.X]
				tv, ok2 := pkg.TypesInfo.Types[ta.Type]
				if ok1 && ok2 && xv.Type != nil && tv.Type != nil && isFilterT(xv.Type) {
					if n, ok := types.Unalias(tv.Type).(*types.Named); ok && n.Obj().Pkg() != nil && n.Obj().Pkg().Path() == filtersPath && types.IsInterface(n) && n.Obj().Name() != "Filter" {
						capSet[n.Obj().Name()] = true
					}
				}
			}
			return true
		})
	}
	// type switches on a Filter: the guard `x.(type)` considers every capability named in a case
	guardCaps := map[*ast.TypeAssertExpr][]string{}
	for _, file := range pkg.Syntax {
		ast.Inspect(file, func(x ast.Node) bool {
			ts, ok := x.(*ast.TypeSwitchStmt)
			if !ok {
				return true
			}
			var guard *ast.TypeAssertExpr
			ast.Inspect(ts.Assign, func(y ast.Node) bool {
				if ta, ok := y.(*ast.TypeAssertExpr); ok && ta.Type == nil {
					guard = ta
				}
				return true
			})
			if guard == nil {
				return true
			}
			if xv, ok := pkg.TypesInfo.Types[guard.X]; !ok || xv.Type == nil || !isFilterT(xv.Type) {
				return true
			}
			for _, cl := range ts.Body.List {
				for _, e := range cl.(*ast.CaseClause).List {
					if tv, ok := pkg.TypesInfo.Types[e]; ok && tv.Type != nil {
						if n, ok := types.Unalias(tv.Type).(*types.Named); ok && n.Obj().Pkg() != nil && n.Obj().Pkg().Path() == filtersPath && types.IsInterface(n) && n.Obj().Name() != "Filter" {
							capSet[n.Obj().Name()] = true
							guardCaps[guard] = append(guardCaps[guard], n.Obj().Name())
						}
					}
				}
			}
			return true
		})
	}
	capOf := func(t types.Type) string {
		n, ok := types.Unalias(t).(*types.Named)
		if !ok || n.Obj().Pkg() == nil || n.Obj().Pkg().Path() != filtersPath || !capSet[n.Obj().Name()] {
			return ""
		}
		return n.Obj().Name()
	}
	capsIn := func(g *flow.Func, n ast.Node) []string {
		var out []string
		ast.Inspect(n, func(x ast.Node) bool {
			switch t := x.(type) {
			case *ast.FuncLit:
				return false
			case *ast.TypeAssertExpr:
				out = append(out, guardCaps[t]...)
				if t.Type != nil {
					if tv, ok := g.Info.Types[t.Type]; ok && tv.Type != nil {
						if name := capOf(tv.Type); name != "" {
							out = append(out, name)
						}
					}
				}
			}
			return true
		})
		return out
	}
	capCall := func(g *flow.Func, call *ast.CallExpr) string {
		sel, ok := ast.Unparen(call.Fun).(*ast.SelectorExpr)
		if !ok {
			return ""
		}
		s := g.Info.Selections[sel]
		if s == nil || s.Kind() != types.MethodVal {
			return ""
		}
		if tv, ok := g.Info.Types[sel.X]; ok && tv.Type != nil {
			return capOf(tv.Type)
		}
		return ""
	}

	// functions whose call tree contains a birth, and the loops around births
	birthy := map[*types.Func]bool{}
	for changed := true; changed; {
		changed = false
		for o, fd := range decls {
			if birthy[o] {
				continue
			}
			g := flow.NewFunc(pkg, fd)
			for _, call := range calls(fd.Body, true) {
				if isBirth(g, call) != "" {
					birthy[o] = true
				} else if callee, ok := g.Callee(call).(*types.Func); ok && birthy[callee.Origin()] {
					birthy[o] = true
				}
			}
			if birthy[o] {
				changed = true
			}
		}
	}
	birthLoop := map[ast.Stmt]bool{}
	nBirth := map[string]int{}
	for _, fd := range decls {
		g := flow.NewFunc(pkg, fd)
		for _, call := range calls(fd.Body, true) {
			k := isBirth(g, call)
			callee, _ := g.Callee(call).(*types.Func)
			if k == "" && (callee == nil || !birthy[callee.Origin()]) {
				continue
			}
			if k != "" {
				nBirth[k]++
			}
			for _, l := range enclosingLoops(fd.Body, call) {
				birthLoop[l] = true
			}
		}
	}
	// a loop replaced by a callback iterator: the births sit in a function literal handed to a
	// same-package helper that contains the `for` and calls its func parameter there
	containsBirth := func(g *flow.Func, n ast.Node) bool {
		hit := false
		for _, call := range calls(n, true) {
			if isBirth(g, call) != "" {
				hit = true
			} else if callee, ok := g.Callee(call).(*types.Func); ok && birthy[callee.Origin()] {
				hit = true
			}
		}
		return hit
	}
	for _, fd := range decls {
		g := flow.NewFunc(pkg, fd)
		for _, call := range calls(fd.Body, true) {
			callee, ok := g.Callee(call).(*types.Func)
			if !ok {
				continue
			}
			hd := decls[callee.Origin()]
			if hd == nil {
				continue
			}
			for i, a := range call.Args {
				lit, ok := ast.Unparen(a).(*ast.FuncLit)
				if !ok || !containsBirth(g, lit.Body) {
					continue
				}
				// the i-th parameter of the helper
				var pobj types.Object
				k := 0
				for _, fl := range hd.Type.Params.List {
					for _, nm := range fl.Names {
						if k == i {
							pobj = pkg.TypesInfo.Defs[nm]
						}
						k++
					}
				}
				if pobj == nil {
					continue
				}
				for _, inner := range calls(hd.Body, true) {
					if id, ok := ast.Unparen(inner.Fun).(*ast.Ident); ok && pkg.TypesInfo.Uses[id] == pobj {
						for _, l := range enclosingLoops(hd.Body, inner) {
							birthLoop[l] = true
						}
					}
				}
			}
		}
	}
	if !c.RequireCount("R-C11-11", "Filter.Init call sites in package pipeline", nBirth["init"], 1) ||
		!c.RequireCount("R-C11-11", "Filter.Inherit call sites in package pipeline", nBirth["inherit"], 1) {
		return
	}

	type record struct {
		kind string
		caps map[string]bool
		st   *flow.State
		at   string
	}
	var records []record
	take := func(st *flow.State, at string) {
		kind := ""
		switch {
		case st.Is("ev:born:inherit", flow.True):
			kind = "inherit"
		case st.Is("ev:born:init", flow.True):
			kind = "init"
		default:
			return
		}
		r := record{kind: kind, caps: map[string]bool{}, st: st, at: at}
		for _, fact := range st.Facts() {
			if strings.HasPrefix(fact, "ev:cap:") && strings.HasSuffix(fact, "=T") {
				r.caps[strings.TrimSuffix(strings.TrimPrefix(fact, "ev:cap:"), "=T")] = true
			}
		}
		records = append(records, r)
	}
	clear := func(st *flow.State) {
		for _, fact := range st.Facts() {
			k := fact[:len(fact)-2]
			if strings.HasPrefix(k, "ev:born:") || strings.HasPrefix(k, "ev:cap:") {
				st.Set(k, flow.Unknown)
			}
		}
	}
	var rootPos string
	for _, m := range []string{"Init", "Inherit"} {
		f := fn(c, c11PL, "Pipeline", m)
		if f == nil {
			return
		}
		if m == "Inherit" {
			rootPos = pos(c, f.Node.(*ast.FuncDecl).Name)
		}
		res := analyze(c, f, flow.Config{NoHavoc: true, Track: func(string) bool { return false }, Inline: inlineSamePkg(f), InlineClosures: true,
			OnBlock: func(st *flow.State, b *cfg.Block) {
				if b.Stmt == nil || !birthLoop[b.Stmt] {
					return
				}
				switch b.Kind {
				case cfg.KindRangeBody, cfg.KindForBody:
					clear(st)
				case cfg.KindRangeLoop, cfg.KindForPost, cfg.KindForLoop, cfg.KindRangeDone, cfg.KindForDone:
					take(st, "end of a loop iteration at "+c.Prog.Rel(b.Stmt.Pos()))
					clear(st)
				}
			},
			OnNode: func(st *flow.State, n ast.Node) {
				for _, name := range capsIn(f, n) {
					st.Set("ev:cap:"+name, flow.True)
				}
			},
			OnCall: func(st *flow.State, call *ast.CallExpr, callee types.Object, deferred bool) {
				if k := isBirth(f, call); k != "" {
					st.Set("ev:born:"+k, flow.True)
				}
				if name := capCall(f, call); name != "" {
					st.Set("ev:cap:"+name, flow.True)
				}
			}})
		if res == nil {
			return
		}
		for _, ex := range res.Exits {
			if ex.Kind == flow.ExitReturn {
				take(ex.State, "return of Pipeline."+m)
			}
		}
	}
	nInit, nInh := 0, 0
	union := map[string]map[string]bool{"init": {}, "inherit": {}}
	for _, r := range records {
		if r.kind == "init" {
			nInit++
		} else {
			nInh++
		}
		for k := range r.caps {
			union[r.kind][k] = true
		}
	}
	if !c.RequireCount("R-C11-11", "paths on which a filter is initialised from scratch", nInit, 1) ||
		!c.RequireCount("R-C11-11", "paths on which a filter inherits from its predecessor", nInh, 1) {
		return
	}
	cons := fname(c11PL, "Pipeline", "Inherit") + "|inherited and initialised filters are configured alike"
	var bad *record
	missing, other := "", ""
	for i := range records {
		r := &records[i]
		o := "init"
		if r.kind == "init" {
			o = "inherit"
		}
		var miss []string
		for k := range union[o] {
			if !r.caps[k] {
				miss = append(miss, k)
			}
		}
		if len(miss) > 0 {
			sort.Strings(miss)
			bad, missing, other = r, strings.Join(miss, ", "), o
			break
		}
	}
	if bad == nil {
		var caps []string
		for k := range union["init"] {
			caps = append(caps, k)
		}
		sort.Strings(caps)
		c.Discharge("R-C11-11", cons, rootPos, sprintf("%d init paths and %d inherit paths, the same capabilities considered on all of them: %v", nInit, nInh, caps))
		return
	}
	how := map[string]string{"inherit": "inherits from the filter of the previous generation (Filter.Inherit)", "init": "is initialised from scratch (Filter.Init)"}
	c.Violate("R-C11-11", cons, rootPos,
		sprintf("a filter that %s reaches the %s without the capability %s of package filters having been considered (for Resiliencer: InjectResiliencePolicy), although a filter that %s gets it: after a pipeline update the filters kept by name differ from what either generation's spec describes (e.g. a Proxy without its retry / circuit-breaker policies)",
			how[bad.kind], bad.at, missing, how[other]), witness(bad.st)...)
}
