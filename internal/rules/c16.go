package rules

// C16 — MQTT sessions survive reconnect and client-id takeover as cleanSession dictates.
//
// Rules (DESIGN.md §3 C16):
//
//	R-C16-1  decision table of (Broker).setSession (E4): reuse previous ⇔ ¬connect.CleanSession ∧
//	         prev ≠ nil ∧ ¬prev.cleanSession(); otherwise a new session, and the discarded previous
//	         session (if any) is closed and its topics are unsubscribed under the client id
//	         (or handleConn's takeover branch synchronously tears the old connection down).
//	R-C16-2  resubscribe on connect (E1 on handleConn): the read loop is entered only after the
//	         session was set and the session's topics were handed to topicMgr.subscribe under the
//	         connection's client id; plus the two producers of that topic set
//	         (processSubscribe records accepted subscriptions in the session, allSubscribes
//	         enumerates all of them).
//	R-C16-3  identity-guarded teardown (E1 + static call chains): every operation keyed by client id
//	         that is reachable from a connection's teardown (readLoop, writeLoop) is executed only
//	         under the broker lock after the connection registered under that id was looked up and
//	         found to be this connection / absent (for the un-registration: found disconnected).
//	R-C16-5  (c16_status.go) a registered connection does not look disconnected: soundness side
//	         condition of the `registered.disconnected()` guard that R-C16-3 accepts in removeClient.
//	R-C16-6  (c16_persist.go) persistence chain: topic change -> store() -> store channel -> put.
//	R-C16-7  (c16_cache.go) the session cache holds only sessions of live connections.
//	R-C16-8  (c16_keys.go) key-domain agreement (client id vs storage key).
//	R-C16-4  admin delete disconnects (E1): the HTTP handler deletes the stored session of each
//	         listed id; watchDelete hands every deleted key (value nil) — and only those — to
//	         deleteSession and keeps watching; deleteSession closes the registered client.
//
// Genuine defects found on today's tree (triaged with /tmp/vw/C16/out/zz_triage_test.go, fixes in
// /tmp/vw/C16/out/fix-1.diff and fix-2.diff; the checker is silent with both applied):
//
//	R-C16-3 x3  (SessionManager).delLocal / (SessionManager).delDB / (Client).closeAndDelSession:
//	            the superseded connection's teardown removes the new connection's live session,
//	            stored session (the watched delete then disconnects the new connection) and
//	            subscriptions.
//	R-C16-1 x1  (Broker).setSession|discarded previous session's subscriptions removed: after a
//	            takeover with cleanSession=true the new connection receives messages for the
//	            discarded session's subscriptions until the old connection's teardown.
//
// Mutants tried in the scratch worktree, on the tree with both fixes applied (baseline exit 0;
// every mutant compiles and vets) -> rule|construct that fired (all exit 1):
//
//	M1  setSession: drop `!prevSess.cleanSession()`              -> R-C16-1 reuse only if ...
//	M2  setSession: `connect.CleanSession` without negation       -> R-C16-1 reuse only if ... + new session only otherwise
//	M3  setSession: prevSess.close() removed                      -> R-C16-1 discarded previous session closed
//	M19 setSession: new session assigned unconditionally after    -> R-C16-1 new session only otherwise (+ closed, unsubscribed)
//	M4  handleConn: `len(topics) > 1`                             -> R-C16-2 resubscribe before read loop
//	M5  handleConn: resubscribe skipped on takeover               -> R-C16-2 resubscribe before read loop
//	M6  processSubscribe: session.subscribe removed               -> R-C16-2 accepted subscription recorded
//	M7  allSubscribes: `if len(sub) >= 64 { break }`              -> R-C16-2 enumerates every topic
//	M8  removeClient: disconnected() guard dropped / negated      -> R-C16-3 removeClient|unregister by client id
//	M9  closeAndDelSession: Unlock right after the lookup         -> R-C16-3 x3 (not atomic with takeover)
//	M10 closeAndDelSession: `cur != c`                            -> R-C16-3 x3
//	M11 closeAndDelSession: unsubscribe moved after the guard     -> R-C16-3 closeAndDelSession|unsubscribe
//	M20 closeAndDelSession: guard via getClient() without lock    -> R-C16-3 x3 (not atomic)
//	M12 watchDelete: `if v == nil { continue }`                   -> R-C16-4 only for deleted keys + every deleted key
//	M13 watchDelete: nil test removed                             -> R-C16-4 only for deleted keys
//	M14 watchDelete: return after the first deleteSession         -> R-C16-4 whole batch processed + keeps watching
//	M15 watchDelete: reconnectWatcher not started on closed chan  -> R-C16-4 keeps watching
//	M16 deleteSession: `if c.disconnected()`                      -> R-C16-4 registered client is closed
//	M17 deleteSession: c.close() removed                          -> R-C16-4 registered client is closed
//	M18 httpDeleteSessionHandler: delete(s.SessionID) w/o prefix  -> R-C16-4 store.delete(sessionStoreKey(id))
//
// No mutant tried was missed. Behaviour-preserving edits that stay at exit 0: P1 setSession with
// `reuse := prev != nil && !clean && !prev.info.CleanFlag`; P2 setSession as early return + switch;
// P3 handleConn `0 != len(topics)` and the local `cid`; P4 removeClient with defer Unlock, single
// valued lookup and early return; P5 watchDelete with `if deleted := v == nil; deleted {...}` and
// slicing instead of TrimPrefix; P6 deleteSession as lookup, delete, nil test, close; P7
// closeAndDelSession with `superseded := found && c != registered`; P8 the guard moved into a new
// Broker method and delLocal renamed; P9 (alternative design) takeover branch tearing the old
// connection down synchronously discharges the R-C16-1 unsubscribe clause.
//
// Engine quirk worked around here: a `select` without default leaves a successor-less
// "select.after-case" block in go/cfg; the engine reports it as an ExitReturn whose At is the
// *ast.CommClause. c16RealExit filters these.

import (
	"go/ast"
	"go/constant"
	"go/types"
	"strings"

	"golang.org/x/tools/go/cfg"
	"golang.org/x/tools/go/packages"

	"verif/internal/core"
	"verif/internal/flow"
)

func init() { Registry["C16"] = c16 }

const c16Packets = "github.com/eclipse/paho.mqtt.golang/packets"

// c16Env holds the role anchors (fields, declarations) shared by the rules.
type c16Env struct {
	c   *core.Ctx
	pkg *packages.Package

	clientsF    *types.Var // Broker.clients
	brokerDoneF *types.Var // Broker.done
	sessionF    *types.Var // Client.session
	cidF        *types.Var // ClientInfo.cid
	sessMapF    *types.Var // SessionManager.sessionMap
	infoCIDF    *types.Var // SessionInfo.ClientID
	topicsF     *types.Var // SessionInfo.Topics
	cleanFlagF  *types.Var // SessionInfo.CleanFlag
	httpSessF   *types.Var // HTTPSessions.Sessions
	httpIDF     *types.Var // HTTPSession.SessionID

	decls map[*types.Func]*ast.FuncDecl

	// discRelied: R-C16-3 accepted `<registered>.disconnected()` as the guard of an un-registration
	// (then R-C16-5 must hold for that acceptance to be sound)
	discRelied bool

	accessorMemo map[*types.Func]int
	anchors      map[string]*flow.Func // role-resolved functions (c16_roles.go)
	writeChF     *types.Var            // Client.writeCh

	// supersession marks (c16_supersede.go)
	markVals   map[*types.Var]constant.Value
	markRelied map[*types.Var]bool
}

func c16NewEnv(c *core.Ctx) *c16Env {
	e := &c16Env{c: c, pkg: c.Prog.Pkg(mq), decls: map[*types.Func]*ast.FuncDecl{}}
	if e.pkg == nil {
		c.Errorf("anchor: package %s not loaded", mq)
		return nil
	}
	e.clientsF = structField(c, mq, "Broker", "clients")
	e.brokerDoneF = structField(c, mq, "Broker", "done")
	e.sessionF = structField(c, mq, "Client", "session")
	e.cidF = structField(c, mq, "ClientInfo", "cid")
	e.sessMapF = structField(c, mq, "SessionManager", "sessionMap")
	e.infoCIDF = structField(c, mq, "SessionInfo", "ClientID")
	e.topicsF = structField(c, mq, "SessionInfo", "Topics")
	e.cleanFlagF = structField(c, mq, "SessionInfo", "CleanFlag")
	e.httpSessF = structField(c, mq, "HTTPSessions", "Sessions")
	e.httpIDF = structField(c, mq, "HTTPSession", "SessionID")
	// Client.writeCh by role: the field of Client that is a channel of packets.ControlPacket
	if n := namedType(c, mq, "Client"); n != nil {
		if st, ok := n.Underlying().(*types.Struct); ok {
			var byRole []*types.Var
			for i := 0; i < st.NumFields(); i++ {
				fld := st.Field(i)
				if fld.Name() == "writeCh" {
					e.writeChF = fld
				}
				if ch, ok := fld.Type().Underlying().(*types.Chan); ok && ch.Elem().String() == c16Packets+".ControlPacket" {
					byRole = append(byRole, fld)
				}
			}
			if e.writeChF == nil && len(byRole) == 1 {
				e.writeChF = byRole[0]
			}
		}
	}
	if e.writeChF == nil {
		c.Errorf("anchor: the outgoing packet channel of Client (field writeCh, or the single chan packets.ControlPacket field) not found")
	}
	for _, v := range []*types.Var{e.clientsF, e.brokerDoneF, e.sessionF, e.cidF, e.sessMapF, e.infoCIDF, e.topicsF, e.cleanFlagF, e.httpSessF, e.httpIDF} {
		if v == nil {
			return nil
		}
	}
	for _, file := range e.pkg.Syntax {
		for _, d := range file.Decls {
			if fd, ok := d.(*ast.FuncDecl); ok && fd.Body != nil {
				if o, ok := e.pkg.TypesInfo.Defs[fd.Name].(*types.Func); ok {
					e.decls[o] = fd
				}
			}
		}
	}
	return e
}

// ---- small role helpers ---------------------------------------------------------------

// c16Sel reports whether e is a selector expression selecting the struct field fld.
func c16Sel(f *flow.Func, e ast.Expr, fld *types.Var) bool {
	sel, ok := ast.Unparen(e).(*ast.SelectorExpr)
	if !ok || fld == nil {
		return false
	}
	s := f.Info.Selections[sel]
	return s != nil && s.Obj() == fld
}

// c16Obj returns the object an identifier expression denotes (nil for other expressions).
func c16Obj(f *flow.Func, e ast.Expr) types.Object {
	if e == nil {
		return nil
	}
	id, ok := ast.Unparen(e).(*ast.Ident)
	if !ok || id.Name == "_" {
		return nil
	}
	if o := f.Info.Uses[id]; o != nil {
		return o
	}
	return f.Info.Defs[id]
}

// c16Root strips selectors, calls, indexes and stars down to the root identifier.
func c16Root(e ast.Expr) *ast.Ident {
	for {
		switch x := ast.Unparen(e).(type) {
		case *ast.SelectorExpr:
			e = x.X
		case *ast.CallExpr:
			e = x.Fun
		case *ast.IndexExpr:
			e = x.X
		case *ast.StarExpr:
			e = x.X
		case *ast.Ident:
			return x
		default:
			return nil
		}
	}
}

// c16Recv returns the receiver expression of a method call (nil if none).
func c16Recv(call *ast.CallExpr) ast.Expr {
	if sel, ok := ast.Unparen(call.Fun).(*ast.SelectorExpr); ok {
		return sel.X
	}
	if id, ok := ast.Unparen(call.Fun).(*ast.Ident); ok {
		// call through a local holding a method value (`del := b.deleteSession; del(id)`)
		if x := c16MethodValues[id]; x != nil {
			return x
		}
	}
	return nil
}

// c16MethodValues maps the identifier in call position (`del` in `del(id)`) of a local assigned
// exactly once from a method value `x.m` to x; filled by c16FnOK, which every rule calls (through
// c16Is) before it asks for the receiver.
var c16MethodValues = map[*ast.Ident]ast.Expr{}

// c16FnOK resolves the callee of call like f.Callee, and additionally through a local variable
// that is assigned exactly once from a function name or a method value.
func c16FnOK(f *flow.Func, call *ast.CallExpr) (*types.Func, bool) {
	if fo, ok := f.Callee(call).(*types.Func); ok {
		if impl := c16SingleImpl(f, fo); impl != nil {
			return impl, true
		}
		return fo, true
	}
	id, ok := ast.Unparen(call.Fun).(*ast.Ident)
	if !ok {
		return nil, false
	}
	v, ok := f.Info.Uses[id].(*types.Var)
	if !ok || v.IsField() || v.Parent() == nil || v.Parent() == v.Pkg().Scope() {
		return nil, false
	}
	// single definition in the file-level function enclosing the use
	var rhs []ast.Expr
	for _, file := range f.Pkg.Syntax {
		if file.Pos() <= id.Pos() && id.Pos() < file.End() {
			ast.Inspect(file, func(n ast.Node) bool {
				switch s := n.(type) {
				case *ast.AssignStmt:
					if len(s.Lhs) == len(s.Rhs) {
						for i, l := range s.Lhs {
							if lid, ok := l.(*ast.Ident); ok && (f.Info.Defs[lid] == v || f.Info.Uses[lid] == v) {
								rhs = append(rhs, s.Rhs[i])
							}
						}
					}
				case *ast.ValueSpec:
					for i, nm := range s.Names {
						if f.Info.Defs[nm] == v && i < len(s.Values) {
							rhs = append(rhs, s.Values[i])
						}
					}
				}
				return true
			})
		}
	}
	if len(rhs) != 1 {
		return nil, false
	}
	switch r := ast.Unparen(rhs[0]).(type) {
	case *ast.SelectorExpr:
		if s := f.Info.Selections[r]; s != nil && s.Kind() == types.MethodVal {
			if fo, ok := s.Obj().(*types.Func); ok {
				c16MethodValues[id] = r.X
				return fo, true
			}
		}
		if fo, ok := f.Info.Uses[r.Sel].(*types.Func); ok {
			return fo, true
		}
	case *ast.Ident:
		if fo, ok := f.Info.Uses[r].(*types.Func); ok {
			return fo, true
		}
	}
	return nil, false
}

// c16Is is calleeIs with c16FnOK's resolution.
func c16Is(f *flow.Func, call *ast.CallExpr, names ...string) bool {
	if calleeIs(f, call, names...) {
		return true
	}
	fo, ok := c16FnOK(f, call)
	if !ok {
		return false
	}
	full := strings.ReplaceAll(fo.FullName(), Mod, "")
	for _, n := range names {
		if full == n {
			return true
		}
	}
	return false
}

// c16CallsTo is callsTo with c16FnOK's resolution.
func c16CallsTo(f *flow.Func, n ast.Node, lits bool, names ...string) []*ast.CallExpr {
	var out []*ast.CallExpr
	for _, c := range calls(n, lits) {
		if c16Is(f, c, names...) {
			out = append(out, c)
		}
	}
	return out
}

// c16PtrTo reports whether t is *mqttproxy.<name>.
func c16PtrTo(t types.Type, name string) bool {
	p, ok := t.(*types.Pointer)
	if !ok {
		return false
	}
	n, ok := p.Elem().(*types.Named)
	return ok && n.Obj().Name() == name && n.Obj().Pkg() != nil && n.Obj().Pkg().Path() == Mod+mq
}

// c16Mentions reports whether expression e mentions variable obj.
func c16Mentions(f *flow.Func, e ast.Node, obj types.Object) bool {
	if e == nil || obj == nil {
		return false
	}
	found := false
	ast.Inspect(e, func(n ast.Node) bool {
		if id, ok := n.(*ast.Ident); ok && c16Obj(f, id) == obj {
			found = true
		}
		return !found
	})
	return found
}

// c16DefRHS returns the right-hand sides assigned to variable obj inside f (1:1 assignments).
func c16DefRHS(f *flow.Func, obj types.Object) []ast.Expr {
	var out []ast.Expr
	if obj == nil {
		return nil
	}
	ast.Inspect(f.Body, func(n ast.Node) bool {
		if as, ok := n.(*ast.AssignStmt); ok && len(as.Lhs) == len(as.Rhs) {
			for i, l := range as.Lhs {
				if c16Obj(f, l) == obj {
					out = append(out, as.Rhs[i])
				}
			}
		}
		return true
	})
	return out
}

// c16IsCid reports whether e denotes the client id of a connection: Client.info.cid,
// connect.ClientIdentifier, session.info.ClientID, client.ClientID(), or a local defined from one.
func (e *c16Env) isCid(f *flow.Func, x ast.Expr, depth int) bool {
	x = ast.Unparen(x)
	switch t := x.(type) {
	case *ast.SelectorExpr:
		if c16Sel(f, t, e.cidF) || c16Sel(f, t, e.infoCIDF) {
			return true
		}
		if s := f.Info.Selections[t]; s != nil {
			if v, ok := s.Obj().(*types.Var); ok && v.IsField() && v.Name() == "ClientIdentifier" && v.Pkg() != nil && v.Pkg().Path() == c16Packets {
				return true
			}
		}
	case *ast.CallExpr:
		return c16Is(f, t, "(*"+mq+".Client).ClientID")
	case *ast.Ident:
		if depth > 2 {
			return false
		}
		rhs := c16DefRHS(f, c16Obj(f, t))
		if len(rhs) == 0 {
			return false
		}
		for _, r := range rhs {
			if !e.isCid(f, r, depth+1) {
				return false
			}
		}
		return true
	}
	return false
}

// isCidReach is isCid for an expression that may sit in any function of the package (locals are
// resolved in the function that declares them).
func (e *c16Env) isCidReach(f *flow.Func, x ast.Expr) bool {
	if e.isCid(f, x, 0) {
		return true
	}
	o := c16Obj(f, x)
	if o == nil {
		return false
	}
	for _, d := range e.decls {
		if d.Body.Pos() <= o.Pos() && o.Pos() < d.Body.End() {
			return e.isCid(flow.NewFunc(e.pkg, d), x, 0)
		}
	}
	return false
}

// objOf returns the types object of a resolved function.
func (e *c16Env) objOf(f *flow.Func) types.Object {
	if f == nil {
		return nil
	}
	if fd, ok := f.Node.(*ast.FuncDecl); ok {
		return e.pkg.TypesInfo.Defs[fd.Name]
	}
	return nil
}

// c16RealExit filters the engine's spurious exits (blocking select, see file header) and panics.
func c16RealExit(ex *flow.Exit) bool {
	if ex.Kind != flow.ExitReturn {
		return false
	}
	_, spurious := ex.At.(*ast.CommClause)
	return !spurious
}

// c16First returns the first known value among keys in st.
func c16First(st *flow.State, keys []string) flow.Val {
	for _, k := range keys {
		if v := st.Get(k); v != flow.Unknown {
			return v
		}
	}
	return flow.Unknown
}

func c16AddKey(keys []string, k string) []string {
	for _, x := range keys {
		if x == k {
			return keys
		}
	}
	return append(keys, k)
}

// ---------------------------------------------------------------------------------------

func c16(c *core.Ctx) string {
	c.Rule("R-C16-1", "session choice table of setSession: the previous session (sessMgr.get of the connecting id) is reused iff connect.CleanSession is false and prev != nil and prev.cleanSession() is false; on every other path client.session is a new session and a non-nil previous session is closed and its topics are unsubscribed from the topic manager under the client id; the reused session is neither closed nor unsubscribed")
	c.Rule("R-C16-2", "resubscribe on connect: in handleConn the read loop is entered only after the session was set and the topics returned by that client's session.allSubscribes() were passed to topicMgr.subscribe under the connection's client id (or are known empty); processSubscribe records every accepted subscription in the session with the same topics/qoss; allSubscribes enumerates all of info.Topics without early exit")
	c.Rule("R-C16-3", "identity-guarded teardown: every operation keyed by client id reachable from a connection's teardown (readLoop incl. its deferred function, writeLoop) - delete of the live session, delete of the stored session, topicMgr.unsubscribe, delete from Broker.clients - runs with the broker lock held since the connection registered under that id was looked up, and only if that lookup found this very connection or nothing (un-registration: found it disconnected)")
	c.Rule("R-C16-4", "admin delete disconnects: httpDeleteSessionHandler deletes sessionStoreKey(SessionID) from the store for each listed session; newBroker and reconnectWatcher start watchDelete; watchDelete calls deleteSession for exactly the entries with nil value, with an id derived from the key, never leaves the batch loop early and only stops watching on broker shutdown or after starting reconnectWatcher; deleteSession closes the client registered under the id unless none is registered or it is already disconnected")
	c.Rule("R-C16-5", "a registered connection does not look disconnected: when R-C16-3 accepts `registered.disconnected()` as the guard of an un-registration, the status of a connection (constant propagation over the Client literal, atomic Store/Swap/CompareAndSwap of statusFlag and Client methods, through the constructor chain into handleConn) must make disconnected() false at the store into Broker.clients, and between that store and the read loop only a closing method may make it true")
	c.Rule("R-C16-6", "persistence chain of a session: Session.subscribe/unsubscribe hand every change of info.Topics to store(); Session.store sends every successfully encoded snapshot on the store channel (directly or in a spawned function all of whose paths end in the send) and the send can only be abandoned for SessionManager.done - not by a default clause, a timeout or the session's own done channel, which is closed at every connection teardown; SessionManager.doStore puts every received snapshot under sessionStoreKey(key) and only ends on SessionManager.done")
	c.Rule("R-C16-7", "the session cache holds only sessions of live connections: along the call chain from the read loop's deferred teardown to the removal of the sessionMap entry every function executes the next link on every exit, except exits on which it established that the connection no longer owns its client id (another connection registered / supersession mark set) or that nothing is cached; no condition on the session's content may skip the removal (SessionManager.get reads the cache before the storage)")
	c.Rule("R-C16-8", "key-domain agreement: a key whose domain is evident from the code (client id: Client.info.cid, connect.ClientIdentifier, keys of Broker.clients, a storage key with the prefix stripped; storage key: sessionStoreKey(..), keys of a storage.getPrefix listing or of a watch event) is used only where that domain is demanded (Broker.clients, session cache, topic manager, sessionStoreKey argument: client id; storage get/put/delete, stored-session listings: storage key), also across calls of in-package functions")
	c.NotDecided = []string{
		"the interleavings themselves (the rules check lock/identity discipline, not schedules)",
		"that Client.close eventually ends the TCP connection (the read loop notices only at its next packet or keep-alive deadline)",
		"ordering of the asynchronous Session.store() hand-offs (two snapshots may reach the storage in the wrong order) and the watch event caused by a connection's own delDB",
		"topic trie semantics (C14) and delivery (C15)",
	}
	c.Assumptions = append(c.Assumptions,
		"R-C16-1/2: helpers called between a test of connect.CleanSession and the exit do not modify the connect packet",
		"R-C16-3: a callee invoked under the broker lock does not release it")

	env := c16NewEnv(c)
	if env == nil {
		return "anchors unresolved"
	}
	c16SetSession(env)
	c16Resubscribe(env)
	c16Teardown(env)
	c16AdminDelete(env)
	c16MarkWritten(env)
	c16Status(env)
	c16PersistRule(env)
	c16SessionCtors(env)
	c16Cache(env)
	c16KeyDomains(env)
	// shared with C14: a reconnect restores exactly what the session recorded, so the session may record only batches the
	// trie accepted, and the trie must accept or refuse a batch as a whole (R-C14-6)
	if e14 := c14newEnv(c); e14 != nil {
		c.Alias("R-C14-6", "R-C16-9")
		c.Rule("R-C14-6", "what a reconnect restores is what the broker routes: the SUBSCRIBE handler records / acknowledges a batch only if TopicManager.subscribe accepted it, subscribe reports a malformed filter and is all-or-nothing, unsubscribe processes every filter of the batch (shared with R-C14-6)")
		c14Batch(e14)
		c.Alias("R-C14-6", "")
	}
	return "Static shape rules on the MQTT session life cycle: the complete decision table of setSession over (connect.CleanSession, prev==nil, prev.cleanSession()) is extracted path-sensitively and compared with the table the property states; handleConn enters the read loop only with the session set and its topics resubscribed under the connection's id; every client-id-keyed operation statically reachable from a connection's teardown is required to be guarded, under the broker lock, by a test that the connection registered under the id is still this one (otherwise a superseded connection's teardown destroys the new connection's session, stored copy, subscriptions or registration); the admin path store.delete → watchDelete → deleteSession → Client.close is connected for deleted keys only. Not decided: interleavings, timing of the actual socket close, asynchronous store ordering."
}

// ---- R-C16-1 --------------------------------------------------------------------------

func c16SetSession(e *c16Env) {
	c := e.c
	f := e.anchor("chooser")
	if f == nil {
		return
	}
	cons := e.fnameOf(f)
	getF, newF := e.anchor("sessionGet"), e.anchor("sessionNew")
	var gets []*ast.CallExpr
	for _, call := range calls(f.Body, false) {
		if e.callTo(f, call, getF) {
			gets = append(gets, call)
		}
	}
	var prevID *ast.Ident
	var prevParam types.Object // the previous session handed in by the caller
	if len(gets) == 0 {
		// the lookup was moved to the caller: the chooser takes the previous session as a parameter,
		// and every caller must pass the manager's session of the connecting client id
		fd, _ := f.Node.(*ast.FuncDecl)
		if fd != nil {
			prevID = c16SessionParam(f, fd)
		}
		if prevID == nil {
			c.RequireCount("R-C16-1", "sessMgr.get call sites in setSession", 0, 1)
			return
		}
		prevParam = f.Info.Defs[prevID]
		idx, i := -1, 0
		for _, fld := range fd.Type.Params.List {
			for _, nm := range fld.Names {
				if nm == prevID {
					idx = i
				}
				i++
			}
		}
		fed, sitesN := true, 0
		var at ast.Node = f.Body
		for _, d := range e.decls {
			g := funcOf(e.pkg, d)
			for _, call := range calls(d.Body, true) {
				if !e.callTo(g, call, f) || idx >= len(call.Args) {
					continue
				}
				sitesN++
				arg := ast.Unparen(call.Args[idx])
				if o := c16Obj(g, arg); o != nil {
					if rhs := c16DefRHS(g, o); len(rhs) == 1 {
						arg = ast.Unparen(rhs[0])
					}
				}
				gc, ok := arg.(*ast.CallExpr)
				if !ok || !e.callTo(g, gc, getF) || len(gc.Args) != 1 || !e.isCid(g, gc.Args[0], 0) {
					fed, at = false, call
				}
			}
		}
		if !c.RequireCount("R-C16-1", "callers handing the previous session to the chooser", sitesN, 1) {
			return
		}
		c.Check(fed, "R-C16-1", cons+"|previous session is looked up by the connecting client id", pos(c, at),
			"every caller passes sessMgr.get(<client id of the connection>) as the previous session", "a caller does not pass the session manager's session of the connecting client id as the previous session: a reconnecting client would get somebody else's (or no) session")
	} else {
		ast.Inspect(f.Body, func(n ast.Node) bool {
			if as, ok := n.(*ast.AssignStmt); ok && len(as.Lhs) == 1 && len(as.Rhs) == 1 && ast.Unparen(as.Rhs[0]) == gets[0] {
				prevID, _ = as.Lhs[0].(*ast.Ident)
			}
			return true
		})
	}
	prevObj := c16Obj(f, prevID)
	if prevObj == nil {
		c.Undecide("R-C16-1", cons+"|previous session", pos(c, f.Body), "the result of sessMgr.get is not assigned to a variable")
		return
	}
	if len(gets) > 0 {
		c.Check(len(gets[0].Args) == 1 && e.isCid(f, gets[0].Args[0], 0), "R-C16-1", cons+"|previous session is looked up by the connecting client id", pos(c, gets[0]),
			"sessMgr.get(<client id of the connection>)", "the previous session is not looked up under the connecting client's id: a reconnecting client would get somebody else's (or no) session")
	}

	// the previous session and the parameters it is bound to in the helpers the chooser calls
	// (predicate `resumes(connect, prev)`, `discard(prev, id)` ...)
	prevObjs := map[types.Object]bool{prevObj: true}
	e.bindParams(f, prevObjs, 2)
	// broker-level helpers are interpreted in place; the session / manager methods the rule reasons
	// about by name (cleanSession, close, allSubscribes, get, new ...) stay calls
	inline := func(call *ast.CallExpr, callee *types.Func) *flow.Func {
		if callee == nil {
			return nil
		}
		d := e.decls[callee]
		if d == nil || c16RecvIs(d, "Session") || c16RecvIs(d, "SessionManager") || c16RecvIs(d, "TopicManager") || c16RecvIs(d, "Client") {
			return nil
		}
		return funcOf(e.pkg, d)
	}
	helperBodies := []*flow.Func{f}
	for _, g := range reach(f, 2) {
		if fd, ok := g.Node.(*ast.FuncDecl); ok && g.Body != f.Body && inline(nil, e.objFunc(fd)) != nil {
			helperBodies = append(helperBodies, g)
		}
	}
	// atoms of the table, by role
	var aKeys, cKeys, bKeys []string
	for _, g := range helperBodies {
		ast.Inspect(g.Body, func(n ast.Node) bool {
			switch x := n.(type) {
			case *ast.SelectorExpr:
				if s := f.Info.Selections[x]; s != nil {
					if v, ok := s.Obj().(*types.Var); ok && v.IsField() && v.Name() == "CleanSession" && v.Pkg() != nil && v.Pkg().Path() == c16Packets {
						k, _ := f.Atom(x)
						aKeys = c16AddKey(aKeys, k)
					}
				}
				if c16Sel(f, x, e.cleanFlagF) && prevObjs[c16Obj(f, c16Root(x))] {
					k, _ := f.Atom(x)
					cKeys = c16AddKey(cKeys, k)
				}
			case *ast.CallExpr:
				if c16Is(f, x, "(*"+mq+".Session).cleanSession") && prevObjs[c16Obj(f, c16Recv(x))] {
					cKeys = c16AddKey(cKeys, f.CallKey(x))
				}
			case *ast.Ident:
				if prevObjs[c16Obj(f, x)] {
					bKeys = c16AddKey(bKeys, f.NilKey(x))
				}
			}
			return true
		})
	}
	bKey := f.NilKey(prevID)

	const evReuse, evNew, evOther, evClosed, evUnsub = "ev:c16reuse", "ev:c16new", "ev:c16other", "ev:c16closedPrev", "ev:c16unsubPrev"
	// variables holding the previous session's topics: first result of prev.allSubscribes()
	prevTopics := map[types.Object]bool{}
	// topicsCall: a call on the previous session that enumerates its topic filters: allSubscribes, or
	// an accessor of Session in front of it (first result []string, reaching allSubscribes / Topics)
	topicsCall := func(call *ast.CallExpr) bool {
		if !prevObjs[c16Obj(f, c16Recv(call))] {
			return false
		}
		if c16Is(f, call, "(*"+mq+".Session).allSubscribes") {
			return true
		}
		fo, ok := c16FnOK(f, call)
		if !ok {
			return false
		}
		d := e.decls[fo]
		if d == nil || !c16RecvIs(d, "Session") {
			return false
		}
		res := fo.Type().(*types.Signature).Results()
		if res.Len() == 0 || res.At(0).Type().String() != "[]string" {
			return false
		}
		return reachContains(funcOf(e.pkg, d), 1, func(h *flow.Func, n ast.Node) bool {
			switch x := n.(type) {
			case *ast.CallExpr:
				return c16Is(h, x, "(*"+mq+".Session).allSubscribes")
			case *ast.RangeStmt:
				return c16Sel(h, x.X, e.topicsF)
			}
			return false
		})
	}
	isPrevTopics := func(x ast.Expr) bool {
		if prevTopics[c16Obj(f, x)] {
			return true
		}
		call, ok := ast.Unparen(x).(*ast.CallExpr)
		return ok && topicsCall(call)
	}
	for _, g := range helperBodies {
		ast.Inspect(g.Body, func(n ast.Node) bool {
			if as, ok := n.(*ast.AssignStmt); ok && len(as.Rhs) == 1 && len(as.Lhs) >= 1 {
				if call, ok := ast.Unparen(as.Rhs[0]).(*ast.CallExpr); ok && topicsCall(call) {
					if o := c16Obj(f, as.Lhs[0]); o != nil {
						prevTopics[o] = true
					}
				}
			}
			return true
		})
	}
	cidParams := e.cidParams(f, 2)
	isNewExpr := func(r ast.Expr) bool {
		r = ast.Unparen(r)
		if call, ok := r.(*ast.CallExpr); ok {
			return e.callTo(f, call, newF)
		}
		if o := c16Obj(f, r); o != nil && o != prevObj {
			rhs := c16DefRHS(f, o)
			if len(rhs) == 0 {
				return false
			}
			for _, x := range rhs {
				call, ok := ast.Unparen(x).(*ast.CallExpr)
				if !ok || !e.callTo(f, call, newF) {
					return false
				}
			}
			return true
		}
		return false
	}
	// a chooser that returns the session instead of assigning it: its caller must assign the
	// result to Client.session
	returnsSession := false
	var namedResult *ast.Ident
	if fd, ok := f.Node.(*ast.FuncDecl); ok && fd.Type.Results != nil && len(fd.Type.Results.List) == 1 {
		if tv, ok := f.Info.Types[fd.Type.Results.List[0].Type]; ok && tv.Type != nil && c16PtrTo(tv.Type, "Session") {
			returnsSession = true
			if names := fd.Type.Results.List[0].Names; len(names) == 1 {
				namedResult = names[0]
			}
		}
	}
	if returnsSession {
		assigned := false
		eachFunc(c, func(pkg *packages.Package, fd *ast.FuncDecl) {
			if pkg != e.pkg {
				return
			}
			g := flow.NewFunc(pkg, fd)
			ast.Inspect(fd.Body, func(n ast.Node) bool {
				if as, ok := n.(*ast.AssignStmt); ok && len(as.Lhs) == len(as.Rhs) {
					for i, l := range as.Lhs {
						if call, ok := ast.Unparen(as.Rhs[i]).(*ast.CallExpr); ok && c16Sel(g, l, e.sessionF) && e.callTo(g, call, f) {
							assigned = true
						}
					}
				}
				return true
			})
		})
		c.Check(assigned, "R-C16-1", cons+"|chosen session becomes the client's session", pos(c, f.Body), "the result of the chooser is assigned to Client.session", "the session chosen for the connection is never assigned to Client.session")
	}
	// provenance of session variables: True = holds the previous session (result of get),
	// False = holds a new session; the variable assigned from get may later be reused for the new one
	provKey := func(x ast.Expr) string {
		if id, ok := ast.Unparen(x).(*ast.Ident); ok && c16Obj(f, id) != nil {
			return "ev:c16prov:" + f.Render(id)
		}
		return ""
	}
	provOf := func(st *flow.State, x ast.Expr) flow.Val {
		x = ast.Unparen(x)
		if call, ok := x.(*ast.CallExpr); ok {
			switch {
			case e.callTo(f, call, newF):
				return flow.False
			case e.callTo(f, call, getF):
				return flow.True
			}
			return flow.Unknown
		}
		if k := provKey(x); k != "" {
			if v := st.Get(k); v != flow.Unknown {
				return v
			}
			if prevParam != nil && c16Obj(f, x) == prevParam {
				return flow.True // the parameter still holds what the caller looked up
			}
			if isNewExpr(x) { // single-assignment local never seen assigned on this path
				return flow.False
			}
		}
		return flow.Unknown
	}
	mirror := func(k string) string { return "ev:c16atom:" + k }
	allAtoms := append(append(append(append([]string{}, aKeys...), bKey), bKeys...), cKeys...)
	res := analyze(c, f, flow.Config{
		NoHavoc: true,
		Inline:  inline,
		OnInline: func(st *flow.State, ev *flow.InlineEvent) {
			if !ev.Enter {
				return
			}
			for i, pid := range ev.Params {
				if i < len(ev.Args) && pid != nil {
					if v := provOf(st, ev.Args[i]); v != flow.Unknown {
						st.Set(provKey(pid), v)
					}
				}
			}
		},
		AfterAssume: func(st *flow.State, cond ast.Expr, outcome bool) {
			// remember the atoms as decided: the variable holding the previous session may be reassigned
			for _, k := range allAtoms {
				if v := st.Get(k); v != flow.Unknown {
					st.Set(mirror(k), v)
				}
			}
		},
		OnNode: func(st *flow.State, n ast.Node) {
			as, ok := n.(*ast.AssignStmt)
			if !ok || len(as.Lhs) != len(as.Rhs) {
				return
			}
			for i, l := range as.Lhs {
				if k := provKey(l); k != "" {
					st.Set(k, provOf(st, as.Rhs[i]))
				}
				if !c16Sel(f, l, e.sessionF) {
					continue
				}
				st.Set(evReuse, flow.False)
				st.Set(evNew, flow.False)
				st.Set(evOther, flow.False)
				switch provOf(st, as.Rhs[i]) {
				case flow.True:
					st.Set(evReuse, flow.True)
				case flow.False:
					st.Set(evNew, flow.True)
				default:
					st.Set(evOther, flow.True)
				}
			}
		},
		OnCall: func(st *flow.State, call *ast.CallExpr, callee types.Object, deferred bool) {
			if c16Is(f, call, "(*"+mq+".Session).close") && prevObjs[c16Obj(f, c16Recv(call))] && provOf(st, c16Recv(call)) == flow.True {
				st.Set(evClosed, flow.True)
			}
			if c16Is(f, call, "(*"+mq+".TopicManager).unsubscribe") && len(call.Args) == 2 && isPrevTopics(call.Args[0]) && (e.isCidReach(f, call.Args[1]) || cidParams[c16Obj(f, call.Args[1])]) {
				st.Set(evUnsub, flow.True)
			}
		},
	})
	if res == nil {
		return
	}
	type verdict struct {
		st  *flow.State
		why string
	}
	var badReuse, badNew, badClose, badSet, badUnsub *verdict
	exits, reuseExits, newExits := 0, 0, 0
	for _, ex := range res.Exits {
		if !c16RealExit(ex) {
			continue
		}
		exits++
		st := ex.State
		atom := func(keys []string) flow.Val {
			for _, k := range keys {
				if v := st.Get(mirror(k)); v != flow.Unknown {
					return v
				}
			}
			return c16First(st, keys)
		}
		a, b, cc := atom(aKeys), atom(append([]string{bKey}, bKeys...)), atom(cKeys)
		reuse, isNew := st.Is(evReuse, flow.True), st.Is(evNew, flow.True)
		if returnsSession && !reuse && !isNew && !st.Is(evOther, flow.True) {
			// the chooser hands its choice back to the caller, which assigns client.session
			var val ast.Expr
			if r := ex.Ret(); r != nil && len(r.Results) == 1 {
				val = r.Results[0]
			} else if namedResult != nil {
				val = namedResult // bare return of a named result
			}
			switch provOf(st, val) {
			case flow.True:
				reuse = true
			case flow.False:
				isNew = true
			}
		}
		switch {
		case reuse:
			reuseExits++
			switch {
			case a != flow.False && badReuse == nil:
				badReuse = &verdict{st, "the previous session is reused on a path on which connect.CleanSession is not known to be false: a client connecting with cleanSession=true gets its discarded subscriptions back"}
			case b != flow.False && badReuse == nil:
				badReuse = &verdict{st, "client.session is set to the previous session on a path on which it may be nil"}
			case cc != flow.False && badReuse == nil:
				badReuse = &verdict{st, "the previous session is reused without testing that it was not a clean session: state that cleanSession=true promised to discard is resurrected"}
			}
			if st.Is(evClosed, flow.True) && badClose == nil {
				badClose = &verdict{st, "the reused session is closed: its resend loop stops and a later close panics"}
			}
			if st.Is(evUnsub, flow.True) && badUnsub == nil {
				badUnsub = &verdict{st, "the subscriptions of the session that is reused are removed from the topic manager"}
			}
		case isNew:
			newExits++
			if a != flow.True && b != flow.True && cc != flow.True && badNew == nil {
				badNew = &verdict{st, "a new session replaces the previous one although none of (cleanSession requested, no previous session, previous session clean) is established: a client reconnecting with cleanSession=false loses its subscriptions"}
			}
			if b != flow.True && !st.Is(evClosed, flow.True) && badClose == nil {
				badClose = &verdict{st, "a previous session that is being discarded is not closed: its resend loop keeps running and re-delivers the old session's pending messages to the new connection"}
			}
			if b != flow.True && !st.Is(evUnsub, flow.True) && badUnsub == nil {
				badUnsub = &verdict{st, "a previous session is discarded but its topics are not unsubscribed from the topic manager under the client id: when the discarded session still belongs to a live (superseded) connection, the new connection keeps receiving messages for subscriptions it never made — until, and only if, the old connection's teardown removes them (which in turn removes the new connection's own subscriptions to the same topics, R-C16-3)"}
			}
		default:
			if badSet == nil {
				badSet = &verdict{st, "a path through setSession leaves client.session unset or set to something that is neither the previous nor a new session"}
			}
		}
	}
	if !c.RequireCount("R-C16-1", "exits of setSession", exits, 2) {
		return
	}
	chk := func(v *verdict, role, okd string) {
		if v == nil {
			c.Discharge("R-C16-1", cons+"|"+role, pos(c, f.Body), okd)
		} else {
			c.Violate("R-C16-1", cons+"|"+role, pos(c, f.Body), v.why, witness(v.st)...)
		}
	}
	chk(badSet, "session always chosen", sprintf("all %d exits assign the previous or a new session", exits))
	chk(badReuse, "reuse only if not cleanSession, prev non-nil, prev not clean", sprintf("%d reuse exit(s), all with the three atoms false", reuseExits))
	chk(badNew, "new session only otherwise", sprintf("%d new-session exit(s), each with one atom true", newExits))
	chk(badClose, "discarded previous session closed, reused one not", "every new-session exit with a possibly non-nil previous session passed prev.close(); no reuse exit did")
	if badUnsub != nil && badUnsub.st != nil && !badUnsub.st.Is(evReuse, flow.True) && c16TakeoverTearsDownOld(e) {
		// alternative design: the takeover branch of handleConn synchronously tears the old
		// connection down (including its subscriptions) before the session is chosen
		badUnsub = nil
	}
	chk(badUnsub, "discarded previous session's subscriptions removed", "every new-session exit with a possibly non-nil previous session passed topicMgr.unsubscribe(prev.allSubscribes() topics, client id); no reuse exit did")
}

// c16TakeoverTearsDownOld reports whether handleConn calls, synchronously (not via go/defer), a
// method on the connection it found registered under the id that statically reaches
// TopicManager.unsubscribe (depth <= 3).
func c16TakeoverTearsDownOld(e *c16Env) bool {
	f := fnOpt(e.c, mq, "Broker", "handleConn")
	if f == nil {
		return false
	}
	reg := map[types.Object]bool{}
	ast.Inspect(f.Body, func(n ast.Node) bool {
		if as, ok := n.(*ast.AssignStmt); ok && len(as.Rhs) == 1 && e.isClientsLookup(f, as.Rhs[0]) {
			if o := c16Obj(f, as.Lhs[0]); o != nil {
				reg[o] = true
			}
		}
		return true
	})
	var reaches func(g *flow.Func, depth int) bool
	reaches = func(g *flow.Func, depth int) bool {
		for _, call := range calls(g.Body, false) {
			if c16Is(g, call, "(*"+mq+".TopicManager).unsubscribe") {
				return true
			}
			if fo, ok := c16FnOK(g, call); ok && depth < 3 {
				if d := e.decls[fo]; d != nil && reaches(flow.NewFunc(e.pkg, d), depth+1) {
					return true
				}
			}
		}
		return false
	}
	pm := parentMap(f.Body)
	for _, call := range calls(f.Body, false) {
		if !reg[c16Obj(f, c16Recv(call))] {
			continue
		}
		switch pm[call].(type) {
		case *ast.GoStmt, *ast.DeferStmt:
			continue
		}
		if fo, ok := c16FnOK(f, call); ok {
			if d := e.decls[fo]; d != nil && reaches(flow.NewFunc(e.pkg, d), 1) {
				return true
			}
		}
	}
	return false
}

// ---- R-C16-2 --------------------------------------------------------------------------

func c16Resubscribe(e *c16Env) {
	c := e.c
	if f := e.anchor("handleConn"); f != nil {
		cons := e.fnameOf(f)
		readF := e.anchor("readLoop")
		var reads []*ast.CallExpr
		for _, g := range syncReach(e, f, 3) {
			for _, call := range calls(g.Body, false) {
				if e.callTo(g, call, readF) {
					reads = append(reads, call)
				}
			}
		}
		if c.RequireCount("R-C16-2", "readLoop call sites in handleConn", len(reads), 1) {
			read := reads[0]
			// the connection: the variable whose read loop is run, and the parameters it is bound to
			// in the helpers handleConn calls
			clients := map[types.Object]bool{}
			if o := c16Obj(f, c16Root(c16Recv(read))); o != nil {
				clients[o] = true
			}
			e.bindParams(f, clients, 3)
			// topic variables: results of <client>.session.allSubscribes(), anywhere in the reach
			var topicsID, qossID *ast.Ident
			var load *ast.CallExpr
			inspectReach(f, 3, func(g *flow.Func, n ast.Node) bool {
				as, ok := n.(*ast.AssignStmt)
				if !ok || len(as.Rhs) != 1 || len(as.Lhs) < 2 {
					return true
				}
				call, ok := ast.Unparen(as.Rhs[0]).(*ast.CallExpr)
				if !ok || !c16Is(g, call, "(*"+mq+".Session).allSubscribes") {
					return true
				}
				recv := c16Recv(call)
				if c16Sel(g, recv, e.sessionF) && clients[c16Obj(g, c16Root(recv))] {
					// only the enumeration whose topics are handed to TopicManager.subscribe (a teardown
					// helper enumerates them too, to unsubscribe)
					tid, _ := as.Lhs[0].(*ast.Ident)
					used := false
					for _, sc := range c16CallsTo(g, g.Body, false, "(*"+mq+".TopicManager).subscribe") {
						if len(sc.Args) == 3 && tid != nil && c16Obj(g, sc.Args[0]) == c16Obj(g, tid) {
							used = true
						}
					}
					if used || load == nil {
						load = call
						topicsID = tid
						qossID, _ = as.Lhs[1].(*ast.Ident)
					}
				}
				return true
			})
			tObj, qObj := c16Obj(f, topicsID), c16Obj(f, qossID)
			isResub := func(call *ast.CallExpr) bool {
				return c16Is(f, call, "(*"+mq+".TopicManager).subscribe") && len(call.Args) == 3 && tObj != nil &&
					c16Obj(f, call.Args[0]) == tObj && c16Obj(f, call.Args[1]) == qObj && e.isCidReach(f, call.Args[2])
			}
			var emptyT, emptyF, cleanKeys []string // facts meaning "no topics to resubscribe"
			if topicsID != nil {
				lenR := "len(" + f.Render(topicsID) + ")"
				emptyF = []string{"lt:0<" + lenR}
				emptyT = []string{"eq:" + lenR + "==0", "lt:" + lenR + "<1", f.NilKey(topicsID)}
			}
			inspectReach(f, 3, func(g *flow.Func, n ast.Node) bool {
				if x, ok := n.(*ast.SelectorExpr); ok {
					if s := g.Info.Selections[x]; s != nil {
						if v, ok := s.Obj().(*types.Var); ok && v.IsField() && v.Name() == "CleanSession" && v.Pkg() != nil && v.Pkg().Path() == c16Packets {
							k, _ := g.Atom(x)
							cleanKeys = c16AddKey(cleanKeys, k)
						}
					}
				}
				return true
			})
			const evSess, evLoaded, evResub = "ev:c16sess", "ev:c16loaded", "ev:c16resub"
			res := analyze(c, f, flow.Config{
				NoHavoc: true,
				Inline: e.inlineWhere(f, func(g *flow.Func, n ast.Node) bool {
					switch x := n.(type) {
					case *ast.AssignStmt:
						for _, l := range x.Lhs {
							if c16Sel(g, l, e.sessionF) {
								return true
							}
						}
					case *ast.CallExpr:
						return c16Is(g, x, "(*"+mq+".Session).allSubscribes", "(*"+mq+".TopicManager).subscribe")
					}
					return false
				}),
				OnNode: func(st *flow.State, n ast.Node) {
					if as, ok := n.(*ast.AssignStmt); ok {
						for _, l := range as.Lhs {
							if c16Sel(f, l, e.sessionF) {
								st.Set(evSess, flow.True)
							}
						}
					}
				},
				OnCall: func(st *flow.State, call *ast.CallExpr, callee types.Object, deferred bool) {
					switch {
					case c16Is(f, call, "(*"+mq+".Broker).setSession"):
						st.Set(evSess, flow.True)
					case call == load:
						if st.Is(evSess, flow.True) {
							st.Set(evLoaded, flow.True)
						} else {
							st.Set(evLoaded, flow.False)
						}
						st.Set(evResub, flow.False)
					case isResub(call):
						if st.Is(evLoaded, flow.True) {
							st.Set(evResub, flow.True)
						}
					}
				},
			})
			if res != nil {
				states := res.At[read]
				var bad *flow.State
				why := ""
				for _, st := range states {
					empty := false
					for _, k := range emptyT {
						empty = empty || st.Is(k, flow.True)
					}
					for _, k := range emptyF {
						empty = empty || st.Is(k, flow.False)
					}
					for _, k := range cleanKeys {
						empty = empty || st.Is(k, flow.True)
					}
					switch {
					case !st.Is(evSess, flow.True):
						bad, why = st, "the read loop is entered on a path on which the client's session has not been set"
					case !st.Is(evResub, flow.True) && !(empty && st.Is(evLoaded, flow.True)):
						bad, why = st, "the read loop is entered without the session's topics having been subscribed in the topic manager under the connection's client id: a client reconnecting with cleanSession=false does not get its previous subscriptions back (the read loop only returns when the connection ends)"
					}
					if bad != nil {
						break
					}
				}
				if len(states) == 0 {
					c.Violate("R-C16-2", cons+"|resubscribe before read loop", pos(c, read), "the read loop is unreachable in handleConn")
				} else {
					c.Check(bad == nil, "R-C16-2", cons+"|resubscribe before read loop", pos(c, read),
						sprintf("%d states reach readLoop, all with the session set and its topics resubscribed (or known empty)", len(states)), why, witness(bad)...)
				}
			}
		}
	}

	// processSubscribe records accepted subscriptions in the session
	if f := e.anchor("processSubscribe"); f != nil {
		cons := e.fnameOf(f)
		subs := c16CallsTo(f, f.Body, false, "(*"+mq+".TopicManager).subscribe")
		if c.RequireCount("R-C16-2", "topicMgr.subscribe call sites in processSubscribe", len(subs), 1) {
			sub := subs[0]
			recs := c16CallsTo(f, f.Body, false, "(*"+mq+".Session).subscribe")
			errKey := ""
			ast.Inspect(f.Body, func(n ast.Node) bool {
				if as, ok := n.(*ast.AssignStmt); ok && len(as.Lhs) == 1 && len(as.Rhs) == 1 && ast.Unparen(as.Rhs[0]) == sub {
					errKey = f.NilKey(as.Lhs[0])
				}
				return true
			})
			if len(recs) == 0 {
				c.Violate("R-C16-2", cons+"|accepted subscription recorded in session", pos(c, sub),
					"processSubscribe never records the subscription in the client's session: after a reconnect with cleanSession=false there is nothing to resubscribe")
			} else {
				isRec := func(call *ast.CallExpr) bool {
					if !c16Is(f, call, "(*"+mq+".Session).subscribe") || len(call.Args) != 2 || len(sub.Args) != 3 {
						return false
					}
					return f.Render(call.Args[0]) == f.Render(sub.Args[0]) && f.Render(call.Args[1]) == f.Render(sub.Args[1]) && c16Sel(f, c16Recv(call), e.sessionF)
				}
				res := analyze(c, f, flow.Config{NoHavoc: true, OnCall: func(st *flow.State, call *ast.CallExpr, callee types.Object, d bool) {
					if isRec(call) {
						st.Set("ev:c16rec", flow.True)
					}
				}})
				if res != nil {
					var bad *flow.State
					n := 0
					for _, ex := range res.Exits {
						if !c16RealExit(ex) {
							continue
						}
						n++
						failed := errKey != "" && ex.State.Is(errKey, flow.False)
						if !failed && !ex.State.Is("ev:c16rec", flow.True) && bad == nil {
							bad = ex.State
						}
					}
					c.Check(bad == nil && n > 0, "R-C16-2", cons+"|accepted subscription recorded in session", pos(c, sub),
						sprintf("%d exits: every one on which topicMgr.subscribe did not fail passed client.session.subscribe(same topics, same qoss)", n),
						"a subscription accepted by the topic manager is not recorded (with the same topics and QoS) in the client's session: it is lost on reconnect with cleanSession=false", witness(bad)...)
					// converse: nothing the topic manager refused is recorded
					var early *flow.State
					m := 0
					for _, call := range c16CallsTo(f, f.Body, false, "(*"+mq+".Session).subscribe") {
						for _, st := range res.At[call] {
							m++
							if (errKey == "" || !st.Is(errKey, flow.True)) && early == nil {
								early = st
							}
						}
					}
					c.Check(early == nil, "R-C16-2", cons+"|only accepted subscriptions recorded in session", pos(c, sub),
						sprintf("%d states reach client.session.subscribe, all after topicMgr.subscribe returned nil", m),
						"the session records (and persists) the SUBSCRIBE batch on a path on which the topic manager has not accepted it: a refused batch (malformed filter) stays in the stored session, and every later cleanSession=false reconnect, which re-subscribes the stored batch as a whole in handleConn, restores nothing", witness(early)...)
				}
			}
		}
	}

	// allSubscribes enumerates all topics
	if f := fn(c, mq, "Session", "allSubscribes"); f != nil {
		c16AllSubscribes(e, f)
	}
}

// ---- R-C16-3 --------------------------------------------------------------------------

const (
	c16OpLive  = "delete live session by client id"
	c16OpStore = "delete stored session by client id"
	c16OpUnsub = "unsubscribe by client id"
	c16OpUnreg = "unregister by client id"
)

type c16Op struct {
	cons, kind, pos string
	guarded         bool
	how, chain      string
	st              *flow.State
}

type c16Walker struct {
	e       *c16Env
	visited map[string]bool
	ops     map[string]*c16Op
	order   []string
	links   int
}

// c16Guards is the per-function guard analysis.
type c16Guards struct {
	f          *flow.Func
	res        *flow.Result
	idKeys     []string // identity comparisons registered == this
	absentT    []string // facts whose truth means "nothing registered" (nil:<reg>)
	absentF    []string // facts whose falsity means "nothing registered" (v:<ok>)
	discKeys   []string // <reg>.disconnected() call facts
	unresolved bool     // comparisons on the registry the analysis does not classify
	discRelied bool     // some state was accepted only because <reg>.disconnected() is true
	sup        []c16SupFact
	env        *c16Env
}

const c16Locked, c16Fresh = "ev:c16brokerLocked", "ev:c16lookupFresh"

func (e *c16Env) isClientsLookup(f *flow.Func, x ast.Expr) bool {
	if ix, ok := ast.Unparen(x).(*ast.IndexExpr); ok {
		return c16Sel(f, ix.X, e.clientsF)
	}
	// an accessor in front of the map that itself takes no lock: `b.lookupClientLocked(id)`
	if call, ok := ast.Unparen(x).(*ast.CallExpr); ok {
		return e.lookupKey(f, call) != nil
	}
	return false
}

// lookupKey returns the key of a read of Broker.clients: the index of `clients[k]`, or the argument
// of a lock-free accessor whose body is nothing but that read (nil for anything else).
func (e *c16Env) lookupKey(f *flow.Func, x ast.Expr) ast.Expr {
	x = ast.Unparen(x)
	if ix, ok := x.(*ast.IndexExpr); ok && c16Sel(f, ix.X, e.clientsF) {
		return ix.Index
	}
	call, ok := x.(*ast.CallExpr)
	if !ok {
		return nil
	}
	fo, ok := c16FnOK(f, call)
	if !ok {
		return nil
	}
	idx, ok := e.lookupAccessor(fo)
	if !ok || idx >= len(call.Args) {
		return nil
	}
	return call.Args[idx]
}

// lookupAccessor: fo's body only reads Broker.clients[<parameter>] and returns the value (no lock,
// no store, no delete, no other call); returns the index of the key parameter.
func (e *c16Env) lookupAccessor(fo *types.Func) (int, bool) {
	if r, ok := e.accessorMemo[fo]; ok {
		return r, r >= 0
	}
	if e.accessorMemo == nil {
		e.accessorMemo = map[*types.Func]int{}
	}
	e.accessorMemo[fo] = -1
	d := e.decls[fo]
	if d == nil || d.Type.Params == nil || d.Type.Results == nil {
		return -1, false
	}
	res := fo.Type().(*types.Signature).Results()
	if res.Len() == 0 || !c16PtrTo(res.At(0).Type(), "Client") {
		return -1, false
	}
	g := funcOf(e.pkg, d)
	params := map[types.Object]int{}
	i := 0
	for _, fld := range d.Type.Params.List {
		for _, nm := range fld.Names {
			params[g.Info.Defs[nm]] = i
			i++
		}
	}
	idx, reads, other := -1, 0, false
	ast.Inspect(d.Body, func(n ast.Node) bool {
		switch x := n.(type) {
		case *ast.IndexExpr:
			if c16Sel(g, x.X, e.clientsF) {
				reads++
				if pi, ok := params[c16Obj(g, x.Index)]; ok {
					idx = pi
				}
			}
		case *ast.CallExpr:
			other = true
		case *ast.AssignStmt:
			for _, l := range x.Lhs {
				if ix, ok := ast.Unparen(l).(*ast.IndexExpr); ok && c16Sel(g, ix.X, e.clientsF) {
					other = true
				}
			}
		case *ast.GoStmt, *ast.DeferStmt, *ast.ForStmt, *ast.RangeStmt:
			other = true
		}
		return true
	})
	if reads == 1 && idx >= 0 && !other {
		e.accessorMemo[fo] = idx
		return idx, true
	}
	return -1, false
}

// isRegistryRead: Broker.clients[...] or Broker.getClient(...) (the latter takes and releases the
// lock itself, so a guard built on it is never atomic with the operation it protects).
func (e *c16Env) isRegistryRead(f *flow.Func, x ast.Expr) bool {
	if e.isClientsLookup(f, x) {
		return true
	}
	call, ok := ast.Unparen(x).(*ast.CallExpr)
	return ok && c16Is(f, call, "(*"+mq+".Broker).getClient")
}

func (e *c16Env) brokerLockCall(f *flow.Func, call *ast.CallExpr, callee types.Object) string {
	fo, ok := callee.(*types.Func)
	if !ok || fo.Pkg() == nil || fo.Pkg().Path() != "sync" {
		return ""
	}
	recv := c16Recv(call)
	if recv == nil {
		return ""
	}
	tv, ok := f.Info.Types[recv]
	if !ok || tv.Type == nil {
		return ""
	}
	isBroker := func(t types.Type) bool {
		if c16PtrTo(t, "Broker") {
			return true
		}
		n, ok := t.(*types.Named)
		return ok && n.Obj().Name() == "Broker" && n.Obj().Pkg() != nil && n.Obj().Pkg().Path() == Mod+mq
	}
	if !isBroker(tv.Type) {
		// the mutex as a named field of Broker: b.mu.Lock()
		sel, ok := ast.Unparen(recv).(*ast.SelectorExpr)
		if !ok {
			return ""
		}
		xt, ok := f.Info.Types[sel.X]
		if !ok || xt.Type == nil || !isBroker(xt.Type) {
			return ""
		}
		if ts := tv.Type.String(); ts != "sync.RWMutex" && ts != "sync.Mutex" && ts != "*sync.RWMutex" && ts != "*sync.Mutex" {
			return ""
		}
	}
	switch fo.Name() {
	case "Lock", "RLock":
		return "lock"
	case "Unlock", "RUnlock":
		return "unlock"
	}
	return ""
}

// ownerHelpers returns the boolean same-package functions called from f that look the registry
// up (`func (c *Client) ownsClientID() bool`): the guard analysis interprets them in place and
// collects its guard atoms from their bodies as well.
func (w *c16Walker) ownerHelpers(f *flow.Func) ([]*flow.Func, func(*ast.CallExpr, *types.Func) *flow.Func) {
	e := w.e
	byDecl := map[*ast.FuncDecl]*flow.Func{}
	var list []*flow.Func
	var collect func(g *flow.Func, depth int)
	collect = func(g *flow.Func, depth int) {
		for _, call := range calls(g.Body, false) {
			fo, ok := c16FnOK(g, call)
			if !ok {
				continue
			}
			d := e.decls[fo]
			if d == nil || byDecl[d] != nil || d.Type.Results == nil || len(d.Type.Results.List) != 1 {
				continue
			}
			if b, ok := fo.Type().(*types.Signature).Results().At(0).Type().Underlying().(*types.Basic); !ok || b.Info()&types.IsBoolean == 0 {
				continue
			}
			h := flow.NewFunc(e.pkg, d)
			reads := false
			ast.Inspect(d.Body, func(n ast.Node) bool {
				if x, ok := n.(ast.Expr); ok && e.isRegistryRead(h, x) {
					reads = true
				}
				return !reads
			})
			if !reads && depth >= 1 {
				continue
			}
			if !reads {
				// a boolean helper that delegates to one that reads the registry
				sub := false
				for _, c2 := range calls(d.Body, false) {
					if fo2, ok := c16FnOK(h, c2); ok && e.decls[fo2] != nil && e.decls[fo2] != d {
						h2 := flow.NewFunc(e.pkg, e.decls[fo2])
						ast.Inspect(e.decls[fo2].Body, func(n ast.Node) bool {
							if x, ok := n.(ast.Expr); ok && e.isRegistryRead(h2, x) {
								sub = true
							}
							return !sub
						})
					}
				}
				if !sub {
					continue
				}
			}
			byDecl[d] = h
			list = append(list, h)
			collect(h, depth+1)
		}
	}
	collect(f, 0)
	return list, func(call *ast.CallExpr, callee *types.Func) *flow.Func {
		if callee == nil {
			return nil
		}
		return byDecl[e.decls[callee]]
	}
}

func (w *c16Walker) guards(f *flow.Func, entryLocked bool) *c16Guards {
	e := w.e
	g := &c16Guards{f: f, env: e}
	helpers, inline := w.ownerHelpers(f)
	bodies := append([]*flow.Func{f}, helpers...)
	regVars := map[types.Object]*ast.Ident{}
	for _, h := range bodies {
		ast.Inspect(h.Body, func(n ast.Node) bool {
			as, ok := n.(*ast.AssignStmt)
			if !ok || len(as.Rhs) != 1 || !e.isRegistryRead(f, as.Rhs[0]) {
				return true
			}
			if id, ok := as.Lhs[0].(*ast.Ident); ok && c16Obj(f, id) != nil {
				regVars[c16Obj(f, id)] = id
				g.absentT = c16AddKey(g.absentT, f.NilKey(id))
			}
			if len(as.Lhs) == 2 {
				if id, ok := as.Lhs[1].(*ast.Ident); ok && c16Obj(f, id) != nil {
					g.absentF = c16AddKey(g.absentF, f.VarKey(id))
				}
			}
			return true
		})
	}
	isReg := func(x ast.Expr) bool { o := c16Obj(f, x); return o != nil && regVars[o] != nil }
	for _, h := range bodies {
		ast.Inspect(h.Body, func(n ast.Node) bool {
			switch x := n.(type) {
			case *ast.BinaryExpr:
				if x.Op.String() != "==" && x.Op.String() != "!=" {
					return true
				}
				for _, p := range [][2]ast.Expr{{x.X, x.Y}, {x.Y, x.X}} {
					reg, other := p[0], p[1]
					if e.isRegistryRead(f, reg) {
						g.unresolved = true
					}
					if !isReg(reg) || isReg(other) {
						continue
					}
					if tv, ok := f.Info.Types[other]; ok && tv.Type != nil && c16PtrTo(tv.Type, "Client") {
						g.idKeys = c16AddKey(g.idKeys, f.EqKey(x.X, x.Y))
					}
				}
			case *ast.CallExpr:
				if c16Is(f, x, "(*"+mq+".Client).disconnected") && isReg(c16Recv(x)) {
					g.discKeys = c16AddKey(g.discKeys, f.CallKey(x))
				}
			}
			return true
		})
	}
	for _, h := range bodies {
		for _, sf := range e.supFacts(h, isReg) {
			dup := false
			for _, o := range g.sup {
				dup = dup || o.key == sf.key
			}
			if !dup {
				g.sup = append(g.sup, sf)
			}
		}
	}
	g.res = analyze(e.c, f, flow.Config{
		NoHavoc: true,
		Inline:  inline,
		OnBlock: func(st *flow.State, b *cfg.Block) {
			if entryLocked && !st.Is("ev:c16entry", flow.True) {
				st.Set("ev:c16entry", flow.True)
				st.Set(c16Locked, flow.True)
			}
		},
		OnNode: func(st *flow.State, n ast.Node) {
			if as, ok := n.(*ast.AssignStmt); ok && len(as.Rhs) == 1 && e.isRegistryRead(f, as.Rhs[0]) {
				if st.Is(c16Locked, flow.True) && e.isClientsLookup(f, as.Rhs[0]) {
					st.Set(c16Fresh, flow.True)
				} else {
					st.Set(c16Fresh, flow.False)
				}
			}
		},
		OnCall: func(st *flow.State, call *ast.CallExpr, callee types.Object, deferred bool) {
			switch e.brokerLockCall(f, call, callee) {
			case "lock":
				st.Set(c16Locked, flow.True)
			case "unlock":
				st.Set(c16Locked, flow.False)
				st.Set(c16Fresh, flow.False)
			}
		},
	})
	return g
}

// at decides whether every state reaching call is guarded; returns the description of the guard
// ("" = unguarded), the offending state and the reason.
func (g *c16Guards) at(call *ast.CallExpr, kind string) (how string, bad *flow.State, why string) {
	if g.res == nil {
		return "", nil, "analysis failed"
	}
	states := g.res.At[call]
	if len(states) == 0 {
		return "unreachable", nil, ""
	}
	for _, st := range states {
		fact, absent := false, false
		for _, k := range g.idKeys {
			fact = fact || st.Is(k, flow.True)
		}
		for _, k := range g.absentT {
			absent = absent || st.Is(k, flow.True)
		}
		for _, k := range g.absentF {
			absent = absent || st.Is(k, flow.False)
		}
		if absent && !fact {
			// nothing registered: harmless for the un-registration itself; for everything else
			// it proves ownership only for a connection that was never superseded
			if kind == c16OpUnreg {
				fact = true
			}
			for _, sf := range g.sup {
				if sf.notSupWhen != flow.Unknown && st.Get(sf.key) == sf.notSupWhen {
					fact = true
					if g.env.markRelied == nil {
						g.env.markRelied = map[*types.Var]bool{}
					}
					g.env.markRelied[sf.fld] = true
				}
			}
			if !fact {
				return "", st, "the operation runs when nothing is registered under the id any more, without having established that this connection was never superseded: a superseded connection whose successor has connected, disconnected and been unregistered in the meantime (its cleanSession=false session stored for the next reconnect) passes this test, and its late teardown removes what the successor left behind under the id"
			}
		}
		if kind == c16OpUnreg && !fact {
			for _, k := range g.discKeys {
				if st.Is(k, flow.True) {
					fact = true
					g.discRelied = true
				}
			}
		}
		switch {
		case !fact:
			return "", st, "no test that the connection registered under the id is this connection (or absent) dominates the operation"
		case !st.Is(c16Locked, flow.True) || !st.Is(c16Fresh, flow.True):
			return "", st, "the registered connection is tested, but the broker lock is not held from the lookup to the operation: a takeover can register a new connection in between"
		}
	}
	return "registered connection looked up and tested under the broker lock", nil, ""
}

func (w *c16Walker) primitive(f *flow.Func, call *ast.CallExpr) string {
	e := w.e
	switch {
	case c16Is(f, call, "(*sync.Map).Delete", "(*sync.Map).LoadAndDelete") && c16Sel(f, c16Recv(call), e.sessMapF):
		return c16OpLive
	case ifaceMethodCall(f, call, mq, "storage", "delete"):
		return c16OpStore
	case c16Is(f, call, "(*"+mq+".TopicManager).unsubscribe"):
		return c16OpUnsub
	case calleeFull(f, call) == "builtin.delete" && len(call.Args) == 2 && c16Sel(f, call.Args[0], e.clientsF):
		return c16OpUnreg
	}
	// an accessor whose whole body is that delete: the call IS the un-registration
	if fo, ok := c16FnOK(f, call); ok && e.deleteAccessor(fo) {
		return c16OpUnreg
	}
	return ""
}

func (w *c16Walker) visit(f *flow.Func, name, upstream, chain string, depth int, entryLocked bool) {
	if f == nil || depth > 6 {
		return
	}
	key := name + "|" + sprintf("%v|%v", upstream != "", entryLocked)
	if w.visited[key] {
		return
	}
	w.visited[key] = true
	var g *c16Guards
	guardAt := func(call *ast.CallExpr, kind string) (string, *flow.State, string) {
		if upstream != "" {
			return upstream, nil, ""
		}
		if g == nil {
			g = w.guards(f, entryLocked)
		}
		how, bad, why := g.at(call, kind)
		if g.discRelied {
			w.e.discRelied = true
		}
		if how == "" && g.unresolved {
			w.e.c.Undecide("R-C16-3", name+"|registry comparison", pos(w.e.c, call), "the function compares Broker.clients[...] / getClient(...) directly; the guard analysis only classifies comparisons through a variable")
		}
		if how != "" && how != "unreachable" {
			how += " in " + name
		}
		return how, bad, why
	}
	pmCalls := parentMap(f.Body)
	for _, call := range calls(f.Body, false) {
		kind := w.primitive(f, call)
		var decl *ast.FuncDecl
		if kind == "" {
			if fo, ok := c16FnOK(f, call); ok {
				decl = w.e.decls[fo]
			}
			if decl == nil {
				continue
			}
		}
		how, bad, why := guardAt(call, kind)
		if kind != "" {
			cons := name + "|" + kind
			op := w.ops[cons]
			if op == nil {
				op = &c16Op{cons: cons, kind: kind, pos: pos(w.e.c, call), guarded: true}
				w.ops[cons] = op
				w.order = append(w.order, cons)
			}
			if how == "" {
				if op.guarded {
					op.guarded, op.st, op.how, op.chain = false, bad, why, chain+" → "+name
				}
			} else if op.guarded && op.how == "" {
				op.how, op.chain = how, chain+" → "+name
			}
			continue
		}
		w.links++
		// is the broker lock held at every state reaching this call? (the callee then runs under it)
		locked := false
		if how == "" {
			if g == nil {
				g = w.guards(f, entryLocked)
			}
			if _, async := pmCalls[call].(*ast.GoStmt); !async && g.res != nil && len(g.res.At[call]) > 0 {
				locked = true
				for _, st := range g.res.At[call] {
					locked = locked && st.Is(c16Locked, flow.True)
				}
			}
		}
		w.visit(flow.NewFunc(w.e.pkg, decl), declName(w.e.pkg, decl), how, chain+" → "+name, depth+1, locked)
	}
	// nested function literals: deferred / directly called ones inherit the context, others do not
	pm := parentMap(f.Body)
	var lits []*ast.FuncLit
	ast.Inspect(f.Body, func(n ast.Node) bool {
		if l, ok := n.(*ast.FuncLit); ok {
			lits = append(lits, l)
			return false
		}
		return true
	})
	for _, l := range lits {
		up := ""
		suffix := "$func"
		locked := false
		if call, ok := pm[l].(*ast.CallExpr); ok && call.Fun == l {
			switch pm[call].(type) {
			case *ast.DeferStmt:
				up, suffix = upstream, "$deferred"
			case *ast.GoStmt:
			default:
				up = upstream
			}
		} else if ok && call.Fun != l {
			// the literal is an argument: `b.withLock(func() {...})`
			if _, async := pm[call].(*ast.GoStmt); !async {
				if fo, ok := c16FnOK(f, call); ok {
					if d := w.e.decls[fo]; d != nil {
						for i, a := range call.Args {
							if a == ast.Expr(l) {
								always, underLock := w.runsParam(d, i)
								if always || underLock {
									up = upstream
								}
								if underLock {
									locked = true
								}
							}
						}
					}
				}
			}
		}
		w.visit(f.Lit(l), name+suffix, up, chain+" → "+name, depth+1, locked)
	}
}

func c16Teardown(e *c16Env) {
	c := e.c
	w := &c16Walker{e: e, visited: map[string]bool{}, ops: map[string]*c16Op{}}
	roots := 0
	for _, r := range []string{"readLoop", "writeLoop"} {
		if f := e.anchor(r); f != nil {
			roots++
			w.visit(f, e.fnameOf(f), "", "connection teardown", 0, false)
		}
	}
	if !c.RequireCount("R-C16-3", "teardown roots (Client.readLoop, Client.writeLoop)", roots, 2) {
		return
	}
	c.RequireCount("R-C16-3", "in-package calls followed from the teardown roots", w.links, 3)
	if !c.RequireCount("R-C16-3", "client-id-keyed operations reachable from connection teardown", len(w.ops), 4) {
		return
	}
	harm := map[string]string{
		c16OpLive:  "removes (and closes) whatever session is registered under its client id: after a takeover the superseded connection's teardown, whenever its read loop ends, deletes the NEW connection's session from the session manager and stops its QoS1 resend loop",
		c16OpStore: "deletes the stored session under its client id: after a takeover by a connection with a persistent session the superseded (clean) connection's teardown deletes the new session's persisted copy, and the watched deletion then disconnects the new connection",
		c16OpUnsub: "unsubscribes its client id from the old session's topics: the new connection, which shares the id, silently loses its subscriptions to the same topics and stops receiving matching messages",
		c16OpUnreg: "removes whatever connection is registered under its client id from Broker.clients: the new connection becomes unreachable for delivery",
	}
	for _, k := range w.order {
		op := w.ops[k]
		if op.guarded {
			c.Discharge("R-C16-3", op.cons, op.pos, sprintf("%s (%s)", op.how, op.chain))
			continue
		}
		wit := append([]string{"reached via: " + op.chain}, witness(op.st)...)
		c.Violate("R-C16-3", op.cons, op.pos, "the teardown of a connection "+harm[op.kind]+" — "+op.how, wit...)
	}
	// every other un-registration in the package (admin delete path ...)
	covered := map[string]bool{}
	for k := range w.ops {
		covered[k] = true
	}
	c16Unregistrations(e, covered)
}

// runsParam analyses a helper that receives a function: does every exit of the helper have called
// that parameter (always), and is the broker lock held at every such call (underLock)?
// (`func (b *Broker) withLock(fn func()) { b.Lock(); defer b.Unlock(); fn() }`)
func (w *c16Walker) runsParam(d *ast.FuncDecl, idx int) (always, underLock bool) {
	f := funcOf(w.e.pkg, d)
	var param types.Object
	i := 0
	if d.Type.Params != nil {
		for _, fld := range d.Type.Params.List {
			for _, nm := range fld.Names {
				if i == idx {
					param = f.Info.Defs[nm]
				}
				i++
			}
		}
	}
	if param == nil {
		return false, false
	}
	if _, ok := param.Type().Underlying().(*types.Signature); !ok {
		return false, false
	}
	var sites []*ast.CallExpr
	for _, call := range calls(d.Body, false) {
		if c16Obj(f, call.Fun) == param {
			sites = append(sites, call)
		}
	}
	if len(sites) == 0 {
		return false, false
	}
	res := analyze(w.e.c, f, flow.Config{NoHavoc: true, OnCall: func(st *flow.State, call *ast.CallExpr, callee types.Object, deferred bool) {
		switch w.e.brokerLockCall(f, call, callee) {
		case "lock":
			st.Set(c16Locked, flow.True)
		case "unlock":
			st.Set(c16Locked, flow.False)
		}
		if c16Obj(f, call.Fun) == param {
			st.Set("ev:c16ranParam", flow.True)
		}
	}})
	if res == nil {
		return false, false
	}
	always, underLock = true, true
	n := 0
	for _, ex := range res.Exits {
		if c16RealExit(ex) {
			n++
			always = always && ex.State.Is("ev:c16ranParam", flow.True)
		}
	}
	for _, s := range sites {
		for _, st := range res.At[s] {
			underLock = underLock && st.Is(c16Locked, flow.True)
		}
	}
	return always && n > 0, underLock
}

var c16ImplMemo = map[*types.Func]*types.Func{}

// c16SingleImpl: fo is a method of an interface declared in the analysed package that exactly one
// named type of the package implements (an unexported interface put in front of a dependency):
// the call is resolved to that type's method. nil otherwise.
func c16SingleImpl(f *flow.Func, fo *types.Func) *types.Func {
	if impl, ok := c16ImplMemo[fo]; ok {
		return impl
	}
	c16ImplMemo[fo] = nil
	sig, ok := fo.Type().(*types.Signature)
	if !ok || sig.Recv() == nil || fo.Pkg() != f.Pkg.Types {
		return nil
	}
	it, ok := sig.Recv().Type().Underlying().(*types.Interface)
	if !ok {
		return nil
	}
	// the named interface(s) of the package that declare or embed this method
	scope := f.Pkg.Types.Scope()
	var impls []types.Type
	for _, name := range scope.Names() {
		tn, ok := scope.Lookup(name).(*types.TypeName)
		if !ok || tn.IsAlias() {
			continue
		}
		if types.IsInterface(tn.Type()) {
			continue
		}
		pt := types.NewPointer(tn.Type())
		if types.Implements(pt, it) || types.Implements(tn.Type(), it) {
			impls = append(impls, pt)
		}
	}
	if len(impls) != 1 {
		return nil
	}
	obj, _, _ := types.LookupFieldOrMethod(impls[0], true, f.Pkg.Types, fo.Name())
	if m, ok := obj.(*types.Func); ok {
		c16ImplMemo[fo] = m
		return m
	}
	return nil
}

// deleteAccessor: the body of fo is nothing but `delete(Broker.clients, <parameter>)`.
func (e *c16Env) deleteAccessor(fo *types.Func) bool {
	d := e.decls[fo]
	if d == nil || len(d.Body.List) != 1 {
		return false
	}
	es, ok := d.Body.List[0].(*ast.ExprStmt)
	if !ok {
		return false
	}
	call, ok := es.X.(*ast.CallExpr)
	if !ok {
		return false
	}
	g := funcOf(e.pkg, d)
	return calleeFull(g, call) == "builtin.delete" && len(call.Args) == 2 && c16Sel(g, call.Args[0], e.clientsF)
}
