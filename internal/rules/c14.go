package rules

// C14 — MQTT topic routing equals MQTT 3.1.1 filter matching over any subscribe history.
//
// Files: c14.go (entry, role resolution, R-C14-4 who-may-mutate/locks, R-C14-5 QoS provenance),
// c14_find.go (R-C14-1 matcher transition table), c14_gate.go (R-C14-2 validation gate,
// R-C14-3 pruning guard), c14_batch.go (R-C14-6 batch consistency trie <-> session),
// c14_split.go (R-C14-7 wildcard placement in splitTopic; added for seeded regression C14/b),
// c14_session.go (R-C14-8 session record persisted; added for round-2 change C14/a); round-2 change
// C14/b is decided by the extra R-C14-5 obligation "qos recorded on every successful path".
//
// Everything is resolved by role: the trie fields by their *types.Var (topicNode.clients,
// topicNode.nodes, TopicManager.root, topicLevelManager.data), the level source by callee
// object (getLevels / topicLevelManager.get), the collector method by shape (a topicNode method
// that ranges over recv.clients and stores into a map parameter), loops by what they range over,
// variables by object identity. No source text, no line numbers.
//
// Testing record (scratch tree /tmp/vw/C14/repo mirroring /repo's working tree, one edit at a time,
// applied on top of the two proposed fixes so that the base is exit 0; driver /tmp/vw/C14/mut.py,
// log /tmp/vw/C14/out/mutants-final.txt). "T-" = the package's own trie tests
// (TestSplitTopic|TestWildCard) do NOT catch the mutant. "O" = verified behaviour-changing /
// -preserving with an independent random-history oracle (out/zz_oracle_test.go).
//
// MUTANTS -> rule|construct that fires (exit 1)
//   M2     findSubscribers: post-loop `n.nodes["#"]` check dropped            -> R-C14-1 |parent-level '#'
//   M3     findSubscribers: `nodeLevel == "+" ||` dropped                     -> R-C14-1 |row '+', |decision depends on all three atoms
//   M4     findSubscribers: early return on len(frontier) == 1               -> R-C14-1 |early return only with empty frontier
//   M5     findSubscribers: nextLevelNodes declared outside the level loop   -> R-C14-1 |frontier advance
//   M6     findSubscribers: early return `nil, nil`                          -> R-C14-1 |success returns the result map
//   M7  T-O remove: prune test without `&& len(node.nodes) == 0`             -> R-C14-3 |prune only empty child
//   M8  T-O remove: prune without any emptiness test                         -> R-C14-3 |prune only empty child
//   M9  T- insert: `if err != nil { return nil }` (on the unfixed tree)      -> R-C14-2 |insert|error reported
//   M10    topicLevelManager.get: Add before the validity test               -> R-C14-2 |cache filled only with valid splits
//   M11 T- findSubscribers: RLock/RUnlock removed                            -> R-C14-4 |trie access under lock
//   M12 T- subscribe: Lock -> RLock                                          -> R-C14-4 |insert|write site (names the call site)
//   M13    addClients: stores a constant QoS                                 -> R-C14-5 |collector stores the subscription's own QoS
//   M14    subscribe: insert(t, qoss[0], clientID)                           -> R-C14-5 |QoS paired with its filter
//   M15 T- processSubscribe: `return` after failed subscribe removed         -> R-C14-6 |SUBSCRIBE error gate
//   M16 T- Broker helper deleting from node.clients without the lock         -> R-C14-4 |write site, |trie access under lock
//   M17    findSubscribers: '#' edge collects the parent instead of the child-> R-C14-1 |row '#'
//   M18    findSubscribers: `currentLevelNodes = nextLevelNodes` dropped     -> R-C14-1 |frontier advance
//   M19    findSubscribers: `break` in the loop over the final frontier      -> R-C14-1 |final frontier fully visited
//   M20 T- subscribe (fixed): validation loop `break` instead of `return err`-> R-C14-6 |all-or-nothing, |malformed filter reported
//   M21 T- unsubscribe (fixed): `break` after the first error                -> R-C14-6 |every filter processed
//   M22    remove: delete(node.clients, topic)                               -> R-C14-3 |deletes the caller's client id
//   M23    remove: prune loop tests the parent (`node = prevNodes[i]`)       -> R-C14-3 |prune only empty child
//   M24    findSubscribers: '#' and '+' swapped                              -> R-C14-1 |row '#', |row '+'
//   M27 T- all callers changed to keep the batch on error (fix-2 semantics)  -> R-C14-6 |unsubscribe|all-or-nothing (contract adapts)
//   M28 T- subscribe (unfixed): `continue` on insert error                   -> R-C14-6 |malformed filter reported
//   M29 T- subscribe (fixed): validation loop returns nil on error           -> R-C14-6 |malformed filter reported
//   M30 T- unsubscribe: Lock(); Unlock() (no defer)                          -> R-C14-4 |remove|write site, |trie access under lock
//   M31    findSubscribers: defer RUnlock placed after the error return      -> R-C14-4 |lock released at every exit
// EDITS DELIBERATELY NOT FLAGGED (shown behaviour-preserving; an earlier version of the rules fired)
//   M1  T-O '#' child also appended to the next frontier: same results (the '#' node is a leaf and is
//          collected once more into the same map) -> exit 0; DESIGN listed it as a mutant, it is not one
//   M25 T-O insert: clients store at the root before the error test: lands in root.clients, which the
//          matcher never reads -> exit 0
//   M9 / M28 on the fixed tree (insert's error path is unreachable after batch validation) -> exit 0
//   M26 T-O insert walks strings.Split(topic, "/") instead of the validated levels: equal for valid
//          topics, needs value reasoning -> exit 2 (undecided), not a VIOLATION
// BEHAVIOUR-PRESERVING EDITS (all stay at exit 0 unless noted)
//   P1 rename locals (nodeLevel/nextNode/ans)     P2 if/else -> switch with `case "+", topicLevel`
//   P2b `"#" == nodeLevel`, early `continue`, negated condition with != and &&
//   P3 condition extracted into a local bool      P4 early return removed     P4b `0 == len(nextLevelNodes)`
//   P5 prune test reordered/negated (`len(n.nodes) > 0 || len(n.clients) != 0 { break }`)
//   P6 `if val := n.nodes["#"]; val != nil`       P7 RLock taken after getLevels (the LRU has its own lock)
//   P8 first collect inlined as a copy loop       P9 `for i := range levels { l := levels[i] ...`
//   P10 insert: root read before validation, goto-style error handling
//   P11 processSubscribe: error kept in a differently named variable + local bool
//   P12 unsubscribe: index loop `for i := 0; i < len(topics); i++`, errors collected in a slice
//   P13 prune loop moved into a helper function (lock provided two call levels up)
//   P14 post-loop '#' collect moved into a helper -> exit 2 (undecided: matcher split across helpers)
//
// R-C14-7 (second pass; driver out/mut2.py; "T-" as above):
//   seeded C14/b  check moved after levelsLoc++ (reads the next, empty slot)    -> |closed level tested before acceptance
//   S1 T- '/'-branch check dropped          S2 tail check dropped               -> same
//   S3 T- check reads levels[levelsLoc] *before* the store (still empty)        -> same
//   S4 T- flag reset before the check       S5 check on topic[levelStart:i] after levelStart advanced -> same
//   S7 T- bound `> 2`                                                           -> same
//   S6    '+' branch does not raise the flag                                    -> |wildcard characters raise the flag
//   S8    tail test on levels[levelsLoc-1] (arithmetic index, inverted flag)    -> exit 2 (undecided)
//   preserving, exit 0: SP1 check on the slot after the store but before levelsLoc++; SP2 `len >= 2`,
//   `!(len <= 1)`, operands swapped; SP3 flag saved in a local, reset first; SP4 check on the temp
//   variable after the cursor advanced; SP5 switch with fallthrough; SP6 append instead of indexed store
//
// Round 2 (overlay driver out/mut3.py):
//   R-C14-8: seeded a (unsubscribe lost store in a defer-unlock refactor); A2 subscribe loses store; A3 store
//   before the deletes; A4 store only for multi-filter batches; A5 early return between delete and store -> all exit 1.
//   Preserving, exit 0: AP1 `defer s.store()`; AP2 defer unlock + early return on empty batch; AP3 store via a helper.
//   R-C14-5 |qos recorded on every successful path: seeded b (store only if qos > cur); B1 never overwrite;
//   B2 skip qos 0; B3 early return keeps the larger -> all exit 1. Preserving, exit 0: BP1/BP2 store skipped
//   only when the recorded qos equals the requested one.
//
// Round 3 (overlay driver out/mut4.py; c14_teardown.go):
//   R-C14-9 |filters unsubscribed unless ownership was lost: seeded a (early `if c.disconnected() { return }`);
//   TA1 skipped for clean sessions; TA2 guard && !disconnected(); TA3 unsubscribe only while status Connected -> exit 1.
//   R-C14-9 |teardown on every exit of the reader: TA4 teardown moved under `if will != nil`; TA5 return before the defer -> exit 1.
//   Preserving, exit 0: TP1 identity guard as a local bool + early return on lost ownership; TP2 nil-session early return.
//   R-C14-5 |filters and QoS stay paired: seeded b (sort.Strings(sub)); PB1 sort.Slice(qos); PB2 two loops over the map;
//   PB3 in-place reverse of one slice; PB4 reslice of one -> exit 1. Preserving, exit 0: PP1 make+rename+swapped
//   appends; PP2 sorted keys, both built from the key (qos = Topics[k]); PP3 indexed fill with a shared index.
//
// Robustness pass (c14_roles.go; drivers out/mut5.py = refactoring variants as overlays, out/mut6.py = mutants on
// top of the refactored trees): anchors are resolved by role (node type = struct with map[string]*self, level
// cache = struct with *lru.Cache, split/get/sources and the TopicManager / Session methods by signature), method
// values in locals are call sites, loops are read in all three element-wise forms, and every rule looks at the
// anchored function together with the helpers it calls (reach + parameter bindings, flow inlining restricted to
// the helpers that matter). Silent on preserving/C14 r1-r4, C15 r1/r3/r4, C16 r2 (r4/C16 r2 hand-ported to HEAD).
//
// Robustness pass, second iteration (driver out/mut7.py = mutants on top of r6/r7/r8): level sources = every
// func(string) ([]string, error) whose reach calls the splitter (get -> splitAndCache), the cache rule analyses the
// level manager's method family as one; insert/remove are found by what they do (record / delete in <node>.clients,
// any receiver, levels possibly handed in by the callers); collectors may be functions; predicates are interpreted in
// place (wildcardNotAlone, isEmpty); a body handed to a lock wrapper (withWriteLock(func() error {..})) is the
// operation's effective body and runs under the wrapper's lock; a break out of the level loop is classified like
// the early return; byte-wise scan of the topic; frontier / result map may be fields of a per-call state struct
// (places instead of variables); allSubscribes may build the QoS slice by looking the collected filters up.
//
// Robustness pass, third iteration (driver out/mut8.py = mutants on top of r10/r11/r12): a method of an unexported
// interface with a single implementation resolves to that implementation (topicSplitter -> topicLevelManager.get);
// the level cache type is found wherever it is referenced from; a wrapper between the lookup and the splitter
// (parseTopic) belongs to the cache family; a read-only local alias of a trie map (clients := node.clients) is a
// spelling of the field; collectors may range over keys and look the value up; a change of SessionInfo.Topics
// handed as a closure to a helper (updateTopicsAndStore(func(){..})) is decided through the helper. New R-C14-3
// obligation "client removed only from the node of the whole filter" (names the slip of seeded C14/g).
//
// Robustness pass, fourth iteration (driver out/mut9.py): a named local for qoss[i]; Session wrappers of
// allSubscribes (subscribedTopics) as the source of the own filters; accessors in front of the client registry;
// own reading of the supersession mark (a bool field of Client only ever set on a connection obtained from the
// registry) when C16's role code does not find it; callback iterators over <node>.clients / <node>.nodes
// (forEachClient / forEachChild): collectors and collect sites written with a collecting closure, the edge loop of
// the matcher behind forEachChild(visit) with the per-edge decision in the closure, lock held at the use sites of a
// non-escaping closure. C14/r16 (driver out/mut10.py): put / drop / copyTo methods of a named clients map type are
// the store / delete / collect primitives at their call sites; the roles of insert/remove are read through the
// fields of a parameter object (topicSub); the Topics map handed to a function parameter (updateTopics(func(map)))
// is a change at that call. Still not followed there: the matcher split into collectOnPath / collectAtEnd with the
// frontier passed as a nested call argument (R-C14-1 ends in an anchor error on that shape).
//
// GENUINE DEFECTS found on the tree of the first pass (since fixed in /repo: 8fc741a, 90acb3c; demo out/zz_triage_test.go):
//   R-C14-6 |(TopicManager).subscribe|all-or-nothing            — out/fix-1.diff
//   R-C14-6 |(TopicManager).unsubscribe|every filter processed  — out/fix-2.diff

import (
	"fmt"
	"go/ast"
	"go/token"
	"go/types"
	"strings"

	"golang.org/x/tools/go/packages"

	"verif/internal/core"
	"verif/internal/flow"
)

func init() { Registry["C14"] = c14 }

// c14env carries the role anchors shared by the C14 rules.
type c14env struct {
	c   *core.Ctx
	pkg *packages.Package

	nodesF, clientsF, rootF, dataF *types.Var

	collectors    map[*types.Func]*ast.FuncDecl // functions copying <node>.clients into a map parameter
	collectorNode map[*types.Func]int           // index of the node parameter (-1 = receiver)
	collectorDst  map[*types.Func]int           // index of the destination map parameter
	writers       map[*types.Func]bool          // insert / remove (functions that store into the trie)

	insertPrevalidated bool // every insert call site is preceded by a validation loop over the batch

	roles     *c14roleSet
	wrappers  map[*types.Func]c14wrapper
	iterators map[*types.Func]c14iterator // callback iterators over <node>.clients / <node>.nodes
	prims     map[*types.Func]*c14prim    // put / drop / copyTo methods of a named map type
}

func c14(c *core.Ctx) string {
	c.Rule("R-C14-1", "matcher transition table: in the level loop of findSubscribers, per child edge, as a function of (edge=='#', edge=='+', edge==topic level): '#' => collect that child's clients (descending in addition is harmless: validated filters end at '#'); '+' or equal => descend only; otherwise neither; the frontier starts at the root, is replaced by the fresh next frontier after every level; after the last level every frontier node's clients and the clients of its '#' child are collected; a return inside the level loop happens only with an empty frontier; success returns hand back the result map; levels are used in no other way")
	c.Rule("R-C14-2", "validation gate: insert/remove/findSubscribers take their levels from the level source (getLevels -> topicLevelManager.get) and index child maps only by elements of that slice or constants; insert reports the source's error (unless every call site validated the batch first); the level cache is filled only with splits splitTopic declared valid, under the key that was split, and get returns a nil error only for a cache hit or a valid split")
	c.Rule("R-C14-3", "pruning guard: delete(parent.nodes, level) is reachable only when the child stored under exactly that key has len(clients)==0 and len(nodes)==0; remove deletes the caller's client id from the clients map and nothing else, and only from the node reached by the whole filter (not after the walk found a level missing)")
	c.Rule("R-C14-4", "lock discipline: every store into topicNode.clients/nodes is executed with the manager's write lock held, every other access (field selection, collector call) with the read or write lock held — taken in the accessing function or held at all of its call sites (helpers, depth <= 3); locks are released at every exit; the maps do not escape through aliases; node literals create fresh maps; TopicManager.root is never reassigned")
	c.Rule("R-C14-5", "QoS provenance: the only stores into the result map copy (client, qos) pairs ranged from some node's clients map; insert stores the caller's qos under the caller's client id on every successful path (it may be skipped only when the recorded qos is known to equal the requested one); subscribe pairs filter i with qoss[i]; Session.allSubscribes fills its two result slices in one loop body from the same SessionInfo.Topics entry and touches neither on its own afterwards")
	c.Rule("R-C14-6", "batch consistency between trie and session: the SUBSCRIBE handler records/acknowledges a batch only if TopicManager.subscribe succeeded; subscribe returns a non-nil error whenever a filter of the batch was found malformed, and is all-or-nothing (no error return after an insert succeeded unless the whole batch was validated first); the UNSUBSCRIBE/disconnect/session-discard paths forget the whole batch whatever unsubscribe returns, so unsubscribe must process every filter of the batch (no exit before the removal loop is exhausted) — if the callers are changed to gate on the error, the contract checked becomes all-or-nothing instead")
	c.Rule("R-C14-7", "wildcard placement in splitTopic: an iteration that knows the character to be '+' or '#' ends with the wildcard flag raised; whenever a level is closed (stored into the result slice) with the flag raised, the length of that very level — the stored value or its slot, read before any variable it is spelled with is reassigned — is tested to be <= 1 before the topic can be accepted")
	c.Rule("R-C14-8", "session record persisted: every function that changes an element of SessionInfo.Topics calls Session.store (directly, deferred or through an in-package helper) on every path between the last change and its return")
	c.Rule("R-C14-9", "teardown removes the filters: a Client method that unsubscribes its own session's filters does so on every return path unless the connection registered under the client id is known to be another one (identity guard) or the session is nil; the Client method that calls packets.ReadPacket runs such a teardown on every exit")
	c.NotDecided = []string{
		"correctness of the trie as a whole over arbitrary histories (walk of insert/remove reaching the right node is not decided; the matcher is decided per level, whole-topic correctness follows by induction argued in DESIGN, not machine-checked)",
		"the rest of splitTopic's character automaton: '#' only as the last character (cursor arithmetic), over-rejection of valid filters (flag not reset), the empty filter — value semantics; R-C14-7 decides only that a wildcard level's own length is tested",
		"DESIGN's clause 'remove/findSubscribers return on error before touching the trie': not a necessary condition (all callers ignore these errors; on that path levels is nil and only the root is touched, whose clients map the matcher never reads) — deliberately not claimed; same for 'insert stores nothing before the error test'",
		"that '#' children are not descended into (harmless, see R-C14-1)",
		"upward order of pruning / stopping at the first non-empty node (memory only: empty residue nodes cannot change routing)",
		"LRU eviction behaviour of the level cache (third-party)",
		"takeover/disconnect identity issues (C16), delivery after routing (C15)",
	}

	e := c14newEnv(c)
	if e == nil {
		return ""
	}
	nClientIters := 0
	for _, it := range e.iterators {
		if it.field == e.clientsF {
			nClientIters++
		}
	}
	c.RequireCount("R-C14-5", "collector methods (range recv.clients -> map parameter) and client iterators", len(e.collectors)+nClientIters, 1)
	for fo, it := range e.iterators {
		if hd := declOf(e.pkg, fo); hd != nil && it.field == e.clientsF {
			c.Discharge("R-C14-5", declName(e.pkg, hd)+"|iterator hands on the subscription's own (client, qos)", pos(c, hd.Body), "the body is `for k, v := range <node>.clients { fn(k, v) }`")
		}
	}

	c14Find(e)
	c14Batch(e) // before the gate: tells whether insert's error path is reachable
	c14Gate(e)
	c14Prune(e)
	c14RemoveWalk(e)
	c14Mutators(e)
	c14QoS(e)
	c14Split(e)
	c14Session(e)
	c14Teardown(e)
	c14Pairing(e)
	return "Static shape rules on the MQTT topic trie: the per-level decision of findSubscribers is extracted path-sensitively and compared with the MQTT 3.1.1 table ('#' collects and stops, '+'/equal descend, parent-level '#' after the last level); validation gates, the pruning guard, lock discipline / write sites, QoS provenance, and the all-or-nothing / process-everything contracts of the batch operations the SUBSCRIBE, UNSUBSCRIBE and disconnect paths rely on. Not decided: the trie over whole histories, splitTopic's automaton, pruning order, LRU eviction."
}

// c14newEnv resolves the anchors of the topic trie (nil, with the error recorded, when one is missing). Also used by C16,
// which shares R-C14-6 (only filters the trie accepted are recorded in the session a reconnect restores from).
func c14newEnv(c *core.Ctx) *c14env {
	e := &c14env{c: c, pkg: c.Prog.Pkg(mq)}
	if e.pkg == nil {
		c.Errorf("anchor: package %s not loaded", mq)
		return nil
	}
	if !e.resolveRoles() {
		return nil
	}
	e.findCollectors()
	return e
}

// ---------------------------------------------------------------------------------------
// helpers

// c14obj returns the object an identifier expression denotes (nil for other expressions).
func c14obj(f *flow.Func, x ast.Expr) types.Object {
	if x == nil {
		return nil
	}
	id, ok := ast.Unparen(x).(*ast.Ident)
	if !ok {
		return nil
	}
	if o := f.Info.Uses[id]; o != nil {
		return o
	}
	return f.Info.Defs[id]
}

// c14varRender renders a local variable exactly like flow.Func.Render does.
func c14varRender(f *flow.Func, o types.Object) string {
	p := f.Fset.Position(o.Pos())
	return fmt.Sprintf("%s·%d:%d", o.Name(), p.Line, p.Column)
}

// fieldRecv returns X when x is the selector X.fld (by field object).
func c14fieldRecv(f *flow.Func, x ast.Expr, fld *types.Var) (ast.Expr, bool) {
	sel, ok := ast.Unparen(x).(*ast.SelectorExpr)
	if !ok {
		return nil, false
	}
	s := f.Info.Selections[sel]
	if s == nil || s.Obj() != fld {
		return nil, false
	}
	return sel.X, true
}

func (e *c14env) isTrieField(f *flow.Func, x ast.Expr) bool {
	for _, fld := range []*types.Var{e.nodesF, e.clientsF} {
		if _, ok := c14fieldRecv(f, x, fld); ok {
			return true
		}
	}
	return false
}

// c14constStr returns the string constant value of x.
func c14constStr(f *flow.Func, x ast.Expr) (string, bool) {
	tv, ok := f.Info.Types[x]
	if !ok || tv.Value == nil {
		return "", false
	}
	s := tv.Value.ExactString()
	if len(s) >= 2 && s[0] == '"' {
		return s, true
	}
	return "", false
}

func c14isBuiltin(f *flow.Func, call *ast.CallExpr, names ...string) bool {
	b, ok := f.Callee(call).(*types.Builtin)
	if !ok {
		return false
	}
	for _, n := range names {
		if b.Name() == n {
			return true
		}
	}
	return false
}

// c14isNamed reports whether t (possibly a pointer) is the named type rel.name.
func c14isNamed(t types.Type, rel, name string) bool {
	if t == nil {
		return false
	}
	if p, ok := t.(*types.Pointer); ok {
		t = p.Elem()
	}
	n, ok := t.(*types.Named)
	return ok && n.Obj().Pkg() != nil && n.Obj().Pkg().Path() == Mod+rel && n.Obj().Name() == name
}

// c14ranges lists the range statements below root (function literals excluded).
func c14ranges(root ast.Node) []*ast.RangeStmt {
	var out []*ast.RangeStmt
	ast.Inspect(root, func(n ast.Node) bool {
		switch t := n.(type) {
		case *ast.FuncLit:
			return false
		case *ast.RangeStmt:
			out = append(out, t)
		}
		return true
	})
	return out
}

// c14decls visits the function declarations of the mqttproxy package.
func (e *c14env) decls(visit func(f *flow.Func, fd *ast.FuncDecl)) {
	for _, file := range e.pkg.Syntax {
		for _, d := range file.Decls {
			if fd, ok := d.(*ast.FuncDecl); ok && fd.Body != nil {
				visit(flow.NewFunc(e.pkg, fd), fd)
			}
		}
	}
}

func (e *c14env) funcObj(fd *ast.FuncDecl) *types.Func {
	o, _ := e.pkg.TypesInfo.Defs[fd.Name].(*types.Func)
	return o
}

// recvObj returns the receiver variable of a method declaration.
func c14recvObj(f *flow.Func, fd *ast.FuncDecl) types.Object {
	if fd.Recv == nil || len(fd.Recv.List) != 1 || len(fd.Recv.List[0].Names) != 1 {
		return nil
	}
	return f.Info.Defs[fd.Recv.List[0].Names[0]]
}

// c14params returns the parameter objects of a function.
func c14params(f *flow.Func) []types.Object {
	var out []types.Object
	if f.Type == nil || f.Type.Params == nil {
		return nil
	}
	for _, fld := range f.Type.Params.List {
		for _, n := range fld.Names {
			out = append(out, f.Info.Defs[n])
		}
	}
	return out
}

func c14isParam(f *flow.Func, o types.Object) bool {
	for _, p := range c14params(f) {
		if p == o && o != nil {
			return true
		}
	}
	return false
}

// findCollectors resolves the collector role: methods of topicNode that range over
// recv.clients and store into a map parameter (today: addClients).
func (e *c14env) findCollectors() {
	e.collectors = map[*types.Func]*ast.FuncDecl{}
	e.collectorNode = map[*types.Func]int{}
	e.collectorDst = map[*types.Func]int{}
	e.findIterators()
	// the copy primitive of a named clients map type: node.clients.copyTo(ans)
	e.decls(func(f *flow.Func, fd *ast.FuncDecl) {
		o := e.funcObj(fd)
		if p, ok := e.mapPrim(o); ok && p.kind == "copy" {
			if recv := c14recvObj(f, fd); recv != nil && types.Identical(recv.Type(), e.clientsF.Type()) {
				e.collectors[o] = fd
				e.collectorNode[o] = -3 // the receiver is the clients map itself
				e.collectorDst[o] = p.val
			}
		}
	})
	// a collector written with a callback iterator: node.forEachClient(func(k, v) { ans[k] = v })
	e.decls(func(f *flow.Func, fd *ast.FuncDecl) {
		o := e.funcObj(fd)
		if o == nil {
			return
		}
		if _, isIt := e.iterators[o]; isIt {
			return
		}
		recv := c14recvObj(f, fd)
		params := c14params(f)
		for _, call := range calls(fd.Body, false) {
			node, lit, ok := e.iterCall(f, call, e.clientsF)
			if !ok {
				continue
			}
			dst, ok := c14collectLit(f, lit)
			if !ok {
				continue
			}
			ni, di := -2, -2
			if no := c14obj(f, node); no != nil && no == recv {
				ni = -1
			}
			for i, p := range params {
				if p == c14obj(f, node) {
					ni = i
				}
				if p == c14obj(f, dst) {
					di = i
				}
			}
			if ni != -2 && di >= 0 {
				e.collectors[o] = fd
				e.collectorNode[o] = ni
				e.collectorDst[o] = di
			}
		}
	})
	e.decls(func(f *flow.Func, fd *ast.FuncDecl) {
		// the node: the receiver or a parameter of the trie node type; the destination: a map parameter
		recv := c14recvObj(f, fd)
		params := c14params(f)
		idxOf := func(o types.Object) int {
			for i, p := range params {
				if p == o {
					return i
				}
			}
			return -2
		}
		for _, rs := range c14ranges(fd.Body) {
			x, ok := c14fieldOrAlias(f, rs.X, e.clientsF)
			if !ok {
				continue
			}
			no := c14obj(f, x)
			nodeIdx := -2
			switch {
			case no != nil && no == recv:
				nodeIdx = -1
			case no != nil:
				nodeIdx = idxOf(no)
			}
			if nodeIdx == -2 {
				continue
			}
			dstIdx := -2
			ast.Inspect(rs.Body, func(n ast.Node) bool {
				if as, ok := n.(*ast.AssignStmt); ok {
					for _, l := range as.Lhs {
						if ix, ok := ast.Unparen(l).(*ast.IndexExpr); ok {
							if i := idxOf(c14obj(f, ix.X)); i >= 0 {
								dstIdx = i
							}
						}
					}
				}
				return true
			})
			if dstIdx >= 0 {
				if o := e.funcObj(fd); o != nil {
					e.collectors[o] = fd
					e.collectorNode[o] = nodeIdx
					e.collectorDst[o] = dstIdx
				}
			}
		}
	})
}

// c14place is the identity of a storage place an expression denotes: the variable of an identifier, or the
// field of a selector `x.f` (all instances of the struct conflated — used for per-call state structs).
func c14place(f *flow.Func, x ast.Expr) types.Object {
	if x == nil {
		return nil
	}
	switch t := ast.Unparen(x).(type) {
	case *ast.Ident:
		return c14obj(f, t)
	case *ast.SelectorExpr:
		if s := f.Info.Selections[t]; s != nil && s.Kind() == types.FieldVal {
			return s.Obj()
		}
	}
	return nil
}

// c14collect is one place where a node's clients are copied into a map.
type c14collect struct {
	at   ast.Node      // the call, or the ranged expression X.clients of an inline copy loop
	call *ast.CallExpr // nil for inline loops
	recv ast.Expr      // the node whose clients are copied
	dst  types.Object  // the destination map variable
	lit  *ast.FuncLit  // the collecting closure of an iterator call
}

// collects lists the collect sites below root: calls to a collector method and inline
// `for k, v := range X.clients { m[k] = v }` loops.
func (e *c14env) collects(f *flow.Func, root ast.Node) []c14collect {
	var out []c14collect
	for _, call := range calls(root, false) {
		fo := c14calleeOf(f, call)
		if fo == nil || e.collectors[fo] == nil {
			continue
		}
		var node ast.Expr
		if ni := e.collectorNode[fo]; ni == -1 {
			node = c14recvOf(f, call)
		} else if ni == -3 {
			// <node>.clients.copyTo(ans): the node is the owner of the clients map
			if r := c14recvOf(f, call); r != nil {
				node, _ = c14fieldRecv(f, r, e.clientsF)
			}
		} else if ni >= 0 && ni < len(call.Args) {
			node = call.Args[ni]
		}
		di := e.collectorDst[fo]
		if node == nil || di >= len(call.Args) {
			continue
		}
		out = append(out, c14collect{at: call, call: call, recv: node, dst: c14place(f, call.Args[di])})
	}
	for _, call := range calls(root, false) {
		if fo := c14calleeOf(f, call); fo != nil && e.collectors[fo] != nil {
			continue
		}
		node, lit, ok := e.iterCall(f, call, e.clientsF)
		if !ok {
			continue
		}
		if dst, ok := c14collectLit(f, lit); ok {
			out = append(out, c14collect{at: call, call: call, recv: node, dst: c14place(f, dst), lit: lit})
		}
	}
	for _, rs := range c14ranges(root) {
		x, ok := c14fieldOrAlias(f, rs.X, e.clientsF)
		if !ok {
			continue
		}
		var dst types.Object
		ast.Inspect(rs.Body, func(n ast.Node) bool {
			if as, ok := n.(*ast.AssignStmt); ok {
				for _, l := range as.Lhs {
					if ix, ok := ast.Unparen(l).(*ast.IndexExpr); ok {
						if o := c14obj(f, ix.X); o != nil {
							if _, isMap := o.Type().Underlying().(*types.Map); isMap {
								dst = o
							}
						}
					}
				}
			}
			return true
		})
		if dst != nil {
			out = append(out, c14collect{at: rs.X, recv: x, dst: dst})
		}
	}
	return out
}

// c14source is the place where a function obtains its validated levels.
type c14source struct {
	call   *ast.CallExpr
	levels types.Object
	err    types.Object
	errID  *ast.Ident
	arg    types.Object // the topic string handed to the level source
}

// levelSource finds `levels, err := mgr.getLevels(topic)` (callee getLevels or
// topicLevelManager.get). A missing source is a checker error (subject).
func (e *c14env) levelSource(f *flow.Func, cons string) *c14source {
	srcs := e.sourceCalls(f, f.Body, false)
	if len(srcs) == 0 {
		// the levels may be handed in by the callers (insert(levels, ..) with the level source
		// and its error handling moved into subscribe): a []string parameter that every call
		// site binds to the first result of a level source call
		if s := e.levelsParam(f); s != nil {
			return s
		}
	}
	if len(srcs) != 1 {
		e.c.Errorf("R-C14-2: anchor: %s has %d calls to the level source (getLevels), expected exactly 1", cons, len(srcs))
		return nil
	}
	s := &c14source{call: srcs[0]}
	if len(s.call.Args) == 1 {
		s.arg = c14obj(f, s.call.Args[0])
	}
	ast.Inspect(f.Body, func(n ast.Node) bool {
		as, ok := n.(*ast.AssignStmt)
		if ok && len(as.Rhs) == 1 && ast.Unparen(as.Rhs[0]) == s.call && len(as.Lhs) == 2 {
			s.levels = c14obj(f, as.Lhs[0])
			s.err = c14obj(f, as.Lhs[1])
			s.errID, _ = as.Lhs[1].(*ast.Ident)
		}
		return true
	})
	if s.levels == nil || s.err == nil || s.errID == nil || s.errID.Name == "_" {
		e.c.Violate("R-C14-2", cons+"|error reported", pos(e.c, s.call), "the result of the level source is not bound to (levels, err): the validation verdict is discarded and a malformed filter is walked into the trie")
		return nil
	}
	return s
}

// levelsParam: f takes the validated levels as a parameter (err, errID and call stay nil).
func (e *c14env) levelsParam(f *flow.Func) *c14source {
	fd, ok := f.Node.(*ast.FuncDecl)
	if !ok {
		return nil
	}
	self := e.funcObj(fd)
	params := c14params(f)
	for pi, p := range params {
		if !c14isSliceOf(p.Type(), c14isStr) {
			continue
		}
		sites, good := 0, 0
		e.decls(func(g *flow.Func, gd *ast.FuncDecl) {
			for _, call := range c14callsToFn(g, gd.Body, true, self) {
				sites++
				if pi >= len(call.Args) {
					continue
				}
				v := c14obj(g, call.Args[pi])
				if v == nil {
					continue
				}
				fromSource := false
				ast.Inspect(gd.Body, func(n ast.Node) bool {
					if as, ok := n.(*ast.AssignStmt); ok && len(as.Rhs) == 1 && len(as.Lhs) == 2 && c14obj(g, as.Lhs[0]) == v {
						if src, ok := ast.Unparen(as.Rhs[0]).(*ast.CallExpr); ok && e.isSource(g, src) {
							fromSource = true
						}
					}
					return true
				})
				if fromSource {
					good++
				}
			}
		})
		if sites > 0 && sites == good {
			return &c14source{levels: p}
		}
	}
	return nil
}

// ---------------------------------------------------------------------------------------
// lock events

// c14lockRecv returns the rendering of the TopicManager whose embedded RWMutex the call
// locks/unlocks, and the method name.
func c14lockRecv(f *flow.Func, call *ast.CallExpr, callee types.Object) (string, string) {
	fo, ok := callee.(*types.Func)
	if !ok || fo.Pkg() == nil || fo.Pkg().Path() != "sync" {
		return "", ""
	}
	sel, ok := ast.Unparen(call.Fun).(*ast.SelectorExpr)
	if !ok {
		return "", ""
	}
	x := ast.Unparen(sel.X)
	if tv, ok := f.Info.Types[x]; ok && !c14isNamed(tv.Type, mq, "TopicManager") {
		// mgr.RWMutex.Lock()
		if s2, ok := x.(*ast.SelectorExpr); ok {
			x = ast.Unparen(s2.X)
		}
	}
	if tv, ok := f.Info.Types[x]; !ok || !c14isNamed(tv.Type, mq, "TopicManager") {
		return "", ""
	}
	return f.Render(x), fo.Name()
}

func c14lockEvent(f *flow.Func, st *flow.State, call *ast.CallExpr, callee types.Object) {
	r, m := c14lockRecv(f, call, callee)
	switch m {
	case "Lock":
		st.Set("ev:w:"+r, flow.True)
	case "Unlock":
		st.Set("ev:w:"+r, flow.False)
	case "RLock":
		st.Set("ev:r:"+r, flow.True)
	case "RUnlock":
		st.Set("ev:r:"+r, flow.False)
	}
}

// ---------------------------------------------------------------------------------------
// R-C14-4 who may mutate

// c14write is one store into the trie.
type c14write struct {
	at    ast.Node // the CFG node: *ast.AssignStmt / *ast.IncDecStmt / delete call / put-drop primitive call
	field *types.Var
	what  string
	store bool     // records an element (else: deletes / other)
	key   ast.Expr // the map key of an element store or delete
	val   ast.Expr // the stored value
}

// trieWrites lists the stores into topicNode.clients / topicNode.nodes below root.
func (e *c14env) trieWrites(f *flow.Func, root ast.Node) []c14write {
	var out []c14write
	fieldOf := func(x ast.Expr) *types.Var {
		for _, fld := range []*types.Var{e.nodesF, e.clientsF} {
			if _, ok := c14fieldRecv(f, x, fld); ok {
				return fld
			}
		}
		return nil
	}
	ast.Inspect(root, func(n ast.Node) bool {
		switch t := n.(type) {
		case *ast.FuncLit:
			return false
		case *ast.AssignStmt:
			for _, l := range t.Lhs {
				l = ast.Unparen(l)
				if ix, ok := l.(*ast.IndexExpr); ok {
					if fld := fieldOf(ix.X); fld != nil {
						w := c14write{at: t, field: fld, what: "store " + fld.Name() + "[k] = v", store: true, key: ix.Index}
						if len(t.Lhs) == len(t.Rhs) {
							for i2, l2 := range t.Lhs {
								if ast.Unparen(l2) == ast.Expr(ix) {
									w.val = t.Rhs[i2]
								}
							}
						}
						out = append(out, w)
					}
				} else if fld := fieldOf(l); fld != nil {
					out = append(out, c14write{at: t, field: fld, what: "assignment to field " + fld.Name()})
				}
			}
		case *ast.IncDecStmt:
			if ix, ok := ast.Unparen(t.X).(*ast.IndexExpr); ok {
				if fld := fieldOf(ix.X); fld != nil {
					out = append(out, c14write{at: t, field: fld, what: "inc/dec of " + fld.Name() + "[k]"})
				}
			}
		case *ast.CallExpr:
			if c14isBuiltin(f, t, "delete", "clear") && len(t.Args) >= 1 {
				if fld := fieldOf(t.Args[0]); fld != nil {
					w := c14write{at: t, field: fld, what: "delete from " + fld.Name()}
					if len(t.Args) == 2 {
						w.key = t.Args[1]
					}
					out = append(out, w)
				}
			}
			// a put / drop primitive of a named map type called on the field: node.clients.put(k, v)
			if p, fld, _, ok := e.primCall(f, t); ok {
				switch p.kind {
				case "put":
					if p.key < len(t.Args) && p.val < len(t.Args) {
						out = append(out, c14write{at: t, field: fld, what: "store " + fld.Name() + "[k] = v", store: true, key: t.Args[p.key], val: t.Args[p.val]})
					}
				case "drop":
					if p.key < len(t.Args) {
						out = append(out, c14write{at: t, field: fld, what: "delete from " + fld.Name(), key: t.Args[p.key]})
					}
				}
			}
		}
		return true
	})
	return out
}

// c14access is the lock analysis of one function that accesses the trie.
type c14access struct {
	f        *flow.Func
	fd       *ast.FuncDecl
	obj      *types.Func
	res      *flow.Result
	writes   []c14write
	touchPts int
	// own-lock verdicts
	storesLocked bool // every store is reached with a write lock held in this function
	readsLocked  bool // every touch is reached with a read or write lock held in this function
	badStore     *flow.State
	badRead      *flow.State
	badReadAt    ast.Node
}

func c14held(st *flow.State, write bool) bool {
	for _, k := range st.Facts() {
		if len(k) > 7 && k[len(k)-2:] == "=T" {
			if k[:5] == "ev:w:" || (!write && k[:5] == "ev:r:") {
				return true
			}
		}
	}
	return false
}

func c14Mutators(e *c14env) {
	c := e.c
	// ---- every function of the package: flow result with lock events (lazily), call index
	type site struct {
		in   *ast.FuncDecl
		call *ast.CallExpr
	}
	decls := map[*types.Func]*ast.FuncDecl{}
	flows := map[*ast.FuncDecl]*flow.Func{}
	callSites := map[*types.Func][]site{}
	valueUse := map[*types.Func]ast.Node{}
	e.writers = map[*types.Func]bool{}
	e.decls(func(f *flow.Func, fd *ast.FuncDecl) {
		o := e.funcObj(fd)
		if o == nil {
			return
		}
		decls[o] = fd
		flows[fd] = f
		if len(e.trieWrites(f, fd.Body)) > 0 {
			e.writers[o] = true
		}
	})
	e.decls(func(f *flow.Func, fd *ast.FuncDecl) {
		inCall := map[*ast.Ident]bool{}
		for _, call := range calls(fd.Body, true) {
			switch fn := ast.Unparen(call.Fun).(type) {
			case *ast.Ident:
				inCall[fn] = true
			case *ast.SelectorExpr:
				inCall[fn.Sel] = true
			}
			if fo := c14calleeOf(f, call); fo != nil && decls[fo] != nil {
				callSites[fo] = append(callSites[fo], site{fd, call})
			}
		}
		// a method value stored in a local that is only ever called (`h := x.m; h(..)`) is a call
		// site in another spelling, not an escaping function value
		benign := map[*ast.Ident]bool{}
		ast.Inspect(fd.Body, func(n ast.Node) bool {
			as, ok := n.(*ast.AssignStmt)
			if !ok || len(as.Lhs) != len(as.Rhs) {
				return true
			}
			for i, l := range as.Lhs {
				lid, ok := l.(*ast.Ident)
				if !ok {
					continue
				}
				v := c14obj(f, lid)
				if v == nil {
					continue
				}
				onlyCalled := true
				ast.Inspect(fd.Body, func(m ast.Node) bool {
					if id, ok := m.(*ast.Ident); ok && f.Info.Uses[id] == v && !inCall[id] {
						onlyCalled = false
					}
					return true
				})
				if !onlyCalled {
					continue
				}
				if fo, _ := c14funcValue(f, lid); fo == nil {
					// lid is a definition: resolve through a use of the same variable
					continue
				}
				switch r := ast.Unparen(as.Rhs[i]).(type) {
				case *ast.SelectorExpr:
					benign[r.Sel] = true
				case *ast.Ident:
					benign[r] = true
				}
			}
			return true
		})
		ast.Inspect(fd.Body, func(n ast.Node) bool {
			if id, ok := n.(*ast.Ident); ok && !inCall[id] && !benign[id] {
				if fo, ok := f.Info.Uses[id].(*types.Func); ok && decls[fo] != nil {
					valueUse[fo] = id
				}
			}
			return true
		})
	})
	results := map[*ast.FuncDecl]*flow.Result{}
	analysed := map[*ast.FuncDecl]bool{}
	flowOf := func(fd *ast.FuncDecl) *flow.Result {
		if analysed[fd] {
			return results[fd]
		}
		analysed[fd] = true
		f := flows[fd]
		results[fd] = analyze(c, f, flow.Config{NoHavoc: true,
			OnCall: func(st *flow.State, call *ast.CallExpr, callee types.Object, d bool) {
				c14lockEvent(f, st, call, callee)
			}})
		return results[fd]
	}

	// ---- functions that access the trie
	var accs []*c14access
	e.decls(func(f *flow.Func, fd *ast.FuncDecl) {
		o := e.funcObj(fd)
		ws := e.trieWrites(f, fd.Body)
		touch := len(ws) > 0
		if !touch {
			ast.Inspect(fd.Body, func(n ast.Node) bool {
				switch t := n.(type) {
				case *ast.SelectorExpr:
					if s := f.Info.Selections[t]; s != nil && (s.Obj() == e.nodesF || s.Obj() == e.clientsF) {
						touch = true
					}
				case *ast.CallExpr:
					if fo, ok := f.Callee(t).(*types.Func); ok && e.collectors[fo] != nil {
						touch = true
					}
				}
				return !touch
			})
		}
		if !touch || o == nil {
			return
		}
		a := &c14access{f: f, fd: fd, obj: o, writes: ws, storesLocked: true, readsLocked: true}
		a.res = flowOf(fd)
		if a.res == nil {
			return
		}
		for _, w := range ws {
			for _, st := range a.res.At[w.at] {
				if !c14held(st, true) {
					a.storesLocked, a.badStore = false, st
				}
			}
		}
		for node, sts := range a.res.At {
			if !e.touchesFields(f, node) {
				continue
			}
			a.touchPts++
			for _, st := range sts {
				if !c14held(st, false) {
					a.readsLocked, a.badRead, a.badReadAt = false, st, node
				}
			}
		}
		accs = append(accs, a)
	})

	// closureUses: call lies in a function literal of fd that is either an argument of a call to a
	// same-package function or held in a single-assignment local that is only called / handed to
	// same-package functions; returns those use sites (calls).
	closureUses := func(g *flow.Func, fd *ast.FuncDecl, call *ast.CallExpr) ([]*ast.CallExpr, bool) {
		var lit *ast.FuncLit
		ast.Inspect(fd.Body, func(n ast.Node) bool {
			if l, ok := n.(*ast.FuncLit); ok && contains(l.Body, call) && lit == nil {
				lit = l // outermost literal around the call
			}
			return true
		})
		if lit == nil {
			return nil, false
		}
		samePkgCall := func(c2 *ast.CallExpr) bool {
			fo := c14calleeOf(g, c2)
			return fo != nil && fo.Pkg() == e.pkg.Types && declOf(e.pkg, fo) != nil
		}
		pm := parentMap(fd.Body)
		var uses []*ast.CallExpr
		switch p := pm[lit].(type) {
		case *ast.CallExpr:
			if ast.Unparen(p.Fun) == ast.Expr(lit) || !samePkgCall(p) {
				return nil, false
			}
			if _, isGo := pm[p].(*ast.GoStmt); isGo {
				return nil, false
			}
			if _, isDefer := pm[p].(*ast.DeferStmt); isDefer {
				return nil, false
			}
			return []*ast.CallExpr{p}, true
		case *ast.AssignStmt:
			var v types.Object
			for i, r := range p.Rhs {
				if ast.Unparen(r) == ast.Expr(lit) && len(p.Lhs) == len(p.Rhs) {
					v = c14obj(g, p.Lhs[i])
				}
			}
			if v == nil {
				return nil, false
			}
			ok := true
			ast.Inspect(fd.Body, func(n ast.Node) bool {
				id, isID := n.(*ast.Ident)
				if !isID || g.Info.Uses[id] != v {
					return true
				}
				c2, isCall := pm[id].(*ast.CallExpr)
				if !isCall {
					ok = false
					return true
				}
				if _, isGo := pm[c2].(*ast.GoStmt); isGo {
					ok = false
				}
				if _, isDefer := pm[c2].(*ast.DeferStmt); isDefer {
					ok = false
				}
				if ast.Unparen(c2.Fun) != ast.Expr(id) && !samePkgCall(c2) {
					ok = false
				}
				uses = append(uses, c2)
				return true
			})
			// assigned exactly once
			defs := 0
			ast.Inspect(fd.Body, func(n ast.Node) bool {
				if as, isAs := n.(*ast.AssignStmt); isAs {
					for _, l := range as.Lhs {
						if c14obj(g, l) == v {
							defs++
						}
					}
				}
				return true
			})
			return uses, ok && defs == 1
		}
		return nil, false
	}

	// litFlowOf: the flow of the closure around call when that closure is handed to a lock wrapper
	litResults := map[*ast.FuncLit]*flow.Result{}
	litFlowOf := func(in *ast.FuncDecl, call *ast.CallExpr) (*flow.Result, c14wrapper, bool) {
		g := flows[in]
		var lit *ast.FuncLit
		var wcall *ast.CallExpr
		ast.Inspect(in.Body, func(n ast.Node) bool {
			if c2, ok := n.(*ast.CallExpr); ok {
				for _, a := range c2.Args {
					if l, ok := ast.Unparen(a).(*ast.FuncLit); ok && contains(l.Body, call) {
						lit, wcall = l, c2 // innermost wins (visited last)
					}
				}
			}
			return true
		})
		if lit == nil {
			return nil, c14wrapper{}, false
		}
		w, ok := e.wrappedLit(g, wcall, lit)
		if !ok {
			return nil, c14wrapper{}, false
		}
		if r, seen := litResults[lit]; seen {
			return r, w, true
		}
		lf := g.Lit(lit)
		r := analyze(c, lf, flow.Config{NoHavoc: true,
			OnCall: func(st *flow.State, call *ast.CallExpr, callee types.Object, d bool) {
				c14lockEvent(lf, st, call, callee)
			}})
		litResults[lit] = r
		return r, w, true
	}

	// lockedCallers: every call site of fo holds the lock (or lies in a function whose own
	// call sites all do), up to depth 3.
	var lockedCallers func(fo *types.Func, write bool, depth int) (bool, string, *flow.State)
	lockedCallers = func(fo *types.Func, write bool, depth int) (bool, string, *flow.State) {
		if n, used := valueUse[fo]; used {
			return false, "it is used as a function value at " + pos(c, n), nil
		}
		sites := callSites[fo]
		if len(sites) == 0 {
			return false, "it has no call site that could provide the lock", nil
		}
		for _, s := range sites {
			r := flowOf(s.in)
			okHere := r != nil && len(r.At[s.call]) > 0
			var bad *flow.State
			if r != nil {
				for _, st := range r.At[s.call] {
					if !c14held(st, write) {
						okHere, bad = false, st
					}
				}
			}
			if !okHere && r != nil {
				// the call sits in a closure of s.in that does not escape (it is only called, or handed to a
				// same-package function as an argument): it runs where it is used — the lock must be held at
				// every use site
				if uses, ok := closureUses(flows[s.in], s.in, s.call); ok && len(uses) > 0 {
					okHere = true
					for _, u := range uses {
						if len(r.At[u]) == 0 {
							okHere = false
						}
						for _, st := range r.At[u] {
							if !c14held(st, write) {
								okHere, bad = false, st
							}
						}
					}
				}
			}
			if !okHere {
				// the call sits in a closure handed to a lock wrapper (withWriteLock(func() error {..})):
				// the closure runs with the wrapper's lock held from entry to exit
				if lr, w, ok := litFlowOf(s.in, s.call); ok && (w.write || !write) && lr != nil && len(lr.At[s.call]) > 0 {
					okHere = true
					for _, st := range lr.At[s.call] {
						for _, k := range st.Facts() {
							if (strings.HasPrefix(k, "ev:w:") || strings.HasPrefix(k, "ev:r:")) && strings.HasSuffix(k, "=F") {
								okHere, bad = false, st // the closure releases the lock before the call
							}
						}
					}
				}
			}
			if okHere {
				continue
			}
			if depth < 3 {
				if g := e.funcObj(s.in); g != nil && g != fo {
					if ok, _, _ := lockedCallers(g, write, depth+1); ok {
						continue
					}
				}
			}
			kind := "read or write"
			if write {
				kind = "write"
			}
			return false, declName(e.pkg, s.in) + " calls it at " + pos(c, s.call) + " without the manager's " + kind + " lock", bad
		}
		return true, "", nil
	}

	nStores, nWriterCalls := 0, 0
	for _, a := range accs {
		cons := declName(e.pkg, a.fd)
		// stores
		if len(a.writes) > 0 {
			ok, why, bad := a.storesLocked, "", a.badStore
			how := "with the manager's write lock taken in this function"
			if !ok {
				ok, why, bad = lockedCallers(a.obj, true, 0)
				how = sprintf("under the write lock held at all %d call site(s)", len(callSites[a.obj]))
				nWriterCalls += len(callSites[a.obj])
			}
			for _, w := range a.writes {
				nStores++
				c.Check(ok, "R-C14-4", cons+"|write site: "+w.what, pos(c, w.at),
					"store into the trie "+how,
					"topicNode."+w.field.Name()+" is mutated without the manager's write lock: "+a.fd.Name.Name+" does not take it and "+why+" (a read lock does not exclude a concurrent findSubscribers/insert: concurrent map write, lost or phantom subscriptions)", witness(bad)...)
			}
		}
		// reads / collector calls
		if e.collectors[a.obj] != nil || a.touchPts == 0 {
			// collectors: covered below through their call sites
			if e.collectors[a.obj] == nil {
				continue
			}
		}
		ok, why, bad := a.readsLocked, "", a.badRead
		how := sprintf("%d trie-touching program points, all reached with the read or write lock taken in this function", a.touchPts)
		if !ok {
			at := pos(c, a.badReadAt)
			ok, why, bad = lockedCallers(a.obj, false, 0)
			how = sprintf("%d trie-touching program points, covered by the lock held at all %d call site(s)", a.touchPts, len(callSites[a.obj]))
			if !ok {
				why = "the trie is accessed at " + at + " without the manager's lock: " + a.fd.Name.Name + " does not take it and " + why + " — subscribe/unsubscribe may be mutating the same maps (concurrent map read and write)"
				if bad == nil {
					bad = a.badRead
				}
			}
		}
		c.Check(ok, "R-C14-4", cons+"|trie access under lock", pos(c, a.fd.Body), how, why, witness(bad)...)
	}
	c.RequireCount("R-C14-4", "stores into topicNode.clients/nodes", nStores, 4)
	c.RequireCount("R-C14-4", "call sites providing the write lock to the storing functions", nWriterCalls, 2)

	// ---- locks released at every exit of the functions that take one
	e.decls(func(f *flow.Func, fd *ast.FuncDecl) {
		takes := false
		for _, call := range calls(fd.Body, false) {
			if _, m := c14lockRecv(f, call, f.Callee(call)); m == "Lock" || m == "RLock" {
				takes = true
			}
		}
		if !takes {
			return
		}
		res := flowOf(fd)
		if res == nil {
			return
		}
		var leak *flow.Exit
		for _, ex := range res.Exits {
			if ex.Kind == flow.ExitReturn && c14held(ex.State, false) {
				leak = ex
			}
		}
		c.Check(leak == nil, "R-C14-4", declName(e.pkg, fd)+"|lock released at every exit", pos(c, fd.Body),
			sprintf("%d exits, none with the manager's lock still held", len(res.Exits)),
			"an exit leaves the manager's lock held: every later subscribe/unsubscribe/findSubscribers blocks forever", func() []string {
				if leak != nil {
					return witness(leak.State)
				}
				return nil
			}()...)
	})

	// ---- aliases / escapes of the maps and construction of nodes
	ctorLits := 0
	e.decls(func(f *flow.Func, fd *ast.FuncDecl) {
		pm := parentMap(fd.Body)
		ast.Inspect(fd.Body, func(n ast.Node) bool {
			switch t := n.(type) {
			case *ast.CompositeLit:
				if tv, ok := f.Info.Types[t]; ok && c14isNamed(tv.Type, mq, "topicNode") {
					ctorLits++
					// a node literal must create fresh maps
					fresh := len(t.Elts) == 2
					for _, el := range t.Elts {
						v := el
						if kv, ok := el.(*ast.KeyValueExpr); ok {
							v = kv.Value
						}
						call, ok := ast.Unparen(v).(*ast.CallExpr)
						if !ok || !c14isBuiltin(f, call, "make") {
							fresh = false
						}
					}
					c.Check(fresh, "R-C14-4", declName(e.pkg, fd)+"|node literal has fresh maps", pos(c, t),
						"topicNode literal initialises clients and nodes with make(...)",
						"a topicNode is built without fresh clients/nodes maps: nodes would share a map (subscriptions of one filter appear under another) or a nil map makes insert panic")
				}
			case *ast.SelectorExpr:
				s := f.Info.Selections[t]
				if s == nil || (s.Obj() != e.nodesF && s.Obj() != e.clientsF) {
					return true
				}
				p := pm[t]
				for {
					if pe, ok := p.(*ast.ParenExpr); ok {
						p = pm[pe]
						continue
					}
					break
				}
				escape := ""
				switch pt := p.(type) {
				case *ast.IndexExpr, *ast.RangeStmt, *ast.BinaryExpr, *ast.SelectorExpr:
				case *ast.CallExpr:
					if _, isB := f.Callee(pt).(*types.Builtin); !isB {
						escape = "passed to " + f.Render(pt.Fun)
					}
				case *ast.AssignStmt:
					for i, r := range pt.Rhs {
						if ast.Unparen(r) == ast.Expr(t) {
							escape = "aliased by an assignment"
							if len(pt.Lhs) == len(pt.Rhs) {
								if _, ro := c14readOnlyAlias(f, pt.Lhs[i], s.Obj().(*types.Var)); ro {
									escape = "" // a read-only local spelling of the field
								}
							}
						}
					}
				default:
					escape = fmt.Sprintf("used in %T", p)
				}
				if escape != "" {
					c.Undecide("R-C14-4", declName(e.pkg, fd)+"|alias of trie map", pos(c, t), "topicNode."+s.Obj().Name()+" "+escape+": stores through the alias cannot be attributed")
				}
			}
			return true
		})
	})
	c.RequireCount("R-C14-4", "topicNode literals", ctorLits, 1)

	// ---- root never reassigned
	rootStores := 0
	e.decls(func(f *flow.Func, fd *ast.FuncDecl) {
		ast.Inspect(fd.Body, func(n ast.Node) bool {
			if as, ok := n.(*ast.AssignStmt); ok {
				for _, l := range as.Lhs {
					if _, ok := c14fieldRecv(f, l, e.rootF); ok {
						rootStores++
						c.Violate("R-C14-4", declName(e.pkg, fd)+"|root reassigned", pos(c, as), "TopicManager.root is replaced after construction: every live subscription is dropped (or a concurrent findSubscribers walks a half-built trie)")
					}
				}
			}
			return true
		})
	})
	if rootStores == 0 {
		c.Discharge("R-C14-4", mq+".TopicManager.root|never reassigned", "", "no assignment to TopicManager.root outside its constructor literal")
	}
}

// touchesFields reports whether CFG node n selects topicNode.clients / topicNode.nodes or
// calls a collector (function literals excluded).
func (e *c14env) touchesFields(f *flow.Func, n ast.Node) bool {
	hit := false
	ast.Inspect(n, func(x ast.Node) bool {
		switch t := x.(type) {
		case *ast.FuncLit:
			return false
		case *ast.SelectorExpr:
			if s := f.Info.Selections[t]; s != nil && (s.Obj() == e.nodesF || s.Obj() == e.clientsF) {
				hit = true
			}
		case *ast.CallExpr:
			if fo, ok := f.Callee(t).(*types.Func); ok && e.collectors[fo] != nil {
				hit = true
			}
		}
		return !hit
	})
	return hit
}

// ---------------------------------------------------------------------------------------
// R-C14-5 QoS provenance

func c14QoS(e *c14env) {
	c := e.c
	// collectors: every store into the map parameter is param[K] = V with K, V the range
	// variables of the loop over recv.clients
	for fo, fd := range e.collectors {
		f := flow.NewFunc(e.pkg, fd)
		cons := declName(e.pkg, fd)
		recv := c14recvObj(f, fd)
		if ni := e.collectorNode[fo]; ni >= 0 && ni < len(c14params(f)) {
			recv = c14params(f)[ni]
		}
		stores, good := 0, 0
		var badAt ast.Node
		pm := parentMap(fd.Body)
		ast.Inspect(fd.Body, func(n ast.Node) bool {
			as, ok := n.(*ast.AssignStmt)
			if !ok {
				return true
			}
			for i, l := range as.Lhs {
				ix, ok := ast.Unparen(l).(*ast.IndexExpr)
				if !ok || !c14isParam(f, c14obj(f, ix.X)) {
					continue
				}
				stores++
				// enclosing range over recv.clients
				var rs *ast.RangeStmt
				for p := pm[as]; p != nil; p = pm[p] {
					if r, ok := p.(*ast.RangeStmt); ok {
						if x, ok := c14fieldOrAlias(f, r.X, e.clientsF); ok && c14obj(f, x) == recv {
							rs = r
							break
						}
						if e.collectorNode[fo] == -3 && c14obj(f, r.X) == c14recvObj(f, fd) {
							rs = r // the method of the named clients map ranges over its receiver
							break
						}
					}
				}
				okStore := false
				if rs != nil && rs.Key != nil && len(as.Lhs) == len(as.Rhs) && as.Tok == token.ASSIGN {
					k := c14obj(f, rs.Key)
					keyOK := k != nil && c14obj(f, ix.Index) == k
					if rs.Value != nil {
						v := c14obj(f, rs.Value)
						okStore = keyOK && v != nil && c14obj(f, as.Rhs[i]) == v
					}
					// key-only range: the value is looked up in the ranged map under the same key
					if lx, isIx := ast.Unparen(as.Rhs[i]).(*ast.IndexExpr); isIx && keyOK && !okStore {
						okStore = f.Render(lx.X) == f.Render(rs.X) && c14obj(f, lx.Index) == k
					}
				}
				if !okStore {
					// ans[p0] = p1 inside the closure handed to a clients iterator on the node
					for _, call := range calls(fd.Body, false) {
						if node, lit, isIt := e.iterCall(f, call, e.clientsF); isIt && contains(lit.Body, as) && c14obj(f, node) == recv {
							if _, isCol := c14collectLit(f, lit); isCol {
								okStore = true
							}
						}
					}
				}
				if okStore {
					good++
				} else {
					badAt = as
				}
			}
			return true
		})
		_ = fo
		c.RequireCount("R-C14-5", "stores into the result parameter of "+fd.Name.Name, stores, 1)
		c.Check(stores == good, "R-C14-5", cons+"|collector stores the subscription's own QoS", pos(c, fd.Body),
			sprintf("%d store(s): ans[client] = qos with (client, qos) ranged from recv.clients", stores),
			sprintf("the collector stores something other than the (client, qos) pair of the node's clients map at %s: the routed QoS/client is not one of the client's own matching subscriptions", pos(c, badAt)))
	}

	// the matcher: the result map is written only through collect sites and not handed elsewhere.
	// Decided over the reach of the matcher: a helper that receives the result map is scanned too.
	if f := e.role("find").f; f != nil {
		cons := e.role("find").cons
		bind := c14bindings(f, 3)
		// the result map = first result of the success returns
		var result types.Object
		ast.Inspect(f.Body, func(n ast.Node) bool {
			if r, ok := n.(*ast.ReturnStmt); ok && len(r.Results) == 2 && f.Info.Types[r.Results[1]].IsNil() {
				if o := c14place(f, r.Results[0]); o != nil {
					if _, isMap := o.Type().Underlying().(*types.Map); isMap {
						result = o // a variable, or a field of a per-call state struct (m.found)
					}
				}
			}
			return true
		})
		if result == nil && f.Type.Results != nil && len(f.Type.Results.List) > 0 && len(f.Type.Results.List[0].Names) == 1 {
			result = f.Info.Defs[f.Type.Results.List[0].Names[0]] // named result
		}
		if result != nil {
			bad := ""
			var badAt ast.Node
			var escaped *ast.CallExpr
			var escapedIn *flow.Func
			nCols := 0
			isResult := func(g *flow.Func, x ast.Expr) bool {
				o := c14place(g, x)
				if v, ok := o.(*types.Var); ok && v.IsField() {
					return o == result
				}
				return c14denotes(bind, g, o, result, 4)
			}
			for _, g := range reach(f, 3) {
				g := g
				if gd, ok := g.Node.(*ast.FuncDecl); ok && e.collectors[e.funcObj(gd)] != nil {
					continue
				}
				cols := e.collects(g, g.Body)
				inlineX := map[ast.Expr]bool{}
				for _, cl := range cols {
					nCols++
					if cl.call == nil {
						inlineX[cl.at.(ast.Expr)] = true
					}
				}
				pm := parentMap(g.Body)
				ast.Inspect(g.Body, func(n ast.Node) bool {
					switch t := n.(type) {
					case *ast.AssignStmt:
						for i, l := range t.Lhs {
							ix, ok := ast.Unparen(l).(*ast.IndexExpr)
							if !ok || !isResult(g, ix.X) {
								continue
							}
							okStore := false
							for p := pm[t]; p != nil; p = pm[p] {
								if r, ok := p.(*ast.RangeStmt); ok && inlineX[r.X] && r.Key != nil && r.Value != nil && len(t.Lhs) == len(t.Rhs) {
									okStore = c14obj(g, ix.Index) == c14obj(g, r.Key) && c14obj(g, t.Rhs[i]) == c14obj(g, r.Value)
									break
								}
							}
							if !okStore {
								for _, cl := range cols {
									if cl.lit != nil && contains(cl.lit.Body, t) {
										okStore = true // the collecting closure of an iterator call
									}
								}
							}
							if !okStore {
								bad, badAt = "a store into the result map does not copy a (client, qos) pair of a node's clients map", t
							}
						}
					case *ast.CallExpr:
						if _, isB := g.Callee(t).(*types.Builtin); isB {
							return true
						}
						fo := c14calleeOf(g, t)
						if fo != nil && e.collectors[fo] != nil {
							return true
						}
						if fo != nil && fo.Pkg() == g.Pkg.Types && declOf(g.Pkg, fo) != nil {
							return true // a helper of the matcher: its body is part of the reach
						}
						for _, a := range t.Args {
							if isResult(g, a) {
								escaped, escapedIn = t, g
							}
						}
					}
					return true
				})
			}
			if escaped != nil && bad == "" {
				c.Undecide("R-C14-5", cons+"|result map written only by collect sites", pos(c, escaped), "the result map is handed to "+escapedIn.Render(escaped.Fun)+", which is neither a collector nor a function of this package: stores made there cannot be attributed")
				return
			}
			c.Check(bad == "", "R-C14-5", cons+"|result map written only by collect sites", pos(c, f.Body),
				sprintf("%d collect sites in the matcher and its helpers; no other store into or escape of the result map", nCols), bad+" ("+pos(c, badAt)+")")
		}
	}

	// insert: clients[clientParam] = qosParam
	if f := e.role("insert").f; f != nil {
		cons := e.role("insert").cons
		src := e.sourceCalls(f, f.Body, false)
		var topicParam types.Object
		if len(src) == 1 && len(src[0].Args) == 1 {
			topicParam = c14obj(f, src[0].Args[0])
		}
		n := 0
		bind := c14bindings(f, 2)
		// standsForParam: o is a parameter of insert, or a helper's parameter bound to one
		standsForParam := func(g *flow.Func, o types.Object) types.Object {
			for _, p := range c14params(f) {
				if c14denotes(bind, g, o, p, 3) {
					return p
				}
			}
			return nil
		}
		for _, g := range reach(f, 2) {
			if g != f && len(e.sourceCalls(g, g.Body, false)) > 0 {
				continue
			}
			// paramID: the parameter of insert an expression stands for — the parameter itself, or a
			// field of a parameter object (insert(sub topicSub): sub.clientID, sub.qos, sub.filter)
			paramID := func(x ast.Expr) types.Object {
				x = ast.Unparen(x)
				if sel, ok := x.(*ast.SelectorExpr); ok {
					if sl := g.Info.Selections[sel]; sl != nil && sl.Kind() == types.FieldVal && standsForParam(g, c14obj(g, sel.X)) != nil {
						return sl.Obj()
					}
					return nil
				}
				return standsForParam(g, c14obj(g, x))
			}
			for _, w := range e.trieWrites(g, g.Body) {
				if !w.store || w.field != e.clientsF || w.key == nil || w.val == nil {
					continue
				}
				n++
				k, v := paramID(w.key), paramID(w.val)
				topicID := topicParam
				if len(src) == 1 && len(src[0].Args) == 1 && topicID == nil {
					if sel, ok := ast.Unparen(src[0].Args[0]).(*ast.SelectorExpr); ok {
						if sl := f.Info.Selections[sel]; sl != nil {
							topicID = sl.Obj()
						}
					}
				}
				okK := k != nil && k != topicID && types.Identical(k.Type().Underlying(), types.Typ[types.String])
				okV := v != nil && c14isByte(v.Type())
				c.Check(okK && okV, "R-C14-5", cons+"|stores the caller's qos under the caller's client id", pos(c, w.at),
					"clients[<client id parameter>] = <qos parameter>",
					"insert does not store its qos parameter under its client-id parameter: the subscription is recorded for another key or with another QoS than requested")
			}
		}
		c.RequireCount("R-C14-5", "clients stores in insert", n, 1)
		c14InsertAlways(e, f, cons)
	}

	// subscribe: insert(topics[i], qoss[i], client)
	if f := e.role("subscribe").f; f != nil {
		cons := e.role("subscribe").cons
		ins := c14callsToFn(f, f.Body, true, e.role("insert").obj)
		c.RequireCount("R-C14-5", "insert call sites in subscribe", len(ins), 1)
		for _, call := range ins {
			if len(c14flattenArgs(call.Args)) < 3 {
				c.Undecide("R-C14-5", cons+"|QoS paired with its filter", pos(c, call), "insert does not take (filter, qos, client)")
				continue
			}
			// the enclosing element-wise loop over a slice parameter of subscribe (any loop form)
			var it *c14iter
			loops := enclosingLoops(f.Body, call)
			for i := len(loops) - 1; i >= 0 && it == nil; i-- {
				if cand := c14iterOf(f, loops[i]); cand != nil && c14isParam(f, c14obj(f, cand.slice)) {
					it = cand
				}
			}
			ok := false
			why := "insert is not called from a loop over the filter slice parameter"
			if it != nil {
				topicsP := c14obj(f, it.slice)
				isElem := func(x ast.Expr) bool {
					x = ast.Unparen(x)
					if o := c14obj(f, x); o != nil && o == it.elem {
						return true
					}
					ix, isIx := x.(*ast.IndexExpr)
					return isIx && c14obj(f, ix.X) == topicsP && it.key != nil && c14obj(f, ix.Index) == it.key
				}
				filterOK, qosOK, clientOK := false, false, false
				args := c14flattenArgs(call.Args)
				for _, a := range args {
					a = ast.Unparen(a)
					switch {
					case isElem(a):
						filterOK = true
					case c14isSliceOf(f.Info.Types[a].Type, c14isStr):
						// the levels a level source returned for the current element in this iteration
						if v := c14obj(f, a); v != nil {
							ast.Inspect(it.body, func(n ast.Node) bool {
								if as, isAs := n.(*ast.AssignStmt); isAs && len(as.Rhs) == 1 && c14obj(f, as.Lhs[0]) == v {
									if src, isC := ast.Unparen(as.Rhs[0]).(*ast.CallExpr); isC && e.isSource(f, src) && len(src.Args) == 1 && isElem(src.Args[0]) {
										filterOK = true
									}
								}
								return true
							})
						}
					}
					qa := a
					// a named local for the element: qos := qoss[i] (assigned once, in this iteration)
					if v := c14obj(f, a); v != nil && !c14isParam(f, v) {
						defs := 0
						var rhs ast.Expr
						ast.Inspect(f.Body, func(n ast.Node) bool {
							if as, isAs := n.(*ast.AssignStmt); isAs && len(as.Lhs) == len(as.Rhs) {
								for i, l := range as.Lhs {
									if c14obj(f, l) == v {
										defs++
										if contains(it.body, as) {
											rhs = as.Rhs[i]
										}
									}
								}
							}
							return true
						})
						if defs == 1 && rhs != nil {
							qa = ast.Unparen(rhs)
						}
					}
					if ix, isIx := qa.(*ast.IndexExpr); isIx {
						qp := c14obj(f, ix.X)
						if qp != nil && qp != topicsP && c14isParam(f, qp) && c14isSliceOf(qp.Type(), c14isByte) && it.key != nil && c14obj(f, ix.Index) == it.key {
							qosOK = true
						}
					}
					if cl := c14obj(f, a); cl != nil && c14isParam(f, cl) && c14isStr(cl.Type()) {
						clientOK = true
					}
				}
				ok = filterOK && qosOK && clientOK
				switch {
				case !filterOK:
					why = "the filter handed to insert is not the current element of the filter slice"
				case !qosOK:
					why = "the QoS handed to insert is not qoss[i] for the current filter index i: a filter is recorded with the QoS requested for another filter"
				case !clientOK:
					why = "the client id handed to insert is not subscribe's client parameter"
				}
			}
			c.Check(ok, "R-C14-5", cons+"|QoS paired with its filter", pos(c, call), "insert(topics[i], qoss[i], client) inside the loop over topics", why)
		}
	}
}

// c14InsertAlways: every exit of insert that reports success has executed the store
// clients[client] = qos (re-subscription replaces the recorded QoS: session and SUBACK report the
// requested one). The store may be skipped only in a state that knows the recorded value equals
// the qos parameter.
func c14InsertAlways(e *c14env, f *flow.Func, cons string) {
	c := e.c
	const ev = "ev:c14:qosStored"
	stores := map[ast.Node]bool{}
	storesIn := map[*ast.BlockStmt]bool{}
	bind := c14bindings(f, 2)
	rfs := reach(f, 2)
	for _, g := range rfs {
		if g != f && len(e.sourceCalls(g, g.Body, false)) > 0 {
			continue
		}
		for _, w := range e.trieWrites(g, g.Body) {
			if w.store && w.field == e.clientsF {
				stores[w.at] = true
				storesIn[g.Body] = true
			}
		}
	}
	// variables holding the requested qos (insert's integer parameter and helper parameters bound
	// to it) and the currently recorded qos: v[, ok] := X.clients[<client parameter>]
	var qosParams []types.Object
	var qosLike, curVars []string
	for _, p := range c14params(f) {
		if c14isByte(p.Type()) {
			qosParams = append(qosParams, p)
		}
	}
	for _, g := range rfs {
		g := g
		for _, p := range c14params(g) {
			for _, q := range qosParams {
				if c14denotes(bind, g, p, q, 3) {
					qosLike = append(qosLike, c14varRender(g, p))
				}
			}
		}
		ast.Inspect(g.Body, func(n ast.Node) bool {
			if as, ok := n.(*ast.AssignStmt); ok && len(as.Rhs) == 1 {
				if ix, ok := ast.Unparen(as.Rhs[0]).(*ast.IndexExpr); ok {
					if _, isC := c14fieldRecv(g, ix.X, e.clientsF); isC && c14isParam(g, c14obj(g, ix.Index)) {
						if o := c14obj(g, as.Lhs[0]); o != nil {
							curVars = append(curVars, c14varRender(g, o))
						}
					}
				}
			}
			return true
		})
	}
	res := analyze(c, f, flow.Config{NoHavoc: true,
		Inline: e.selectiveInline(f, 2, func(g *flow.Func) bool { return storesIn[g.Body] }),
		OnNode: func(st *flow.State, n ast.Node) {
			if stores[n] {
				st.Set(ev, flow.True)
			}
		},
		OnCall: func(st *flow.State, call *ast.CallExpr, callee types.Object, d bool) {
			if stores[call] {
				st.Set(ev, flow.True) // a put primitive of the clients map
			}
		}})
	if res == nil {
		return
	}
	sameKnown := func(st *flow.State) bool {
		for _, a := range curVars {
			for _, b := range qosLike {
				x, y := a, b
				if y < x {
					x, y = y, x
				}
				if st.Is("eq:"+x+"=="+y, flow.True) {
					return true
				}
			}
		}
		return false
	}
	// an insert without error result (the levels are validated by its callers) succeeds on every return
	noErrResult := f.Type.Results == nil || len(f.Type.Results.List) == 0
	errFalse := func(st *flow.State) bool { return false }
	if src := e.sourceCalls(f, f.Body, false); len(src) == 1 {
		ast.Inspect(f.Body, func(n ast.Node) bool {
			if as, ok := n.(*ast.AssignStmt); ok && len(as.Rhs) == 1 && ast.Unparen(as.Rhs[0]) == ast.Expr(src[0]) && len(as.Lhs) == 2 {
				if id, ok := as.Lhs[1].(*ast.Ident); ok && id.Name != "_" {
					k := f.NilKey(id)
					errFalse = func(st *flow.State) bool { return st.Is(k, flow.False) }
				}
			}
			return true
		})
	}
	var bad *flow.Exit
	n := 0
	for _, ex := range res.Exits {
		if ex.Kind != flow.ExitReturn {
			continue
		}
		if !noErrResult {
			if ex.Return == nil || len(ex.Return.Results) == 0 {
				continue
			}
			last := ex.Return.Results[len(ex.Return.Results)-1]
			if nn, ok := c14nonNilErr(f, ex.State, last); !ok || nn {
				continue // error exit (or unclassified): R-C14-2
			}
		}
		if e.insertPrevalidated && errFalse(ex.State) {
			continue // every call site validated the batch first: the level source cannot fail here
		}
		n++
		if !ex.State.Is(ev, flow.True) && !sameKnown(ex.State) {
			bad = ex
		}
	}
	c.RequireCount("R-C14-5", "success exits of insert", n, 1)
	c.Check(bad == nil, "R-C14-5", cons+"|qos recorded on every successful path", pos(c, f.Body),
		sprintf("%d abstract success exits, all after clients[client] = qos (or with the recorded qos known equal)", n),
		"insert can report success without recording the requested qos (the store is conditional): a re-subscription with another QoS keeps the old QoS in the trie while the session and the SUBACK report the new one — messages are routed with a QoS that is not the client's current subscription", func() []string {
			if bad == nil {
				return nil
			}
			return append([]string{"return at " + pos(c, bad.Return)}, witness(bad.State)...)
		}()...)
}

// c14flattenArgs replaces a composite literal argument (a parameter object such as
// topicSub{clientID: id, filter: t, qos: q}) by the values of its fields.
func c14flattenArgs(args []ast.Expr) []ast.Expr {
	var out []ast.Expr
	for _, a := range args {
		x := ast.Unparen(a)
		if u, ok := x.(*ast.UnaryExpr); ok {
			x = ast.Unparen(u.X)
		}
		if cl, ok := x.(*ast.CompositeLit); ok {
			for _, el := range cl.Elts {
				if kv, ok := el.(*ast.KeyValueExpr); ok {
					out = append(out, kv.Value)
				} else {
					out = append(out, el)
				}
			}
			continue
		}
		out = append(out, a)
	}
	return out
}
