package rules

// Property C06 — Validator admits exactly requests with valid JWT / signature / Basic
// credentials / header rules.
//
// Rules (DESIGN.md §3 C06) and where they live:
//
//	R-C06-1  c06.go, c06_table.go  Validator.Handle decision table (E1): admit only if every validator field is nil
//	                        or its check returned nil (direct call or a proven-faithful wrapper); reject only after
//	                        a validator error, with a declared result, an output response and 400 (headers) / 401
//	R-C06-2  c06_jwt.go     every jwt.Parse* key function returns the key only with Alg() == configured algorithm
//	                        (E1); the caller accepts only with the parser's verdict (JWTValidator.Validate: no bypass)
//	R-C06-3  c06_body.go    SSA forward taint from Std()/embedded std request of an httpprot.Request to any access
//	                        of net/http.Request.Body (or std body consumer) outside httpprot; copies whose Body is
//	                        re-assigned by a dominating store are clean
//	R-C06-4  c06_signer.go  canonical request covers method/path/query/canonical headers/signed list/body hash;
//	                        string to sign covers that hash and the timestamp and is keyed with the access key secret;
//	                        verify: query from the URL, body hash never from a header and computed from the body
//	                        bytes, secret from the key store (ok), accept only on presented == recomputed (E1)
//	R-C06-5  c06_basic.go   user:password separated at the first colon only
//	R-C06-6  c06_signer.go  Verify accepts only inside the TTL window and before the presign expiry (E1)
//	R-C06-7  c06_header.go  header rules: the configured name is canonicalised before it indexes the header map
//	R-C06-8  c06_source.go  every credential update received (etcd syncer, file watcher) is applied to the htpasswd object
//
// Everything below was actually run in /tmp/vw/C06/repo (scripts in /tmp/vw/C06/mut). Mutants of the
// signer/validator were applied on top of the two proposed fixes so that the checker's exit code
// is attributable (on today's tree the two genuine findings are always reported as well).
//
// Mutants (all compile) → obligation that fired:
//
//	M1   validator.go  JWT failure only tagged, `return resultInvalid` dropped        → R-C06-1 admit requires jwt
//	M2   validator.go  basicAuth test inverted (`err == nil`)                         → R-C06-1 admit requires basicAuth, reject only on a validator error
//	M3   validator.go  signature failure answers http.StatusForbidden                 → R-C06-1 signer failure → invalid + 401
//	M4   validator.go  helper stores the response with SetInputResponse               → R-C06-1 all five "failure → invalid + 4xx"
//	M5   validator.go  oauth2 block removed                                           → R-C06-1 admit requires oauth2
//	M24  validator.go  wrapper verifySignature returns nil for streams                → R-C06-1 admit requires signer (unfaithful wrapper named)
//	M6   jwt.go        key returned before the algorithm test                         → R-C06-2 alg pinning
//	M7   jwt.go        `alg == v.spec.Algorithm`                                      → R-C06-2 alg pinning
//	M8   jwt.go        parse error only logged, `return nil`                          → R-C06-2 accept only with the parser's verdict
//	M9   jwt.go        empty bearer token → `return nil` before Parse                 → R-C06-2 accept only with the parser's verdict
//	M9b  oauth2.go     HMAC family assertion instead of the configured algorithm      → R-C06-2 alg pinning (OAuth2Validator)
//	N3   jwt.go        ParseUnverified success short-cuts to `return nil`             → R-C06-2 accept only with the parser's verdict
//	M20  kafka.go      Kafka.Handle reads req.Std().Body instead of the payload       → R-C06-3 (Kafka).Handle
//	M21  validator.go  fix without the `stdr.Body = payload` line                     → R-C06-3 hashBody ← signedRequest
//	M22  validator.go  Body assigned only after Verify                                → R-C06-3 hashBody ← Handle
//	M23  validator.go  Verify(req.Std()) wrapped in a closure capturing the request   → R-C06-3 hashBody ← Handle
//	M25  urlrule.go    URLRule.Match (fed req.Std() by RateLimiter) calls ParseForm   → R-C06-3 URLRule.Match ← RateLimiter.Handle
//	M10  signer.go     canonical request without ctx.BodyHash                         → R-C06-4 canonical request covers body hash
//	M11  signer.go     canonical request writes URL.Path instead of the query         → R-C06-4 canonical request covers query
//	M12  signer.go     `!verify` guard around the header read dropped                 → R-C06-4 body hash not from a header (+ computed from the body)
//	M12b signer.go     Verify calls hashBody(req, false)                              → R-C06-4 body hash computed in verify mode
//	M13  signer.go     `sig := ctx.Signature` moved after ctx.sign(req)               → R-C06-4 accept only on signature equality
//	M13b signer.go     comparison moved before ctx.sign(req)                          → R-C06-4 accept only on signature equality
//	M14  signer.go     mismatch rejected only for equal lengths                       → R-C06-4 accept only on signature equality
//	M26  signer.go     sign() no longer writes the canonical request hash             → R-C06-4 signature covers the canonical request hash
//	M27  signer.go     sign() no longer writes the timestamp                          → R-C06-4 signature covers the timestamp
//	M28  signer.go     `secret, _ := GetSecret(id)`                                   → R-C06-4 keyed with the secret of a known access key
//	M29  signer.go     signing key derived from AccessKeyID                           → R-C06-4 signature keyed with the access key secret
//	M30  signer.go     AccessKeySecret assigned after ctx.sign(req)                   → R-C06-4 keyed with the secret of a known access key
//	M31  signer.go     `req.Body == nil || verify` → constant empty hash              → R-C06-4 on verify the body hash is computed from the body
//	M32  signer.go     digest of nil instead of the bytes read                        → R-C06-4 on verify the body hash is computed from the body
//	M15  signer.go     `age < -ctx.ttl` dropped                                       → R-C06-6 TTL window
//	M16  signer.go     `age < ctx.ttl`                                                → R-C06-6 TTL window
//	M16b signer.go     `&&` instead of `||`                                           → R-C06-6 TTL window
//	M17  signer.go     expiry tested under `!ctx.isPresign`                           → R-C06-6 presign expiry
//	M18  basicauth.go  strings.SplitN(creds, ":", 3)                                  → R-C06-5
//	M19  basicauth.go  strings.LastIndex split                                        → R-C06-5
//
// Second pass (seeded regressions a and b, both missed by the first version, now caught):
//
//	seeded a  signer.go  buildCanonicalURI: `uri = u.Path`                          → R-C06-4 canonical path is the wire (escaped) form
//	A2   signer.go     `p := u.Path; if p == "" { p = "/" }; uri = p`                → same
//	A3   signer.go     hashCanonicalRequest hands buildCanonicalURI &url.URL{Path: req.URL.Path} → same
//	A4   signer.go     `uri, _ = url.PathUnescape(u.EscapedPath())`                  → same
//	AE1  signer.go     (preserving) switch on Opaque, `escaped := u.EscapedPath()`, u.Path only in a condition → silent
//	seeded b  jwt.go   jwt.ParseWithClaims(token, &jwt.StandardClaims{}, kf)         → R-C06-2 claims container admits every RFC 7519 form
//	B2   oauth2.go     same change in OAuth2Validator.Validate                       → same (OAuth2Validator)
//	B3   jwt.go        local struct embedding StandardClaims, new(jwt.Parser).ParseWithClaims(token, claims, kf) → same
//	B4   jwt.go        own claims type with `ExpiresAt int64 json:"exp"`              → same (exp integer)
//	BE1  jwt.go        (preserving) (&jwt.Parser{}).ParseWithClaims(token, jwt.MapClaims{}, kf) → silent
//	BE2  jwt.go        (preserving) own claims type with aud interface{}, exp/nbf float64 → silent
//
// Third pass (round-2 seeded change b, missed before, now caught by the provenance obligation of R-C06-5):
//
//	round-2 b basicauth.go  `credentials := strings.TrimSpace(string(credentialBytes))`     → R-C06-5 credentials compared are exactly the decoded bytes
//	P2   basicauth.go  Match(strings.ToLower(userID), password)                           → same
//	P3   basicauth.go  parseCredentials returns strings.TrimRight(parts[1], "\r\n")        → same (followed into the helper)
//	P4   basicauth.go  credentialBytes = bytes.ReplaceAll(credentialBytes, []byte{0}, nil) → same
//	P5   basicauth.go  password replaced by url.QueryUnescape(password) when it succeeds  → same
//	PE1  basicauth.go  (preserving) slices/conversions through locals, strings.Cut inline, TrimSpace only in a condition, ToLower only in a log → silent
//	PE2  basicauth.go  (preserving) req.Std().BasicAuth()                                 → silent
//
// Fourth pass (round-3 seeded change b, missed before, now caught by the new rule R-C06-7, c06_header.go):
//
//	round-3 b httpheader.go  GetAll no longer calls textproto.CanonicalMIMEHeaderKey       → R-C06-7 configured header name is canonicalised
//	H2   httpheader.go  GetAll lower-cases the key instead                               → same
//	H3   validator.go   Validate indexes h.Std()[key]                                    → same (site in Validate)
//	H4   validator.go   Validate indexes h.h[name] through a local and comma-ok           → same
//	HE1  httpheader.go  (preserving) GetAll returns h.h.Values(key)                       → silent
//	HE2  httpheader.go  (preserving) http.CanonicalHeaderKey into a local, comma-ok index  → silent
//	HE3  validator.go   (preserving) h.Std()[textproto.CanonicalMIMEHeaderKey(key)]        → silent
//	HE4  both files     (preserving) canonicalised in Validate, plain index in GetAll      → silent
//
// Robustness pass (behaviour-preserving refactorings /verif/preserving/C06/r1..r4, all silent now):
// anchors of the signer resolved by role (c06SignerRole), constructs searched over the reach of the
// anchored function, same-package helpers interpreted in place (Inline), method values resolved
// (c06Callee), named results with bare returns (c06Results), statuses/ages/saved signatures followed
// through parameters of helpers. Workarounds for two engine gaps live in c06Feasible / c06TrackNonNil
// (fmt.Errorf is not known to be non-nil) and in the "ev:atom:" mirror of c06Verify (facts of the
// caller dropped when a second state enters an inlined helper). Further variants tried (silent):
// V1 expiry as bool helper taking the age, V2 checks through method values in Handle, V3 named result +
// bare returns in JWTValidator.Validate, V4 GetAll through a method value, V5 Handle split into a
// first-failure helper + reject closure returning the result; mutated versions of r2/r4 are still caught.
//
// Robustness pass, second set (/verif/preserving/C06/r5..r8, all silent now): what flows into a digest is
// the value closure of the result (arrays of parts written in a loop, strings.Join, locals) instead of
// "writes into one buffer"; role predicates and the wire-form rule follow helpers split in two; the key
// function may be a method value delegating to a helper whose parameters carry token / algorithm / secret;
// a function calling the jwt parser may return several values; a table-driven Handle (slice of entries
// with check function, status, tag built at reload) is decided by c06_table.go in two halves (loop, table).
// Mutants of those shapes tried: T1 jwt entry dropped, T2 entry status 403, T3 `continue` after a failed
// entry, T4 `return ""` inside the loop, T5 reject ignores the entry's status, T6 table built before
// basicAuth is assigned, T7 unfaithful wrapper in an entry, T8 entry guarded by an extra condition → all
// R-C06-1 violations; T9 loop over validations[1:] → undecided. Variants (silent): value-range loop with
// keyed literals, classic for loop through a local, builder inlined into reload (reset + appends),
// alg test as a predicate method, body digest in a helper; mutated r6/r7 are still caught.
//
// Fourth seeded round (slips hidden in refactorings; both were silent, now reported; c06_source.go):
//
//	seeded g  basicauth.go  watch body → reload(kvs) with "no credentials → return"      → R-C06-8 every received credential update is applied
//	G2 `if len(kvs) == 0 { continue }` in the etcd watch loop; G3 file watcher skips non-Write events; G4 Reload only for a non-empty reader → same
//	GOK the same refactoring without the early return → silent
//	seeded h  jwt.go  tokenString returns cookie.Value as soon as the cookie exists       → R-C06-2 token is the non-empty cookie value, else the Bearer token
//	H2 today's shape with `token == "" && v.spec.CookieName == ""`; H3 tokenString with `e == nil && cookie != nil` → same
//	HOK tokenString with `e == nil && cookie.Value != ""`; HOK2 `if value := cookie.Value; len(value) > 0` → silent
//	(side effect of an engine addition found on the way: facts learned from `&SigningContext{..}` made isPresign
//	known false across the opaque initFromSignedRequest under NoHavoc, seeded e went silent; c06Verify now forgets
//	the fields an opaque same-package callee assigns)
//
// Robustness pass, third set (/verif/preserving/C06/r9..r12, all silent now): the verification-side body
// hashing is resolved as "the entry in Verify's reach that takes the request and assigns BodyHash (itself or
// through what it calls)" and analysed over its reach, with or without a verify flag (hashBodyForVerification /
// hashBodyContent); sign is "the function that calls canon" whether it stores or returns the signature; the
// presented/recomputed sides of the comparison follow either convention; the secret is followed through a
// lookup helper's results; a validator field may be an unexported interface in front of the validator;
// user/password may travel in a result struct. Mutants of those shapes (x1..x6, x8) are all caught; the
// direct `ctx.Signature == ctx.computeSignature(req)` variant (x7) is silent.
//
// Robustness pass, fourth set (/verif/preserving/C06/r13..r16, all silent now): the presign indicator of
// SigningContext is resolved by role (the bool or enum field set to a constant wherever ExpireTime is set)
// and, for an enum, "presigned" is `field == that constant` (any other constant of the enumeration means not
// presigned); a same-package helper that decodes inside (basicCredentials(hdr)) is a barrier for its
// arguments while its results are followed. Mutants of those shapes (y1..y5) are caught, `location !=
// inHeader` (y6) is silent.
//
// Not caught (outside the decided clauses, see NotDecided): N1 verify rebuilds the canonical headers from
// empty values; N2 getCanonicalQuery keeps only the first value of every parameter (both are caught by the
// signer's known-answer tests).
//
// Behaviour-preserving edits → silent:
//
//	E1  validator.go  validators reordered, one shared `var err error`, `if v.jwt.Validate(req) != nil`
//	E2  validator.go  `hv := v.headers; if hv == nil {} else`, `nil != err`, switch, results held in locals
//	E3  validator.go  error helper turned into a method, status through a constant and a local, calls reordered
//	E10 validator.go  signature check moved into a faithful wrapper method returning fmt.Errorf / nil
//	E8  validator.go  fix written with Clone + locals; E9 with `r2 := *req.Std(); r2.Body = ...; &r2`
//	E4  jwt.go        `want := v.spec.Algorithm`, switch on Alg(), operands swapped, `err := e; if err != nil {return err}; return nil`
//	E5  signer.go     time.Since, `ttl := signer.ttl`, `0 < ttl && (ttl < elapsed || -ttl > elapsed)`, `!(elapsed <= expire)`
//	E6  signer.go     canonical request through fmt.Fprintf/io.WriteString/concatenation, hmac.Equal comparison
//	E11 signer.go     `keySecret, found := store.GetSecret(..); if found == false`, secret through a local
//	E12 signer.go     body read with io.Copy into a buffer, digest through locals
//	E7  basicauth.go  strings.IndexByte with a rune constant; E7b strings.Cut inline, parseCredentials removed
//
// Genuine defects on today's tree (left violated; demos and fixes in /tmp/vw/C06/out):
//
//	R-C06-3  Signer.Verify hashes the std body that FetchPayload has drained        zz_triage_test.go, fix-1.diff
//	R-C06-5  parseCredentials splits at every colon and drops the tail               zz_triage_test.go, fix-2.diff

import (
	"go/ast"
	"go/constant"
	"go/token"
	"go/types"
	"sort"
	"strings"

	"verif/internal/core"
	"verif/internal/flow"
)

const (
	c06val = "pkg/filters/validator"
	c06sig = "pkg/util/signer"
	c06hp  = "pkg/protocols/httpprot"
	c06hh  = "pkg/protocols/httpprot/httpheader"
	c06ctx = "pkg/context"
)

func init() { Registry["C06"] = c06 }

func c06(c *core.Ctx) string {
	c.Rule("R-C06-1", "all methods must pass: in Validator.Handle the \"\" result is reachable only in states where every validator field is nil or its Validate/Verify call returned nil; a non-empty result is returned only after some validator returned an error, is a declared result of the kind, and on that path an output response with status 400 (header rules) / 401 (credentials) has been set")
	c.Rule("R-C06-2", "algorithm pinning: every key function handed to jwt.Parse returns a key only on the edge where token.Method.Alg() equals the configured algorithm, and the key is not derived from the token; JWTValidator.Validate accepts only with the verdict of jwt.Parse and hands the parser the cookie value only where it is known non-empty, otherwise the Bearer token; the claims container handed to the parser can hold every RFC 7519 form of aud/exp/nbf/iat (untyped Parse, a map, or a struct whose fields do not narrow them)")
	c.Rule("R-C06-3", "signed body is the forwarded body: no code outside httpprot reads or replaces net/http.Request.Body of the request underlying an httpprot.Request (value of Std() / the embedded field, or a copy of it whose Body has not been re-assigned): after FetchPayload that body is drained and the payload is authoritative")
	c.Rule("R-C06-4", "signature covers the parts: hashCanonicalRequest feeds method, path (in its wire/escaped form, never the decoded URL.Path), query, canonical headers, signed-header list and body hash into the digest; on verify the query comes from the request URL and the body hash never from a request header; Verify accepts only when the presented signature equals the one recomputed by sign")
	c.Rule("R-C06-5", "Basic credentials are split at the first colon only (RFC 7617: the password may contain ':'), never by a full split whose tail is dropped; the user and password handed to the credential lookup are pieces of exactly the base64-decoded credential string (no trimming, case folding, replacing or other string transformation between the decoder and the lookup)")
	c.Rule("R-C06-6", "TTL window: Signer.Verify accepts only if (ttl disabled or -ttl <= age <= ttl) and (not presigned or age <= expire time)")
	c.Rule("R-C06-7", "header rules are matched case-insensitively: on the chain from the configured header-rule name to the lookup, a direct index of the http.Header map is preceded by textproto.CanonicalMIMEHeaderKey / http.CanonicalHeaderKey (or the canonicalising Header methods are used)")
	c.Rule("R-C06-8", "every credential update received from the user source (etcd sync channel, password-file watcher) is applied to the htpasswd object before the next one is awaited: no content-dependent skip between the receive and Reload / ReloadFromReader")
	c.Rule("R-C06-9", "no stale payload reader: in every function outside pkg/protocols that replaces a message's payload with SetPayload (the Validator buffers a streamed body this way so that the signer and the backend see the same bytes), a reader obtained from GetPayload() of that message before the replacement is, on every path after it, only closed — never read, passed on or stored (it is the drained stream: its consumer would see an empty body while the replacement is forwarded)")
	c.NotDecided = []string{
		"cryptographic correctness of HMAC/SHA-256 and of the third-party jwt library (exp/nbf checks, signature check)",
		"canonicalisation details: URI escaping, header folding, query encoding, host normalisation; that the signed-header list chosen by the client covers any particular header",
		"htpasswd / bcrypt matching, the initial load and the parsing of the etcd/file credential sources (only 'every received update is applied' is decided); header-rule value semantics (regexp/values)",
		"OAuth2 token introspection",
		"streaming payloads (max body size < 0): the property is quantified over buffered bodies; for a streamed body only the ordering 'the reader handed to the signer is obtained after the buffering SetPayload' is decided (R-C06-9)",
		"that a configured validator is actually instantiated (NewBasicAuthValidator returns nil without a cluster; a signer without access keys panics in Verify: C13)",
	}

	c06Handle(c)
	c06JWT(c)
	c06Body(c)
	c06StaleReaders(c)
	c06Signer(c)
	c06Basic(c)
	c06HeaderRules(c)
	c06TokenSource(c)
	c06UserSource(c)
	return "Static necessary conditions of the Validator filter: path-sensitive decision table of Validator.Handle (admit only if every configured method passed, reject only on a failure and with 400/401 + declared result), algorithm pinning of every jwt key function, program-wide SSA taint rule that the drained std body of an httpprot.Request is never read or replaced outside httpprot (what the signature must bind is the payload), structural coverage of the canonical request and path-sensitive acceptance conditions of Signer.Verify (signature equality after recomputation, TTL window, presign expiry), first-colon split of Basic credentials. Not decided: cryptography, canonicalisation details, third-party jwt/htpasswd behaviour, OAuth2 introspection."
}

// ---------------------------------------------------------------------------------------
// shared helpers

// c06FieldSel reports the struct field a selector expression resolves to (nil if none).
func c06FieldSel(f *flow.Func, e ast.Expr) *types.Var {
	sel, ok := ast.Unparen(e).(*ast.SelectorExpr)
	if !ok {
		return nil
	}
	if s := f.Info.Selections[sel]; s != nil {
		if v, ok := s.Obj().(*types.Var); ok && v.IsField() {
			return v
		}
	}
	return nil
}

// c06Obj returns the object an identifier expression denotes.
func c06Obj(f *flow.Func, e ast.Expr) types.Object {
	id, ok := ast.Unparen(e).(*ast.Ident)
	if !ok {
		return nil
	}
	if o := f.Info.Uses[id]; o != nil {
		return o
	}
	return f.Info.Defs[id]
}

// c06SingleDefs maps every local variable of body that is assigned exactly once (a := / = /
// var with one value) to that value. Variables assigned more than once (or through
// multi-value assignments) are mapped to nil.
func c06SingleDefs(f *flow.Func, body ast.Node) map[types.Object]ast.Expr {
	defs := map[types.Object]ast.Expr{}
	count := map[types.Object]int{}
	note := func(l ast.Expr, r ast.Expr) {
		o := c06Obj(f, l)
		if o == nil {
			return
		}
		count[o]++
		defs[o] = r
	}
	ast.Inspect(body, func(n ast.Node) bool {
		switch s := n.(type) {
		case *ast.AssignStmt:
			if len(s.Lhs) == len(s.Rhs) && (s.Tok == token.DEFINE || s.Tok == token.ASSIGN) {
				for i := range s.Lhs {
					note(s.Lhs[i], s.Rhs[i])
				}
			} else {
				for _, l := range s.Lhs {
					note(l, nil)
				}
			}
		case *ast.ValueSpec:
			for i, n := range s.Names {
				if len(s.Values) == len(s.Names) {
					note(n, s.Values[i])
				} else if len(s.Values) > 0 {
					note(n, nil)
				}
			}
		case *ast.IncDecStmt:
			note(s.X, nil)
		case *ast.RangeStmt:
			if s.Key != nil {
				note(s.Key, nil)
			}
			if s.Value != nil {
				note(s.Value, nil)
			}
		case *ast.UnaryExpr:
			if s.Op == token.AND {
				note(s.X, nil) // address taken
			}
		}
		return true
	})
	for o, n := range count {
		if n != 1 {
			defs[o] = nil
		}
	}
	return defs
}

// c06Resolve follows single-definition locals: the expression a local stands for.
func c06Resolve(f *flow.Func, defs map[types.Object]ast.Expr, e ast.Expr) ast.Expr {
	for i := 0; i < 4; i++ {
		e = ast.Unparen(e)
		o := c06Obj(f, e)
		if o == nil {
			return e
		}
		d, ok := defs[o]
		if !ok || d == nil {
			return e
		}
		e = d
	}
	return e
}

var c06DefsCache = map[*ast.BlockStmt]map[types.Object]ast.Expr{}

// c06DefsOf caches c06SingleDefs per function body.
func c06DefsOf(g *flow.Func) map[types.Object]ast.Expr {
	if d, ok := c06DefsCache[g.Body]; ok {
		return d
	}
	d := c06SingleDefs(g, g.Body)
	c06DefsCache[g.Body] = d
	return d
}

// c06Callee resolves the function or method a call invokes: the static callee, or — when the
// call goes through a local that holds a method value / function value and is assigned exactly
// once (`match := cache.Match; match(u, p)`) — that method or function. recv is the receiver
// expression of a method (value) call, nil otherwise.
func c06Callee(g *flow.Func, call *ast.CallExpr) (fnObj *types.Func, recv ast.Expr) {
	fun := ast.Unparen(call.Fun)
	if id, ok := fun.(*ast.Ident); ok {
		if v, isVar := c06Obj(g, id).(*types.Var); isVar && !v.IsField() {
			fun = ast.Unparen(c06Resolve(g, c06DefsOf(g), id))
		}
	}
	switch x := fun.(type) {
	case *ast.Ident:
		fnObj, _ = c06Obj(g, x).(*types.Func)
	case *ast.SelectorExpr:
		if sel := g.Info.Selections[x]; sel != nil {
			fnObj, _ = sel.Obj().(*types.Func)
			recv = x.X
		} else {
			fnObj, _ = g.Info.Uses[x.Sel].(*types.Func)
		}
	}
	return fnObj, recv
}

// c06IfaceMethod reports whether call invokes (directly or through a method value held in a
// local) the method name of the named interface pkgRel.iface.
func c06IfaceMethod(g *flow.Func, call *ast.CallExpr, pkgRel, iface, name string) bool {
	if ifaceMethodCall(g, call, pkgRel, iface, name) {
		return true
	}
	fnObj, recv := c06Callee(g, call)
	if fnObj == nil || fnObj.Name() != name || recv == nil {
		return false
	}
	tv, ok := g.Info.Types[recv]
	if !ok || tv.Type == nil {
		return false
	}
	n, ok := tv.Type.(*types.Named)
	return ok && n.Obj().Pkg() != nil && n.Obj().Pkg().Path() == Mod+pkgRel && n.Obj().Name() == iface
}

// c06Feasible works around a gap of the flow engine: it does not know that fmt.Errorf(..) /
// errors.New(..) / &T{} are non-nil, so when a same-package helper is interpreted in place
// (`if e := ctx.check(); e != nil { return e }`) the helper's `return fmt.Errorf(..)` exit is
// also continued on the `e == nil` edge. The tracker remembers, per receiving variable (or call
// expression tested in place), that the helper's last return yielded a certainly non-nil error
// and marks states that later assume that value nil as infeasible.
type c06Feasible struct {
	f    *flow.Func
	body map[string]*ast.BlockStmt // receiver key → body of the helper whose result it receives
}

func c06NewFeasible(f *flow.Func) *c06Feasible {
	return &c06Feasible{f: f, body: map[string]*ast.BlockStmt{}}
}

func (t *c06Feasible) helperBody(call *ast.CallExpr) (*ast.BlockStmt, int) {
	fo, ok := t.f.Callee(call).(*types.Func)
	if !ok || fo.Pkg() != t.f.Pkg.Types {
		return nil, -1
	}
	fd := declOf(t.f.Pkg, fo)
	if fd == nil {
		return nil, -1
	}
	res := fo.Type().(*types.Signature).Results()
	for i := 0; i < res.Len(); i++ {
		if isErrorTypeC06(res.At(i).Type()) {
			return fd.Body, i
		}
	}
	return nil, -1
}

func (t *c06Feasible) receive(st *flow.State, key string, body *ast.BlockStmt) {
	t.body[key] = body
	st.Set("ev:c06:rcv:"+key, flow.True)
	st.Set("ev:c06:nonnil:"+key, flow.Unknown)
}

// onNode must be called from the rule's OnNode hook.
func (t *c06Feasible) onNode(st *flow.State, n ast.Node) {
	switch s := n.(type) {
	case *ast.AssignStmt:
		if len(s.Rhs) == 1 {
			if call, ok := ast.Unparen(s.Rhs[0]).(*ast.CallExpr); ok {
				if body, idx := t.helperBody(call); body != nil && idx < len(s.Lhs) {
					if id, ok := s.Lhs[idx].(*ast.Ident); ok && id.Name != "_" {
						t.receive(st, t.f.NilKey(id), body)
					}
				}
			}
		}
	case *ast.ReturnStmt:
		for key, body := range t.body {
			if !contains(body, s) || !st.Is("ev:c06:rcv:"+key, flow.True) {
				continue
			}
			nonnil := flow.Unknown
			for _, r := range s.Results {
				if tv, ok := t.f.Info.Types[r]; ok && tv.Type != nil && isErrorTypeC06(tv.Type) && c06ReturnedNilness(t.f, st, r) == flow.False {
					nonnil = flow.True
				}
			}
			st.Set("ev:c06:nonnil:"+key, nonnil)
		}
	case ast.Expr:
		// a helper tested in place: if h(..) != nil
		ast.Inspect(s, func(x ast.Node) bool {
			if call, ok := x.(*ast.CallExpr); ok {
				if body, _ := t.helperBody(call); body != nil {
					t.receive(st, t.f.NilKey(call), body)
				}
			}
			return true
		})
	}
}

// afterAssume must be called from the rule's AfterAssume hook.
func (t *c06Feasible) afterAssume(st *flow.State) {
	for key := range t.body {
		if st.Is("ev:c06:nonnil:"+key, flow.True) && st.Is(key, flow.True) {
			st.Set("ev:c06:infeasible", flow.True)
		}
	}
}

func (t *c06Feasible) infeasible(st *flow.State) bool { return st.Is("ev:c06:infeasible", flow.True) }

// c06Results returns the result expressions of an exit of g: those of the return statement,
// or — for a bare return with named results — the named result identifiers.
func c06Results(g *flow.Func, ex *flow.Exit) []ast.Expr {
	if ex.Return != nil && len(ex.Return.Results) > 0 {
		return ex.Return.Results
	}
	var out []ast.Expr
	if g.Type != nil && g.Type.Results != nil {
		for _, fld := range g.Type.Results.List {
			for _, nm := range fld.Names {
				out = append(out, nm)
			}
		}
	}
	return out
}

// c06TrackNonNil is an OnNode helper: the engine does not know that fmt.Errorf(..) and
// errors.New(..) are non-nil, so `err = fmt.Errorf(..); return` (named result, bare return)
// would count as a possibly-nil result. The variable assigned such a value is remembered in an
// event that any later assignment to it clears.
func c06TrackNonNil(f *flow.Func, st *flow.State, n ast.Node) {
	var lhs, rhs []ast.Expr
	switch s := n.(type) {
	case *ast.AssignStmt:
		lhs, rhs = s.Lhs, s.Rhs
	case *ast.ValueSpec:
		for _, nm := range s.Names {
			lhs = append(lhs, nm)
		}
		rhs = s.Values
	default:
		return
	}
	for i, l := range lhs {
		id, ok := ast.Unparen(l).(*ast.Ident)
		if !ok || id.Name == "_" {
			continue
		}
		v := flow.Unknown
		if len(lhs) == len(rhs) && c06ReturnedNilness(f, st, rhs[i]) == flow.False {
			if _, isIdent := ast.Unparen(rhs[i]).(*ast.Ident); !isIdent {
				v = flow.True
			}
		}
		st.Set("ev:nn:"+f.NilKey(id), v)
	}
}

// c06ConstString returns the constant string value of e.
func c06ConstString(f *flow.Func, e ast.Expr) (string, bool) {
	tv, ok := f.Info.Types[e]
	if !ok || tv.Value == nil || tv.Value.Kind() != constant.String {
		return "", false
	}
	return constant.StringVal(tv.Value), true
}

// c06ConstInt returns the constant integer value of e rendered in decimal.
func c06ConstInt(f *flow.Func, e ast.Expr) (string, bool) {
	tv, ok := f.Info.Types[e]
	if !ok || tv.Value == nil || tv.Value.Kind() != constant.Int {
		return "", false
	}
	return tv.Value.ExactString(), true
}

// c06IsErrorResult reports whether fn returns exactly one value of type error.
func c06IsErrorResult(sig *types.Signature) bool {
	return sig.Results().Len() == 1 && isErrorTypeC06(sig.Results().At(0).Type())
}

func isErrorTypeC06(t types.Type) bool {
	return types.Identical(t, types.Universe.Lookup("error").Type())
}

// c06FuncDeclOf finds the declaration of a module function object.
func c06FuncDeclOf(c *core.Ctx, fnObj *types.Func) *flow.Func {
	if fnObj == nil || fnObj.Pkg() == nil {
		return nil
	}
	pkg := c.Prog.All[fnObj.Pkg().Path()]
	if pkg == nil {
		return nil
	}
	for _, file := range pkg.Syntax {
		for _, d := range file.Decls {
			if fd, ok := d.(*ast.FuncDecl); ok && fd.Body != nil && pkg.TypesInfo.Defs[fd.Name] == fnObj {
				return flow.NewFunc(pkg, fd)
			}
		}
	}
	return nil
}

// c06ReturnedNilness classifies the (error) result of a return statement in a state:
// True = certainly nil (accept), False = certainly non-nil, Unknown otherwise.
func c06ReturnedNilness(f *flow.Func, st *flow.State, e ast.Expr) flow.Val {
	e = ast.Unparen(e)
	if id, ok := e.(*ast.Ident); ok {
		if _, isNil := f.Info.Uses[id].(*types.Nil); isNil {
			return flow.True
		}
		if v := st.Get(f.NilKey(id)); v != flow.Unknown {
			return v
		}
		if st.Is("ev:nn:"+f.NilKey(id), flow.True) {
			return flow.False // assigned fmt.Errorf(..) / errors.New(..) / &T{} (see c06TrackNonNil)
		}
		return flow.Unknown
	}
	switch x := e.(type) {
	case *ast.CallExpr:
		if fnObj, ok := f.Callee(x).(*types.Func); ok && fnObj.Pkg() != nil {
			switch fnObj.Pkg().Path() + "." + fnObj.Name() {
			case "fmt.Errorf", "errors.New":
				return flow.False
			}
		}
	case *ast.UnaryExpr:
		if x.Op == token.AND {
			return flow.False
		}
	}
	return flow.Unknown
}

// ---------------------------------------------------------------------------------------
// R-C06-1

type c06Site struct {
	idx    int
	field  *types.Var
	call   *ast.CallExpr
	resKey string       // nil-fact key of the call's result
	errObj types.Object // variable the result is assigned to (nil when tested in place)
	own    ast.Node     // the statement assigning it
	weak   bool         // a wrapper that may return nil without the check having passed: only its errors count
	in     *flow.Func   // the function the call sits in
}

// c06RespSummary says what a helper does on every return path.
type c06RespSummary struct {
	respSet     bool
	statusConst string // constant status ("" if none)
	statusParam int    // index of the parameter handed to SetStatusCode (-1 if none)
}

func c06IsSetStatus(f *flow.Func, call *ast.CallExpr) bool {
	return calleeIs(f, call, "(*"+c06hp+".Response).SetStatusCode")
}

func c06IsSetOutput(f *flow.Func, call *ast.CallExpr) bool {
	return calleeIs(f, call, "(*"+c06ctx+".Context).SetOutputResponse")
}

// c06Summarise analyses a helper (function literal or declaration): which response events
// happen on all of its return paths.
func c06Summarise(c *core.Ctx, h *flow.Func) *c06RespSummary {
	params := map[types.Object]int{}
	if h.Type != nil && h.Type.Params != nil {
		i := 0
		for _, fld := range h.Type.Params.List {
			if len(fld.Names) == 0 {
				i++
				continue
			}
			for _, n := range fld.Names {
				params[h.Info.Defs[n]] = i
				i++
			}
		}
	}
	interesting := false
	for _, call := range calls(h.Body, false) {
		if c06IsSetStatus(h, call) || c06IsSetOutput(h, call) {
			interesting = true
		}
	}
	if !interesting {
		return nil
	}
	hdefs := c06SingleDefs(h, h.Body)
	res := analyze(c, h, flow.Config{
		OnCall: func(st *flow.State, call *ast.CallExpr, callee types.Object, deferred bool) {
			switch {
			case c06IsSetStatus(h, call) && len(call.Args) == 1:
				arg := c06Resolve(h, hdefs, call.Args[0])
				if v, ok := c06ConstInt(h, arg); ok {
					st.Set("ev:status:c:"+v, flow.True)
				} else if o := c06Obj(h, arg); o != nil {
					if i, ok := params[o]; ok {
						st.Set(sprintf("ev:status:p:%d", i), flow.True)
					}
				}
			case c06IsSetOutput(h, call):
				st.Set("ev:respset", flow.True)
			}
		},
	})
	if res == nil {
		return nil
	}
	sum := &c06RespSummary{respSet: true, statusParam: -1}
	first := true
	for _, ex := range res.Exits {
		if ex.Kind != flow.ExitReturn {
			continue
		}
		cst, prm := "", -1
		for _, fact := range ex.State.Facts() {
			if strings.HasPrefix(fact, "ev:status:c:") && strings.HasSuffix(fact, "=T") {
				cst = strings.TrimSuffix(strings.TrimPrefix(fact, "ev:status:c:"), "=T")
			}
			if strings.HasPrefix(fact, "ev:status:p:") && strings.HasSuffix(fact, "=T") {
				prm = int(fact[len("ev:status:p:")] - '0')
			}
		}
		if !ex.State.Is("ev:respset", flow.True) {
			sum.respSet = false
		}
		if first {
			sum.statusConst, sum.statusParam = cst, prm
			first = false
		} else {
			if sum.statusConst != cst {
				sum.statusConst = ""
			}
			if sum.statusParam != prm {
				sum.statusParam = -1
			}
		}
	}
	if first {
		return nil
	}
	return sum
}

// c06KindResults extracts the Results list of the filters.Kind literal of the package.
func c06KindResults(c *core.Ctx, rel string) (map[string]bool, bool) {
	pkg := c.Prog.Pkg(rel)
	if pkg == nil {
		return nil, false
	}
	out := map[string]bool{}
	found := false
	for _, file := range pkg.Syntax {
		ast.Inspect(file, func(n ast.Node) bool {
			cl, ok := n.(*ast.CompositeLit)
			if !ok {
				return true
			}
			tv, ok := pkg.TypesInfo.Types[cl]
			if !ok || tv.Type == nil {
				return true
			}
			named, ok := tv.Type.(*types.Named)
			if !ok || named.Obj().Pkg() == nil || named.Obj().Pkg().Path() != Mod+"pkg/filters" || named.Obj().Name() != "Kind" {
				return true
			}
			for _, el := range cl.Elts {
				kv, ok := el.(*ast.KeyValueExpr)
				if !ok {
					continue
				}
				k, ok := kv.Key.(*ast.Ident)
				if !ok || k.Name != "Results" {
					continue
				}
				if lst, ok := kv.Value.(*ast.CompositeLit); ok {
					found = true
					for _, x := range lst.Elts {
						if v, ok := pkg.TypesInfo.Types[x]; ok && v.Value != nil && v.Value.Kind() == constant.String {
							out[constant.StringVal(v.Value)] = true
						}
					}
				}
			}
			return true
		})
	}
	return out, found
}

// c06HelperOf resolves a call to a local closure (single definition) or to a function /
// method of the same package: the key identifying the helper and its body.
func c06HelperOf(c *core.Ctx, f *flow.Func, defs map[types.Object]ast.Expr, call *ast.CallExpr) (types.Object, *flow.Func) {
	if o := c06Obj(f, call.Fun); o != nil {
		if _, isVar := o.(*types.Var); isVar {
			if lit, ok := ast.Unparen(c06Resolve(f, defs, call.Fun)).(*ast.FuncLit); ok {
				return o, f.Lit(lit)
			}
			return nil, nil
		}
	}
	if fnObj, ok := f.Callee(call).(*types.Func); ok && fnObj.Pkg() == f.Pkg.Types {
		return fnObj, c06FuncDeclOf(c, fnObj)
	}
	return nil, nil
}

// c06Checks tracks, inside one function, the calls that consult the validator fields and
// what is known about their outcome (events: pending per site, failed per site, passed and
// unset per field).
type c06Checks struct {
	f       *flow.Func
	fields  []*types.Var
	defs    map[types.Object]ast.Expr
	nilKeys map[*types.Var]map[string]bool
	sites   []*c06Site
	// helpers that consult a field but may return nil without the check having passed
	unfaithful map[*types.Var]string
	// the check methods and wrappers called at the sites (kept opaque when helpers are interpreted in place)
	callees map[types.Object]bool
}

func (k *c06Checks) pend(s *c06Site) string       { return sprintf("ev:pending:%d", s.idx) }
func (k *c06Checks) failed(s *c06Site) string     { return sprintf("ev:failed:%d", s.idx) }
func (k *c06Checks) passed(fld *types.Var) string { return "ev:passed:" + fld.Name() }
func (k *c06Checks) unset(fld *types.Var) string  { return "ev:unset:" + fld.Name() }

func (k *c06Checks) fieldOf(e ast.Expr) *types.Var {
	v := c06FieldSel(k.f, c06Resolve(k.f, k.defs, e))
	for _, fld := range k.fields {
		if fld == v {
			return fld
		}
	}
	return nil
}

func (k *c06Checks) promote(st *flow.State) {
	for _, s := range k.sites {
		if !st.Is(k.pend(s), flow.True) {
			continue
		}
		switch st.Get(s.resKey) {
		case flow.True:
			if !s.weak {
				st.Set(k.passed(s.field), flow.True)
			}
		case flow.False:
			st.Set(k.failed(s), flow.True)
		}
	}
	for _, fld := range k.fields {
		for key := range k.nilKeys[fld] {
			if st.Is(key, flow.True) {
				st.Set(k.unset(fld), flow.True)
			}
		}
	}
}

func (k *c06Checks) onNode(st *flow.State, n ast.Node) {
	c06TrackNonNil(k.f, st, n)
	k.promote(st)
	var lhs []ast.Expr
	switch s := n.(type) {
	case *ast.AssignStmt:
		lhs = s.Lhs
	case *ast.ValueSpec:
		for _, id := range s.Names {
			lhs = append(lhs, id)
		}
	}
	// an assignment to the variable holding a check's result detaches it from that check
	for _, l := range lhs {
		o := c06Obj(k.f, l)
		if o == nil {
			continue
		}
		for _, s := range k.sites {
			if s.errObj == o && s.own != n {
				st.Set(k.pend(s), flow.Unknown)
			}
		}
	}
}

func (k *c06Checks) onCall(st *flow.State, call *ast.CallExpr) {
	for _, s := range k.sites {
		if s.call == call {
			st.Set(k.pend(s), flow.True)
			st.Set(k.failed(s), flow.Unknown)
		}
	}
}

// c06FindChecks discovers the check sites of f: direct calls of an error-returning method on
// a validator field and (depth 0 only) calls of a wrapper — a local closure or a function of
// the same package returning a single error — that is proven to return nil only if the
// field is nil or its check returned nil.
type c06Wrapper struct{ covered, consulted []*types.Var }

func c06FindChecks(c *core.Ctx, f *flow.Func, fields []*types.Var, depth int, wrappers map[types.Object]*c06Wrapper) *c06Checks {
	k := &c06Checks{f: f, fields: fields, defs: map[types.Object]ast.Expr{}, nilKeys: map[*types.Var]map[string]bool{}, unfaithful: map[*types.Var]string{}, callees: map[types.Object]bool{}}
	// the function together with the same-package functions it calls: after "extract function"
	// the checks sit in a helper which the flow engine interprets in place
	gs := []*flow.Func{f}
	if depth == 0 {
		gs = reach(f, 3)
	}
	for _, g := range gs {
		for o, d := range c06DefsOf(g) {
			k.defs[o] = d
		}
	}
	for _, fld := range fields {
		k.nilKeys[fld] = map[string]bool{}
	}
	for _, g := range gs {
		ast.Inspect(g.Body, func(n ast.Node) bool {
			if e, ok := n.(ast.Expr); ok {
				switch e.(type) {
				case *ast.SelectorExpr, *ast.Ident:
					if fld := k.fieldOf(e); fld != nil {
						k.nilKeys[fld][f.NilKey(e)] = true
					}
				}
			}
			return true
		})
	}
	for _, g := range gs {
		g := g
		pm := parentMap(g.Body)
		addSite := func(fld *types.Var, call *ast.CallExpr, weak bool) {
			s := &c06Site{idx: len(k.sites), field: fld, call: call, resKey: f.NilKey(call), weak: weak, in: g}
			var p ast.Node = call
			for {
				pp, ok := pm[p].(*ast.ParenExpr)
				if !ok {
					break
				}
				p = pp
			}
			switch st := pm[p].(type) {
			case *ast.AssignStmt:
				if len(st.Rhs) == 1 && len(st.Lhs) == 1 {
					if id, ok := st.Lhs[0].(*ast.Ident); ok && id.Name != "_" {
						s.errObj, s.own, s.resKey = c06Obj(f, id), st, f.NilKey(id)
					}
				}
			case *ast.ValueSpec:
				if len(st.Values) == 1 && len(st.Names) == 1 && st.Names[0].Name != "_" {
					s.errObj, s.own, s.resKey = c06Obj(f, st.Names[0]), st, f.NilKey(st.Names[0])
				}
			}
			k.sites = append(k.sites, s)
		}
		for _, call := range calls(g.Body, false) {
			// a method of a validator field, called directly or through a method value
			if m, recv := c06Callee(g, call); m != nil && recv != nil {
				if fld := k.fieldOf(recv); fld != nil {
					if c06IsErrorResult(m.Type().(*types.Signature)) {
						addSite(fld, call, false)
						k.callees[m] = true
					}
					continue
				}
			}
			if depth > 0 {
				continue
			}
			key, h := c06HelperOf(c, g, k.defs, call)
			if key == nil || h == nil {
				continue
			}
			cw, done := wrappers[key]
			if !done {
				cw = &c06Wrapper{}
				cw.covered, cw.consulted = c06WrapperCovers(c, h, fields)
				wrappers[key] = cw
			}
			for _, fld := range cw.consulted {
				faithful := false
				for _, cv := range cw.covered {
					if cv == fld {
						faithful = true
					}
				}
				if !faithful {
					k.unfaithful[fld] = key.Name()
				}
				addSite(fld, call, !faithful)
				k.callees[key] = true
			}
		}
	}
	return k
}

// c06WrapperCovers returns the validator fields for which helper h is a faithful check:
// h returns a single error, consults the field, and every exit that may return nil has the
// field nil or its check passed.
func c06WrapperCovers(c *core.Ctx, h *flow.Func, fields []*types.Var) (covered, consulted []*types.Var) {
	if h.Type == nil || h.Type.Results == nil || len(h.Type.Results.List) != 1 || len(h.Type.Results.List[0].Names) > 1 {
		return nil, nil
	}
	if tv, ok := h.Info.Types[h.Type.Results.List[0].Type]; !ok || !isErrorTypeC06(tv.Type) {
		return nil, nil
	}
	k := c06FindChecks(c, h, fields, 1, nil)
	if len(k.sites) == 0 {
		return nil, nil
	}
	res := analyze(c, h, flow.Config{
		OnNode:      k.onNode,
		AfterAssume: func(st *flow.State, cond ast.Expr, outcome bool) { k.promote(st) },
		OnCall: func(st *flow.State, call *ast.CallExpr, callee types.Object, deferred bool) {
			k.onCall(st, call)
		},
	})
	if res == nil {
		return nil, nil
	}
	var out []*types.Var
	for _, fld := range fields {
		has := false
		for _, s := range k.sites {
			if s.field == fld {
				has = true
			}
		}
		if !has {
			continue
		}
		ok := true
		for _, ex := range res.Exits {
			if ex.Kind != flow.ExitReturn {
				continue
			}
			rs := c06Results(h, ex)
			if len(rs) != 1 {
				ok = false
				continue
			}
			if c06ReturnedNilness(h, ex.State, rs[0]) == flow.False {
				continue
			}
			// returning the very variable that holds the check's result hands the verdict on
			relayed := false
			for _, s := range k.sites {
				if s.field == fld && s.errObj != nil && c06Obj(h, rs[0]) == s.errObj && ex.State.Is(k.pend(s), flow.True) {
					relayed = true
				}
				if s.field == fld && ast.Unparen(rs[0]) == ast.Expr(s.call) {
					relayed = true
				}
			}
			if !relayed && !ex.State.Is(k.unset(fld), flow.True) && !ex.State.Is(k.passed(fld), flow.True) {
				ok = false
			}
		}
		consulted = append(consulted, fld)
		if ok {
			out = append(out, fld)
		}
	}
	return out, consulted
}

func c06Handle(c *core.Ctx) {
	const rule = "R-C06-1"
	f := fn(c, c06val, "Validator", "Handle")
	if f == nil {
		return
	}
	cons := fname(c06val, "Validator", "Handle")
	vt := namedType(c, c06val, "Validator")
	if vt == nil {
		return
	}
	strct, ok := vt.Underlying().(*types.Struct)
	if !ok {
		c.Errorf("%s: anchor: Validator is not a struct", rule)
		return
	}
	// subject: the validator fields = pointer fields whose type has a method
	// Validate/Verify(args...) error taking at least one argument
	var fields []*types.Var
	for i := 0; i < strct.NumFields(); i++ {
		fld := strct.Field(i)
		// a pointer to the validator, or an unexported interface put in front of it
		switch fld.Type().Underlying().(type) {
		case *types.Pointer, *types.Interface:
		default:
			continue
		}
		ms := types.NewMethodSet(fld.Type())
		for j := 0; j < ms.Len(); j++ {
			m, ok := ms.At(j).Obj().(*types.Func)
			if !ok || (m.Name() != "Validate" && m.Name() != "Verify") {
				continue
			}
			sig := m.Type().(*types.Signature)
			if sig.Params().Len() >= 1 && c06IsErrorResult(sig) {
				fields = append(fields, fld)
				break
			}
		}
	}
	if !c.RequireCount(rule, "validator fields of Validator (headers, jwt, signer, oauth2, basicAuth)", len(fields), 5) {
		return
	}
	results, okRes := c06KindResults(c, c06val)
	if !okRes || len(results) == 0 {
		c.Errorf("%s: anchor: Results of the Validator kind not found", rule)
		return
	}

	k := c06FindChecks(c, f, fields, 0, map[types.Object]*c06Wrapper{})
	defs, sites := k.defs, k.sites
	// a table-driven Handle dispatches the checks through a slice of entries: decided separately
	if tbl, twhy := c06FindTable(c, f, vt); tbl != nil || twhy != "" {
		direct := 0
		for _, s := range sites {
			if !k.callees[c06FuncObj(s.in)] {
				direct++
			}
		}
		switch {
		case tbl != nil && direct == 0:
			c06HandleTable(c, rule, cons, f, fields, results, tbl)
			return
		case direct < len(fields):
			why := twhy
			if why == "" {
				why = "some validators are called directly and others through a table of function values"
			}
			c.Undecide(rule, cons+"|table of validations", pos(c, f.Body), why)
			return
		}
	}
	failed, passed, unset := k.failed, k.passed, k.unset
	// helper summaries (closures bound to locals, same-package functions and methods)
	summaries := map[types.Object]*c06RespSummary{}
	summarised := map[types.Object]bool{}
	summaryOf := func(call *ast.CallExpr) *c06RespSummary {
		key, h := c06HelperOf(c, f, defs, call)
		if key == nil {
			return nil
		}
		if !summarised[key] {
			summarised[key] = true
			if h != nil {
				summaries[key] = c06Summarise(c, h)
			}
		}
		return summaries[key]
	}
	// an integer known at a call: a constant (possibly through single-definition locals) or a
	// value the engine tracks by an equality fact (a status handed over through variables,
	// results and parameters of helpers interpreted in place)
	stateInt := func(st *flow.State, e ast.Expr) (string, bool) {
		if v, ok := c06ConstInt(f, c06Resolve(f, defs, e)); ok {
			return v, true
		}
		pre := "eq:" + f.Render(ast.Unparen(e)) + "=="
		for _, fact := range st.Facts() {
			if strings.HasPrefix(fact, pre) && strings.HasSuffix(fact, "=T") {
				lit := strings.TrimSuffix(strings.TrimPrefix(fact, pre), "=T")
				if len(lit) > 0 && lit[0] >= '0' && lit[0] <= '9' {
					return lit, true
				}
			}
		}
		return "", false
	}
	// helpers interpreted in place: the functions of the reach that hold a check site or a
	// response call (or lead to one); the check methods and wrappers themselves stay opaque
	gs := reach(f, 3)
	interesting := map[*ast.BlockStmt]bool{}
	for _, g := range gs {
		for _, call := range calls(g.Body, true) {
			if c06IsSetStatus(g, call) || c06IsSetOutput(g, call) {
				interesting[g.Body] = true
			}
			for _, s := range sites {
				if s.call == call {
					interesting[g.Body] = true
				}
			}
		}
	}
	for changed := true; changed; {
		changed = false
		for _, g := range gs {
			if interesting[g.Body] {
				continue
			}
			for _, call := range calls(g.Body, true) {
				if fo, ok := f.Callee(call).(*types.Func); ok && fo.Pkg() == f.Pkg.Types && !k.callees[fo] {
					if fd := declOf(f.Pkg, fo); fd != nil && interesting[fd.Body] {
						interesting[g.Body] = true
						changed = true
					}
				}
			}
		}
	}
	var opaque []types.Object
	inlinable := map[types.Object]bool{}
	for _, g := range gs {
		o := c06FuncObj(g)
		if o == nil {
			continue
		}
		if !interesting[g.Body] || k.callees[o] {
			opaque = append(opaque, o)
		} else {
			inlinable[o] = true
		}
	}
	for o := range k.callees {
		opaque = append(opaque, o)
	}
	feas := c06NewFeasible(f)
	res := analyze(c, f, flow.Config{
		Inline: inlineSamePkg(f, opaque...),
		OnNode: func(st *flow.State, n ast.Node) {
			feas.onNode(st, n)
			k.onNode(st, n)
		},
		AfterAssume: func(st *flow.State, cond ast.Expr, outcome bool) {
			feas.afterAssume(st)
			k.promote(st)
		},
		OnCall: func(st *flow.State, call *ast.CallExpr, callee types.Object, deferred bool) {
			k.onCall(st, call)
			switch {
			case c06IsSetStatus(f, call) && len(call.Args) == 1:
				if v, ok := stateInt(st, call.Args[0]); ok {
					st.Set("ev:status:"+v, flow.True)
				} else if contains(f.Body, call) {
					st.Set("ev:status:?", flow.True)
				}
				// inside a helper interpreted in place an unresolved status is left to the
				// summary applied at the helper's call (the engine may have dropped the fact
				// about the argument when a second state entered the helper)
			case c06IsSetOutput(f, call):
				st.Set("ev:respset", flow.True)
			default:
				key, _ := c06HelperOf(c, f, defs, call)
				if sum := summaryOf(call); sum != nil {
					if sum.respSet {
						st.Set("ev:respset", flow.True)
					}
					switch {
					case sum.statusConst != "":
						st.Set("ev:status:"+sum.statusConst, flow.True)
					case sum.statusParam >= 0 && sum.statusParam < len(call.Args):
						if v, ok := stateInt(st, call.Args[sum.statusParam]); ok {
							st.Set("ev:status:"+v, flow.True)
						} else if key == nil || !inlinable[key] {
							st.Set("ev:status:?", flow.True)
						}
					}
				}
			}
		},
	})
	if res == nil {
		return
	}
	wasInlined := func(g *flow.Func) bool {
		if g == nil || g.Body == f.Body {
			return true
		}
		for _, n := range res.Inlined {
			if n == g.Name {
				return true
			}
		}
		return false
	}

	// the value returned at an exit
	retVal := func(ex *flow.Exit) (string, bool) {
		rs := c06Results(f, ex)
		if len(rs) != 1 {
			return "", false
		}
		r := rs[0]
		if v, ok := c06ConstString(f, r); ok {
			return v, true
		}
		if call, ok := ast.Unparen(r).(*ast.CallExpr); ok {
			// `return reject(status, err)`: a closure or same-package helper all of whose
			// returns yield the same constant
			if _, h := c06HelperOf(c, f, defs, call); h != nil {
				val, n, same := "", 0, true
				ast.Inspect(h.Body, func(x ast.Node) bool {
					switch t := x.(type) {
					case *ast.FuncLit:
						return false
					case *ast.ReturnStmt:
						if len(t.Results) != 1 {
							same = false
							return true
						}
						v, ok := c06ConstString(h, t.Results[0])
						if !ok || (n > 0 && v != val) {
							same = false
						}
						val = v
						n++
					}
					return true
				})
				if same && n > 0 {
					return val, true
				}
			}
		}
		if id, ok := ast.Unparen(r).(*ast.Ident); ok {
			pre := "eq:" + f.Render(id) + "=="
			for _, fact := range ex.State.Facts() {
				if strings.HasPrefix(fact, pre) && strings.HasSuffix(fact, "=T") {
					lit := strings.TrimSuffix(strings.TrimPrefix(fact, pre), "=T")
					if len(lit) >= 2 && lit[0] == '"' {
						if s, err := unquoteC06(lit); err == nil {
							return s, true
						}
					}
				}
			}
		}
		return "", false
	}
	statuses := func(st *flow.State) []string {
		var out []string
		for _, fact := range st.Facts() {
			if strings.HasPrefix(fact, "ev:status:") && strings.HasSuffix(fact, "=T") {
				out = append(out, strings.TrimSuffix(strings.TrimPrefix(fact, "ev:status:"), "=T"))
			}
		}
		sort.Strings(out)
		return out
	}
	expectStatus := c06ExpectStatus

	type verdict struct {
		bad *flow.Exit
		why string
		n   int
	}
	admit := map[*types.Var]*verdict{}
	reject := map[*types.Var]*verdict{}
	for _, fld := range fields {
		admit[fld] = &verdict{}
		reject[fld] = &verdict{}
	}
	spurious := &verdict{}
	accepts, rejects, undecidedExits := 0, 0, 0
	for _, ex := range res.Exits {
		if ex.Kind != flow.ExitReturn || feas.infeasible(ex.State) {
			continue
		}
		st := ex.State
		val, ok := retVal(ex)
		if !ok {
			if undecidedExits == 0 {
				c.Undecide(rule, cons+"|result", pos(c, ex.At), "a return of Handle does not yield a constant result")
			}
			undecidedExits++
			continue
		}
		var failedSites []*c06Site
		for _, s := range sites {
			if st.Is(failed(s), flow.True) {
				failedSites = append(failedSites, s)
			}
		}
		if val == "" {
			accepts++
			for _, fld := range fields {
				v := admit[fld]
				v.n++
				if v.bad != nil {
					continue
				}
				fieldFailed := false
				for _, s := range failedSites {
					if s.field == fld {
						fieldFailed = true
					}
				}
				switch {
				case fieldFailed:
					v.bad, v.why = ex, "the request is admitted (result \"\") although the "+fld.Name()+" validator returned an error"
				case st.Is(unset(fld), flow.True) || st.Is(passed(fld), flow.True):
				default:
					v.bad, v.why = ex, "the request is admitted (result \"\") on a path where the "+fld.Name()+" validator is neither known to be unconfigured (nil) nor known to have returned nil: a request failing that method passes the filter"
				}
			}
			continue
		}
		rejects++
		spurious.n++
		if len(failedSites) == 0 {
			if spurious.bad == nil {
				spurious.bad, spurious.why = ex, sprintf("result %q is returned on a path where no validator returned an error: requests carrying valid credentials are rejected", val)
			}
			continue
		}
		for _, s := range failedSites {
			v := reject[s.field]
			v.n++
			if v.bad != nil {
				continue
			}
			want := expectStatus(s.field)
			got := statuses(st)
			switch {
			case !results[val]:
				v.bad, v.why = ex, sprintf("a %s failure returns %q, which is not a declared result of the kind", s.field.Name(), val)
			case !st.Is("ev:respset", flow.True):
				v.bad, v.why = ex, sprintf("a %s failure returns %q without setting an output response: the client does not get the %s answer", s.field.Name(), val, want)
			case len(got) != 1 || got[0] != want:
				v.bad, v.why = ex, sprintf("a %s failure answers with status %v instead of %s", s.field.Name(), got, want)
			}
		}
	}
	c.RequireCount(rule, "exits of Handle admitting the request", accepts, 1)
	for _, fld := range fields {
		name := fld.Name()
		n := 0
		for _, s := range sites {
			// a direct call inside a wrapper is accounted for by the wrapper's own site
			if s.field == fld && !s.weak && !k.callees[c06FuncObj(s.in)] {
				n++
			}
		}
		if n == 0 {
			if h := k.unfaithful[fld]; h != "" {
				c.Violate(rule, cons+"|admit requires "+name, pos(c, f.Body),
					"Handle consults the "+name+" validator only through "+h+", which can return nil although the "+name+" check was skipped or failed: a request failing that method passes the filter")
			} else {
				c.Violate(rule, cons+"|admit requires "+name, pos(c, f.Body),
					"Handle never consults the "+name+" validator: a configured "+name+" method is not enforced")
			}
			continue
		}
		// a check that sits in a helper the engine could not interpret in place cannot be judged
		notSeen := ""
		for _, s := range sites {
			if s.field == fld && !wasInlined(s.in) && !k.callees[c06FuncObj(s.in)] {
				notSeen = s.in.Name
			}
		}
		v := admit[fld]
		if v.bad != nil && notSeen != "" {
			c.Undecide(rule, cons+"|admit requires "+name, pos(c, v.bad.At), "the "+name+" check sits in "+notSeen+", which could not be interpreted in place from Handle")
			continue
		}
		if v.bad != nil {
			c.Violate(rule, cons+"|admit requires "+name, pos(c, v.bad.At), v.why, witness(v.bad.State)...)
		} else {
			c.Discharge(rule, cons+"|admit requires "+name, pos(c, f.Body),
				sprintf("%d admitting exits: %s is nil or its check returned nil on each", v.n, name))
		}
		v = reject[fld]
		want := expectStatus(fld)
		switch {
		case v.bad != nil:
			c.Violate(rule, cons+"|"+name+" failure → invalid + "+want, pos(c, v.bad.At), v.why, witness(v.bad.State)...)
		case v.n == 0 && undecidedExits > 0:
			// the exits that could not be classified may be the ones following this failure
		case v.n == 0:
			// no exit is known to follow a failure of this validator; the admit obligation
			// reports the dropped branch, here there is nothing to check
			if admit[fld].bad == nil {
				c.Violate(rule, cons+"|"+name+" failure → invalid + "+want, pos(c, f.Body),
					"no exit of Handle follows a failure of the "+name+" validator")
			}
		default:
			c.Discharge(rule, cons+"|"+name+" failure → invalid + "+want, pos(c, f.Body),
				sprintf("%d rejecting exits after a %s error: declared result, output response set, status %s", v.n, name, want))
		}
	}
	if spurious.bad != nil {
		c.Violate(rule, cons+"|reject only on a validator error", pos(c, spurious.bad.At), spurious.why, witness(spurious.bad.State)...)
	} else {
		c.Discharge(rule, cons+"|reject only on a validator error", pos(c, f.Body), sprintf("%d rejecting exits, each after a validator error", rejects))
	}
}

func unquoteC06(lit string) (string, error) {
	v := constant.MakeFromLiteral(lit, token.STRING, 0)
	if v.Kind() != constant.String {
		return "", c06ErrBadLit
	}
	return constant.StringVal(v), nil
}

var c06ErrBadLit = c06ErrString("bad literal")

type c06ErrString string

func (e c06ErrString) Error() string { return string(e) }
