package rules

import (
	"go/ast"
	"go/types"
	"strings"

	"golang.org/x/tools/go/cfg"

	"verif/internal/flow"
)

// ---------------------------------------------------------------------------------------
// R-C14-2 validation gate

// c14nonNilErr reports whether expression x (an error result) is known non-nil in st.
// ok=false when the expression cannot be classified.
func c14nonNilErr(f *flow.Func, st *flow.State, x ast.Expr) (nonNil, ok bool) {
	x = ast.Unparen(x)
	if f.Info.Types[x].IsNil() {
		return false, true
	}
	if id, isID := x.(*ast.Ident); isID {
		switch st.Get(f.NilKey(id)) {
		case flow.False:
			return true, true
		case flow.True:
			return false, true
		}
		return false, false
	}
	if call, isCall := x.(*ast.CallExpr); isCall {
		switch calleeFull(f, call) {
		case "fmt.Errorf", "errors.New":
			return true, true
		}
	}
	return false, false
}

// gateErrorReported: every exit taken with the level source's error non-nil returns a
// non-nil error.
func (e *c14env) gateErrorReported(f *flow.Func, cons string, src *c14source) {
	c := e.c
	res := analyze(c, f, flow.Config{NoHavoc: true})
	if res == nil {
		return
	}
	errNil := f.NilKey(src.errID)
	errExits := 0
	var bad *flow.Exit
	for _, ex := range res.Exits {
		if ex.Kind != flow.ExitReturn || !ex.State.Is(errNil, flow.False) {
			continue
		}
		errExits++
		if ex.Return == nil || len(ex.Return.Results) == 0 {
			bad = ex
			continue
		}
		last := ex.Return.Results[len(ex.Return.Results)-1]
		nn, ok := c14nonNilErr(f, ex.State, last)
		if !ok {
			c.Undecide("R-C14-2", cons+"|error reported", pos(c, ex.Return), "cannot classify the error expression "+f.Render(last)+" returned on the invalid-filter path")
			return
		}
		if !nn {
			bad = ex
		}
	}
	switch {
	case errExits == 0:
		c.Violate("R-C14-2", cons+"|error reported", pos(c, src.call), "no exit is taken on the branch where the level source reported an error: the validation verdict is ignored and the malformed filter is accepted")
	case bad != nil:
		c.Violate("R-C14-2", cons+"|error reported", pos(c, bad.At), "on the path where the level source reported an error the function returns a nil error: the malformed filter is silently accepted (SUBACK is sent, the session records a filter that can never be restored)", witness(bad.State)...)
	default:
		c.Discharge("R-C14-2", cons+"|error reported", pos(c, src.call), sprintf("%d abstract exits with the level source's error non-nil, all returning a non-nil error", errExits))
	}
}

func c14Gate(e *c14env) {
	c := e.c
	for _, name := range []string{"insert", "remove", "find"} {
		f := e.role(name).f
		cons := e.role(name).cons
		src := e.levelSource(f, cons)
		if src == nil {
			continue
		}
		// insert must report the level source's error: the SUBSCRIBE handler's gate (R-C14-6)
		// relies on it — unless every call site validates the whole batch first, which makes
		// insert's error path unreachable. (remove's and findSubscribers' errors are ignored by
		// all callers and on that path levels is nil, so the only node touched is the root, whose
		// clients map the matcher never reads: not a necessary condition, not claimed.)
		if name == "insert" {
			if src.errID == nil {
				c.Discharge("R-C14-2", cons+"|error reported", pos(c, f.Body), "insert receives the levels its callers obtained from the level source and cannot fail itself: the verdict is reported by the callers (R-C14-6 malformed filter reported)")
			} else if e.insertPrevalidated {
				c.Discharge("R-C14-2", cons+"|error reported", pos(c, src.call), "every call site of insert is reached only after a loop validated the whole batch: insert's error path is unreachable")
			} else {
				e.gateErrorReported(f, cons, src)
			}
		}

		// trie keys are validated levels or constants; the cached slice is not modified.
		// Decided over the reach of f: a walk moved into a helper that receives the level slice
		// (or one level) as a parameter is followed through the parameter binding.
		keys, badKeys := 0, 0
		var badAt ast.Node
		bind := c14bindings(f, 3)
		isLevels := func(g *flow.Func, o types.Object) bool { return c14denotes(bind, g, o, src.levels, 4) }
		var isLevelElem func(g *flow.Func, x ast.Expr, depth int) bool
		levelVarsOf := map[*flow.Func]map[types.Object]bool{}
		levelVars := func(g *flow.Func) map[types.Object]bool {
			if m, ok := levelVarsOf[g]; ok {
				return m
			}
			m := map[types.Object]bool{}
			levelVarsOf[g] = m
			for _, l := range c14loops(g.Body) {
				if rs, ok := l.(*ast.RangeStmt); ok && isLevels(g, c14obj(g, rs.X)) && rs.Value != nil {
					if o := c14obj(g, rs.Value); o != nil {
						m[o] = true
					}
				}
			}
			fromLevels := func(r ast.Expr) bool {
				ix, isIx := ast.Unparen(r).(*ast.IndexExpr)
				return isIx && isLevels(g, c14obj(g, ix.X))
			}
			ast.Inspect(g.Body, func(n ast.Node) bool {
				if as, ok := n.(*ast.AssignStmt); ok && len(as.Lhs) == len(as.Rhs) {
					for i, r := range as.Rhs {
						if fromLevels(r) {
							if o := c14obj(g, as.Lhs[i]); o != nil {
								m[o] = true
							}
						}
					}
				}
				return true
			})
			// a level variable must not be assigned anything else
			ast.Inspect(g.Body, func(n ast.Node) bool {
				if as, ok := n.(*ast.AssignStmt); ok && len(as.Lhs) == len(as.Rhs) {
					for i, l := range as.Lhs {
						if o := c14obj(g, l); o != nil && m[o] && !fromLevels(as.Rhs[i]) {
							delete(m, o)
						}
					}
				}
				return true
			})
			return m
		}
		isLevelElem = func(g *flow.Func, x ast.Expr, depth int) bool {
			x = ast.Unparen(x)
			if ix, isIx := x.(*ast.IndexExpr); isIx && isLevels(g, c14obj(g, ix.X)) {
				return true
			}
			o := c14obj(g, x)
			if o == nil {
				return false
			}
			if levelVars(g)[o] {
				return true
			}
			// the key variable of a range over a children map: an existing key
			for _, l := range c14loops(g.Body) {
				if rs, ok := l.(*ast.RangeStmt); ok && rs.Key != nil && c14obj(g, rs.Key) == o {
					if _, isNodes := c14fieldRecv(g, rs.X, e.nodesF); isNodes {
						return true
					}
				}
			}
			if bs := bind[o]; len(bs) > 0 && depth > 0 {
				for _, bd := range bs {
					if !isLevelElem(bd.in, bd.arg, depth-1) {
						return false
					}
				}
				return true
			}
			return false
		}
		for _, g := range reach(f, 3) {
			g := g
			if g != f && len(e.sourceCalls(g, g.Body, false)) > 0 {
				continue // has its own validated levels (decided there)
			}
			ast.Inspect(g.Body, func(n ast.Node) bool {
				switch t := n.(type) {
				case *ast.IndexExpr:
					if _, ok := c14fieldRecv(g, t.X, e.nodesF); !ok {
						return true
					}
					keys++
					if _, isC := c14constStr(g, t.Index); !isC && !isLevelElem(g, t.Index, 3) {
						badKeys++
						badAt = t
					}
				case *ast.CallExpr:
					if c14isBuiltin(g, t, "delete") && len(t.Args) == 2 {
						if _, ok := c14fieldRecv(g, t.Args[0], e.nodesF); ok {
							keys++
							if !isLevelElem(g, t.Args[1], 3) {
								badKeys++
								badAt = t
							}
						}
					}
				case *ast.AssignStmt:
					for _, l := range t.Lhs {
						if ix, ok := ast.Unparen(l).(*ast.IndexExpr); ok && isLevels(g, c14obj(g, ix.X)) {
							badKeys++
							badAt = t
						}
					}
				}
				return true
			})
		}
		if badKeys == 0 {
			c.Discharge("R-C14-2", cons+"|trie keys are validated levels", pos(c, f.Body),
				sprintf("%d child lookups/deletes keyed by an element of the validated level slice or a constant", keys))
		} else {
			// value reasoning would be needed to tell whether another key source is equivalent
			c.Undecide("R-C14-2", cons+"|trie keys are validated levels", pos(c, badAt),
				"a child map is indexed by something that is not an element of the slice returned by the level source (or the cached slice is written to): cannot decide whether the walk still follows the validated levels")
		}
	}

	// wrappers of the level cache (getLevels): by construction of the source role each one only
	// returns a source's result for its own parameter
	e.decls(func(f *flow.Func, fd *ast.FuncDecl) {
		if o := e.funcObj(fd); o != nil && e.roles.sources[o] && o != e.roles.get.obj {
			c.Discharge("R-C14-2", declName(e.pkg, fd)+"|delegates to the validating cache", pos(c, fd.Body), "every return hands back <level source>(<parameter>)")
		}
	})

	c14Cache(e)
}

// c14Cache: topicLevelManager.get is the only producer of cached level slices and caches
// only valid splits.
func c14Cache(e *c14env) {
	c := e.c
	f := e.roles.get.f
	cons := e.roles.get.cons
	isCacheCall := func(g *flow.Func, call *ast.CallExpr) (string, bool) {
		sel, ok := ast.Unparen(call.Fun).(*ast.SelectorExpr)
		if !ok {
			return "", false
		}
		if _, ok := c14fieldRecv(g, sel.X, e.dataF); !ok {
			return "", false
		}
		return sel.Sel.Name, true
	}
	adders := map[string]bool{"Add": true, "ContainsOrAdd": true, "PeekOrAdd": true}

	// the lookup may delegate part of its work to other methods of the level manager
	// (get -> splitAndCache): the family is analysed as one, the helpers interpreted in place
	var fam []*flow.Func
	inFam := map[*ast.BlockStmt]bool{}
	for _, g := range reach(f, 2) {
		gd, _ := g.Node.(*ast.FuncDecl)
		onPath := g == f || (gd != nil && e.recvNamed(gd) == e.roles.lvlT)
		if !onPath && gd != nil && e.funcObj(gd) != e.roles.split.obj {
			// a wrapper between the lookup and the splitter (parseTopic: bool verdict -> error)
			onPath = reachContains(g, 1, func(h *flow.Func, n ast.Node) bool {
				call, ok := n.(*ast.CallExpr)
				return ok && c14calleeOf(h, call) == e.roles.split.obj
			})
		}
		if onPath {
			fam = append(fam, g)
			inFam[g.Body] = true
		}
	}
	bind := c14bindings(f, 2)
	var topicP types.Object
	if ps := c14params(f); len(ps) == 1 {
		topicP = ps[0]
	}
	isTopic := func(g *flow.Func, x ast.Expr) bool {
		return topicP != nil && c14denotes(bind, g, c14obj(g, x), topicP, 3)
	}
	var split *ast.CallExpr
	var gs *flow.Func
	for _, g := range fam {
		for _, call := range calls(g.Body, false) {
			if fo := c14calleeOf(g, call); fo != nil && fo == e.roles.split.obj {
				if split != nil {
					c.Undecide("R-C14-2", cons+"|cache filled only with valid splits", pos(c, call), "more than one splitTopic call")
					return
				}
				split, gs = call, g
			}
		}
	}
	if split == nil {
		c.Errorf("R-C14-2: anchor: %s does not call splitTopic", cons)
		return
	}
	var levels, valid types.Object
	var validID *ast.Ident
	ast.Inspect(gs.Body, func(n ast.Node) bool {
		if as, ok := n.(*ast.AssignStmt); ok && len(as.Rhs) == 1 && ast.Unparen(as.Rhs[0]) == ast.Expr(split) && len(as.Lhs) == 2 {
			levels = c14obj(gs, as.Lhs[0])
			valid = c14obj(gs, as.Lhs[1])
			validID, _ = as.Lhs[1].(*ast.Ident)
		}
		return true
	})
	if levels == nil || valid == nil || validID == nil || validID.Name == "_" {
		c.Violate("R-C14-2", cons+"|cache filled only with valid splits", pos(c, split), "splitTopic's validity verdict is discarded: malformed filters ('a/#/b', 'a+') are accepted")
		return
	}
	// variables holding the split: bound to the splitter's result, or to the first result of a
	// family function that hands it on
	levelsVars := map[types.Object]bool{levels: true}
	for _, g := range fam {
		g := g
		ast.Inspect(g.Body, func(n ast.Node) bool {
			as, ok := n.(*ast.AssignStmt)
			if !ok || len(as.Rhs) != 1 {
				return true
			}
			call, ok := ast.Unparen(as.Rhs[0]).(*ast.CallExpr)
			if !ok {
				return true
			}
			if fo := c14calleeOf(g, call); fo != nil {
				if hd := declOf(e.pkg, fo); hd != nil && inFam[hd.Body] && len(call.Args) == 1 && isTopic(g, call.Args[0]) {
					if o := c14obj(g, as.Lhs[0]); o != nil {
						levelsVars[o] = true
					}
				}
			}
			return true
		})
	}
	splitOfTopic := len(split.Args) == 1 && isTopic(gs, split.Args[0])
	validKey := gs.VarKey(validID)

	var gets, adds []*ast.CallExpr
	callIn := map[*ast.CallExpr]*flow.Func{}
	var hitOK types.Object
	var hitVal types.Object
	for _, g := range fam {
		g := g
		for _, call := range calls(g.Body, false) {
			m, ok := isCacheCall(g, call)
			if !ok {
				continue
			}
			callIn[call] = g
			switch {
			case adders[m]:
				adds = append(adds, call)
			case m == "Get" || m == "Peek":
				gets = append(gets, call)
			}
		}
		ast.Inspect(g.Body, func(n ast.Node) bool {
			if as, ok := n.(*ast.AssignStmt); ok && len(as.Rhs) == 1 && len(as.Lhs) == 2 {
				for _, gc := range gets {
					if ast.Unparen(as.Rhs[0]) == ast.Expr(gc) {
						hitVal, hitOK = c14obj(g, as.Lhs[0]), c14obj(g, as.Lhs[1])
					}
				}
			}
			return true
		})
	}

	res := analyze(c, f, flow.Config{NoHavoc: true, Inline: inlineIf(f, func(callee *types.Func, g *flow.Func) bool { return inFam[g.Body] })})
	if res == nil {
		return
	}
	c.RequireCount("R-C14-2", "cache insertions in topicLevelManager.get", len(adds), 1)
	var bad *flow.State
	why := ""
	for _, add := range adds {
		if len(add.Args) < 2 || !splitOfTopic || !isTopic(callIn[add], add.Args[0]) {
			bad, why = nil, "the cache key is not the string that was split"
			c.Violate("R-C14-2", cons+"|cache filled only with valid splits", pos(c, add), why+": a later lookup of another topic returns these levels")
			return
		}
		if !levelsVars[c14obj(f, add.Args[1])] {
			c.Violate("R-C14-2", cons+"|cache filled only with valid splits", pos(c, add), "the cached value is not the slice produced by splitTopic for this key")
			return
		}
		for _, st := range res.At[add] {
			if !st.Is(validKey, flow.True) {
				bad, why = st, "a split is cached although splitTopic did not declare it valid: the next lookup of the same malformed filter is a cache hit and returns (nil levels, nil error) — the filter is accepted and recorded at the trie root"
			}
		}
	}
	for _, g := range gets {
		if len(g.Args) != 1 || !splitOfTopic || !isTopic(callIn[g], g.Args[0]) {
			c.Violate("R-C14-2", cons+"|cache filled only with valid splits", pos(c, g), "the cache is looked up under a key other than the string that is split and inserted")
			return
		}
	}
	c.Check(bad == nil, "R-C14-2", cons+"|cache filled only with valid splits", pos(c, f.Body),
		sprintf("%d insertion(s) of (topic, splitTopic(topic).levels), reached only with valid == true", len(adds)), why, witness(bad)...)

	// exits: (levels, nil) only when valid or on a hit; invalid => non-nil error
	var badExit *flow.Exit
	whyExit := ""
	n := 0
	for _, ex := range res.Exits {
		ret := ex.Ret()
		if ex.Kind != flow.ExitReturn || ret == nil || len(ret.Results) != 2 {
			continue
		}
		n++
		st := ex.State
		r0, r1 := ast.Unparen(ret.Results[0]), ret.Results[1]
		nn, ok := c14nonNilErr(f, st, r1)
		if !ok {
			c.Undecide("R-C14-2", cons+"|verdict propagated", pos(c, ex.Return), "cannot classify the returned error "+f.Render(r1))
			return
		}
		if nn {
			if st.Is(validKey, flow.True) {
				badExit, whyExit = ex, "a topic splitTopic declared valid is rejected"
			}
			continue
		}
		// nil error: the value must be the valid split or the cache hit
		fromHit := false
		if hitVal != nil && hitOK != nil && st.Is("v:"+c14varRender(f, hitOK), flow.True) {
			x := r0
			if ta, isTA := x.(*ast.TypeAssertExpr); isTA {
				x = ast.Unparen(ta.X)
			}
			fromHit = c14obj(f, x) == hitVal
		}
		fromSplit := levelsVars[c14obj(f, r0)] && st.Is(validKey, flow.True)
		if !fromHit && !fromSplit {
			badExit, whyExit = ex, "levels are returned with a nil error although they are neither a cache hit nor a split that splitTopic declared valid: a malformed filter passes the gate"
		}
	}
	c.RequireCount("R-C14-2", "exits of topicLevelManager.get", n, 3)
	c.Check(badExit == nil, "R-C14-2", cons+"|verdict propagated", pos(c, f.Body),
		sprintf("%d abstract exits: nil error only for a cache hit or a valid split, non-nil error otherwise", n), whyExit, func() []string {
			if badExit == nil {
				return nil
			}
			return append([]string{"return at " + pos(c, badExit.Return)}, witness(badExit.State)...)
		}()...)

	// no other producer of cached slices
	other := 0
	e.decls(func(g *flow.Func, fd *ast.FuncDecl) {
		if fd == f.Node || inFam[fd.Body] {
			return
		}
		for _, call := range calls(fd.Body, true) {
			if m, ok := isCacheCall(g, call); ok && adders[m] {
				other++
				c.Violate("R-C14-2", declName(e.pkg, fd)+"|second producer of cached levels", pos(c, call), "the level cache is filled outside topicLevelManager.get: slices that did not pass splitTopic's validation can be served as validated levels")
			}
		}
	})
	if other == 0 {
		c.Discharge("R-C14-2", mq+".topicLevelManager.data|single producer", "", "the level cache is inserted into only by topicLevelManager.get")
	}
}

// ---------------------------------------------------------------------------------------
// R-C14-3 pruning guard

func c14Prune(e *c14env) {
	c := e.c
	sites := 0
	e.decls(func(f *flow.Func, fd *ast.FuncDecl) {
		var prunes []*ast.CallExpr
		var clientDeletes []*ast.CallExpr
		for _, call := range calls(fd.Body, false) {
			if !c14isBuiltin(f, call, "delete") || len(call.Args) != 2 {
				continue
			}
			if _, ok := c14fieldRecv(f, call.Args[0], e.nodesF); ok {
				prunes = append(prunes, call)
			}
			if _, ok := c14fieldRecv(f, call.Args[0], e.clientsF); ok {
				clientDeletes = append(clientDeletes, call)
			}
		}
		// the drop primitive of a named clients map type: node.clients.drop(k)
		dropKey := map[*ast.CallExpr]ast.Expr{}
		for _, w := range e.trieWrites(f, fd.Body) {
			if call, isCall := w.at.(*ast.CallExpr); isCall && !w.store && w.key != nil && w.field == e.clientsF && !c14isBuiltin(f, call, "delete") {
				clientDeletes = append(clientDeletes, call)
				dropKey[call] = w.key
			}
		}
		if len(prunes) == 0 && len(clientDeletes) == 0 {
			return
		}
		cons := declName(e.pkg, fd)

		// remove deletes the caller's client id
		for _, d := range clientDeletes {
			keyExpr := dropKey[d]
			if keyExpr == nil {
				keyExpr = d.Args[1]
			}
			// the key: a string parameter, or a string field of a parameter object (sub.clientID)
			k := c14obj(f, keyExpr)
			isPar := k != nil && c14isParam(f, k)
			var topicParam types.Object
			for _, s := range e.sourceCalls(f, fd.Body, false) {
				if len(s.Args) == 1 {
					topicParam = c14place(f, s.Args[0])
				}
			}
			if sel, isSel := ast.Unparen(keyExpr).(*ast.SelectorExpr); isSel {
				if sl := f.Info.Selections[sel]; sl != nil && sl.Kind() == types.FieldVal && c14isParam(f, c14obj(f, sel.X)) {
					k, isPar = sl.Obj(), true
				}
			}
			ok := k != nil && isPar && k != topicParam && types.Identical(k.Type().Underlying(), types.Typ[types.String])
			c.Check(ok, "R-C14-3", cons+"|deletes the caller's client id", pos(c, d), "delete(<node>.clients, <client id parameter>)",
				"the key removed from a node's clients map is not the client-id parameter: another client's subscription is dropped or the caller's stays")
		}
		if len(prunes) == 0 {
			return
		}
		sites += len(prunes)

		// variables assigned from the child expression of a prune site
		childR := map[*ast.CallExpr]string{}
		for _, p := range prunes {
			childR[p] = f.Render(p.Args[0]) + "[" + f.Render(p.Args[1]) + "]"
		}
		loopsOf := map[ast.Stmt]bool{}
		for _, p := range prunes {
			for _, l := range enclosingLoops(fd.Body, p) {
				loopsOf[l] = true
			}
		}
		defKey := func(p *ast.CallExpr, o types.Object) string {
			return "ev:c14:def:" + childR[p] + ":" + c14varRender(f, o)
		}
		res := analyze(c, f, flow.Config{
			Inline: inlineSamePkg(f),
			Pure: func(call *ast.CallExpr, callee types.Object) bool {
				fo, ok := callee.(*types.Func)
				return ok && fo.Pkg() != nil && strings.HasSuffix(fo.Pkg().Path(), "/pkg/logger")
			},
			// an emptiness test moved into a helper (`child.isEmpty()`, `isEmpty(child)`): the
			// helper's receiver / parameter is defined from the child expression at the call
			OnCall: func(st *flow.State, call *ast.CallExpr, callee types.Object, d bool) {
				fo, ok := callee.(*types.Func)
				if !ok || fo.Pkg() != f.Pkg.Types {
					return
				}
				hd := declOf(f.Pkg, fo)
				if hd == nil {
					return
				}
				bindTo := func(p *ast.Ident, arg ast.Expr) {
					if p == nil || arg == nil {
						return
					}
					o := f.Info.Defs[p]
					if o == nil {
						return
					}
					r := f.Render(ast.Unparen(arg))
					for _, pr := range prunes {
						if r == childR[pr] {
							st.Set(defKey(pr, o), flow.True)
						} else if st.Get(defKey(pr, o)) != flow.Unknown {
							st.Set(defKey(pr, o), flow.False)
						}
					}
				}
				if hd.Recv != nil && len(hd.Recv.List) == 1 && len(hd.Recv.List[0].Names) == 1 {
					bindTo(hd.Recv.List[0].Names[0], c14recvOf(f, call))
				}
				i := 0
				for _, fld := range hd.Type.Params.List {
					for _, nm := range fld.Names {
						if i < len(call.Args) {
							bindTo(nm, call.Args[i])
						}
						i++
					}
					if len(fld.Names) == 0 {
						i++
					}
				}
			},
			OnBlock: func(st *flow.State, b *cfg.Block) {
				if b.Stmt == nil || !loopsOf[b.Stmt] {
					return
				}
				if b.Kind == cfg.KindForBody || b.Kind == cfg.KindRangeBody {
					for _, k := range st.Facts() {
						if strings.HasPrefix(k, "ev:c14:def:") {
							st.Set(k[:len(k)-2], flow.Unknown)
						}
					}
				}
			},
			OnNode: func(st *flow.State, n ast.Node) {
				as, ok := n.(*ast.AssignStmt)
				if !ok || len(as.Lhs) != len(as.Rhs) {
					return
				}
				for i, l := range as.Lhs {
					o := c14obj(f, l)
					if o == nil {
						continue
					}
					r := f.Render(ast.Unparen(as.Rhs[i]))
					for _, p := range prunes {
						if r == childR[p] {
							st.Set(defKey(p, o), flow.True)
						} else if st.Get(defKey(p, o)) != flow.Unknown {
							st.Set(defKey(p, o), flow.False)
						}
					}
				}
			},
		})
		if res == nil {
			return
		}
		for _, p := range prunes {
			var bad *flow.State
			why := ""
			n := 0
			for _, st := range res.At[p] {
				n++
				subjects := []string{childR[p]}
				for _, k := range st.Facts() {
					pre := "ev:c14:def:" + childR[p] + ":"
					if strings.HasPrefix(k, pre) && strings.HasSuffix(k, "=T") {
						subjects = append(subjects, k[len(pre):len(k)-2])
					}
				}
				okC, okN := false, false
				for _, s := range subjects {
					if c14lenZero(st, s+"."+e.clientsF.Name()) {
						okC = true
					}
					if c14lenZero(st, s+"."+e.nodesF.Name()) {
						okN = true
					}
				}
				switch {
				case !okC && !okN:
					bad, why = st, "a child node is unlinked from its parent without any emptiness test on that child: unsubscribing one client from a filter drops the other subscribers of the filter and every subscription below it"
				case !okC:
					bad, why = st, "a child node is unlinked although it may still have clients: unsubscribing from a deeper filter drops the remaining subscribers of the shorter filter on the way"
				case !okN:
					bad, why = st, "a child node is unlinked although it may still have children: unsubscribing the last client of 'a/b' drops every subscription below it ('a/b/c', 'a/b/#')"
				}
			}
			if n == 0 {
				c.Discharge("R-C14-3", cons+"|prune only empty child", pos(c, p), "unreachable prune site")
				continue
			}
			c.Check(bad == nil, "R-C14-3", cons+"|prune only empty child", pos(c, p),
				sprintf("%d abstract states reach delete(parent.nodes, k), all with len(child.clients)==0 and len(child.nodes)==0 for child = parent.nodes[k]", n), why, witness(bad)...)
		}
	})
	c.RequireCount("R-C14-3", "prune sites delete(parent.nodes, level)", sites, 1)
}

// c14RemoveWalk (R-C14-3): remove deletes the client only from the node reached by the whole
// filter. When the walk finds a level missing (comma-ok lookup false / nil child) and does not
// create it, the client delete must not be reached: a walk that merely stops early would make remove
// delete the client from the node of the longest existing prefix — another filter's subscription —
// and prune from there. Decided over remove and its helpers (walk/descend interpreted in place).
func c14RemoveWalk(e *c14env) {
	c := e.c
	rm := e.role("remove")
	f := rm.f
	const evMissing = "ev:c14:levelMissing"
	type lookup struct {
		g       *flow.Func
		val, ok *ast.Ident
	}
	var lookups []lookup
	dels := map[*ast.CallExpr]bool{}
	creates := map[ast.Node]bool{}
	for _, g := range reach(f, 3) {
		g := g
		ast.Inspect(g.Body, func(n ast.Node) bool {
			switch t := n.(type) {
			case *ast.AssignStmt:
				if len(t.Rhs) == 1 {
					if ix, ok := ast.Unparen(t.Rhs[0]).(*ast.IndexExpr); ok {
						if _, isNodes := c14fieldRecv(g, ix.X, e.nodesF); isNodes {
							l := lookup{g: g}
							l.val, _ = t.Lhs[0].(*ast.Ident)
							if len(t.Lhs) == 2 {
								l.ok, _ = t.Lhs[1].(*ast.Ident)
							}
							lookups = append(lookups, l)
						}
					}
				}
				for _, lh := range t.Lhs {
					if ix, ok := ast.Unparen(lh).(*ast.IndexExpr); ok {
						if _, isNodes := c14fieldRecv(g, ix.X, e.nodesF); isNodes {
							creates[t] = true
						}
					}
				}
			}
			return true
		})
		for _, w := range e.trieWrites(g, g.Body) {
			if call, ok := w.at.(*ast.CallExpr); ok && !w.store && w.key != nil && w.field == e.clientsF {
				dels[call] = true // delete(<node>.clients, k) or the drop primitive of a named map type
			}
		}
	}
	if len(dels) == 0 || len(lookups) == 0 {
		c.Undecide("R-C14-3", rm.cons+"|client removed only from the node of the whole filter", pos(c, f.Body), "cannot find the child lookups of the walk or the delete from a clients map in remove and its helpers")
		return
	}
	mentions := func(cond ast.Expr, id *ast.Ident, g *flow.Func) bool {
		if id == nil || id.Name == "_" {
			return false
		}
		o := c14obj(g, id)
		hit := false
		ast.Inspect(cond, func(n ast.Node) bool {
			if x, ok := n.(*ast.Ident); ok && g.Info.Uses[x] == o {
				hit = true
			}
			return !hit
		})
		return hit
	}
	except := []types.Object{e.roles.split.obj}
	for fo := range e.roles.sources {
		except = append(except, fo)
	}
	var bad *flow.State
	var badAt ast.Node
	n := 0
	res := analyze(c, f, flow.Config{
		NoHavoc: true,
		Inline:  inlineSamePkg(f, except...),
		AfterAssume: func(st *flow.State, cond ast.Expr, outcome bool) {
			for _, l := range lookups {
				if l.ok != nil && mentions(cond, l.ok, l.g) && st.Is(l.g.VarKey(l.ok), flow.False) {
					st.Set(evMissing, flow.True)
				}
				if l.val != nil && mentions(cond, l.val, l.g) && st.Is(l.g.NilKey(l.val), flow.True) {
					st.Set(evMissing, flow.True)
				}
			}
		},
		OnNode: func(st *flow.State, nd ast.Node) {
			if creates[nd] {
				st.Set(evMissing, flow.Unknown) // the missing level is created
			}
		},
		OnCall: func(st *flow.State, call *ast.CallExpr, callee types.Object, d bool) {
			if dels[call] {
				n++
				if st.Is(evMissing, flow.True) && bad == nil {
					bad, badAt = st.Clone(), call
				}
			}
		},
	})
	if res == nil {
		return
	}
	if n == 0 {
		c.Undecide("R-C14-3", rm.cons+"|client removed only from the node of the whole filter", pos(c, f.Body), "the delete from the clients map is not reached in the analysis of remove (helper not interpreted in place)")
		return
	}
	c.Check(bad == nil, "R-C14-3", rm.cons+"|client removed only from the node of the whole filter", pos(c, f.Body),
		sprintf("%d abstract states reach the delete from a clients map, none after the walk found a level of the filter missing", n),
		sprintf("the client is deleted (at %s) although the walk found a level of the filter missing and stopped there: remove no longer stops when the walk ends early, it deletes the client from the node of the longest existing prefix — the subscription of another, shorter filter — and prunes from there", pos(c, badAt)), witness(bad)...)
}
