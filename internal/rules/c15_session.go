package rules

import (
	"go/ast"
	"go/constant"
	"go/token"
	"go/types"
	"strings"

	"verif/internal/flow"
)

// R-C15-3: QoS1 bookkeeping of a Session. Each function is analysed together with the
// same-package helpers it calls (interpreted in place), so that the bookkeeping may live in
// helpers called under the same lock.

func c15Session(e *c15env) {
	c15SessionPublish(e)
	c15SessionPuback(e)
	c15SessionResend(e)
	c15SessionLoop(e)
}

// c15hookLock is the OnCall hook tracking the session lock.
func (e *c15env) hookLock(st *flow.State, call *ast.CallExpr, callee types.Object, deferred bool) {
	e.sessLock(st, call, callee)
}

func c15SessionPublish(e *c15env) {
	c := e.c
	f := e.publish
	if f == nil {
		return
	}
	cons := e.name(f)
	fns := e.reachOf(f, 2)
	writes := e.writesIn(fns)
	c.RequireCount("R-C15-3", "blocking writes (writePacket) reached from Session.publish", len(writes), 1)
	touches := func(as *ast.AssignStmt) (pending, queue bool) {
		for _, l := range as.Lhs {
			if ix, ok := ast.Unparen(l).(*ast.IndexExpr); ok && e.selects(ix.X, e.pendingF) {
				pending = true
			}
			if e.selects(l, e.queueF) {
				queue = true
			}
		}
		return
	}
	res := e.analyse(f, fns, flow.Config{
		NoHavoc: true,
		Inline:  e.inline(f, e.writePacket, e.getClient),
		OnNode: func(st *flow.State, n ast.Node) {
			if as, ok := n.(*ast.AssignStmt); ok {
				p, q := touches(as)
				if p {
					st.Set("ev:pendingStored", flow.True)
				}
				if q {
					st.Set("ev:queued", flow.True)
				}
			}
		},
		OnCall: e.hookLock,
	})
	if res != nil {
		for _, w := range writes {
			states := res.at(w.node)
			if len(states) == 0 && (w.fn.Body != f.Body || c15enclosingLit(w.fn, w.node) != nil) {
				c.Undecide("R-C15-3", cons+"|pending+queue before write, under lock", pos(c, w.node), "the code writing the packet ("+c15declName(w.fn)+") is not interpreted in place (function literal, go, defer or nested call)")
				continue
			}
			ok := true
			var bad *flow.State
			why := ""
			for _, st := range states {
				switch {
				case !st.Is("ev:pendingStored", flow.True):
					ok, bad, why = false, st, "pending[id] is not stored before the packet is written (a lost packet would never be retransmitted)"
				case !st.Is("ev:queued", flow.True):
					ok, bad, why = false, st, "the id is not appended to the resend queue before the packet is written"
				case !st.Is("ev:locked", flow.True):
					ok, bad, why = false, st, "session lock not held at writePacket"
				}
			}
			if len(states) == 0 {
				ok, why = false, "writePacket unreachable"
			}
			c.Check(ok, "R-C15-3", cons+"|pending+queue before write, under lock", pos(c, w.node),
				sprintf("%d states at writePacket all have pendingStored, queued, locked", len(states)), why, witness(bad)...)
		}
		// every store to pending / queue under the lock (states at the assignment nodes, the
		// helpers' included)
		lockedStores, stores := 0, 0
		var badStore ast.Node
		for n, sts := range res.all() {
			as, ok := n.(*ast.AssignStmt)
			if !ok {
				continue
			}
			if p, q := touches(as); !p && !q {
				continue
			}
			stores++
			all := true
			for _, st := range sts {
				if !st.Is("ev:locked", flow.True) {
					all = false
				}
			}
			if all {
				lockedStores++
			} else {
				badStore = n
			}
		}
		c.RequireCount("R-C15-3", "pending / resend queue stores reached from Session.publish", stores, 2)
		c.Check(lockedStores == stores, "R-C15-3", cons+"|stores under session lock", pos(c, f.Body),
			sprintf("%d stores, all with the lock held", stores), "a store to pending / the resend queue happens without the session lock", pos(c, badStore))
	}
	// QoS0: a send on the client's queue that is a select case must have a default beside it (a
	// plain send statement is a blocking write: judged above like a writePacket call)
	for _, g := range fns {
		if e.writePacket != nil && g.Body == e.writePacket.Body {
			continue
		}
		pm := parentMap(g.Body)
		ast.Inspect(g.Body, func(n ast.Node) bool {
			s, ok := n.(*ast.SendStmt)
			if !ok || !e.selects(s.Chan, e.writeChF) {
				return true
			}
			if _, inSelect := pm[s].(*ast.CommClause); !inSelect {
				return true
			}
			nonBlocking := false
			if cc, ok := pm[s].(*ast.CommClause); ok && cc.Comm == s {
				if blk, ok := pm[cc].(*ast.BlockStmt); ok {
					if sel, ok := pm[blk].(*ast.SelectStmt); ok {
						for _, cl := range sel.Body.List {
							if cl.(*ast.CommClause).Comm == nil {
								nonBlocking = true
							}
						}
					}
				}
			}
			c.Check(nonBlocking, "R-C15-3", cons+"|direct channel send is non-blocking", pos(c, s),
				"send is a select case with a default clause", "a direct channel send under the session lock can block forever when the client's queue is full")
			return true
		})
	}
}

func c15SessionPuback(e *c15env) {
	c := e.c
	f := e.puback
	if f == nil {
		c.Violate("R-C15-3", mq+".(Session).puback|delete pending[MessageID]", "", "no function of the package handles a PUBACK by deleting the acknowledged id from pending: every QoS1 message is retransmitted forever")
		return
	}
	cons := e.name(f)
	type delSite struct {
		fn   *flow.Func
		call *ast.CallExpr
	}
	var dels []delSite
	for _, g := range e.reachOf(f, 2) {
		for _, call := range calls(g.Body, true) {
			if b, ok := g.Callee(call).(*types.Builtin); ok && b.Name() == "delete" && len(call.Args) == 2 && e.selects(call.Args[0], e.pendingF) {
				dels = append(dels, delSite{g, call})
			}
		}
	}
	if len(dels) == 0 {
		c.Violate("R-C15-3", cons+"|delete pending[MessageID]", pos(c, f.Body), "puback does not delete the acknowledged id from pending: the message is retransmitted forever")
		return
	}
	res := e.analyse(f, e.reachOf(f, 2), flow.Config{NoHavoc: true, Inline: e.inline(f, e.writePacket, e.getClient), OnCall: e.hookLock})
	for _, d := range dels {
		// the key is the MessageID of the acknowledged packet (through locals / helper parameters)
		keyOK := true
		terms := e.trace().origins(d.fn, d.call.Args[1])
		for _, t := range terms {
			sel, ok := t.expr.(*ast.SelectorExpr)
			if !ok || sel.Sel.Name != "MessageID" {
				keyOK = false
				continue
			}
			if tv, ok := t.fn.Info.Types[sel.X]; !ok || !c15isPacket(tv.Type, "PubackPacket") {
				keyOK = false
			}
		}
		if len(terms) == 0 {
			keyOK = false
		}
		c.Check(keyOK, "R-C15-3", cons+"|delete pending[MessageID]", pos(c, d.call), "delete(s.pending, p.MessageID) with p the acknowledged packet", "the deleted key is not the acknowledged packet's MessageID")
		if res == nil {
			continue
		}
		states := res.at(d.call)
		if len(states) == 0 {
			c.Undecide("R-C15-3", cons+"|delete under lock", pos(c, d.call), "the delete is not reached by the interpretation of puback (helper called by go/defer/nested call, or dead code)")
			continue
		}
		ok := true
		var bad *flow.State
		for _, st := range states {
			if !st.Is("ev:locked", flow.True) {
				ok, bad = false, st
			}
		}
		c.Check(ok, "R-C15-3", cons+"|delete under lock", pos(c, d.call), "session lock held at delete", "pending is mutated without the session lock", witness(bad)...)
	}
}

// c15SessionResend: doResend re-sends only ids still in pending, with the same id, under the lock.
// The id written into the packet is followed back (locals, helper parameters, helper results — only
// the return statements live on the paths reaching the write) to an element of the resend queue;
// a lookup of that very id in pending must have succeeded on every path reaching the write.
func c15SessionResend(e *c15env) {
	c := e.c
	f := e.doResend
	if f == nil {
		return
	}
	cons := e.name(f)
	fns := e.reachOf(f, 2)
	writes := e.writesIn(fns)
	c.RequireCount("R-C15-3", "blocking writes (writePacket) reached from Session.doResend", len(writes), 1)
	// return statements of the helpers: an event per statement, cleared when the helper is entered
	rets := map[types.Object][]*ast.ReturnStmt{}
	for _, g := range fns[1:] {
		o := e.obj(g)
		ast.Inspect(g.Body, func(n ast.Node) bool {
			switch r := n.(type) {
			case *ast.FuncLit:
				return false
			case *ast.ReturnStmt:
				rets[o] = append(rets[o], r)
			}
			return true
		})
	}
	retKey := func(r *ast.ReturnStmt) string { return sprintf("ev:ret@%d", r.Pos()) }
	// two-phase form: a search loop over the queue only remembers the POSITION of the first id still in
	// pending (first = i where the lookup of the range value succeeded), the id is read again as
	// queue[first] after the loop. The reading is as good as the looked-up id when the position was set
	// at a successful lookup, the queue was not written in between, and the lock was not released.
	type twoPhase struct {
		fn        *flow.Func
		pos       types.Object
		ix        *ast.IndexExpr
		read      ast.Node
		rng       *ast.RangeStmt
		lookups   []c15fact
		found, at string
	}
	queueExpr := func(g *flow.Func, x ast.Expr) bool {
		ts := e.trace().origins(g, x)
		for _, t := range ts {
			if t.expr == nil || !e.selects(t.expr, e.queueF) {
				return false
			}
		}
		return len(ts) > 0
	}
	var phases []*twoPhase
	for _, g := range fns {
		g := g
		ast.Inspect(g.Body, func(n ast.Node) bool {
			as, ok := n.(*ast.AssignStmt)
			if !ok || len(as.Rhs) != 1 {
				return true
			}
			ix := c15indexOf(as.Rhs[0])
			if ix == nil || !queueExpr(g, ix.X) {
				return true
			}
			id, ok := ast.Unparen(ix.Index).(*ast.Ident)
			if !ok {
				return true
			}
			pv, ok := c15objOf(g, id).(*types.Var)
			if !ok || pv.IsField() {
				return true
			}
			tp := &twoPhase{fn: g, pos: pv, ix: ix, read: as}
			for _, d := range c15defs(g, pv) {
				if d.rhs == nil || d.idx >= 0 || d.rng != nil {
					return true
				}
				if tv, ok := g.Info.Types[d.rhs]; ok && tv.Value != nil {
					continue // the "nothing found" value
				}
				kid, ok := ast.Unparen(d.rhs).(*ast.Ident)
				if !ok {
					return true
				}
				var rng *ast.RangeStmt
				for _, kd := range c15defs(g, c15objOf(g, kid)) {
					if kd.rng != nil && kd.key && queueExpr(g, kd.rng.X) {
						rng = kd.rng
					}
				}
				if rng == nil || tp.rng != nil && tp.rng != rng {
					return true
				}
				tp.rng = rng
			}
			if tp.rng == nil {
				return true
			}
			vid, _ := tp.rng.Value.(*ast.Ident)
			if vid == nil {
				return true
			}
			vobj := c15objOf(g, vid)
			ast.Inspect(tp.rng.Body, func(m ast.Node) bool {
				la, ok := m.(*ast.AssignStmt)
				if !ok || len(la.Rhs) != 1 {
					return true
				}
				lx := c15indexOf(la.Rhs[0])
				if lx == nil || !e.selects(lx.X, e.pendingF) {
					return true
				}
				if kid, ok := ast.Unparen(lx.Index).(*ast.Ident); !ok || c15objOf(g, kid) != vobj {
					return true
				}
				switch len(la.Lhs) {
				case 2:
					if oid, ok := la.Lhs[1].(*ast.Ident); ok && oid.Name != "_" {
						tp.lookups = append(tp.lookups, c15fact{g.VarKey(oid), flow.True})
					}
				case 1:
					if oid, ok := la.Lhs[0].(*ast.Ident); ok && oid.Name != "_" {
						tp.lookups = append(tp.lookups, c15fact{g.NilKey(oid), flow.False})
					}
				}
				return true
			})
			if len(tp.lookups) == 0 {
				return true
			}
			tp.found = sprintf("ev:found@%d", ix.Pos())
			tp.at = sprintf("ev:twophase@%d", ix.Pos())
			phases = append(phases, tp)
			return true
		})
	}
	phaseNode := func(st *flow.State, n ast.Node) {
		as, ok := n.(*ast.AssignStmt)
		if !ok {
			return
		}
		for _, tp := range phases {
			if n == tp.read {
				st.Set(tp.at, map[bool]flow.Val{true: flow.True, false: flow.False}[st.Is(tp.found, flow.True)])
				continue
			}
			for i, l := range as.Lhs {
				x := ast.Unparen(l)
				if ix, isIx := x.(*ast.IndexExpr); isIx {
					x = ast.Unparen(ix.X)
				}
				if e.selects(x, e.queueF) {
					st.Set(tp.found, flow.False) // the queue changed: the remembered position is stale
				}
				if id, isID := ast.Unparen(l).(*ast.Ident); isID && c15objOf(tp.fn, id) == tp.pos && len(as.Lhs) == len(as.Rhs) {
					hit := false
					if kid, ok := ast.Unparen(as.Rhs[i]).(*ast.Ident); ok {
						for _, kd := range c15defs(tp.fn, c15objOf(tp.fn, kid)) {
							if kd.rng == tp.rng && kd.key {
								for _, l := range tp.lookups {
									if st.Is(l.key, l.want) {
										hit = true
									}
								}
							}
						}
					}
					st.Set(tp.found, map[bool]flow.Val{true: flow.True, false: flow.False}[hit])
				}
			}
		}
	}
	// a test of the position against a constant on the path on which it still holds its "nothing found" value
	phaseAssume := func(st *flow.State, cond ast.Expr, outcome bool) {
		be, ok := ast.Unparen(cond).(*ast.BinaryExpr)
		if !ok {
			return
		}
		for _, tp := range phases {
			for _, side := range [][2]ast.Expr{{be.X, be.Y}, {be.Y, be.X}} {
				id, ok := ast.Unparen(side[0]).(*ast.Ident)
				if !ok || c15objOf(tp.fn, id) != tp.pos {
					continue
				}
				ktv, ok := tp.fn.Info.Types[side[1]]
				if !ok || ktv.Value == nil {
					continue
				}
				for _, fact := range st.Facts() {
					pre := "eq:" + tp.fn.Render(id) + "=="
					if !strings.HasPrefix(fact, pre) || !strings.HasSuffix(fact, "=T") {
						continue
					}
					cur := constant.MakeFromLiteral(fact[len(pre):len(fact)-2], token.INT, 0)
					if cur.Kind() == constant.Unknown || ktv.Value.Kind() != constant.Int {
						continue
					}
					a, b := cur, ktv.Value
					if side[0] == be.Y {
						a, b = b, a
					}
					if constant.Compare(a, be.Op, b) != outcome {
						st.Infeasible()
					}
				}
			}
		}
	}
	res := e.analyse(f, fns, flow.Config{
		NoHavoc:     true,
		AfterAssume: phaseAssume,
		Inline:      e.inline(f, e.writePacket, e.getClient),
		OnCall: func(st *flow.State, call *ast.CallExpr, callee types.Object, deferred bool) {
			was := st.Is("ev:locked", flow.True)
			e.sessLock(st, call, callee)
			if was && !st.Is("ev:locked", flow.True) {
				for _, tp := range phases {
					st.Set(tp.found, flow.False) // lock released: pending may change
				}
			}
			if fo, ok := callee.(*types.Func); ok {
				for _, r := range rets[fo.Origin()] {
					st.Set(retKey(r), flow.Unknown)
				}
			}
		},
		OnNode: func(st *flow.State, n ast.Node) {
			if r, ok := n.(*ast.ReturnStmt); ok && !contains(f.Body, r) {
				st.Set(retKey(r), flow.True)
			}
			phaseNode(st, n)
		},
	})
	if res == nil {
		return
	}
	for _, w := range writes {
		wcons := cons + "|resend only pending ids, same id, under lock"
		states := res.at(w.node)
		if len(states) == 0 {
			if w.fn.Body != f.Body || c15enclosingLit(w.fn, w.node) != nil {
				c.Undecide("R-C15-3", wcons, pos(c, w.node), "the code writing the packet ("+c15declName(w.fn)+") is not interpreted in place (function literal, go, defer or nested call)")
			} else {
				c.Violate("R-C15-3", wcons, pos(c, w.node), "writePacket unreachable")
			}
			continue
		}
		liveSet := map[*ast.ReturnStmt]bool{}
		for _, st := range states {
			for _, rs := range rets {
				for _, r := range rs {
					if st.Is(retKey(r), flow.True) {
						liveSet[r] = true
					}
				}
			}
		}
		live := func(h *flow.Func, r *ast.ReturnStmt) bool {
			if !res.inlined(h) {
				return true
			}
			return liveSet[r]
		}
		// the variables holding the packet written
		pt := e.trace(e.writePacket)
		pt.live = live
		pt.origins(w.fn, w.pkt)
		// assignments <packet>.MessageID = X
		type idAssign struct {
			fn  *flow.Func
			rhs ast.Expr
			at  ast.Node
			ctx []c15ctx
		}
		var ids []idAssign
		for _, g := range fns {
			ast.Inspect(g.Body, func(n ast.Node) bool {
				as, ok := n.(*ast.AssignStmt)
				if !ok || len(as.Lhs) != len(as.Rhs) {
					return true
				}
				for i, l := range as.Lhs {
					sel, ok := ast.Unparen(l).(*ast.SelectorExpr)
					if !ok || sel.Sel.Name != "MessageID" {
						continue
					}
					if id, ok := ast.Unparen(sel.X).(*ast.Ident); ok && pt.vars[c15objOf(g, id)] {
						ids = append(ids, idAssign{g, as.Rhs[i], as, pt.varCtx[c15objOf(g, id)]})
					}
				}
				return true
			})
		}
		if len(ids) == 0 {
			c.Violate("R-C15-3", wcons, pos(c, w.node), "the re-sent packet's MessageID is not the pending id (no assignment to its MessageID found)")
			continue
		}
		// the id must be an element of the resend queue
		isQueue := func(g *flow.Func, x ast.Expr) bool {
			ts := e.trace().origins(g, x)
			for _, t := range ts {
				if t.expr == nil || !e.selects(t.expr, e.queueF) {
					return false
				}
			}
			return len(ts) > 0
		}
		var idTerms []c15term
		idOK, idWhy := true, ""
		for _, a := range ids {
			it := e.trace()
			it.live = live
			it.ctx = append([]c15ctx(nil), a.ctx...) // a shared packet builder: the id of THIS call
			for _, t := range it.origins(a.fn, a.rhs) {
				switch {
				case t.rng != nil && !t.key && isQueue(t.fn, t.rng.X):
					idTerms = append(idTerms, t)
				case t.rng == nil && t.idx < 0 && c15indexOf(t.expr) != nil && isQueue(t.fn, c15indexOf(t.expr).X):
					idTerms = append(idTerms, t)
				default:
					idOK, idWhy = false, "the re-sent packet's MessageID is not the pending id: it is "+t.String()+", not an element of the resend queue"
				}
			}
		}
		if !idOK || len(idTerms) == 0 {
			if idWhy == "" {
				idWhy = "the re-sent packet's MessageID is not the pending id"
			}
			c.Violate("R-C15-3", wcons, pos(c, ids[0].at), idWhy)
			continue
		}
		// lookups of that id in pending: `v, ok := pending[id]` (ok must be true) or `v := pending[id]` (v must be non-nil)
		var lookups []c15fact
		otherLookups := 0
		for _, g := range fns {
			ast.Inspect(g.Body, func(n ast.Node) bool {
				as, ok := n.(*ast.AssignStmt)
				if !ok || len(as.Rhs) != 1 {
					return true
				}
				ix := c15indexOf(as.Rhs[0])
				if ix == nil || !e.selects(ix.X, e.pendingF) {
					return true
				}
				kt := e.trace()
				kt.live = live
				hit := false
				for _, t := range kt.origins(g, ix.Index) {
					for _, u := range idTerms {
						if t.same(u) {
							hit = true
						}
					}
					if !hit && (t.rng != nil && !t.key && isQueue(t.fn, t.rng.X) || t.rng == nil && t.idx < 0 && c15indexOf(t.expr) != nil && isQueue(t.fn, c15indexOf(t.expr).X)) {
						otherLookups++ // the pending test is made on another reading of the queue (loop split in two)
					}
				}
				if !hit {
					return true
				}
				switch len(as.Lhs) {
				case 2:
					if id, ok := as.Lhs[1].(*ast.Ident); ok && id.Name != "_" {
						lookups = append(lookups, c15fact{g.VarKey(id), flow.True})
					}
				case 1:
					if id, ok := as.Lhs[0].(*ast.Ident); ok && id.Name != "_" {
						lookups = append(lookups, c15fact{g.NilKey(id), flow.False})
					}
				}
				return true
			})
		}
		for _, tp := range phases {
			for _, t := range idTerms {
				if t.expr == ast.Expr(tp.ix) {
					lookups = append(lookups, c15fact{tp.at, flow.True})
					otherLookups = 0 // the search loop's lookups are accounted for
				}
			}
		}
		if len(lookups) == 0 {
			if otherLookups > 0 {
				c.Undecide("R-C15-3", cons+"|resend only ids still pending", pos(c, w.node), "pending is tested for an element of the resend queue read at another place than the id that is re-sent: cannot relate the two readings")
				continue
			}
			c.Violate("R-C15-3", cons+"|resend only ids still pending", pos(c, w.node), "no lookup `_, ok := pending[id]` of the re-sent id guards the resend")
			continue
		}
		ok := true
		why := ""
		var bad *flow.State
		for _, st := range states {
			hit := false
			for _, l := range lookups {
				if st.Is(l.key, l.want) {
					hit = true
				}
			}
			switch {
			case !hit:
				ok, bad, why = false, st, "a packet is re-sent although its id is no longer in pending (retransmission after PUBACK)"
			case !st.Is("ev:locked", flow.True):
				ok, bad, why = false, st, "session lock not held while resending"
			}
		}
		if !ok && otherLookups > 0 && bad != nil && bad.Is("ev:locked", flow.True) {
			c.Undecide("R-C15-3", wcons, pos(c, w.node), "pending is also tested for an element of the resend queue read at another place than the id that is re-sent: cannot relate the two readings")
			continue
		}
		if !ok && c15enclosingLit(w.fn, w.node) != nil && bad != nil && bad.Is("ev:locked", flow.True) {
			// only the lookup can have happened before the literal ran; the lock state at its start is known
			c.Undecide("R-C15-3", wcons, pos(c, w.node), "the write sits in a function literal interpreted on its own (what happened before the literal ran is not known there): "+why)
			continue
		}
		c.Check(ok, "R-C15-3", wcons, pos(c, w.node),
			sprintf("%d states at writePacket: lookup of the id in pending succeeded, MessageID = queue element, locked", len(states)), why, witness(bad)...)
	}
}

// c15fact is a fact key with the value it must have.
type c15fact struct {
	key  string
	want flow.Val
}

func c15indexOf(x ast.Expr) *ast.IndexExpr {
	ix, _ := ast.Unparen(x).(*ast.IndexExpr)
	return ix
}

// c15SessionLoop: the resend loop calls doResend on every tick until the session is done.
func c15SessionLoop(e *c15env) {
	c := e.c
	f := e.bgResend
	if f == nil || e.doResend == nil {
		return
	}
	cons := e.name(f)
	fns := e.reachOf(f, 2)
	type nframe struct {
		fn *flow.Func
		at ast.Node
	}
	var rs []nframe
	if e.doResend == f {
		// the retransmission is written out in the loop function itself: its (first) write stands for the doResend call
		if ws := e.writesIn(fns); len(ws) > 0 {
			rs = append(rs, nframe{ws[0].fn, ws[0].node})
		}
	} else {
		for _, s := range e.callsIn(fns, e.doResend) {
			if s.fn.Body != e.doResend.Body {
				rs = append(rs, nframe{s.fn, s.call})
			}
		}
	}
	okShape := false
	detail := "no doResend call"
	undecided := false
	// several calls (say an extra immediate resend before the loop): the obligation holds when one of them has the shape
	for _, r := range rs {
		if okShape {
			break
		}
		// the unconditional for loop: in the function calling doResend, or up the chain to f
		chain := []nframe{r}
		var loop *ast.ForStmt
		for {
			top := chain[len(chain)-1]
			if lifted := c15liftLit(top.fn, top.at); len(lifted) == 1 {
				// the call sits in a closure held by a local: it runs where the local is called
				top.at = lifted[0]
				chain[len(chain)-1].at = lifted[0]
			}
			loops := enclosingLoops(top.fn.Body, top.at)
			if len(loops) >= 1 {
				// the outermost loop around the retransmission is the resend loop
				fl, ok := loops[0].(*ast.ForStmt)
				if !ok || fl.Cond != nil {
					detail = "resend loop is not an unconditional for loop"
				} else {
					loop = fl
				}
				break
			}
			if top.fn.Body == f.Body || len(chain) > 3 {
				detail = "doResend is not called from a loop"
				break
			}
			callers := e.sites[e.obj(top.fn)]
			if len(callers) != 1 {
				detail, undecided = sprintf("the helper %s calling doResend has %d call sites", c15declName(top.fn), len(callers)), true
				break
			}
			chain = append(chain, nframe{callers[0].fn, callers[0].call})
		}
		if loop != nil {
			L := chain[len(chain)-1].fn
			pm := parentMap(L.Body)
			// the only exits of the loop are statements inside a select case receiving from the session's done channel
			exits := breaksOut(L, loop, labelOf(L.Body, loop))
			allDone := len(exits) > 0
			if len(exits) == 0 {
				detail = "the resend loop never ends when the session is closed"
			}
			for _, x := range exits {
				inDone := false
				for p := pm[x]; p != nil; p = pm[p] {
					if cc, ok := p.(*ast.CommClause); ok && cc.Comm != nil {
						inDone = e.mentions(cc.Comm, e.doneF)
						break
					}
				}
				if !inDone {
					allDone = false
					detail = "the resend loop can end for a reason other than the session's done channel: " + pos(c, x)
					if len(chain) > 1 {
						// the select lives in a helper: an exit taken on what the helper reports cannot be classified lexically
						undecided = true
					}
				}
			}
			// doResend must be driven by a case receiving from a timer channel (<-chan time.Time)
			inTick := false
			for i := 0; i < len(chain) && !inTick; i++ {
				g := chain[i].fn
				gpm := pm
				if i < len(chain)-1 {
					gpm = parentMap(g.Body)
				}
				for p := gpm[chain[i].at]; p != nil; p = gpm[p] {
					if cc, ok := p.(*ast.CommClause); ok && cc.Comm != nil {
						ast.Inspect(cc.Comm, func(n ast.Node) bool {
							if u, ok := n.(*ast.UnaryExpr); ok {
								if tv, ok := g.Info.Types[u.X]; ok && tv.Type != nil {
									if ch, ok := tv.Type.Underlying().(*types.Chan); ok && ch.Elem().String() == "time.Time" {
										inTick = true
									}
								}
							}
							return true
						})
						break
					}
				}
			}
			if !inTick {
				detail = "doResend is not driven by a ticker case"
			}
			okShape = allDone && inTick
		}
	}
	if !okShape && undecided {
		c.Undecide("R-C15-3", cons+"|periodic resend until done", pos(c, f.Body), detail)
		return
	}
	c.Check(okShape, "R-C15-3", cons+"|periodic resend until done", pos(c, f.Body), "for { select { <-done: return; <-ticker.C: doResend() } }", detail)
}
