package rules

import (
	"go/ast"
	"go/token"
	"go/types"

	"verif/internal/core"
	"verif/internal/flow"
)

// Rules added after the second and third round of independently seeded changes (see DESIGN.md §8).
// Each is a structural necessary condition stated independently of the seeded patch's text;
// the mutants and behaviour-preserving edits they were tested with are in selftest/mutants/C09.json.

// R-C09-6: the default policy reference matters only for rules without their own reference.

func c09DefaultRef(c *core.Ctx) {
	c.Rule("R-C09-6", "an unchanged rule keeps its limiter: in the two-generation policy comparison the filters' defaultPolicyRef values are compared only when the rule has no policyRef of its own (a reload that changes only the default must not reset rules that name their policy)")
	rl := "pkg/filters/ratelimiter"
	// role: the package function comparing two specs for one policy name → bool
	var f *flow.Func
	cands := funcsByRole(c, rl, c09isPolicyCmp)
	if len(cands) == 1 {
		f = cands[0]
		c.Count("functions_analysed", 1)
	} else {
		f = fn(c, rl, "", "isSamePolicy")
	}
	if f == nil {
		return
	}
	cons := declName(f.Pkg, f.Node.(*ast.FuncDecl))
	defF := structField(c, rl, "Spec", "DefaultPolicyRef")
	if f.Type.Params == nil {
		return
	}
	// the string parameter = the rule's policy name
	var nameParam *ast.Ident
	for _, fld := range f.Type.Params.List {
		for _, n := range fld.Names {
			if tv := f.Info.Defs[n]; tv != nil && tv.Type().String() == "string" {
				nameParam = n
			}
		}
	}
	if nameParam == nil {
		c.Undecide("R-C09-6", cons+"|signature", pos(c, f.Body), "no policy-name parameter")
		return
	}
	emptyKey := "eq:" + f.Render(nameParam) + `==""`
	// comparison nodes: binary ==/!= whose both sides select DefaultPolicyRef
	var cmps []*ast.BinaryExpr
	ast.Inspect(f.Body, func(n ast.Node) bool {
		be, ok := n.(*ast.BinaryExpr)
		if !ok || (be.Op != token.EQL && be.Op != token.NEQ) {
			return true
		}
		isDef := func(e ast.Expr) bool {
			sel, ok := ast.Unparen(e).(*ast.SelectorExpr)
			if !ok {
				return false
			}
			s := f.Info.Selections[sel]
			return s != nil && s.Obj() == defF
		}
		if isDef(be.X) && isDef(be.Y) {
			cmps = append(cmps, be)
		}
		return true
	})
	if len(cmps) == 0 {
		c.Violate("R-C09-6", cons+"|default reference compared only for rules without a policyRef", pos(c, f.Body), "the default policy references of the two generations are never compared: a rule relying on the default keeps its limiter although the default now names another policy")
		return
	}
	res := analyze(c, f, flow.Config{NoHavoc: true})
	if res == nil {
		return
	}
	var bad *flow.State
	n := 0
	for node, sts := range res.At {
		e, ok := node.(ast.Expr)
		if !ok {
			continue
		}
		has := false
		for _, cm := range cmps {
			if contains(e, cm) {
				has = true
			}
		}
		if _, isCall := node.(*ast.CallExpr); isCall || !has {
			continue
		}
		for _, st := range sts {
			n++
			// the condition node may itself contain `name == "" && a != b`
			if st.Is(emptyKey, flow.True) {
				continue
			}
			if be, ok := ast.Unparen(e).(*ast.BinaryExpr); ok && be.Op == token.LAND {
				if k, neg := f.Atom(be.X); k == emptyKey && !neg {
					continue
				}
			}
			bad = st
		}
	}
	c.Check(bad == nil && n > 0, "R-C09-6", cons+"|default reference compared only for rules without a policyRef", pos(c, cmps[0]),
		sprintf("%d states at the comparison, all with an empty rule policyRef", n),
		"the defaultPolicyRef of the two generations is compared for a rule that names its own policy: changing only the default resets the limiter of unchanged rules (up to twice limitForPeriod requests released in the running period)", witness(bad)...)
}

// R-C09-8: the equality the carry-over decision rests on compares CONFIGURATION only. The
// functions reload asks "is this rule / its policy unchanged?" (URLRule.DeepEqual, the
// two-generation policy comparison) must not compare whole struct values (==, !=,
// reflect.DeepEqual) of a type that contains a field the code itself writes after decoding /
// construction (a cache such as the compiled regular expression or the id that Init fills):
// reload compares a freshly decoded rule with an initialised one, so such a comparison makes
// every unchanged rule of that kind look changed and its limiter is reset on every reload.
func c09Equality(c *core.Ctx) {
	c.Rule("R-C09-8", "the equality functions the carry-over decision uses (URLRule.DeepEqual, the policy comparison) compare configuration fields only: no ==, != or reflect.DeepEqual on struct values whose type contains a field that the code assigns after decoding (caches filled by Init)")
	const ur = "pkg/util/urlrule"
	// derived fields: struct fields assigned by the code of the packages that declare them
	derived := map[*types.Var]ast.Node{}
	for _, rel := range []string{ur, c09flt} {
		pkg := c.Prog.Pkg(rel)
		if pkg == nil {
			c.Errorf("anchor: package %s not loaded", rel)
			return
		}
		for _, fd := range c09pkgFuncs(pkg) {
			g := flow.NewFunc(pkg, fd)
			ast.Inspect(fd.Body, func(n ast.Node) bool {
				var targets []ast.Expr
				switch s := n.(type) {
				case *ast.AssignStmt:
					targets = s.Lhs
				case *ast.IncDecStmt:
					targets = []ast.Expr{s.X}
				}
				for _, l := range targets {
					if sel := c09storeTarget(l); sel != nil {
						if v := c09fieldOf(g, sel); v != nil && derived[v] == nil {
							derived[v] = n
						}
					}
				}
				return true
			})
		}
	}
	// firstDerived returns a derived field reachable in a value of type t by the comparison:
	// == looks at the fields of nested structs / arrays (pointers are compared by address, so a
	// derived pointer FIELD counts, what it points to does not); reflect.DeepEqual also follows
	// pointers, slices and maps.
	var firstDerived func(t types.Type, deep bool, seen map[types.Type]bool) *types.Var
	firstDerived = func(t types.Type, deep bool, seen map[types.Type]bool) *types.Var {
		if t == nil || seen[t] {
			return nil
		}
		seen[t] = true
		switch u := t.Underlying().(type) {
		case *types.Struct:
			for i := 0; i < u.NumFields(); i++ {
				if derived[u.Field(i)] != nil {
					return u.Field(i)
				}
				if v := firstDerived(u.Field(i).Type(), deep, seen); v != nil {
					return v
				}
			}
		case *types.Array:
			return firstDerived(u.Elem(), deep, seen)
		case *types.Pointer:
			if deep {
				return firstDerived(u.Elem(), deep, seen)
			}
		case *types.Slice:
			if deep {
				return firstDerived(u.Elem(), deep, seen)
			}
		case *types.Map:
			if deep {
				return firstDerived(u.Elem(), deep, seen)
			}
		}
		return nil
	}
	// subjects
	var subjects []*flow.Func
	if f := fn(c, ur, "URLRule", "DeepEqual"); f != nil {
		subjects = append(subjects, f)
	}
	polCmp := funcsByRole(c, c09flt, c09isPolicyCmp)
	subjects = append(subjects, polCmp...)
	if !c.RequireCount("R-C09-8", "equality functions used by the carry-over decision", len(subjects), 2) {
		return
	}
	for _, f := range subjects {
		fd := f.Node.(*ast.FuncDecl)
		cons := declName(f.Pkg, fd) + "|compares configuration fields only"
		var badAt ast.Node
		why := ""
		n := 0
		for _, g := range reach(f, 2) {
			ast.Inspect(g.Body, func(x ast.Node) bool {
				if badAt != nil {
					return false
				}
				switch e := x.(type) {
				case *ast.BinaryExpr:
					if e.Op != token.EQL && e.Op != token.NEQ {
						return true
					}
					n++
					tv, ok := g.Info.Types[e.X]
					if !ok || tv.Type == nil {
						return true
					}
					for _, side := range []ast.Expr{e.X, e.Y} {
						if v := c09fieldOf(g, side); v != nil && derived[v] != nil && badAt == nil {
							badAt = e
							why = sprintf("the field `%s`, which the code fills after decoding (%s), takes part in the comparison", v.Name(), pos(c, derived[v]))
						}
					}
					if badAt != nil {
						return false
					}
					switch tv.Type.Underlying().(type) {
					case *types.Struct, *types.Array:
						if v := firstDerived(tv.Type, false, map[types.Type]bool{}); v != nil {
							badAt = e
							why = sprintf("values of type %s are compared as a whole (%s), and that type contains the field `%s`, which the code fills after decoding (%s)", types.TypeString(tv.Type, func(p *types.Package) string { return p.Name() }), e.Op, v.Name(), pos(c, derived[v]))
						}
					}
				case *ast.CallExpr:
					if fo, ok := g.Callee(e).(*types.Func); ok && fo.Pkg() != nil && fo.Pkg().Path() == "reflect" && fo.Name() == "DeepEqual" && len(e.Args) == 2 {
						n++
						if tv, ok := g.Info.Types[e.Args[0]]; ok && tv.Type != nil {
							if v := firstDerived(tv.Type, true, map[types.Type]bool{}); v != nil {
								badAt = e
								why = sprintf("reflect.DeepEqual compares values of type %s, which contain the field `%s` that the code fills after decoding (%s)", types.TypeString(tv.Type, func(p *types.Package) string { return p.Name() }), v.Name(), pos(c, derived[v]))
							}
						}
					}
				}
				return true
			})
		}
		at := pos(c, f.Body)
		if badAt != nil {
			at = pos(c, badAt)
		}
		c.Check(badAt == nil, "R-C09-8", cons, at,
			sprintf("%d comparison(s): none compares a struct value whose type holds a field written by the code", n),
			why+": reload compares the freshly decoded rule of the new generation with the initialised rule of the previous one, so an unchanged rule never compares equal and gets a fresh limiter on every reload — the accumulated reservations are lost and up to twice limitForPeriod requests are released in the running period")
	}
}
