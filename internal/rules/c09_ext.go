package rules

import (
	"go/ast"
	"go/token"
	"strings"

	"verif/internal/core"
	"verif/internal/flow"
)

// Rules added after the second and third round of independently seeded changes (see DESIGN.md §8).
// Each is a structural necessary condition stated independently of the seeded patch's text;
// the mutants and behaviour-preserving edits they were tested with are in selftest/mutants/C09.json.

// R-C09-6: the default policy reference matters only for rules without their own reference.

func c09DefaultRef(c *core.Ctx) {
	c.Rule("R-C09-6", "an unchanged rule keeps its limiter: in the two-generation policy comparison the filters' defaultPolicyRef values are compared only when the rule has no policyRef of its own (a reload that changes only the default must not reset rules that name their policy)")
	rl := "pkg/filters/ratelimiter"
	// role: the package function comparing two specs for one policy name → bool
	var f *flow.Func
	cands := funcsByRole(c, rl, func(g *flow.Func, fd *ast.FuncDecl) bool {
		if fd.Recv != nil || fd.Type.Results == nil || len(fd.Type.Results.List) != 1 {
			return false
		}
		if tv, ok := g.Info.Types[fd.Type.Results.List[0].Type]; !ok || tv.Type.String() != "bool" {
			return false
		}
		specs, strs := 0, 0
		for _, p := range c09params(g) {
			switch {
			case strings.HasSuffix(p.Type().String(), "/"+rl+".Spec"):
				specs++
			case p.Type().String() == "string":
				strs++
			}
		}
		return specs == 2 && strs == 1
	})
	if len(cands) == 1 {
		f = cands[0]
		c.Count("functions_analysed", 1)
	} else {
		f = fn(c, rl, "", "isSamePolicy")
	}
	if f == nil {
		return
	}
	cons := fname(rl, "", f.Node.(*ast.FuncDecl).Name.Name)
	defF := structField(c, rl, "Spec", "DefaultPolicyRef")
	if f.Type.Params == nil {
		return
	}
	// the string parameter = the rule's policy name
	var nameParam *ast.Ident
	for _, fld := range f.Type.Params.List {
		for _, n := range fld.Names {
			if tv := f.Info.Defs[n]; tv != nil && tv.Type().String() == "string" {
				nameParam = n
			}
		}
	}
	if nameParam == nil {
		c.Undecide("R-C09-6", cons+"|signature", pos(c, f.Body), "no policy-name parameter")
		return
	}
	emptyKey := "eq:" + f.Render(nameParam) + `==""`
	// comparison nodes: binary ==/!= whose both sides select DefaultPolicyRef
	var cmps []*ast.BinaryExpr
	ast.Inspect(f.Body, func(n ast.Node) bool {
		be, ok := n.(*ast.BinaryExpr)
		if !ok || (be.Op != token.EQL && be.Op != token.NEQ) {
			return true
		}
		isDef := func(e ast.Expr) bool {
			sel, ok := ast.Unparen(e).(*ast.SelectorExpr)
			if !ok {
				return false
			}
			s := f.Info.Selections[sel]
			return s != nil && s.Obj() == defF
		}
		if isDef(be.X) && isDef(be.Y) {
			cmps = append(cmps, be)
		}
		return true
	})
	if len(cmps) == 0 {
		c.Violate("R-C09-6", cons+"|default reference compared only for rules without a policyRef", pos(c, f.Body), "the default policy references of the two generations are never compared: a rule relying on the default keeps its limiter although the default now names another policy")
		return
	}
	res := analyze(c, f, flow.Config{NoHavoc: true})
	if res == nil {
		return
	}
	var bad *flow.State
	n := 0
	for node, sts := range res.At {
		e, ok := node.(ast.Expr)
		if !ok {
			continue
		}
		has := false
		for _, cm := range cmps {
			if contains(e, cm) {
				has = true
			}
		}
		if _, isCall := node.(*ast.CallExpr); isCall || !has {
			continue
		}
		for _, st := range sts {
			n++
			// the condition node may itself contain `name == "" && a != b`
			if st.Is(emptyKey, flow.True) {
				continue
			}
			if be, ok := ast.Unparen(e).(*ast.BinaryExpr); ok && be.Op == token.LAND {
				if k, neg := f.Atom(be.X); k == emptyKey && !neg {
					continue
				}
			}
			bad = st
		}
	}
	c.Check(bad == nil && n > 0, "R-C09-6", cons+"|default reference compared only for rules without a policyRef", pos(c, cmps[0]),
		sprintf("%d states at the comparison, all with an empty rule policyRef", n),
		"the defaultPolicyRef of the two generations is compared for a rule that names its own policy: changing only the default resets the limiter of unchanged rules (up to twice limitForPeriod requests released in the running period)", witness(bad)...)
}
