package rules

import (
	"go/ast"
	"go/types"
	"sync"

	"golang.org/x/tools/go/packages"

	"verif/internal/core"
	"verif/internal/flow"
)

// Helpers that make rules indifferent to "extract function" / "inline function" refactorings:
// the code a rule looks at is the anchored function TOGETHER WITH the same-package functions it
// calls (transitively, bounded), searched with inspectReach and interpreted with
// flow.Config{Inline: inlineSamePkg(f)}.

var (
	declIndexMu sync.Mutex
	declIndex   = map[*packages.Package]map[types.Object]*ast.FuncDecl{}
)

// declOf returns the declaration (with body) of a function or method of pkg, or nil.
func declOf(pkg *packages.Package, o types.Object) *ast.FuncDecl {
	if pkg == nil || o == nil {
		return nil
	}
	declIndexMu.Lock()
	defer declIndexMu.Unlock()
	idx := declIndex[pkg]
	if idx == nil {
		idx = map[types.Object]*ast.FuncDecl{}
		for _, file := range pkg.Syntax {
			for _, d := range file.Decls {
				if fd, ok := d.(*ast.FuncDecl); ok && fd.Body != nil {
					if def := pkg.TypesInfo.Defs[fd.Name]; def != nil {
						idx[def] = fd
					}
				}
			}
		}
		declIndex[pkg] = idx
	}
	if fo, ok := o.(*types.Func); ok {
		o = fo.Origin()
	}
	return idx[o]
}

// inlineSamePkg is a flow.Config.Inline function: every statically resolved callee declared in
// f's own package is interpreted in place (bounded depth, no recursion — see flow/inline.go).
// except lists callees (by object) that must stay opaque, e.g. because the rule models them itself.
func inlineSamePkg(f *flow.Func, except ...types.Object) func(*ast.CallExpr, *types.Func) *flow.Func {
	skip := map[types.Object]bool{}
	for _, o := range except {
		skip[o] = true
	}
	cache := map[*ast.FuncDecl]*flow.Func{}
	return func(call *ast.CallExpr, callee *types.Func) *flow.Func {
		if callee == nil || skip[callee] || callee.Pkg() != f.Pkg.Types {
			return nil
		}
		fd := declOf(f.Pkg, callee)
		if fd == nil {
			return nil
		}
		if g := cache[fd]; g != nil {
			return g
		}
		g := funcOf(f.Pkg, fd)
		cache[fd] = g
		return g
	}
}

// reach returns f followed by the same-package functions statically called from it, transitively
// up to depth levels (calls inside `go` statements and function literals included: they are code
// of the same feature). Order: breadth first, each function once.
func reach(f *flow.Func, depth int) []*flow.Func {
	if f == nil {
		return nil
	}
	out := []*flow.Func{f}
	seen := map[*ast.BlockStmt]bool{f.Body: true}
	frontier := []*flow.Func{f}
	for d := 0; d < depth && len(frontier) > 0; d++ {
		var next []*flow.Func
		for _, g := range frontier {
			ast.Inspect(g.Body, func(n ast.Node) bool {
				call, ok := n.(*ast.CallExpr)
				if !ok {
					return true
				}
				fo, ok := g.Callee(call).(*types.Func)
				if !ok || fo.Pkg() != g.Pkg.Types {
					return true
				}
				fd := declOf(g.Pkg, fo)
				if fd == nil || seen[fd.Body] {
					return true
				}
				seen[fd.Body] = true
				h := funcOf(g.Pkg, fd)
				out = append(out, h)
				next = append(next, h)
				return true
			})
		}
		frontier = next
	}
	return out
}

// inspectReach walks the bodies of reach(f, depth); visit gets the function a node belongs to.
func inspectReach(f *flow.Func, depth int, visit func(g *flow.Func, n ast.Node) bool) {
	for _, g := range reach(f, depth) {
		g := g
		ast.Inspect(g.Body, func(n ast.Node) bool {
			if n == nil {
				return true
			}
			return visit(g, n)
		})
	}
}

// callsToReach is callsTo over reach(f, depth): the call sites (with their enclosing function).
type reachCall struct {
	Fn   *flow.Func
	Call *ast.CallExpr
}

func callsToReach(f *flow.Func, depth int, names ...string) []reachCall {
	var out []reachCall
	for _, g := range reach(f, depth) {
		for _, call := range callsTo(g, g.Body, true, names...) {
			out = append(out, reachCall{g, call})
		}
	}
	return out
}

// funcsByRole returns the functions and methods of package rel (with bodies) for which role
// reports true — the way to resolve an anchor by what a function DOES (calls X, writes field Y,
// has signature Z) instead of by its name, so that a rename or a move to another file does not
// lose it.
func funcsByRole(c *core.Ctx, rel string, role func(g *flow.Func, fd *ast.FuncDecl) bool) []*flow.Func {
	pkg := c.Prog.Pkg(rel)
	if pkg == nil {
		return nil
	}
	var out []*flow.Func
	for _, file := range pkg.Syntax {
		for _, d := range file.Decls {
			fd, ok := d.(*ast.FuncDecl)
			if !ok || fd.Body == nil {
				continue
			}
			g := flow.NewFunc(pkg, fd)
			if role(g, fd) {
				out = append(out, g)
			}
		}
	}
	return out
}

// inlineIf is inlineSamePkg restricted to callees for which want reports true (e.g. "the helper's reach contains a
// construct the rule cares about"): keeps large call trees (handleConn → readLoop) out of the state budget.
func inlineIf(f *flow.Func, want func(callee *types.Func, g *flow.Func) bool) func(*ast.CallExpr, *types.Func) *flow.Func {
	all := inlineSamePkg(f)
	memo := map[*types.Func]bool{}
	return func(call *ast.CallExpr, callee *types.Func) *flow.Func {
		g := all(call, callee)
		if g == nil {
			return nil
		}
		ok, seen := memo[callee]
		if !seen {
			ok = want(callee, g)
			memo[callee] = ok
		}
		if !ok {
			return nil
		}
		return g
	}
}

// reachContains reports whether node-predicate holds somewhere in reach(g, depth).
func reachContains(g *flow.Func, depth int, pred func(h *flow.Func, n ast.Node) bool) bool {
	found := false
	inspectReach(g, depth, func(h *flow.Func, n ast.Node) bool {
		if !found && pred(h, n) {
			found = true
		}
		return !found
	})
	return found
}

var (
	funcMemoMu sync.Mutex
	funcMemo   = map[*ast.FuncDecl]*flow.Func{}
)

// funcOf returns THE flow.Func of a declaration (one value per declaration, so that maps keyed by *flow.Func agree
// across calls of reach / inlineSamePkg).
func funcOf(pkg *packages.Package, fd *ast.FuncDecl) *flow.Func {
	funcMemoMu.Lock()
	defer funcMemoMu.Unlock()
	if g := funcMemo[fd]; g != nil {
		return g
	}
	g := flow.NewFunc(pkg, fd)
	funcMemo[fd] = g
	return g
}
