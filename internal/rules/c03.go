// C03 — Proxy forwards requests/responses faithfully, hop-by-hop stripped, well-framed.
//
// Rules (DESIGN.md §3 C03), files c03.go (registration, shared helpers), c03_header.go
// (R-C03-1..3), c03_request.go (R-C03-4, R-C03-5), c03_framing.go (R-C03-6),
// c03_writeout.go (R-C03-7), c03_cache.go (R-C03-8),
// c03_reader.go (R-C03-9), c03_coding.go (R-C03-12, R-C03-13), c03_util.go (scope over helpers, loop forms, anchors by role).
//
// Genuine defects found on the unchanged tree (all R-C03-6, demonstrated end to end, fixes in
// /tmp/vw/C03/out/fix-{1,2,3}.diff; the rule stays as it is):
//
//	proxy compression.compress       Body swapped for a gzip reader, ContentLength field kept
//	ResponseAdaptor.Handle (body:)   payload replaced, Content-Length header kept
//	RemoteFilter.unmarshalHTTPContext payload replaced, Content-Length header kept
//
// Mutants tried in the scratch worktree (on top of the three fixes; each compiles) → what fires:
//
//	M1  remove "Upgrade" from hopHeaders                                   → R-C03-1 deletes Upgrade
//	M2  swap the two loops of cloneHeader                                  → R-C03-2 Connection read before it is deleted
//	M3  out.Del(f) instead of out.Del(sf) in the Connection loop           → R-C03-2 every Connection token deleted
//	M4  `out := in` instead of in.Clone()                                  → R-C03-3 (both obligations)
//	M5  `stdr.Host = req.Host()` unconditionally                           → R-C03-5 Host kept only for IP/keepHost
//	M6  `if svr.addrIsHostName || svr.KeepHost` (dropped negation)         → R-C03-5 (both table halves)
//	M7  NewRequestWithContext(ctx, http.MethodGet, …)                      → R-C03-4 method
//	M8  `url += "?" + RawQuery` made unconditional                         → R-C03-4 query
//	M9  non-mirror payload = http.NoBody                                   → R-C03-4 body
//	M10 delete Del(keyContentLength) in ResponseAdaptor.compress (stream)  → R-C03-6 compress|SetPayload#1
//	M11 delete Del(keyContentLength) in proxy compression.compress         → R-C03-6 Content-Length header half
//	M12 io.Copy before WriteHeader in the mux write-out                    → R-C03-7 payload copied after WriteHeader
//	M13 WriteHeader(http.StatusOK)                                         → R-C03-7 status written is the response's
//	M14 `if req.Path() == "" { return }` before the defer in serveHTTP     → R-C03-7 write-out registered before any exit
//	M15 `continue` for weight-0 servers in createLoadBalancer's loop       → R-C03-5 servers classified before NewLoadBalancer
//	M16 `net.ParseIP(host) != nil`                                         → R-C03-5 write of addrIsHostName
//	M17 `if len(v) > 1 { continue }` in the header copy loop               → R-C03-7 header copy loop
//	M20 `stdr.Header = req.HTTPHeader().Clone()` (no stripping)            → R-C03-1 outbound header
//	M21 `url := svr.URL + req.Std().URL.RawPath`                           → R-C03-4 URL
//	M22 `if h == "Te" { break }` in the table loop                         → R-C03-1 table loop deletes every entry
//	M23 delete Set("Content-Length", …) in Fallback.Handle                 → R-C03-6 Fallback|SetPayload#1
//	M24 helpers removeHopHeaders(out); removeConnectionHeaders(out) (order) → R-C03-2 (through helper summaries)
//	M25 `continue` for "Te" inside helper removeHopHeaders                 → R-C03-1 removeHopHeaders|table loop
//	M26 removeHopHeaders(in) instead of (out)                              → R-C03-3 + R-C03-1
//	M27 ContentLength = -1 in the caller under the negated result          → R-C03-6 ContentLength field
//
// Behaviour-preserving edits tried (exit 0 on the fixed tree):
//
//	E1 locals renamed; hdr.Values("connection"); `if token == "" { continue }`; alias `out := hdr`;
//	   `len(rq) > 0`; `url = url + "?" + rq`; req.URL().RawQuery; req.Std().Method/Host/Header;
//	   Host condition extracted into a local bool with swapped operands; independent statements reordered
//	E4 hop-by-hop removal moved into helpers removeConnectionHeaders(h)/removeHopHeaders(h)
//	E5 write-out: nested loop with stdw.Header().Add(k, vv), status and payload in locals;
//	   index-based classification loop; `nil == net.ParseIP(host)`; Content-Length set through
//	   resp.Header() alias with a lower-case key
//	E6 alternative repair of compress: `ContentLength = -1` in the caller under `if compress(…)`
//	E7 alternative central repair: SetPayload itself re-establishes Content-Length
package rules

import (
	"go/ast"
	"go/constant"
	"go/token"
	"go/types"
	"net/textproto"
	"strings"

	"golang.org/x/tools/go/cfg"

	"verif/internal/core"
	"verif/internal/flow"
)

const (
	c03px = "pkg/filters/proxy"
	c03hp = "pkg/protocols/httpprot"
)

func init() { Registry["C03"] = c03 }

func c03(c *core.Ctx) string {
	c.Rule("R-C03-1", "hop-by-hop table: on every path of the function producing the outbound header (the callee whose result is stored to the outbound http.Request.Header) the keys Connection, Keep-Alive, Proxy-Connection, Proxy-Authenticate, Proxy-Authorization, Te, Trailer, Transfer-Encoding, Upgrade are deleted from the returned header (constant keys or a constant package-level table ranged without early exit)")
	c.Rule("R-C03-2", "Connection-listed headers: every non-empty token obtained by splitting the values of \"Connection\" is deleted from the outbound header, and the Connection values are read before Connection itself is deleted from the header they are read from")
	c.Rule("R-C03-3", "no aliasing of the inbound header: every Del/Set/Add/index store in the header function acts on a header obtained from Clone() of the parameter, and that clone is what is returned")
	c.Rule("R-C03-4", "provenance of the outbound request: method = inbound Method(); URL = server URL + inbound Path() (+ \"?\" + RawQuery exactly when RawQuery is non-empty); body = inbound GetPayload() except for mirror+stream; header = header function applied to the inbound header; the request built is the one stored for sending")
	c.Rule("R-C03-5", "Host rule: the outbound Host is assigned the inbound Host() exactly when !addrIsHostName || KeepHost; addrIsHostName is written only by the address classifier (true iff net.ParseIP fails), which runs for every server before every NewLoadBalancer call")
	c.Rule("R-C03-6", "framing pairing: (a) a store of a length-changing reader (gzip) to http.Response.Body is paired on all paths with a store to ContentLength and a Set/Del of the Content-Length header of the same response; (b) every (*httpprot.Response).SetPayload call site outside httpprot is paired on all paths with a Set/Del of Content-Length on the same response, unless the response was created in the same function (NewResponse(nil)/BuildResponse) or SetPayload / the write-out normalises the header centrally")
	c.Rule("R-C03-7", "write-out: every exit of muxInstance.serveHTTP runs the deferred write-out, which on every path copies the response header into the ResponseWriter's header, then calls WriteHeader(resp.StatusCode()), then io.Copy(w, resp.GetPayload()) — all three on the same response and the same writer")
	c.Rule("R-C03-8", "cache isolation: header maps cross the boundary of the proxy's memory cache only by copy — every header stored into a cache entry (the struct (*MemoryCache).Load returns) is a fresh Clone, and the header of an entry is only ever cloned or inspected, never handed to a response, stored elsewhere, returned or modified in place")
	c.Rule("R-C03-13", "coding labels (mirror of R-C03-12): a function that applies the gzip coding to an HTTP body (compressing reader) overwrites the Content-Encoding header with \"gzip\" (Header.Set) only in states where the message is known to carry no Content-Encoding (Get == \"\" / no values) — never after a mere 'does not contain gzip' test or untested; otherwise a body already coded with br/deflate is gzipped on top and relabelled gzip")
	c.Rule("R-C03-12", "coding labels: a function that undoes the gzip coding of an HTTP body (decompressing reader) deletes the Content-Encoding header only in states where the label is known to be exactly \"gzip\" (label == \"gzip\" / EqualFold), never after a mere substring test or untested — otherwise a body labelled with several codings loses its whole label while only the gzip layer is undone")
	c.Rule("R-C03-9", "body readers: in every io.Reader implementation of the module (Read(p []byte) (int, error)) the buffer is only ever advanced (p = p[k:]) by the count returned by the most recent write into the current buffer, and every count of bytes written reaches the returned total before it is overwritten and on every exit")
	c.NotDecided = []string{
		"value semantics of Server.checkAddrPattern's port / IPv6-bracket stripping (which string reaches net.ParseIP for which URL is index arithmetic on the host string; no shape rule short of freezing today's text decides it)",
		"sharing of the cached body bytes and of the []string value slices between cache entry and live responses (payloads are replaced, not edited in place, by convention; not checked)",
		"bit-exactness of bodies and gzip round-trips (value semantics of the readers)",
		"chunked framing on the wire, trailers, HTTP/2 and HTTP/3 specifics",
		"URL re-encoding: the outbound URL is rebuilt from the decoded path (suspected fidelity defect for paths that need escaping; no shape rule expresses it)",
		"that values written to Content-Length equal the payload length (only that the header is re-established or removed whenever the payload is replaced)",
		"value semantics of checkAddrPattern beyond 'addrIsHostName = (net.ParseIP(host) == nil)' (port and IPv6 bracket stripping)",
		"request-side framing (net/http derives the outbound Content-Length from the body reader)",
		"pkg/filters/wasmhost (hostResponseSetBody has the same unpaired SetPayload shape) is excluded by its build tag and therefore not analysed",
		"panics of the pipeline inside serveHTTP (the deferred write-out then runs while panicking) and writes to the ResponseWriter outside serveHTTP (ACME challenge)",
		"the pairing rule accepts any Set/Del of Content-Length on the same response variable; responses reached through different variables in different functions are only related one call level up (callers of a Body-swapping function)",
	}
	c03Header(c)
	c03Framing(c)
	c03WriteOut(c)
	c03Cache(c)
	c03Readers(c)
	c03Coding(c)
	// shared rules: a response whose body could not be fetched is not published (R-C07-5), and a stream body is not re-sent (R-C10-3)
	c.Alias("R-C07-5", "R-C03-10")
	c.Rule("R-C07-5", "well-framed or withheld: a backend response is handed to the pipeline only after its body was fetched completely; a failed fetch returns the error without publishing the half-read response (shared with R-C07-5)")
	c07Resp(c)
	c.Alias("R-C07-5", "")
	c.Alias("R-C10-3", "R-C03-11")
	c.Alias("R-C10-2", "-")
	c.Alias("R-C10-5", "-")
	c.Rule("R-C10-3", "the backend receives the client's body: a one-shot stream body is never re-sent by the retry wrapper (shared with R-C10-3)")
	c10Handle(c)
	c.Alias("R-C10-3", "")
	c.Alias("R-C10-2", "")
	c.Alias("R-C10-5", "")
	c.Drop("-")
	return "Structural necessary conditions of faithful forwarding, decided on every path of the anchored functions: the outbound header is a clone from which the nine hop-by-hop headers and every Connection-listed header are removed (path-sensitive, with per-iteration checks of the loops, through helper functions); method/URL/query/body/header/Host of the outbound request come from the inbound request according to the stated decision tables; every replacement of a response payload or body is paired with re-establishing Content-Length on all paths (all SetPayload sites and gzip Body swaps in the module); the mux write-out copies header, status and payload of one response in order on every exit. Not decided: byte-level equality, wire framing, URL re-encoding."
}

// ---------------------------------------------------------------------------------------
// shared helpers

// c03stdField resolves a field of a named struct type of any loaded (also non-module) package.
func c03stdField(c *core.Ctx, pkgPath, typ, field string) *types.Var {
	pkg := c.Prog.All[pkgPath]
	if pkg == nil || pkg.Types == nil {
		c.Errorf("anchor: package %s not loaded", pkgPath)
		return nil
	}
	o := pkg.Types.Scope().Lookup(typ)
	if o == nil {
		c.Errorf("anchor: type %s.%s not found", pkgPath, typ)
		return nil
	}
	st, ok := o.Type().Underlying().(*types.Struct)
	if !ok {
		c.Errorf("anchor: %s.%s is not a struct", pkgPath, typ)
		return nil
	}
	for i := 0; i < st.NumFields(); i++ {
		if st.Field(i).Name() == field {
			return st.Field(i)
		}
	}
	c.Errorf("anchor: field %s.%s.%s not found", pkgPath, typ, field)
	return nil
}

// c03fieldOf returns the field object selected by e (nil if e is not a field selection).
func c03fieldOf(f *flow.Func, e ast.Expr) *types.Var {
	sel, ok := ast.Unparen(e).(*ast.SelectorExpr)
	if !ok {
		return nil
	}
	if s := f.Info.Selections[sel]; s != nil && s.Kind() == types.FieldVal {
		v, _ := s.Obj().(*types.Var)
		return v
	}
	return nil
}

func c03obj(f *flow.Func, id *ast.Ident) types.Object {
	if o := f.Info.Uses[id]; o != nil {
		return o
	}
	return f.Info.Defs[id]
}

// c03root returns the base variable of a receiver/selector chain:
// resp.Std().Header → resp; vm.ctx.GetOutputResponse() → vm; x.(*T) → x.
func c03root(f *flow.Func, e ast.Expr) types.Object {
	for e != nil {
		switch x := ast.Unparen(e).(type) {
		case *ast.CallExpr:
			if _, ok := ast.Unparen(x.Fun).(*ast.SelectorExpr); !ok {
				return nil // plain function call: no receiver chain
			}
			e = x.Fun
		case *ast.SelectorExpr:
			if id, ok := x.X.(*ast.Ident); ok {
				if _, isPkg := c03obj(f, id).(*types.PkgName); isPkg {
					return c03obj(f, x.Sel)
				}
			}
			e = x.X
		case *ast.TypeAssertExpr:
			e = x.X
		case *ast.StarExpr:
			e = x.X
		case *ast.IndexExpr:
			e = x.X
		case *ast.UnaryExpr:
			e = x.X
		case *ast.Ident:
			return c03obj(f, x)
		default:
			return nil
		}
	}
	return nil
}

// c03def is one definition/assignment of a variable.
type c03def struct {
	rhs   ast.Expr // nil when the variable is one of several results of a call / range var
	call  *ast.CallExpr
	index int // result index when call != nil and the assignment is multi-valued
	at    ast.Node
	tok   token.Token
}

// c03defs collects the assignments to obj inside the function (function literals included).
func c03defs(f *flow.Func, obj types.Object) []c03def {
	if obj == nil {
		return nil
	}
	if s := c03cur; s != nil && s.has(f) {
		var out []c03def
		for _, g := range s.fns {
			out = append(out, c03defs1(g, obj)...)
		}
		return out
	}
	return c03defs1(f, obj)
}

func c03defs1(f *flow.Func, obj types.Object) []c03def {
	var out []c03def
	ast.Inspect(f.Body, func(n ast.Node) bool {
		switch s := n.(type) {
		case *ast.AssignStmt:
			for i, l := range s.Lhs {
				id, ok := ast.Unparen(l).(*ast.Ident)
				if !ok || c03obj(f, id) != obj {
					continue
				}
				d := c03def{at: s, tok: s.Tok}
				if len(s.Lhs) == len(s.Rhs) {
					d.rhs = ast.Unparen(s.Rhs[i])
					d.call, _ = d.rhs.(*ast.CallExpr)
				} else if len(s.Rhs) == 1 {
					d.call, _ = ast.Unparen(s.Rhs[0]).(*ast.CallExpr)
					d.index = i
					if d.call == nil && i == 0 {
						d.rhs = ast.Unparen(s.Rhs[0]) // v, ok := x.(T) / m[k] / <-ch
					}
				}
				out = append(out, d)
			}
		case *ast.ValueSpec:
			for i, id := range s.Names {
				if c03obj(f, id) != obj {
					continue
				}
				d := c03def{at: s, tok: token.DEFINE}
				if len(s.Values) == len(s.Names) {
					d.rhs = ast.Unparen(s.Values[i])
					d.call, _ = d.rhs.(*ast.CallExpr)
				} else if len(s.Values) == 1 {
					d.call, _ = ast.Unparen(s.Values[0]).(*ast.CallExpr)
					d.index = i
				}
				out = append(out, d)
			}
		case *ast.RangeStmt:
			for _, l := range []ast.Expr{s.Key, s.Value} {
				if id, ok := l.(*ast.Ident); ok && c03obj(f, id) == obj {
					out = append(out, c03def{at: s, tok: s.Tok})
				}
			}
		case *ast.IncDecStmt:
			if id, ok := ast.Unparen(s.X).(*ast.Ident); ok && c03obj(f, id) == obj {
				out = append(out, c03def{at: s, tok: s.Tok})
			}
		}
		return true
	})
	return out
}

// c03isHeaderType reports whether t is one of the HTTP header types.
func c03isHeaderType(t types.Type) bool {
	if t == nil {
		return false
	}
	if p, ok := t.(*types.Pointer); ok {
		t = p.Elem()
	}
	n, ok := t.(*types.Named)
	if !ok || n.Obj().Pkg() == nil {
		return false
	}
	switch n.Obj().Pkg().Path() + "." + n.Obj().Name() {
	case "net/http.Header", "net/textproto.MIMEHeader", Mod + "pkg/protocols.Header", Mod + c03hp + ".Header":
		return true
	}
	return false
}

// c03canon follows identity-like single definitions of a local variable
// (x := y, x := y.(T), h := resp.HTTPHeader() for header-typed h) to the variable it stands for.
func c03canon(f *flow.Func, obj types.Object) types.Object {
	for depth := 0; depth < 10 && obj != nil; depth++ {
		v, ok := obj.(*types.Var)
		if !ok || v.IsField() || v.Pkg() == nil || v.Parent() == v.Pkg().Scope() {
			return obj
		}
		defs := c03defs(f, obj)
		if len(defs) == 0 {
			// a parameter/receiver of a helper in the current scope stands for what it is bound to
			if s := c03cur; s != nil && s.has(f) {
				if b := s.bind[obj]; b != nil && b != obj {
					obj = b
					continue
				}
			}
			return obj
		}
		if len(defs) != 1 || defs[0].rhs == nil {
			return obj
		}
		r := defs[0].rhs
		next := types.Object(nil)
		switch x := r.(type) {
		case *ast.Ident:
			next = c03obj(f, x)
		case *ast.TypeAssertExpr:
			next = c03root(f, x)
		default:
			if c03isHeaderType(v.Type()) {
				// a header obtained from something: stands for its owner unless it is a copy
				if call, ok := r.(*ast.CallExpr); ok {
					if op, _ := c03hdrOp(f, call); op == "Clone" {
						return obj
					}
					if _, isSel := ast.Unparen(call.Fun).(*ast.SelectorExpr); !isSel {
						return obj // make(...), helper(...)
					}
				}
				if _, isLit := r.(*ast.CompositeLit); isLit {
					return obj
				}
				next = c03root(f, r)
			}
		}
		if next == nil || next == obj {
			return obj
		}
		if _, isVar := next.(*types.Var); !isVar {
			return obj
		}
		obj = next
	}
	return obj
}

// c03rootOf = canonical root variable of an expression.
func c03rootOf(f *flow.Func, e ast.Expr) types.Object { return c03canon(f, c03root(f, e)) }

// c03hdrOp classifies a call as a method of an HTTP header type and returns the method name
// and the receiver expression.
func c03hdrOp(f *flow.Func, call *ast.CallExpr) (string, ast.Expr) {
	sel, ok := ast.Unparen(call.Fun).(*ast.SelectorExpr)
	if !ok {
		// a method value held in a local: set := h.Set; set(k, v)
		if id, isID := ast.Unparen(call.Fun).(*ast.Ident); isID {
			if defs := c03defs(f, c03obj(f, id)); len(defs) == 1 && defs[0].rhs != nil {
				if msel, ok := defs[0].rhs.(*ast.SelectorExpr); ok {
					if sl := f.Info.Selections[msel]; sl != nil && sl.Kind() == types.MethodVal {
						if fo, ok := sl.Obj().(*types.Func); ok {
							if sig, _ := fo.Type().(*types.Signature); sig != nil && sig.Recv() != nil && c03isHeaderType(sig.Recv().Type()) {
								return fo.Name(), msel.X
							}
						}
					}
				}
			}
		}
		return "", nil
	}
	fo, ok := f.Callee(call).(*types.Func)
	if !ok {
		return "", nil
	}
	sig, _ := fo.Type().(*types.Signature)
	if sig == nil || sig.Recv() == nil || !c03isHeaderType(sig.Recv().Type()) {
		return "", nil
	}
	return fo.Name(), sel.X
}

// c03constKey returns the canonical MIME header key of a constant string expression.
func c03constKey(f *flow.Func, e ast.Expr) (string, bool) {
	tv, ok := f.Info.Types[e]
	if !ok || tv.Value == nil || tv.Value.Kind() != constant.String {
		return "", false
	}
	return textproto.CanonicalMIMEHeaderKey(constant.StringVal(tv.Value)), true
}

// c03clOp reports whether call re-establishes or removes Content-Length (Set/Del with a
// constant key that canonicalises to Content-Length) and returns the receiver expression.
func c03clOp(f *flow.Func, call *ast.CallExpr) (ast.Expr, bool) {
	op, recv := c03hdrOp(f, call)
	if (op != "Set" && op != "Del") || len(call.Args) < 1 {
		return nil, false
	}
	if k, ok := c03constKey(f, call.Args[0]); ok && k == "Content-Length" {
		return recv, true
	}
	return nil, false
}

// c03declOf wraps the declaration of a module function object (nil if it has no body here).
func c03declOf(c *core.Ctx, fo *types.Func) *flow.Func {
	if fo == nil || fo.Pkg() == nil || !strings.HasPrefix(fo.Pkg().Path(), Mod) {
		return nil
	}
	recv := ""
	if sig, _ := fo.Type().(*types.Signature); sig != nil && sig.Recv() != nil {
		t := sig.Recv().Type()
		if p, ok := t.(*types.Pointer); ok {
			t = p.Elem()
		}
		if n, ok := t.(*types.Named); ok {
			recv = n.Obj().Name()
		} else {
			return nil
		}
	}
	return fnOpt(c, relPkg(fo.Pkg().Path()), recv, fo.Name())
}

// c03fnName renders the construct name of a wrapped declaration.
func c03fnName(f *flow.Func) string {
	if fd, ok := f.Node.(*ast.FuncDecl); ok {
		return declName(f.Pkg, fd)
	}
	return relPkg(f.Name)
}

// c03mentions reports whether expression e mentions a variable of the set.
func c03mentions(f *flow.Func, e ast.Node, set map[types.Object]bool) bool {
	found := false
	if e == nil {
		return false
	}
	ast.Inspect(e, func(n ast.Node) bool {
		if id, ok := n.(*ast.Ident); ok && set[c03obj(f, id)] {
			found = true
		}
		return !found
	})
	return found
}

// c03empty evaluates "string expression e is empty" in a state from the facts the engine
// learns for the idioms e == "", len(e) == 0, len(e) > 0, 0 < len(e).
func c03empty(f *flow.Func, st *flow.State, e ast.Expr) flow.Val {
	r := f.Render(e)
	if v := st.Get("eq:" + r + `==""`); v != flow.Unknown {
		return v
	}
	if v := st.Get("eq:len(" + r + ")==0"); v != flow.Unknown {
		return v
	}
	switch st.Get("lt:0<len(" + r + ")") {
	case flow.True:
		return flow.False
	case flow.False:
		return flow.True
	}
	switch st.Get("lt:len(" + r + ")<1") {
	case flow.True:
		return flow.True
	case flow.False:
		return flow.False
	}
	return flow.Unknown
}

// c03iter checks "every iteration of loop does X unless excused" inside an engine run.
// Call block() from OnBlock and mark() when X happens. loop is a range or a for statement.
type c03iter struct {
	loop   ast.Stmt
	id     string
	excuse func(st *flow.State) bool
	iters  int
	bad    *flow.State
}

func newC03iter(f *flow.Func, loop ast.Stmt, excuse func(st *flow.State) bool) *c03iter {
	return &c03iter{loop: loop, id: f.Pos(loop.Pos()), excuse: excuse}
}

// c03atHead: the block is the head of loop (evaluated before every iteration).
func c03atHead(b *cfg.Block, loop ast.Stmt) bool {
	return b.Stmt == loop && (b.Kind == cfg.KindRangeLoop || b.Kind == cfg.KindForLoop)
}

func (it *c03iter) block(st *flow.State, b *cfg.Block) {
	if b.Stmt != it.loop {
		return
	}
	in, done := "ev:in:"+it.id, "ev:done:"+it.id
	switch b.Kind {
	case cfg.KindRangeBody, cfg.KindForBody:
		st.Set(in, flow.True)
		st.Set(done, flow.False)
	case cfg.KindRangeLoop, cfg.KindForPost, cfg.KindForLoop:
		if st.Is(in, flow.True) {
			it.iters++
			if !st.Is(done, flow.True) && (it.excuse == nil || !it.excuse(st)) && it.bad == nil {
				it.bad = st
			}
		}
		st.Set(in, flow.Unknown)
		st.Set(done, flow.Unknown)
	}
}

func (it *c03iter) mark(st *flow.State) {
	if st.Is("ev:in:"+it.id, flow.True) {
		st.Set("ev:done:"+it.id, flow.True)
	}
}

// c03chain checks "every iteration of outer (and of each loop nested between outer and
// target) reaches target unless excused": an iteration of an outer loop is satisfied by
// reaching the head of the next inner loop, an iteration of the innermost by mark().
type c03chain struct {
	loops []ast.Stmt
	iters []*c03iter
	ok    bool
}

func newC03chain(f *flow.Func, outer ast.Stmt, target ast.Node, excuse func(st *flow.State) bool) *c03chain {
	ch := &c03chain{ok: true}
	ch.loops = append(ch.loops, enclosingLoops(outer, target)...)
	if len(ch.loops) == 0 || ch.loops[0] != outer {
		ch.loops = append([]ast.Stmt{outer}, ch.loops...)
	}
	for i, l := range ch.loops {
		if i == len(ch.loops)-1 {
			ch.iters = append(ch.iters, newC03iter(f, l, excuse))
		} else {
			ch.iters = append(ch.iters, newC03iter(f, l, nil))
		}
	}
	return ch
}

func (ch *c03chain) block(st *flow.State, b *cfg.Block) {
	for i, it := range ch.iters {
		it.block(st, b)
		if i > 0 && c03atHead(b, it.loop) {
			ch.iters[i-1].mark(st)
		}
	}
}

func (ch *c03chain) mark(st *flow.State) { ch.iters[len(ch.iters)-1].mark(st) }

func (ch *c03chain) bad() *flow.State {
	for _, it := range ch.iters {
		if it.bad != nil {
			return it.bad
		}
	}
	return nil
}

// early lists the statements that leave one of the chain's loops prematurely.
func (ch *c03chain) early(f *flow.Func) []ast.Node {
	var out []ast.Node
	for _, l := range ch.loops {
		out = append(out, breaksOut(f, l, labelOf(f.Body, l))...)
	}
	return out
}

// c03leaves flattens a string concatenation a + b + c into its operands.
func c03leaves(e ast.Expr) []ast.Expr {
	e = ast.Unparen(e)
	if be, ok := e.(*ast.BinaryExpr); ok && be.Op == token.ADD {
		return append(c03leaves(be.X), c03leaves(be.Y)...)
	}
	return []ast.Expr{e}
}

// c03units returns the function and every function literal nested in it as separate
// analysis units (calls are then collected per unit without descending into literals).
func c03units(f *flow.Func) []*flow.Func {
	out := []*flow.Func{f}
	ast.Inspect(f.Body, func(n ast.Node) bool {
		if lit, ok := n.(*ast.FuncLit); ok {
			out = append(out, f.Lit(lit))
		}
		return true
	})
	return out
}
