package rules

import (
	"fmt"
	"go/token"
	"go/types"
	"sort"
	"strings"

	"golang.org/x/tools/go/ssa"

	"verif/internal/core"
	"verif/internal/load"
)

// R-C11-3: the predecessor generation is not mutated by Inherit.
//
// Subject: every Inherit implementation of filters.Filter, supervisor.Controller and
// supervisor.TrafficObject (resolved by interface satisfaction, not by name lists).
// For each, an SSA taint analysis follows the values derived from the predecessor
// parameter (through field loads, element loads, type assertions, locals, phis, static
// in-module calls with summaries, closures) and collects every store whose *address* is
// derived from the predecessor. A store is a violation when the written field is read by
// the request path of the same kind (the static call tree of its Handle method; for kinds
// without a Handle method every field counts).

type c11Origin struct {
	field *types.Var // last struct field on the access path from the predecessor (nil = the object itself)
	owner string     // name of the struct type declaring field
	path  string
}

type c11PredStore struct {
	fn    *ssa.Function
	pos   token.Pos
	field *types.Var
	owner string
	path  string
	how   string
}

type c11Summary struct {
	ret  *c11Origin
	busy bool
}

type c11Taint struct {
	memo   map[string]*c11Summary
	stores map[token.Pos]*c11PredStore
	opaque map[string]bool // dynamic calls that received predecessor state (not followed)
}

func c11InModule(fn *ssa.Function) bool {
	if fn == nil {
		return false
	}
	if fn.Pkg != nil && fn.Pkg.Pkg != nil {
		return strings.HasPrefix(fn.Pkg.Pkg.Path(), load.ModulePath)
	}
	// closures and instantiations: look at the parent / origin
	if p := fn.Parent(); p != nil {
		return c11InModule(p)
	}
	if o := fn.Origin(); o != nil {
		return c11InModule(o)
	}
	return false
}

func c11StructOf(t types.Type) (*types.Struct, string) {
	name := ""
	for i := 0; i < 4; i++ {
		switch x := t.(type) {
		case *types.Pointer:
			t = x.Elem()
			continue
		case *types.Named:
			name = x.Obj().Name()
			t = x.Underlying()
			continue
		case *types.Alias:
			t = types.Unalias(x)
			continue
		}
		break
	}
	st, _ := t.(*types.Struct)
	return st, name
}

func c11FieldOf(xType types.Type, idx int) (*types.Var, string) {
	st, name := c11StructOf(xType)
	if st == nil || idx >= st.NumFields() {
		return nil, name
	}
	return st.Field(idx), name
}

var c11SyncMutators = map[string]bool{"Store": true, "Swap": true, "CompareAndSwap": true, "Delete": true,
	"LoadAndDelete": true, "LoadOrStore": true, "CompareAndDelete": true, "Add": true, "And": true, "Or": true}

// run analyses fn with the given tainted parameters / free variables.
func (t *c11Taint) run(fn *ssa.Function, params map[int]*c11Origin, free map[int]*c11Origin, depth int) *c11Summary {
	key := fn.String() + "|"
	var ks []string
	for i, o := range params {
		ks = append(ks, fmt.Sprintf("p%d:%s", i, o.path))
	}
	for i, o := range free {
		ks = append(ks, fmt.Sprintf("f%d:%s", i, o.path))
	}
	sort.Strings(ks)
	key += strings.Join(ks, ",")
	if s, ok := t.memo[key]; ok {
		return s
	}
	sum := &c11Summary{busy: true}
	t.memo[key] = sum
	defer func() { sum.busy = false }()
	if depth > 8 || len(fn.Blocks) == 0 {
		return sum
	}

	taint := map[ssa.Value]*c11Origin{}
	allocTaint := map[*ssa.Alloc]*c11Origin{}
	for i, o := range params {
		if i < len(fn.Params) {
			taint[fn.Params[i]] = o
		}
	}
	for i, o := range free {
		if i < len(fn.FreeVars) {
			taint[fn.FreeVars[i]] = o
		}
	}
	changed := true
	set := func(v ssa.Value, o *c11Origin) {
		if o == nil {
			return
		}
		if _, ok := taint[v]; !ok {
			taint[v] = o
			changed = true
		}
	}
	rootAlloc := func(v ssa.Value) *ssa.Alloc {
		for i := 0; i < 8; i++ {
			switch x := v.(type) {
			case *ssa.Alloc:
				return x
			case *ssa.FieldAddr:
				v = x.X
			case *ssa.IndexAddr:
				v = x.X
			default:
				return nil
			}
		}
		return nil
	}
	record := func(instr ssa.Instruction, o *c11Origin, how string) {
		p := instr.Pos()
		if _, ok := t.stores[p]; ok && p.IsValid() {
			return
		}
		if !p.IsValid() {
			// synthetic position: key by function position + count to keep it
			p = fn.Pos() + token.Pos(len(t.stores)+1)
		}
		t.stores[p] = &c11PredStore{fn: fn, pos: instr.Pos(), field: o.field, owner: o.owner, path: o.path, how: how}
	}
	handleCall := func(instr ssa.CallInstruction) {
		com := instr.Common()
		val := instr.Value() // nil for go/defer
		if com.IsInvoke() {
			if o := taint[com.Value]; o != nil {
				if com.Method.Name() == "Close" {
					return // the explicit Close of the predecessor is its own business
				}
				if val != nil {
					set(val, &c11Origin{field: o.field, owner: o.owner, path: o.path + "." + com.Method.Name() + "()"})
				}
			}
			return
		}
		if b, ok := com.Value.(*ssa.Builtin); ok {
			switch b.Name() {
			case "delete", "copy", "clear":
				if len(com.Args) > 0 {
					if o := taint[com.Args[0]]; o != nil {
						record(instr, o, b.Name()+"()")
					}
				}
			case "append":
				if len(com.Args) > 0 && val != nil {
					set(val, taint[com.Args[0]])
				}
			}
			return
		}
		callee := com.StaticCallee()
		if callee == nil {
			for _, a := range com.Args {
				if o := taint[a]; o != nil {
					t.opaque[fn.String()] = true
				}
			}
			return
		}
		tp := map[int]*c11Origin{}
		for i, a := range com.Args {
			if o := taint[a]; o != nil {
				tp[i] = o
			}
		}
		// closures called directly: bindings
		tf := map[int]*c11Origin{}
		if mc, ok := com.Value.(*ssa.MakeClosure); ok {
			for i, b := range mc.Bindings {
				if o := taint[b]; o != nil {
					tf[i] = o
				}
			}
		}
		if len(tp) == 0 && len(tf) == 0 {
			return
		}
		sig := callee.Signature
		if c11InModule(callee) && len(callee.Blocks) > 0 {
			if sig.Recv() != nil && callee.Name() == "Close" && tp[0] != nil && len(tp) == 1 {
				return
			}
			s := t.run(callee, tp, tf, depth+1)
			if val != nil && s.ret != nil {
				set(val, s.ret)
			}
			return
		}
		// external callee
		pkg := ""
		if callee.Pkg != nil && callee.Pkg.Pkg != nil {
			pkg = callee.Pkg.Pkg.Path()
		} else if callee.Object() != nil && callee.Object().Pkg() != nil {
			pkg = callee.Object().Pkg().Path()
		}
		if o := tp[0]; o != nil {
			if sig.Recv() != nil {
				if (pkg == "sync" || pkg == "sync/atomic") && c11SyncMutators[callee.Name()] {
					record(instr, o, "("+pkg+")."+callee.Name())
				}
				if val != nil {
					set(val, &c11Origin{field: o.field, owner: o.owner, path: o.path + "." + callee.Name() + "()"})
				}
			} else if pkg == "sync/atomic" {
				n := callee.Name()
				if strings.HasPrefix(n, "Store") || strings.HasPrefix(n, "Add") || strings.HasPrefix(n, "Swap") || strings.HasPrefix(n, "CompareAndSwap") {
					record(instr, o, "atomic."+n)
				}
			}
		}
	}

	for round := 0; changed && round < 50; round++ {
		changed = false
		for _, b := range fn.Blocks {
			for _, instr := range b.Instrs {
				switch x := instr.(type) {
				case *ssa.FieldAddr:
					if o := taint[x.X]; o != nil {
						f, owner := c11FieldOf(x.X.Type(), x.Field)
						name := "?"
						if f != nil {
							name = f.Name()
						}
						set(x, &c11Origin{field: f, owner: owner, path: o.path + "." + name})
					}
				case *ssa.Field:
					if o := taint[x.X]; o != nil {
						f, owner := c11FieldOf(x.X.Type(), x.Field)
						name := "?"
						if f != nil {
							name = f.Name()
						}
						set(x, &c11Origin{field: f, owner: owner, path: o.path + "." + name})
					}
				case *ssa.IndexAddr:
					if o := taint[x.X]; o != nil {
						set(x, &c11Origin{field: o.field, owner: o.owner, path: o.path + "[i]"})
					}
				case *ssa.Index:
					if o := taint[x.X]; o != nil {
						set(x, &c11Origin{field: o.field, owner: o.owner, path: o.path + "[i]"})
					}
				case *ssa.Lookup:
					if o := taint[x.X]; o != nil {
						set(x, &c11Origin{field: o.field, owner: o.owner, path: o.path + "[k]"})
					}
				case *ssa.UnOp:
					if x.Op == token.MUL {
						if o := taint[x.X]; o != nil {
							set(x, o)
						} else if a := rootAlloc(x.X); a != nil {
							set(x, allocTaint[a])
						}
					}
				case *ssa.Phi:
					for _, e := range x.Edges {
						if o := taint[e]; o != nil {
							set(x, o)
							break
						}
					}
				case *ssa.TypeAssert:
					set(x, taint[x.X])
				case *ssa.ChangeType:
					set(x, taint[x.X])
				case *ssa.Convert:
					set(x, taint[x.X])
				case *ssa.ChangeInterface:
					set(x, taint[x.X])
				case *ssa.MakeInterface:
					set(x, taint[x.X])
				case *ssa.Slice:
					set(x, taint[x.X])
				case *ssa.SliceToArrayPointer:
					set(x, taint[x.X])
				case *ssa.Extract:
					set(x, taint[x.Tuple])
				case *ssa.Range:
					set(x, taint[x.X])
				case *ssa.Next:
					set(x, taint[x.Iter])
				case *ssa.MakeClosure:
					tf := map[int]*c11Origin{}
					for i, b := range x.Bindings {
						if o := taint[b]; o != nil {
							tf[i] = o
						} else if a, ok := b.(*ssa.Alloc); ok && allocTaint[a] != nil {
							// captured by reference: the closure loads the predecessor value from the cell
							tf[i] = allocTaint[a]
						}
					}
					if len(tf) > 0 {
						if cf, ok := x.Fn.(*ssa.Function); ok {
							t.runClosure(cf, tf, depth+1)
						}
					}
				case *ssa.Store:
					if o := taint[x.Addr]; o != nil {
						_, isAlloc := x.Addr.(*ssa.Alloc)
						_, isCell := x.Addr.(*ssa.FreeVar)
						if !isAlloc && !isCell {
							record(x, o, "store")
						}
					} else if o := taint[x.Val]; o != nil {
						if a := rootAlloc(x.Addr); a != nil {
							if allocTaint[a] == nil {
								allocTaint[a] = o
								changed = true
							}
						}
					}
				case *ssa.MapUpdate:
					if o := taint[x.Map]; o != nil {
						record(x, o, "map update")
					}
				case *ssa.Return:
					for _, r := range x.Results {
						if o := taint[r]; o != nil && sum.ret == nil {
							sum.ret = o
						}
					}
				case ssa.CallInstruction:
					handleCall(x)
				}
			}
		}
	}
	return sum
}

// runClosure analyses a closure whose captured cells hold predecessor state. A free
// variable is the address of the captured cell: loads through it yield the predecessor
// value; stores to the cell itself are writes to a local, not to the predecessor (run skips
// stores whose address is a FreeVar).
func (t *c11Taint) runClosure(fn *ssa.Function, free map[int]*c11Origin, depth int) {
	t.run(fn, nil, free, depth)
}

// c11ReadSet collects the struct fields accessed in the static call tree of root.
func c11ReadSet(root *ssa.Function) map[*types.Var]string {
	out := map[*types.Var]string{}
	seen := map[*ssa.Function]bool{}
	var walk func(fn *ssa.Function, depth int)
	walk = func(fn *ssa.Function, depth int) {
		if fn == nil || seen[fn] || depth > 12 || !c11InModule(fn) {
			return
		}
		seen[fn] = true
		for _, b := range fn.Blocks {
			for _, instr := range b.Instrs {
				switch x := instr.(type) {
				case *ssa.FieldAddr:
					if f, _ := c11FieldOf(x.X.Type(), x.Field); f != nil {
						if _, ok := out[f]; !ok {
							out[f] = fn.String()
						}
					}
				case *ssa.Field:
					if f, _ := c11FieldOf(x.X.Type(), x.Field); f != nil {
						if _, ok := out[f]; !ok {
							out[f] = fn.String()
						}
					}
				case *ssa.MakeClosure:
					if cf, ok := x.Fn.(*ssa.Function); ok {
						walk(cf, depth+1)
					}
				case ssa.CallInstruction:
					if callee := x.Common().StaticCallee(); callee != nil {
						walk(callee, depth+1)
					}
				}
			}
		}
	}
	walk(root, 0)
	return out
}

type c11Impl struct {
	named  *types.Named
	method *types.Func // Inherit
	role   string      // "filter" | "object"
	param  int         // index of the predecessor parameter in the signature (without receiver)
}

// c11InheritImpls resolves every implementation of Inherit by interface satisfaction.
func c11InheritImpls(c *core.Ctx) []c11Impl {
	filterT := namedType(c, "pkg/filters", "Filter")
	objT := namedType(c, "pkg/supervisor", "Object")
	ctrlT := namedType(c, "pkg/supervisor", "Controller")
	trafT := namedType(c, "pkg/supervisor", "TrafficObject")
	if filterT == nil || objT == nil || ctrlT == nil || trafT == nil {
		return nil
	}
	var out []c11Impl
	for _, pkg := range c.Prog.Module {
		scope := pkg.Types.Scope()
		for _, name := range scope.Names() {
			tn, ok := scope.Lookup(name).(*types.TypeName)
			if !ok || tn.IsAlias() {
				continue
			}
			named, ok := tn.Type().(*types.Named)
			if !ok || types.IsInterface(named) || named.TypeParams().Len() > 0 {
				continue
			}
			ptr := types.NewPointer(named)
			role := ""
			var predT types.Type
			switch {
			case types.Implements(ptr, filterT.Underlying().(*types.Interface)) || types.Implements(named, filterT.Underlying().(*types.Interface)):
				role, predT = "filter", filterT
			case types.Implements(ptr, ctrlT.Underlying().(*types.Interface)) || types.Implements(ptr, trafT.Underlying().(*types.Interface)):
				role, predT = "object", objT
			default:
				continue
			}
			obj, _, _ := types.LookupFieldOrMethod(ptr, true, pkg.Types, "Inherit")
			m, ok := obj.(*types.Func)
			if !ok {
				continue
			}
			sig := m.Type().(*types.Signature)
			idx := -1
			for i := 0; i < sig.Params().Len(); i++ {
				if types.Identical(sig.Params().At(i).Type(), predT) {
					idx = i
				}
			}
			if idx < 0 {
				c.Errorf("R-C11-3: anchor: %s.Inherit has no parameter of the predecessor interface type", named.Obj().Name())
				continue
			}
			// only methods declared in the module with a body (mocks in test files are not loaded)
			out = append(out, c11Impl{named: named, method: m, role: role, param: idx})
		}
	}
	sort.Slice(out, func(i, j int) bool { return out[i].method.FullName() < out[j].method.FullName() })
	return out
}

func c11Inherit(c *core.Ctx) {
	impls := c11InheritImpls(c)
	if !c.RequireCount("R-C11-3", "Inherit implementations (filters.Filter, supervisor.Controller, supervisor.TrafficObject)", len(impls), 39) {
		return
	}
	prog, _ := c.Prog.SSA()
	touching := 0
	for _, im := range impls {
		rel := relPkg(im.named.Obj().Pkg().Path())
		cons := fname(rel, im.named.Obj().Name(), "Inherit")
		fn := prog.FuncValue(im.method)
		if fn == nil || len(fn.Blocks) == 0 {
			c.Errorf("R-C11-3: anchor: no SSA body for %s", im.method.FullName())
			continue
		}
		c.Count("functions_analysed", 1)
		t := &c11Taint{memo: map[string]*c11Summary{}, stores: map[token.Pos]*c11PredStore{}, opaque: map[string]bool{}}
		// fn.Params: receiver first
		t.run(fn, map[int]*c11Origin{im.param + 1: {path: "previousGeneration"}}, nil, 0)
		c.Count("ssa_functions_in_inherit_trees", len(t.memo))

		// request path of the kind
		var reads map[*types.Var]string
		hobj, _, _ := types.LookupFieldOrMethod(types.NewPointer(im.named), true, im.named.Obj().Pkg(), "Handle")
		if hm, ok := hobj.(*types.Func); ok {
			if hf := prog.FuncValue(hm); hf != nil && len(hf.Blocks) > 0 {
				reads = c11ReadSet(hf)
			}
		}
		if im.role == "filter" && reads == nil {
			c.Errorf("R-C11-3: anchor: filter kind %s has no Handle body", cons)
			continue
		}
		var bad []*c11PredStore
		benign := 0
		var ps []token.Pos
		for p := range t.stores {
			ps = append(ps, p)
		}
		sort.Slice(ps, func(i, j int) bool { return ps[i] < ps[j] })
		for _, p := range ps {
			s := t.stores[p]
			if reads == nil || s.field == nil {
				bad = append(bad, s)
				continue
			}
			if _, ok := reads[s.field]; ok {
				bad = append(bad, s)
			} else {
				benign++
			}
		}
		if len(t.memo) > 1 || len(t.stores) > 0 {
			touching++
		}
		if len(bad) == 0 {
			detail := "no store through a value derived from the predecessor parameter"
			if benign > 0 {
				detail = sprintf("%d store(s) through the predecessor, none to a field the request path (Handle call tree) reads", benign)
			}
			c.Discharge("R-C11-3", cons+"|predecessor not mutated", c.Prog.Rel(im.method.Pos()), detail)
			continue
		}
		seen := map[string]bool{}
		for _, s := range bad {
			fieldName := "the predecessor object itself"
			if s.field != nil {
				fieldName = s.owner + "." + s.field.Name()
			}
			k := cons + "|predecessor field " + fieldName
			if seen[k] {
				continue
			}
			seen[k] = true
			where := "every method of the kind may read it"
			if reads != nil && s.field != nil {
				where = "read on the request path in " + c11Short(reads[s.field])
			}
			c.Violate("R-C11-3", k, c.Prog.Rel(s.pos),
				sprintf("Inherit writes %s of the previous generation (%s in %s, access path %s); %s: a request that still runs on the old generation (it stays published until the new one is stored, and in-flight requests keep it) observes the overwritten value — for a pointer set to nil that is a nil dereference",
					fieldName, s.how, c11Short(s.fn.String()), s.path, where))
		}
	}
	c.Stats["R-C11-3:implementations that pass predecessor state on"] = touching
}

func c11Short(s string) string { return strings.ReplaceAll(s, Mod, "") }
