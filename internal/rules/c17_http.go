package rules

import (
	"go/ast"
	"go/token"
	"go/types"
	"strings"

	"verif/internal/core"
	"verif/internal/flow"
)

// R-C17-3: every serve loop of pkg/object/httpserver is capped; reload forwards the cap.

const c17HTTP3 = "github.com/lucas-clemente/quic-go/http3"

// c17ServeKind classifies a callee as a serve-loop entry point of net/http or http3:
// "listener" (serves a listener handed in), "self" (creates its own listener), "" (other).
func c17ServeKind(fo *types.Func) string {
	if fo == nil || fo.Pkg() == nil {
		return ""
	}
	p := fo.Pkg().Path()
	if p != "net/http" && p != c17HTTP3 {
		return ""
	}
	switch fo.Name() {
	case "Serve", "ServeTLS", "ServeListener":
		return "listener"
	case "ListenAndServe", "ListenAndServeTLS", "ListenAndServeQUIC":
		return "self"
	}
	return ""
}

// c17ShortCallee renders "(*net/http.Server).Serve" → kept as is, with the quic path shortened.
func c17ShortCallee(fo *types.Func) string {
	return strings.ReplaceAll(fo.FullName(), c17HTTP3, "http3")
}

func c17Serve(c *core.Ctx) {
	pkg := c.Prog.Pkg(c17HS)
	if pkg == nil {
		c.Errorf("R-C17-3: anchor: package %s not loaded", c17HS)
		return
	}
	hs := c17ResolveHS(c)
	if hs == nil {
		return
	}
	maxF, llField := hs.maxF, hs.llField

	type site struct {
		f    *flow.Func
		decl string
		call *ast.CallExpr
		fo   *types.Func
		kind string
	}
	var sites []site
	var news []site // NewLimitListener call sites
	funcs := map[*types.Func]*flow.Func{}
	for _, file := range pkg.Syntax {
		for _, d := range file.Decls {
			fd, ok := d.(*ast.FuncDecl)
			if !ok || fd.Body == nil {
				continue
			}
			f := flow.NewFunc(pkg, fd)
			if fo := c17FuncObj(f); fo != nil {
				funcs[fo] = f
			}
			for _, call := range calls(fd.Body, true) {
				fo := c17CalleeFunc(f, call)
				if k := c17ServeKind(fo); k != "" {
					sites = append(sites, site{f, declName(pkg, fd), call, fo, k})
				}
				if fo != nil && fo.FullName() == Mod+c17LL+".NewLimitListener" {
					news = append(news, site{f, declName(pkg, fd), call, fo, "new"})
				}
			}
		}
	}
	if !c.RequireCount("R-C17-3", "serve-loop call sites (net/http + http3) in httpserver", len(sites), 3) {
		return
	}

	// does the value of expression e (in function f) flow from NewLimitListener?
	var capped func(f *flow.Func, e ast.Expr, depth int) bool
	capped = func(f *flow.Func, e ast.Expr, depth int) bool {
		e = c17StripConv(f, e)
		if tv := f.Info.Types[e]; tv.Type != nil && c17IsLimiterType(tv.Type) {
			return true
		}
		if call, ok := e.(*ast.CallExpr); ok {
			fo := c17CalleeFunc(f, call)
			return fo != nil && fo.Pkg() != nil && fo.Pkg().Path() == Mod+c17LL
		}
		if depth > 3 {
			return false
		}
		obj, _ := c17Obj(f, e).(*types.Var)
		if obj == nil {
			return false
		}
		if isParam(f, obj) {
			// every call site of f in the package must pass a capped listener
			idx := -1
			i := 0
			for _, fld := range f.Type.Params.List {
				for _, nm := range fld.Names {
					if f.Info.Defs[nm] == types.Object(obj) {
						idx = i
					}
					i++
				}
			}
			self := c17FuncObj(f)
			if idx < 0 || self == nil {
				return false
			}
			n := 0
			ok := true
			for _, g := range funcs {
				for _, call := range calls(g.Body, true) {
					if c17CalleeFunc(g, call) == self && idx < len(call.Args) {
						n++
						if !capped(g, call.Args[idx], depth+1) {
							ok = false
						}
					}
				}
			}
			return n > 0 && ok
		}
		// local variable: every assignment must be capped
		n := 0
		ok := true
		ast.Inspect(f.Body, func(nd ast.Node) bool {
			switch as := nd.(type) {
			case *ast.AssignStmt:
				for i, l := range as.Lhs {
					if c17Obj(f, l) != types.Object(obj) {
						continue
					}
					n++
					if len(as.Lhs) != len(as.Rhs) || !capped(f, as.Rhs[i], depth+1) {
						ok = false
					}
				}
			case *ast.ValueSpec:
				for i, nm := range as.Names {
					if f.Info.Defs[nm] != types.Object(obj) {
						continue
					}
					if i < len(as.Values) {
						n++
						if !capped(f, as.Values[i], depth+1) {
							ok = false
						}
					}
				}
			}
			return true
		})
		return n > 0 && ok
	}

	for _, s := range sites {
		cons := s.decl + "|" + c17ShortCallee(s.fo) + " capped"
		switch s.kind {
		case "self":
			what := "net/http"
			if s.fo.Pkg().Path() == c17HTTP3 {
				what = "HTTP/3 (QUIC)"
			}
			c.Violate("R-C17-3", cons, pos(c, s.call),
				sprintf("%s creates its own %s listener: no LimitListener sits between the socket and the server, so Spec.MaxConnections is not enforced for this server (any number of clients is served concurrently) and a later change of maxConnections has no effect on it", c17ShortCallee(s.fo), what))
		case "listener":
			// Serve(l) / ServeTLS(l, ...) / ServeListener(l): the listener is the first argument
			if len(s.call.Args) == 0 {
				c.Undecide("R-C17-3", cons, pos(c, s.call), "cannot identify the listener argument")
				continue
			}
			arg := s.call.Args[0]
			c.Check(capped(s.f, arg, 0), "R-C17-3", cons, pos(c, s.call),
				"the served listener is a *LimitListener (flows from NewLimitListener)",
				"the listener handed to "+c17ShortCallee(s.fo)+" does not flow from NewLimitListener: connections are accepted without counting them against Spec.MaxConnections")
		}
	}

	// NewLimitListener sites: sized by Spec.MaxConnections, result recorded in runtime.limitListener
	if !c.RequireCount("R-C17-3", "NewLimitListener call sites in httpserver", len(news), 1) {
		return
	}
	for _, s := range news {
		f := s.f
		sized := false
		if len(s.call.Args) == 2 {
			if fld := c17Field(f, c17StripConv(f, s.call.Args[1])); fld == maxF {
				sized = true
			}
		}
		c.Check(sized, "R-C17-3", s.decl+"|listener sized by MaxConnections", pos(c, s.call),
			"NewLimitListener(_, <spec>.MaxConnections)",
			"the limit listener is not sized by Spec.MaxConnections: the configured cap is not the enforced cap")

		// recorded for reload on every path that goes on to serve it
		pm := parentMap(f.Body)
		var resObj types.Object
		if as, ok := pm[s.call].(*ast.AssignStmt); ok && len(as.Lhs) == 1 && len(as.Rhs) == 1 {
			if fld := c17Field(f, as.Lhs[0]); fld == llField {
				c.Discharge("R-C17-3", s.decl+"|listener recorded for reload", pos(c, s.call), "NewLimitListener result assigned to runtime.limitListener directly")
				continue
			}
			resObj = c17Obj(f, as.Lhs[0])
		}
		if resObj == nil {
			c.Violate("R-C17-3", s.decl+"|listener recorded for reload", pos(c, s.call),
				"the new LimitListener is not kept: reload cannot forward a changed maxConnections to it")
			continue
		}
		res := analyze(c, f, flow.Config{NoHavoc: true,
			OnCall: func(st *flow.State, call *ast.CallExpr, callee types.Object, deferred bool) {
				if call == s.call {
					st.Set("ev:c17:created", flow.True)
					st.Set("ev:c17:stored", flow.False)
				}
			},
			OnNode: func(st *flow.State, n ast.Node) {
				as, ok := n.(*ast.AssignStmt)
				if !ok || len(as.Lhs) != len(as.Rhs) {
					return
				}
				for i, l := range as.Lhs {
					if c17Field(f, l) == llField && st.Is("ev:c17:created", flow.True) {
						if c17Obj(f, c17StripConv(f, as.Rhs[i])) == resObj {
							st.Set("ev:c17:stored", flow.True)
						} else {
							st.Set("ev:c17:stored", flow.False)
						}
					}
				}
			}})
		if res == nil {
			continue
		}
		ok := true
		var badSt *flow.State
		n := 0
		for _, ex := range res.Exits {
			if ex.State.Is("ev:c17:created", flow.True) {
				n++
				if !ex.State.Is("ev:c17:stored", flow.True) {
					ok, badSt = false, ex.State
				}
			}
		}
		if n == 0 {
			ok = false
		}
		c.Check(ok, "R-C17-3", s.decl+"|listener recorded for reload", pos(c, s.call),
			sprintf("%d exits after NewLimitListener have stored it in runtime.limitListener", n),
			"the new LimitListener is not stored in runtime.limitListener: reload keeps resizing a stale (or no) listener, so a run-time change of maxConnections never reaches the listener that is actually serving", witness(badSt)...)
	}

	// LimitListener.SetMaxConnection forwards its parameter to Semaphore.SetMaxCount
	if f := fn(c, c17LL, "LimitListener", "SetMaxConnection"); f != nil {
		cons := fname(c17LL, "LimitListener", "SetMaxConnection")
		ok := false
		var at ast.Node = f.Body
		// anywhere in the reach (the conversion / the call may sit in a helper); the argument is the
		// parameter itself, a conversion of it, or a local / helper parameter that names such a value
		fbind := c17NewBind(f, 2)
		for _, g := range fbind.funcs {
			for _, call := range calls(g.Body, false) {
				if c17IsSemCall(g, call, "SetMaxCount") && len(call.Args) == 1 {
					at = call
					if v, isVar := fbind.canonObj(call.Args[0]).(*types.Var); isVar && isParam(f, v) {
						ok = true
					}
				}
			}
		}
		c.Check(ok, "R-C17-3", cons+"|forwards to SetMaxCount", pos(c, at),
			"SetMaxCount(int64(n)) with n the parameter",
			"SetMaxConnection does not hand its parameter to Semaphore.SetMaxCount: a run-time change of maxConnections is not applied")
		if ok {
			c17SetMaxPaths(c, f, cons)
		}
	}
}

// c17IsLimiterType: a (pointer to a) named type declared in pkg/util/limitlistener. Its fields are
// unexported, so outside that package a non-nil value can only come from its constructors.
func c17IsLimiterType(t types.Type) bool {
	if p, ok := t.(*types.Pointer); ok {
		t = p.Elem()
	}
	n, ok := t.(*types.Named)
	return ok && n.Obj().Pkg() != nil && n.Obj().Pkg().Path() == Mod+c17LL
}

// c17HSRoles resolves the httpserver anchors by role: the struct that owns the *LimitListener field
// (runtime), its *Spec field, the function that creates the limit listener (startServer) and the
// reload entry point.
type c17HSRoles struct {
	rt      *types.Named
	llField *types.Var
	specF   *types.Var
	maxF    *types.Var
	start   map[*types.Func]bool // functions calling NewLimitListener
}

func c17ResolveHS(c *core.Ctx) *c17HSRoles {
	pkg := c.Prog.Pkg(c17HS)
	if pkg == nil {
		c.Errorf("R-C17-3: anchor: package %s not loaded", c17HS)
		return nil
	}
	r := &c17HSRoles{start: map[*types.Func]bool{}}
	r.maxF = structField(c, c17HS, "Spec", "MaxConnections")
	if r.maxF == nil {
		return nil
	}
	scope := pkg.Types.Scope()
	var cands []*types.Named
	for _, name := range scope.Names() {
		if tn, ok := scope.Lookup(name).(*types.TypeName); ok {
			if n, ok := tn.Type().(*types.Named); ok && len(c17FieldsByType(n, c17LLT)) > 0 {
				cands = append(cands, n)
			}
		}
	}
	if len(cands) != 1 {
		c.Errorf("R-C17-3: anchor: %d struct types of %s hold a *LimitListener, expected 1 (the server runtime)", len(cands), c17HS)
		return nil
	}
	r.rt = cands[0]
	ll := c17FieldsByType(r.rt, c17LLT)
	if len(ll) != 1 {
		c.Errorf("R-C17-3: anchor: %s.%s has %d fields of type *LimitListener, expected 1", c17HS, r.rt.Obj().Name(), len(ll))
		return nil
	}
	r.llField = ll[0]
	sp := c17FieldsByType(r.rt, "*"+Mod+c17HS+".Spec")
	if len(sp) != 1 {
		c.Errorf("R-C17-3: anchor: %s.%s has %d fields of type *Spec, expected 1", c17HS, r.rt.Obj().Name(), len(sp))
		return nil
	}
	r.specF = sp[0]
	for _, g := range funcsByRole(c, c17HS, func(g *flow.Func, fd *ast.FuncDecl) bool {
		for _, call := range calls(fd.Body, true) {
			if fo := c17CalleeFunc(g, call); fo != nil && fo.FullName() == Mod+c17LL+".NewLimitListener" {
				return true
			}
		}
		return false
	}) {
		if fo := c17FuncObj(g); fo != nil {
			r.start[fo] = true
		}
	}
	return r
}

// c17Reload: the reload entry point forwards nextSpec.MaxConnections to the existing listener.
func c17Reload(c *core.Ctx) {
	n0 := len(c.Errors)
	r := c17ResolveHS(c)
	if r == nil {
		c.Errors = c.Errors[:n0] // already reported by c17Serve
		return
	}
	rtName := r.rt.Obj().Name()
	isSetMax := func(g *flow.Func, call *ast.CallExpr) bool {
		fo := c17CalleeFunc(g, call)
		return fo != nil && fo.FullName() == "("+c17LLT+").SetMaxConnection"
	}
	// the entry point: the method named reload; otherwise the only method of the runtime type that
	// takes a *supervisor.Spec and whose reach forwards to SetMaxConnection
	f := fnOpt(c, c17HS, rtName, "reload")
	if f == nil {
		cands := funcsByRole(c, c17HS, func(g *flow.Func, fd *ast.FuncDecl) bool {
			if fd.Recv == nil || fd.Type.Params == nil {
				return false
			}
			takesSuper := false
			for _, fld := range fd.Type.Params.List {
				if tv := g.Info.Types[fld.Type]; tv.Type != nil && tv.Type.String() == "*"+Mod+"pkg/supervisor.Spec" {
					takesSuper = true
				}
			}
			if !takesSuper {
				return false
			}
			found := false
			inspectReach(g, 3, func(h *flow.Func, n ast.Node) bool {
				if call, ok := n.(*ast.CallExpr); ok && isSetMax(h, call) {
					found = true
				}
				return true
			})
			return found
		})
		if len(cands) != 1 {
			c.Errorf("R-C17-3: anchor: reload entry point of %s.%s not found (%d candidates by role)", c17HS, rtName, len(cands))
			return
		}
		f = cands[0]
	}
	fd, _ := f.Node.(*ast.FuncDecl)
	cons := fname(c17HS, rtName, fd.Name.Name) + "|forwards the new MaxConnections"
	bind := c17NewBind(f, 3)
	llField, specF, maxF := r.llField, r.specF, r.maxF

	// isNew: e denotes (something derived from) the next spec, i.e. from a parameter of the entry point
	var isNew func(e ast.Expr, depth int) bool
	isNew = func(e ast.Expr, depth int) bool {
		if depth > 6 {
			return false
		}
		e = bind.resolve(e)
		if o := c17Obj(f, e); o != nil {
			if bind.isRootParam(o) {
				return true
			}
			if _, isP := bind.owner[o]; isP {
				return false
			}
			rhs := bind.asg[o]
			if len(rhs) == 0 {
				return false
			}
			for _, x := range rhs {
				if x == nil || !isNew(x, depth+1) {
					return false
				}
			}
			return true
		}
		found := false
		ast.Inspect(e, func(n ast.Node) bool {
			if id, ok := n.(*ast.Ident); ok && !found {
				if o := c17Obj(f, id); o != nil {
					if _, isVar := o.(*types.Var); isVar && !o.(*types.Var).IsField() && isNew(id, depth+1) {
						found = true
					}
				}
			}
			return !found
		})
		return found
	}
	isLL := func(e ast.Expr) bool { return bind.fieldOf(e) == llField }
	isSpecPtr := func(t types.Type) bool {
		p, ok := t.(*types.Pointer)
		return ok && p.Elem().String() == Mod+c17HS+".Spec"
	}
	// nil-keys (in every vocabulary of the reach) of the listener and of the next spec, and the
	// "unchanged" comparisons nextSpec.MaxConnections == r.spec.MaxConnections
	var llNil, newSpecNil []string
	type cmp struct{ e *ast.BinaryExpr }
	var same []cmp
	seenKey := map[string]bool{}
	isMaxOf := func(e ast.Expr, base func(x ast.Expr) bool) bool {
		e = bind.resolve(e)
		sel, ok := e.(*ast.SelectorExpr)
		return ok && c17Field(f, sel) == maxF && base(sel.X)
	}
	isOldSpec := func(x ast.Expr) bool { return bind.fieldOf(x) == specF }
	isNewSpec := func(x ast.Expr) bool { return bind.fieldOf(x) != specF && isNew(x, 0) }
	for _, g := range bind.funcs {
		ast.Inspect(g.Body, func(n ast.Node) bool {
			e, ok := n.(ast.Expr)
			if !ok {
				return true
			}
			if be, ok := e.(*ast.BinaryExpr); ok && (be.Op == token.EQL || be.Op == token.NEQ) {
				if (isMaxOf(be.X, isNewSpec) && isMaxOf(be.Y, isOldSpec)) || (isMaxOf(be.Y, isNewSpec) && isMaxOf(be.X, isOldSpec)) {
					same = append(same, cmp{be})
				}
			}
			switch e.(type) {
			case *ast.Ident, *ast.SelectorExpr:
			default:
				return true
			}
			tv := f.Info.Types[e]
			if tv.Type == nil {
				return true
			}
			switch {
			case tv.Type.String() == c17LLT && isLL(e):
				if k := f.NilKey(e); !seenKey["l"+k] {
					seenKey["l"+k] = true
					llNil = append(llNil, k)
				}
			case isSpecPtr(tv.Type) && isNewSpec(e):
				if k := f.NilKey(e); !seenKey["s"+k] {
					seenKey["s"+k] = true
					newSpecNil = append(newSpecNil, k)
				}
			}
			return true
		})
	}

	var sets []*ast.CallExpr
	for _, g := range bind.funcs {
		for _, call := range calls(g.Body, false) {
			if isSetMax(g, call) {
				sets = append(sets, call)
			}
		}
	}
	const (
		evSet      = "ev:c17:setmax"
		evNoL      = "ev:c17:no-listener"
		evSpecNew  = "ev:c17:spec-is-new"
		evRestart  = "ev:c17:restarted-with-new-spec"
		evBadArg   = "ev:c17:setmax-wrong-arg"
		evBadRecv  = "ev:c17:setmax-wrong-recv"
		evNilSpecL = "ev:c17:next-spec-nil"
		evSame     = "ev:c17:cap-unchanged"
	)
	latch := func(st *flow.State) {
		for _, k := range llNil {
			if st.Is(k, flow.True) {
				st.Set(evNoL, flow.True)
			}
		}
		for _, k := range newSpecNil {
			if st.Is(k, flow.True) {
				st.Set(evNilSpecL, flow.True)
			}
		}
		// the cap is unchanged: only meaningful while r.spec still is the old spec
		if st.Get(evSpecNew) == flow.Unknown {
			for _, cm := range same {
				t := c17Truth(f, st, cm.e)
				if (cm.e.Op == token.EQL && t == flow.True) || (cm.e.Op == token.NEQ && t == flow.False) {
					st.Set(evSame, flow.True)
				}
			}
		}
	}
	isSpecStore := func(g *flow.Func, n ast.Node) bool {
		as, ok := n.(*ast.AssignStmt)
		if !ok {
			return false
		}
		for _, l := range as.Lhs {
			if c17Field(g, l) == specF {
				return true
			}
		}
		return false
	}
	inl := bind.inline(func(g *flow.Func, n ast.Node) bool {
		if isSpecStore(g, n) {
			return true
		}
		if call, ok := n.(*ast.CallExpr); ok {
			if isSetMax(g, call) {
				return true
			}
			if fo := c17CalleeFunc(g, call); fo != nil && r.start[fo.Origin()] {
				return true
			}
		}
		return false
	})
	res := analyze(c, f, flow.Config{
		Inline: func(call *ast.CallExpr, callee *types.Func) *flow.Func {
			if callee != nil && r.start[callee.Origin()] {
				return nil // the server start is modelled by an event
			}
			return inl(call, callee)
		},
		OnNode: func(st *flow.State, n ast.Node) {
			latch(st)
			as, ok := n.(*ast.AssignStmt)
			if !ok || len(as.Lhs) != len(as.Rhs) {
				return
			}
			for i, l := range as.Lhs {
				if c17Field(f, l) == specF {
					if isNew(as.Rhs[i], 0) {
						st.Set(evSpecNew, flow.True)
					} else {
						st.Set(evSpecNew, flow.False)
					}
				}
			}
		},
		AfterAssume: func(st *flow.State, cond ast.Expr, outcome bool) { latch(st) },
		OnCall: func(st *flow.State, call *ast.CallExpr, callee types.Object, deferred bool) {
			latch(st)
			fo, _ := callee.(*types.Func)
			if fo == nil {
				return
			}
			switch {
			case fo.FullName() == "("+c17LLT+").SetMaxConnection":
				// receiver: the recorded listener
				recvOK := false
				if sel, ok := ast.Unparen(call.Fun).(*ast.SelectorExpr); ok && isLL(sel.X) {
					recvOK = true
				}
				argOK := false
				if len(call.Args) == 1 {
					switch {
					case isMaxOf(call.Args[0], isNewSpec):
						argOK = true
					case isMaxOf(call.Args[0], isOldSpec) && st.Is(evSpecNew, flow.True):
						argOK = true
					}
				}
				if !recvOK {
					st.Set(evBadRecv, flow.True)
				}
				if !argOK {
					st.Set(evBadArg, flow.True)
				}
				if recvOK && argOK {
					st.Set(evSet, flow.True)
				}
			case r.start[fo.Origin()]:
				if st.Is(evSpecNew, flow.True) {
					st.Set(evRestart, flow.True)
				}
			}
		},
	})
	if res == nil {
		return
	}
	ok := true
	why := ""
	var badSt *flow.State
	var at ast.Node = f.Body
	n := 0
	usedSame := false
	for _, ex := range res.Exits {
		if ex.Kind != flow.ExitReturn {
			continue
		}
		st := ex.State
		n++
		switch {
		case st.Is(evBadArg, flow.True):
			ok, why, badSt, at = false, "SetMaxConnection is called with something other than the NEW spec's MaxConnections (e.g. the old r.spec, or another field): the listener keeps or gets a wrong cap after an update", st, ex.At
		case st.Is(evBadRecv, flow.True):
			ok, why, badSt, at = false, "SetMaxConnection is called on a listener other than the one recorded in the runtime", st, ex.At
		case st.Is(evSet, flow.True), st.Is(evNoL, flow.True), st.Is(evNilSpecL, flow.True), st.Is(evRestart, flow.True):
		case st.Is(evSame, flow.True):
			usedSame = true
		default:
			ok, why, badSt, at = false, "reload can finish with an existing listener and a non-nil next spec without forwarding nextSpec.MaxConnections to SetMaxConnection (and without restarting the server with the new spec, and not because the cap is known to be unchanged): a run-time change of maxConnections is silently ignored", st, ex.At
		}
	}
	if usedSame && ok {
		// the "unchanged" shortcut compares with r.spec: r.spec must then follow every applied spec
		for _, ex := range res.Exits {
			st := ex.State
			if ex.Kind == flow.ExitReturn && (st.Is(evSet, flow.True) || st.Is(evSame, flow.True)) && !st.Is(evSpecNew, flow.True) {
				ok, why, badSt, at = false, "reload skips SetMaxConnection when nextSpec.MaxConnections equals r.spec.MaxConnections, but an exit that applied (or skipped) the cap does not store the next spec in r.spec: the value compared against goes stale and a later change back to it is skipped, leaving the listener with a larger cap than configured", st, ex.At
			}
		}
	}
	if len(sets) > 0 {
		at = sets[0]
	}
	if n == 0 {
		ok, why = false, "reload has no normal exit"
	}
	c.Check(ok, "R-C17-3", cons, pos(c, at),
		sprintf("all %d exits: SetMaxConnection(nextSpec.MaxConnections) on the recorded listener, or no listener yet, or nil next spec, or restart with the new spec, or cap unchanged w.r.t. r.spec (kept in sync)", n),
		why, witness(badSt)...)
}

// c17SetMaxPaths: every exit of SetMaxConnection has forwarded the parameter to SetMaxCount, or
// returned early because the parameter equals a cached field that is kept in sync: compared before
// it is stored on that path, stored from the parameter on every forwarding path, and written nowhere
// else except consistently with the semaphore's initial capacity in the constructor literal.
func c17SetMaxPaths(c *core.Ctx, f *flow.Func, cons string) {
	key := cons + "|forwards on every path"
	pbind := c17NewBind(f, 2)
	isP := func(e ast.Expr) bool {
		v, ok := pbind.canonObj(e).(*types.Var)
		return ok && isParam(f, v)
	}
	type cmp struct {
		e   *ast.BinaryExpr
		fld *types.Var
	}
	var cmps []cmp
	ast.Inspect(f.Body, func(n ast.Node) bool {
		be, ok := n.(*ast.BinaryExpr)
		if !ok || (be.Op != token.EQL && be.Op != token.NEQ) {
			return true
		}
		switch {
		case isP(be.X) && c17Field(f, c17StripConv(f, be.Y)) != nil:
			cmps = append(cmps, cmp{be, c17Field(f, c17StripConv(f, be.Y))})
		case isP(be.Y) && c17Field(f, c17StripConv(f, be.X)) != nil:
			cmps = append(cmps, cmp{be, c17Field(f, c17StripConv(f, be.X))})
		}
		return true
	})
	const evFwd = "ev:c17:forwarded"
	sync := func(fld *types.Var) string { return "ev:c17:cache-stored:" + fld.Name() }
	res := analyze(c, f, flow.Config{NoHavoc: true,
		Inline: pbind.inline(func(g *flow.Func, n ast.Node) bool {
			call, ok := n.(*ast.CallExpr)
			return ok && c17IsSemCall(g, call, "SetMaxCount")
		}),
		OnCall: func(st *flow.State, call *ast.CallExpr, callee types.Object, deferred bool) {
			if c17IsSemCall(f, call, "SetMaxCount") && len(call.Args) == 1 && isP(call.Args[0]) {
				st.Set(evFwd, flow.True)
			}
		},
		OnNode: func(st *flow.State, n ast.Node) {
			as, ok := n.(*ast.AssignStmt)
			if !ok {
				return
			}
			for i, l := range as.Lhs {
				if fld := c17Field(f, l); fld != nil {
					if len(as.Lhs) == len(as.Rhs) && as.Tok == token.ASSIGN && isP(as.Rhs[i]) {
						st.Set(sync(fld), flow.True)
					} else {
						st.Set(sync(fld), flow.False)
					}
				}
			}
		}})
	if res == nil {
		return
	}
	var bad *flow.State
	var badAt ast.Node
	why := ""
	shortcut := map[*types.Var]bool{}
	nFwd := 0
	for _, ex := range res.Exits {
		st := ex.State
		if st.Is(evFwd, flow.True) {
			nFwd++
			continue
		}
		var via *types.Var
		for _, cm := range cmps {
			t := c17Truth(f, st, cm.e)
			if (cm.e.Op == token.EQL && t == flow.True) || (cm.e.Op == token.NEQ && t == flow.False) {
				via = cm.fld
			}
		}
		switch {
		case via == nil:
			if bad == nil {
				bad, badAt, why = st, ex.At, "SetMaxConnection can return without forwarding its parameter to Semaphore.SetMaxCount (and not because the value is known to be unchanged): the run-time change of maxConnections is silently dropped on that path"
			}
		case st.Get(sync(via)) != flow.Unknown:
			if bad == nil {
				bad, badAt, why = st, ex.At, "the 'unchanged' shortcut compares the parameter with "+via.Name()+" after "+via.Name()+" has been overwritten on the same path: the comparison says nothing about the capacity actually applied"
			}
		default:
			shortcut[via] = true
		}
	}
	for fld := range shortcut {
		for _, ex := range res.Exits {
			if ex.State.Is(evFwd, flow.True) && !ex.State.Is(sync(fld), flow.True) && bad == nil {
				bad, badAt = ex.State, ex.At
				why = "SetMaxConnection skips the resize when the parameter equals " + fld.Name() + ", but a path that applies a new limit does not store it in " + fld.Name() + ": the cached value goes stale, so a later change back to the stale value (e.g. 2 -> 5 -> 2) is skipped and the semaphore keeps the previous, larger capacity - more than maxConnections connections are accepted"
			}
		}
		// writes elsewhere in the package
		pkg := c.Prog.Pkg(c17LL)
		for _, file := range pkg.Syntax {
			for _, d := range file.Decls {
				fd, ok := d.(*ast.FuncDecl)
				if !ok || fd.Body == nil || ast.Node(fd) == f.Node {
					continue
				}
				g := flow.NewFunc(pkg, fd)
				ast.Inspect(fd.Body, func(n ast.Node) bool {
					switch x := n.(type) {
					case *ast.AssignStmt:
						for _, l := range x.Lhs {
							if c17Field(g, l) == fld && bad == nil {
								bad, badAt, why = nil, x, "the cached limit "+fld.Name()+" used by SetMaxConnection's 'unchanged' shortcut is also written in "+fd.Name.Name+": it need not equal the capacity applied to the semaphore"
							}
						}
					case *ast.IncDecStmt:
						if c17Field(g, x.X) == fld && bad == nil {
							bad, badAt, why = nil, x, "the cached limit "+fld.Name()+" is modified in "+fd.Name.Name
						}
					case *ast.CompositeLit:
						tv := g.Info.Types[x]
						if tv.Type == nil || tv.Type.String() != Mod+c17LL+".LimitListener" {
							return true
						}
						var semArg, cached string
						for _, el := range x.Elts {
							kv, ok := el.(*ast.KeyValueExpr)
							if !ok {
								continue
							}
							id, _ := kv.Key.(*ast.Ident)
							if id == nil {
								continue
							}
							if g.Info.Uses[id] == types.Object(fld) {
								cached = g.Render(c17StripConv(g, kv.Value))
							}
							if call, ok := ast.Unparen(kv.Value).(*ast.CallExpr); ok && len(call.Args) == 1 {
								if fo := c17CalleeFunc(g, call); fo != nil && fo.FullName() == Mod+c17Sem+".NewSem" {
									semArg = g.Render(c17StripConv(g, call.Args[0]))
								}
							}
						}
						if (cached == "" || cached != semArg) && bad == nil {
							bad, badAt, why = nil, x, "the constructor does not initialise the cached limit "+fld.Name()+" with the capacity handed to NewSem: SetMaxConnection's 'unchanged' shortcut compares against a value that is not the applied capacity"
						}
					}
					return true
				})
			}
		}
	}
	if nFwd == 0 && bad == nil {
		why = "no exit of SetMaxConnection forwards the parameter"
		badAt = f.Body
	}
	c.Check(why == "", "R-C17-3", key, pos(c, func() ast.Node {
		if badAt != nil {
			return badAt
		}
		return f.Body
	}()),
		sprintf("%d exits: all forward the parameter to SetMaxCount (or skip only against a cached limit that is kept in sync)", len(res.Exits)),
		why, witness(bad)...)
}

// c17RestartDecision: a change of MaxConnections alone never takes the restart path. reload applies a
// new cap to the live listener (R-C17-3 reload|forwards ...); a restart instead shuts the server down —
// established keep-alive connections are dropped and the new LimitListener starts counting at zero.
// The restart decision (the bool function over a *Spec that compares two Spec values; needRestartServer
// today) must therefore neutralise MaxConnections on BOTH operands of its comparison: directly on the
// copies, or inside a same-package normaliser the copies are produced by (by value or by pointer).
// A decision that compares individual fields must not compare MaxConnections.
func c17RestartDecision(c *core.Ctx) {
	specT := namedType(c, c17HS, "Spec")
	maxF := structField(c, c17HS, "Spec", "MaxConnections")
	if specT == nil || maxF == nil {
		return
	}
	cands := funcsByRole(c, c17HS, func(g *flow.Func, fd *ast.FuncDecl) bool {
		if fd.Type.Results == nil || len(fd.Type.Results.List) != 1 || fd.Type.Params == nil {
			return false
		}
		if tv, ok := g.Info.Types[fd.Type.Results.List[0].Type]; !ok || !types.Identical(tv.Type, types.Typ[types.Bool]) {
			return false
		}
		hasSpec := false
		for _, fl := range fd.Type.Params.List {
			if tv, ok := g.Info.Types[fl.Type]; ok && types.Identical(tv.Type, types.NewPointer(specT)) {
				hasSpec = true
			}
		}
		if !hasSpec {
			return false
		}
		// it decides over two specs: compares Spec values as a whole, or fields of two different specs
		return len(c11SpecComparisons(g, fd, specT, 0)) > 0 || fd.Name.Name == "needRestartServer"
	})
	if len(cands) > 1 {
		for _, g := range cands {
			if g.Node.(*ast.FuncDecl).Name.Name == "needRestartServer" {
				cands = []*flow.Func{g}
			}
		}
	}
	if len(cands) != 1 {
		c.Undecide("R-C17-3", c17HS+"|restart decision ignores MaxConnections", c.Prog.Rel(specT.Obj().Pos()),
			sprintf("expected one bool function taking a *Spec that compares two Spec values (the restart decision), found %d", len(cands)))
		return
	}
	f := cands[0]
	fd := f.Node.(*ast.FuncDecl)
	cons := declName(f.Pkg, fd) + "|a change of MaxConnections alone never restarts"
	c.Count("functions_analysed", 1)
	const consequence = ": an update that changes only maxConnections takes the restart path — reload shuts the server down (established keep-alive connections are dropped) and starts a new LimitListener whose count begins at zero, instead of resizing the live listener without dropping any connection"

	cmps := c11SpecComparisons(f, fd, specT, 0)
	if len(cmps) == 0 {
		// field-by-field decision: MaxConnections must not be among the compared fields
		var hit ast.Node
		inspectReach(f, 2, func(g *flow.Func, n ast.Node) bool {
			if be, ok := n.(*ast.BinaryExpr); ok && (be.Op == token.EQL || be.Op == token.NEQ) {
				if c17Field(g, c17StripConv(g, be.X)) == maxF || c17Field(g, c17StripConv(g, be.Y)) == maxF {
					hit = be
				}
			}
			return true
		})
		c.Check(hit == nil, "R-C17-3", cons, pos(c, fd.Name),
			"the restart decision compares individual fields and MaxConnections is not among them",
			"the restart decision compares MaxConnections of the running and the next spec"+consequence)
		return
	}
	if len(cmps) != 1 {
		c.Undecide("R-C17-3", cons, pos(c, fd.Name), sprintf("%d comparisons of Spec values in the restart decision: shape not modelled", len(cmps)))
		return
	}
	cm := cmps[0]

	// blanked(e): is MaxConnections set to the constant 0 on the Spec value e denotes at the comparison?
	// (yes / no / cannot tell)
	type tri int
	const (
		no tri = iota
		yes
		unknown
	)
	isZero := func(m map[*types.Var]string) bool { return m[maxF] == "0" }
	var blanked func(g *flow.Func, gd *ast.FuncDecl, e ast.Expr, before ast.Node, depth int) (tri, string)
	blanked = func(g *flow.Func, gd *ast.FuncDecl, e ast.Expr, before ast.Node, depth int) (tri, string) {
		e = ast.Unparen(e)
		if depth > 3 {
			return unknown, "nesting too deep"
		}
		switch x := e.(type) {
		case *ast.StarExpr:
			return no, ""
		case *ast.Ident:
			v, ok := g.Info.Uses[x].(*types.Var)
			if !ok || v.IsField() {
				return unknown, "operand " + x.Name + " is not a local"
			}
			if _, isStruct := v.Type().Underlying().(*types.Struct); !isStruct {
				return unknown, "operand " + x.Name + " is not a Spec value"
			}
			if m, _ := c11BlankedIn(g, gd.Body, v, before); isZero(m) {
				return yes, ""
			} else if val, touched := m[maxF]; touched {
				if strings.HasPrefix(val, "?") {
					return unknown, "MaxConnections of " + x.Name + " is assigned a non-constant value"
				}
				return no, ""
			}
			// not blanked here: maybe where the copy comes from
			var srcs []ast.Expr
			ast.Inspect(gd.Body, func(n ast.Node) bool {
				switch st := n.(type) {
				case *ast.AssignStmt:
					for i, l := range st.Lhs {
						if id, ok := l.(*ast.Ident); ok && (g.Info.Defs[id] == v || g.Info.Uses[id] == v) {
							if len(st.Lhs) == len(st.Rhs) {
								srcs = append(srcs, st.Rhs[i])
							} else {
								srcs = append(srcs, nil)
							}
						}
					}
				case *ast.ValueSpec:
					for i, id := range st.Names {
						if g.Info.Defs[id] == v && i < len(st.Values) {
							srcs = append(srcs, st.Values[i])
						}
					}
				}
				return true
			})
			if len(srcs) == 0 {
				return no, "" // a parameter passed by value: nothing blanked before
			}
			if len(srcs) != 1 || srcs[0] == nil {
				return unknown, x.Name + " is assigned several times"
			}
			return blanked(g, gd, srcs[0], before, depth+1)
		case *ast.CallExpr:
			callee, _ := g.Callee(x).(*types.Func)
			if callee == nil || callee.Pkg() != g.Pkg.Types {
				return unknown, "the copy is produced by " + types.ExprString(x.Fun) + ", which cannot be followed"
			}
			hd := declOf(g.Pkg, callee)
			if hd == nil {
				return unknown, "no body for " + callee.Name()
			}
			h := funcOf(g.Pkg, hd)
			// a normaliser: every return yields the same Spec-valued variable
			var rv *types.Var
			okRet, nRet := true, 0
			var retID *ast.Ident
			ast.Inspect(hd.Body, func(n ast.Node) bool {
				if _, isLit := n.(*ast.FuncLit); isLit {
					return false
				}
				if r, ok := n.(*ast.ReturnStmt); ok {
					nRet++
					if len(r.Results) != 1 {
						okRet = false
						return true
					}
					id, ok := ast.Unparen(r.Results[0]).(*ast.Ident)
					if !ok {
						okRet = false
						return true
					}
					v, _ := h.Info.Uses[id].(*types.Var)
					if v == nil || (rv != nil && v != rv) {
						okRet = false
					}
					rv, retID = v, id
				}
				return true
			})
			if !okRet || nRet == 0 || rv == nil {
				return unknown, "the helper " + callee.Name() + " does not simply return one (blanked) Spec variable"
			}
			return blanked(h, hd, retID, nil, depth+1)
		}
		return unknown, "operand " + types.ExprString(e) + " has a shape that cannot be followed"
	}
	ta, wa := blanked(f, fd, cm.a, cm.at, 0)
	tb, wb := blanked(f, fd, cm.b, cm.at, 0)
	switch {
	case ta == no || tb == no:
		side := types.ExprString(cm.a)
		if ta != no {
			side = types.ExprString(cm.b)
		}
		both := ""
		if ta == no && tb == no {
			both = " (on neither operand)"
		}
		c.Violate("R-C17-3", cons, pos(c, cm.at),
			"Spec.MaxConnections is not set to 0 on the operand "+side+both+" before the two specs are compared, so the copies differ whenever maxConnections differs"+consequence)
	case ta == unknown || tb == unknown:
		c.Undecide("R-C17-3", cons, pos(c, cm.at), "cannot tell whether MaxConnections is neutralised: "+wa+" "+wb)
	default:
		c.Discharge("R-C17-3", cons, pos(c, cm.at), "Spec.MaxConnections is set to 0 on both operands of the restart comparison")
	}
}
