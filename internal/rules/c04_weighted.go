package rules

// R-C04-8: weightedRandom never picks a zero-weight server when some weight is positive.
//
// The clause holds for the cumulative-subtraction algorithm because of four structural facts,
// each a necessary condition (breaking any of them lets a zero-weight server be chosen for some
// weight vector / draw):
//   (a) the total is the sum of the Weight of exactly the servers of the list (constructor);
//   (b) the draw is rand.Intn(total) — the bound is the total itself, not total+1, 2*total …
//       (with a larger bound a draw >= total is not covered by any server's interval and the
//       loop falls through to whatever follows it);
//   (c) the draw is decreased by each server's weight exactly once per iteration of a loop over
//       the receiver's list, and a server is returned from the loop only if it is the current
//       element and the *strict* test (draw < 0 after the subtraction, or draw < weight before
//       it) succeeded — with `<=` the draw 0 selects a leading zero-weight server;
//   (d) a server is returned without consulting its weight (uniform fallback) only where the
//       total is known not to be positive.
// Given (a)–(c) the statement after the loop is unreachable, so what stands there (panic or a
// defensive return) is deliberately not judged.
//
// A different algorithm (prefix sums + search, alias table) is reported as undecided (checker
// error): the rule would have to be rewritten for it, it is not a violation.
//
// Mutants (all compile, package tests pass): seeded change a (Intn(total+1) + fallback return)
// -> (b); `rand.Intn(2 * lb.totalWeight)` -> (b); `if randomWeight <= 0` -> (c); `continue` for
// unhealthy-looking servers before the subtraction -> (c); `return lb.Servers[0]` inside the
// loop -> (c); uniform fallback guarded by `lb.totalWeight <= 100` -> (d); constructor skipping
// servers (`if server.Weight > 50 { continue }`) / summing servers[1:] -> (a).
// Behaviour-preserving: panic replaced by `return lb.Servers[len(lb.Servers)-1]` with the bound
// unchanged; `total := lb.totalWeight; r := rand.Intn(total)`; test-before-subtract idiom
// `if r < server.Weight { return server }; r -= server.Weight`; index loop `for i := range
// lb.Servers { s := lb.Servers[i]; r = r - s.Weight; if 0 > r { return s } }` (and the same
// index form in the constructor). Stated limit: a constructor that accumulates through a helper
// or closure (not lexically in a range loop) is reported as undecided, not as a violation.

import (
	"go/ast"
	"go/constant"
	"go/token"
	"go/types"
	"strings"

	"golang.org/x/tools/go/cfg"
	"golang.org/x/tools/go/packages"

	"verif/internal/core"
	"verif/internal/flow"
)

func c04IntFields(t types.Type) []*types.Var {
	st, ok := t.Underlying().(*types.Struct)
	if !ok {
		return nil
	}
	var out []*types.Var
	for i := 0; i < st.NumFields(); i++ {
		f := st.Field(i)
		if f.Embedded() {
			continue
		}
		if b, ok := f.Type().Underlying().(*types.Basic); ok && b.Info()&types.IsInteger != 0 {
			out = append(out, f)
		}
	}
	return out
}

func c04Weighted(c *core.Ctx, info *c04Info) {
	c.Rule("R-C04-8", "weighted selection = cumulative subtraction over exactly the summed weights: the constructor's total is the sum of Weight over the list; the draw is rand.Intn(total) with the total itself as bound; inside a loop over the receiver's list the draw is decreased by the current server's weight once per iteration and a server is returned only if it is the current element and the strict test (draw < 0 after, or draw < weight before the subtraction) succeeded; a server is returned without consulting its weight only where the total is known non-positive")
	im := info.byPolicy["weightedRandom"]
	if im == nil {
		return
	}
	tf := c04IntFields(im.named)
	wf := c04IntFields(info.server)
	if len(tf) != 1 || len(wf) != 1 {
		c.Errorf("R-C04-8: anchor: expected exactly one integer field in %s (total) and in Server (weight), found %d and %d", im.named.Obj().Name(), len(tf), len(wf))
		return
	}
	total, weight := tf[0], wf[0]
	c04WeightedChoose(c, info, im, total, weight)
	c04WeightedSum(c, info, im, total, weight)
}

// selObj returns the field selected by e (nil if e is not a field selection).
func c04SelObj(info *types.Info, e ast.Expr) types.Object {
	sel, ok := ast.Unparen(e).(*ast.SelectorExpr)
	if !ok {
		return nil
	}
	if s := info.Selections[sel]; s != nil && s.Kind() == types.FieldVal {
		return s.Obj()
	}
	return nil
}

// resolve strips parentheses, integer conversions and stable single-definition locals.
func (q *c04Facts) resolve(e ast.Expr) ast.Expr {
	for i := 0; i < 8; i++ {
		e = ast.Unparen(e)
		switch x := e.(type) {
		case *ast.CallExpr:
			if q.isIntConv(x) {
				e = x.Args[0]
				continue
			}
		case *ast.Ident:
			if v, ok := c04ObjOf(q.f.Info, x).(*types.Var); ok && !q.unsafe[v] {
				if d, ok := q.defs[v]; ok && q.stable(d, 0) {
					e = d
					continue
				}
			}
		}
		return e
	}
	return e
}

func (q *c04Facts) nonposK(st *flow.State, k string) bool {
	for _, x := range q.byCanon[k] {
		r := q.f.Render(x)
		if st.Is("lt:0<"+r, flow.False) || st.Is("lt:"+r+"<1", flow.True) {
			return true
		}
	}
	return false
}

func c04WeightedChoose(c *core.Ctx, info *c04Info, im *c04Impl, total, weight *types.Var) {
	f := flow.NewFunc(im.pkg, im.decl)
	c.Count("functions_analysed", 1)
	q := c04NewFacts(f, im.list).withRecvList(im.decl)
	pm := parentMap(f.Body)
	isTotal := func(e ast.Expr) bool { return c04SelObj(f.Info, q.resolve(e)) == total }
	var mentionsTotal func(e ast.Expr, depth int) bool
	mentionsTotal = func(e ast.Expr, depth int) bool {
		found := false
		ast.Inspect(e, func(n ast.Node) bool {
			x, ok := n.(ast.Expr)
			if !ok || found {
				return !found
			}
			if isTotal(x) {
				found = true
			} else if id, isID := x.(*ast.Ident); isID && depth < 4 {
				// a stable alias of an expression that mentions the total
				if r := q.resolve(id); r != ast.Expr(id) && mentionsTotal(r, depth+1) {
					found = true
				}
			}
			return !found
		})
		return found
	}
	// ---- (b) the draw
	var draws []*ast.CallExpr
	totalK := ""
	ast.Inspect(f.Body, func(n ast.Node) bool {
		if x, ok := n.(ast.Expr); ok && totalK == "" && c04SelObj(f.Info, x) == total {
			totalK = q.canon(x, 0)
		}
		if call, ok := n.(*ast.CallExpr); ok && c04RandBound(f, call) && mentionsTotal(call.Args[0], 0) {
			draws = append(draws, call)
		}
		return true
	})
	consB := im.cons + "|draw bound = total weight"
	if len(draws) != 1 {
		c.Undecide("R-C04-8", consB, pos(c, im.decl), sprintf("found %d random draws bounded by the total weight, expected exactly 1 (a different selection algorithm needs a different rule)", len(draws)))
		return
	}
	draw := draws[0]
	boundOK := isTotal(draw.Args[0])
	if boundOK {
		c.Discharge("R-C04-8", consB, pos(c, draw), "the draw is bounded by the total-weight field itself: draw in [0,total)")
	} else {
		c.Violate("R-C04-8", consB, pos(c, draw), sprintf("the draw is bounded by `%s`, not by the total weight itself: a draw >= total lies in no server's weight interval, the selection loop falls through and the statement after it picks a server regardless of its weight — a zero-weight server is chosen although some weight is positive (and the weighted distribution is skewed)", types.ExprString(draw.Args[0])))
	}
	// the variable holding the draw
	var r types.Object
	var rid *ast.Ident
	var defStmt ast.Node
	{
		var ch ast.Node = draw
		p := pm[ch]
		for {
			if pe, ok := p.(*ast.ParenExpr); ok {
				ch, p = pe, pm[pe]
				continue
			}
			if ce, ok := p.(*ast.CallExpr); ok && q.isIntConv(ce) {
				ch, p = ce, pm[ce]
				continue
			}
			break
		}
		switch s := p.(type) {
		case *ast.AssignStmt:
			if len(s.Lhs) == 1 && len(s.Rhs) == 1 {
				if id, ok := s.Lhs[0].(*ast.Ident); ok && id.Name != "_" {
					rid, r, defStmt = id, c04ObjOf(f.Info, id), s
				}
			}
		case *ast.ValueSpec:
			if len(s.Names) == 1 && len(s.Values) == 1 {
				rid, r, defStmt = s.Names[0], c04ObjOf(f.Info, s.Names[0]), s
			}
		}
	}
	consC := im.cons + "|server returned only when the draw falls into its weight interval"
	if r == nil {
		if boundOK {
			c.Undecide("R-C04-8", consC, pos(c, draw), "the draw is not stored in a local variable; cannot follow the selection")
		}
		return
	}
	// ---- the selection may live in a helper that is handed the list and the draw
	// (`pickByWeight(lb.Servers, randomWeight)`): continue there
	f0, q0 := f, q
	var helperCall *ast.CallExpr
	modified := false
	ast.Inspect(f.Body, func(n ast.Node) bool {
		switch x := n.(type) {
		case *ast.AssignStmt:
			for _, l := range x.Lhs {
				if id, ok := ast.Unparen(l).(*ast.Ident); ok && c04ObjOf(f.Info, id) == r && ast.Node(x) != defStmt {
					modified = true
				}
			}
		case *ast.IncDecStmt:
			if id, ok := ast.Unparen(x.X).(*ast.Ident); ok && c04ObjOf(f.Info, id) == r {
				modified = true
			}
		}
		return true
	})
	if !modified {
		for _, call := range calls(f.Body, false) {
			fo, _ := f.Callee(call).(*types.Func)
			if fo == nil || fo.Pkg() != f.Pkg.Types {
				continue
			}
			hd := declOf(f.Pkg, fo)
			if hd == nil {
				continue
			}
			var params []*ast.Ident
			for _, fld := range hd.Type.Params.List {
				params = append(params, fld.Names...)
			}
			if len(params) != len(call.Args) {
				continue
			}
			var drawP, listP *ast.Ident
			for i, a := range call.Args {
				if id, ok := ast.Unparen(a).(*ast.Ident); ok && c04ObjOf(f.Info, id) == r {
					drawP = params[i]
				}
				if q.isList(a) {
					listP = params[i]
				}
			}
			// a method of the balancer itself takes the list from its receiver
			viaRecv := false
			if drawP != nil && listP == nil && hd.Recv != nil && len(hd.Recv.List) == 1 && len(hd.Recv.List[0].Names) == 1 && im.decl.Recv != nil && len(im.decl.Recv.List[0].Names) == 1 {
				if sel, ok := ast.Unparen(call.Fun).(*ast.SelectorExpr); ok {
					if id, ok := ast.Unparen(sel.X).(*ast.Ident); ok && c04ObjOf(f.Info, id) == f.Info.Defs[im.decl.Recv.List[0].Names[0]] {
						viaRecv = true
					}
				}
			}
			if drawP == nil || (listP == nil && !viaRecv) {
				continue
			}
			helperCall = call
			f = funcOf(f.Pkg, hd)
			c.Count("functions_analysed", 1)
			if viaRecv {
				q = c04NewFacts(f, im.list).withRecvList(hd)
				r, rid, defStmt = f.Info.Defs[drawP], drawP, nil
				totalK = ""
				break
			}
			q = c04NewFactsVar(f, nil, f.Info.Defs[listP])
			r, rid, defStmt = f.Info.Defs[drawP], drawP, nil
			totalK = ""
			break
		}
	}

	// ---- the walk may be written with a callback iterator: eachServer(lb.Servers, func(s *Server) bool {…})
	if helperCall == nil && c04WeightedVisitor(c, im, f, q, r, rid, defStmt, total, weight, totalK, consC) {
		return
	}

	// ---- (c) subtractions
	isR := func(e ast.Expr) bool {
		id, ok := ast.Unparen(e).(*ast.Ident)
		return ok && c04ObjOf(f.Info, id) == r
	}
	var loop *c04Loop
	elemWeight := func(e ast.Expr, l *c04Loop) bool {
		sel, ok := ast.Unparen(e).(*ast.SelectorExpr)
		if !ok || c04SelObj(f.Info, sel) != weight || l == nil {
			return false
		}
		return c04IsElem(f, q, sel.X, l)
	}
	listLoopOf := func(n ast.Node) *c04Loop {
		ls := enclosingLoops(f.Body, n)
		if len(ls) == 0 {
			return nil
		}
		// the innermost loop must be the loop over the receiver's list
		if l := c04LoopOf(f, ls[len(ls)-1]); l != nil && q.isList(l.x) {
			return l
		}
		return nil
	}
	var subs []ast.Stmt
	var badMod ast.Node
	ast.Inspect(f.Body, func(n ast.Node) bool {
		switch s := n.(type) {
		case *ast.AssignStmt:
			for i, l := range s.Lhs {
				if !isR(l) || ast.Node(s) == defStmt {
					continue
				}
				l0 := listLoopOf(s)
				ok := false
				if len(s.Lhs) == 1 && len(s.Rhs) == 1 {
					switch s.Tok {
					case token.SUB_ASSIGN:
						ok = elemWeight(s.Rhs[0], l0)
					case token.ASSIGN:
						if b, isB := ast.Unparen(s.Rhs[i]).(*ast.BinaryExpr); isB && b.Op == token.SUB && isR(b.X) {
							ok = elemWeight(b.Y, l0)
						}
					}
				}
				if ok && (loop == nil || loop.stmt == l0.stmt) {
					loop = l0
					subs = append(subs, s)
				} else if badMod == nil {
					badMod = s
				}
			}
		case *ast.IncDecStmt:
			if isR(s.X) && badMod == nil {
				badMod = s
			}
		case *ast.UnaryExpr:
			if s.Op == token.AND && isR(s.X) && badMod == nil {
				badMod = s
			}
		}
		return true
	})
	if badMod != nil {
		// the modification sits in a function literal handed to some call (a callback iterator the
		// rule does not recognise as a plain one): a form it cannot follow, not a violation
		for p := pm[badMod]; p != nil; p = pm[p] {
			if fl, ok := p.(*ast.FuncLit); ok {
				if _, isArg := pm[fl].(*ast.CallExpr); isArg {
					c.Undecide("R-C04-8", consC, pos(c, badMod), "the draw is modified inside a function literal handed to a helper that is not a plain iterator over the receiver's list; the rule cannot follow this form")
					return
				}
				break
			}
		}
		c.Violate("R-C04-8", consC, pos(c, badMod), "the draw is modified by something other than `draw -= <current server>.Weight` inside the loop over the receiver's list: the intervals the draw is compared with are no longer the servers' weights")
		return
	}
	if loop == nil || len(subs) == 0 {
		c.Undecide("R-C04-8", consC, pos(c, draw), "no loop over the receiver's list that subtracts the current server's weight from the draw (a different selection algorithm needs a different rule)")
		return
	}
	isSub := map[ast.Node]bool{}
	for _, s := range subs {
		isSub[s] = true
	}
	// renderings of `<elem>.Weight` inside the loop (for the test-before-subtract idiom)
	weightRenders := map[string]bool{}
	ast.Inspect(loop.body, func(n ast.Node) bool {
		if x, ok := n.(ast.Expr); ok && elemWeight(x, loop) {
			weightRenders[f.Render(ast.Unparen(x))] = true
		}
		return true
	})
	rR := f.Render(rid)
	type finding struct {
		at  ast.Node
		st  *flow.State
		why string
	}
	var bad *finding
	iterations := 0
	res := analyze(c, f, flow.Config{
		NoHavoc: true,
		Inline:  inlineSamePkg(f),
		OnBlock: func(st *flow.State, b *cfg.Block) {
			switch loop.phase(b) {
			case "body":
				st.Set("ev:in", flow.True)
				st.Set("ev:sub", flow.False)
			case "next":
				if st.Is("ev:in", flow.True) {
					iterations++
					if !st.Is("ev:sub", flow.True) && bad == nil {
						bad = &finding{loop.stmt, st, "an iteration of the selection loop can move on to the next server without subtracting the current server's weight from the draw: the draw is compared with a subset of the summed weights, so it can run past the last interval (fall-through) or select by the wrong intervals"}
					}
				}
				st.Set("ev:in", flow.Unknown)
				st.Set("ev:sub", flow.Unknown)
			case "done":
				st.Set("ev:after", flow.True)
				st.Set("ev:in", flow.Unknown)
				st.Set("ev:sub", flow.Unknown)
			}
		},
		OnNode: func(st *flow.State, n ast.Node) {
			if !isSub[n] {
				return
			}
			if st.Is("ev:sub", flow.True) && bad == nil {
				bad = &finding{n, st, "the current server's weight is subtracted from the draw twice in one iteration"}
			}
			st.Set("ev:sub", flow.True)
		},
	})
	if res == nil {
		return
	}
	c.RequireCount("R-C04-8", "abstract iterations of the weighted selection loop", iterations, 1)
	inLoop, uniform, after := 0, 0, 0
	var badD *finding
	for _, ex := range res.Exits {
		if ex.Kind != flow.ExitReturn || ex.Return == nil || len(ex.Return.Results) != 1 {
			continue
		}
		ret := ex.Return.Results[0]
		if f.Info.Types[ret].IsNil() {
			continue
		}
		st := ex.State
		switch {
		case contains(loop.body, ex.Return):
			inLoop++
			if bad != nil {
				continue
			}
			if !c04IsElem(f, q, ret, loop) {
				bad = &finding{ex.Return, st, "a server other than the current element of the selection loop is returned from inside the loop: it is chosen regardless of its own weight"}
				continue
			}
			ok := false
			if st.Is("ev:sub", flow.True) && st.Is("lt:"+rR+"<0", flow.True) {
				ok = true
			}
			if st.Is("ev:sub", flow.False) {
				for _, fact := range st.Facts() {
					if strings.HasPrefix(fact, "lt:"+rR+"<") && strings.HasSuffix(fact, "=T") {
						if weightRenders[strings.TrimSuffix(strings.TrimPrefix(fact, "lt:"+rR+"<"), "=T")] {
							ok = true
						}
					}
				}
			}
			if !ok {
				bad = &finding{ex.Return, st, "the current server is returned without the strict test `draw < 0` (after subtracting its weight) having succeeded: with `<=` or no test the draw 0 selects a leading server whose weight is 0 although another server has a positive weight"}
			}
		case st.Is("ev:after", flow.True):
			after++ // unreachable given (a)-(c); not judged
		default:
			uniform++
			if badD == nil && (totalK == "" || !q.nonposK(st, totalK)) {
				badD = &finding{ex.Return, st, "a server is returned without consulting its weight in a state where the total weight is not known to be <= 0: when some weight is positive a zero-weight server can be chosen"}
			}
		}
	}
	if bad != nil {
		c.Violate("R-C04-8", consC, pos(c, bad.at), bad.why, witness(bad.st)...)
	} else if inLoop == 0 {
		c.Violate("R-C04-8", consC, pos(c, loop.stmt), "the selection loop never returns a server")
	} else {
		c.Discharge("R-C04-8", consC, pos(c, loop.stmt), sprintf("%d abstract iterations all subtract the current weight once; %d in-loop returns of the current element under the strict test; %d fall-through returns (unreachable, not judged)", iterations, inLoop, after))
	}
	consD := im.cons + "|weight-blind choice only when no weight is positive"
	if helperCall != nil && badD == nil {
		// the weight-blind returns are those of ChooseServer itself that do not hand back the
		// helper's result
		var hv types.Object
		pm0 := parentMap(f0.Body)
		if as, ok := pm0[helperCall].(*ast.AssignStmt); ok && len(as.Lhs) == 1 {
			if id, ok := as.Lhs[0].(*ast.Ident); ok {
				hv = c04ObjOf(f0.Info, id)
			}
		}
		totalK0 := ""
		ast.Inspect(f0.Body, func(n ast.Node) bool {
			if x, ok := n.(ast.Expr); ok && totalK0 == "" && c04SelObj(f0.Info, x) == total {
				totalK0 = q0.canon(x, 0)
			}
			return true
		})
		res0 := analyze(c, f0, flow.Config{NoHavoc: true, Inline: inlineSamePkg(f0, f.Info.Defs[f.Node.(*ast.FuncDecl).Name])})
		if res0 == nil {
			return
		}
		uniform = 0
		for _, ex := range res0.Exits {
			if ex.Kind != flow.ExitReturn || ex.Return == nil || len(ex.Return.Results) != 1 {
				continue
			}
			ret := ast.Unparen(ex.Return.Results[0])
			if f0.Info.Types[ret].IsNil() || ret == ast.Expr(helperCall) {
				continue
			}
			if id, ok := ret.(*ast.Ident); ok && hv != nil && c04ObjOf(f0.Info, id) == hv {
				continue
			}
			uniform++
			if badD == nil && (totalK0 == "" || !q0.nonposK(ex.State, totalK0)) {
				badD = &finding{ex.Return, ex.State, "a server is returned without consulting its weight in a state where the total weight is not known to be <= 0: when some weight is positive a zero-weight server can be chosen"}
			}
		}
	}
	if badD != nil {
		c.Violate("R-C04-8", consD, pos(c, badD.at), badD.why, witness(badD.st)...)
	} else {
		c.Discharge("R-C04-8", consD, pos(c, im.decl), sprintf("%d weight-blind returns, all with total known <= 0", uniform))
	}
}

// c04Loop is a loop over all elements of a slice: `for i, v := range X`, `for i := range X`,
// or `for i := 0; i < len(X); i++` with i not modified in the body.
type c04Loop struct {
	stmt     ast.Stmt
	body     *ast.BlockStmt
	x        ast.Expr
	key, val types.Object
}

func c04LoopOf(f *flow.Func, st ast.Stmt) *c04Loop {
	switch l := st.(type) {
	case *ast.RangeStmt:
		out := &c04Loop{stmt: l, body: l.Body, x: l.X}
		if id, ok := l.Key.(*ast.Ident); ok && id.Name != "_" {
			out.key = c04ObjOf(f.Info, id)
		}
		if id, ok := l.Value.(*ast.Ident); ok && id.Name != "_" {
			out.val = c04ObjOf(f.Info, id)
		}
		return out
	case *ast.ForStmt:
		init, ok := l.Init.(*ast.AssignStmt)
		if !ok || len(init.Lhs) != 1 || len(init.Rhs) != 1 {
			return nil
		}
		id, ok := init.Lhs[0].(*ast.Ident)
		if v := f.Info.Types[init.Rhs[0]].Value; !ok || v == nil || constant.Sign(v) != 0 {
			return nil
		}
		i := c04ObjOf(f.Info, id)
		isI := func(e ast.Expr) bool {
			x, ok := ast.Unparen(e).(*ast.Ident)
			return ok && c04ObjOf(f.Info, x) == i
		}
		lenArg := func(e ast.Expr) ast.Expr {
			call, ok := ast.Unparen(e).(*ast.CallExpr)
			if !ok || len(call.Args) != 1 {
				return nil
			}
			if b, ok := f.Callee(call).(*types.Builtin); ok && b.Name() == "len" {
				return call.Args[0]
			}
			return nil
		}
		cond, ok := ast.Unparen(l.Cond).(*ast.BinaryExpr)
		if !ok {
			return nil
		}
		var x ast.Expr
		switch {
		case cond.Op == token.LSS && isI(cond.X):
			x = lenArg(cond.Y)
		case cond.Op == token.GTR && isI(cond.Y):
			x = lenArg(cond.X)
		case cond.Op == token.NEQ && isI(cond.X):
			x = lenArg(cond.Y)
		}
		post, ok := l.Post.(*ast.IncDecStmt)
		if x == nil || !ok || post.Tok != token.INC || !isI(post.X) {
			return nil
		}
		modified := false
		ast.Inspect(l.Body, func(n ast.Node) bool {
			switch s := n.(type) {
			case *ast.AssignStmt:
				for _, lh := range s.Lhs {
					if isI(lh) {
						modified = true
					}
				}
			case *ast.IncDecStmt:
				if isI(s.X) {
					modified = true
				}
			case *ast.UnaryExpr:
				if s.Op == token.AND && isI(s.X) {
					modified = true
				}
			}
			return true
		})
		if modified {
			return nil
		}
		return &c04Loop{stmt: l, body: l.Body, x: x, key: i}
	}
	return nil
}

// iteration phases of a c04Loop in the engine's block kinds
func (l *c04Loop) phase(b *cfg.Block) string {
	if b.Stmt != ast.Node(l.stmt) {
		return ""
	}
	switch b.Kind {
	case cfg.KindRangeBody, cfg.KindForBody:
		return "body"
	case cfg.KindRangeLoop, cfg.KindForPost:
		return "next"
	case cfg.KindRangeDone, cfg.KindForDone:
		return "done"
	}
	return ""
}

// c04IsElem: e denotes the current element of loop l (its value variable, list[key], or a
// local defined once in the body from one of those).
func c04IsElem(f *flow.Func, q *c04Facts, e ast.Expr, l *c04Loop) bool {
	if l == nil {
		return false
	}
	e = ast.Unparen(e)
	switch x := e.(type) {
	case *ast.Ident:
		o := c04ObjOf(f.Info, x)
		if l.val != nil && o == l.val {
			return true
		}
		if d, ok := q.defs[o]; ok && !q.unsafe[o] && contains(l.body, d) {
			if _, isIdent := ast.Unparen(d).(*ast.Ident); !isIdent {
				return c04IsElem(f, q, d, l)
			}
		}
	case *ast.IndexExpr:
		if l.key != nil {
			if id, ok := ast.Unparen(x.Index).(*ast.Ident); ok && c04ObjOf(f.Info, id) == l.key {
				return q.canon(x.X, 0) == q.canon(l.x, 0)
			}
		}
	}
	return false
}

// ---- (a) the constructor's sum

func c04WeightedSum(c *core.Ctx, info *c04Info, im *c04Impl, total, weight *types.Var) {
	cons := relPkg(im.named.Obj().Pkg().Path()) + "." + im.named.Obj().Name() + "." + total.Name() + "|sum of the list's weights"
	type store struct {
		pkg  *packages.Package
		fd   *ast.FuncDecl
		stmt ast.Node
	}
	var stores []store
	eachFunc(c, func(pkg *packages.Package, fd *ast.FuncDecl) {
		ast.Inspect(fd.Body, func(n ast.Node) bool {
			switch s := n.(type) {
			case *ast.AssignStmt:
				for _, l := range s.Lhs {
					if c04SelObj(pkg.TypesInfo, l) == total {
						stores = append(stores, store{pkg, fd, s})
					}
				}
			case *ast.IncDecStmt:
				if c04SelObj(pkg.TypesInfo, s.X) == total {
					stores = append(stores, store{pkg, fd, s})
				}
			case *ast.KeyValueExpr:
				if id, ok := s.Key.(*ast.Ident); ok && pkg.TypesInfo.Uses[id] == types.Object(total) {
					if v := pkg.TypesInfo.Types[s.Value].Value; v == nil || constant.Sign(v) != 0 {
						stores = append(stores, store{pkg, fd, s})
					}
				}
			}
			return true
		})
	})
	if !c.RequireCount("R-C04-8", "stores to the total-weight field", len(stores), 1) {
		return
	}
	// the accumulator: the field itself (`x.total += w`), or a local that is stored into the
	// field once (`total: sum` / `x.total = sum`) after having been accumulated
	s := stores[0]
	f := flow.NewFunc(s.pkg, s.fd)
	q := c04NewFacts(f, im.list)
	fail := func(at ast.Node, why string) {
		c.Violate("R-C04-8", cons, pos(c, at), why+": the draw bound no longer equals the sum of the weights the selection loop subtracts, so a draw can run past the last server (fall-through) or servers are selected by the wrong intervals")
	}
	isAcc := func(e ast.Expr) bool { return c04SelObj(f.Info, e) == types.Object(total) }
	var local types.Object
	var as *ast.AssignStmt
	accForm := func(x *ast.AssignStmt) ast.Expr { // the addend of an accumulating assignment
		if len(x.Lhs) != 1 || len(x.Rhs) != 1 || !isAcc(x.Lhs[0]) {
			return nil
		}
		switch x.Tok {
		case token.ADD_ASSIGN:
			return x.Rhs[0]
		case token.ASSIGN:
			if b, isB := ast.Unparen(x.Rhs[0]).(*ast.BinaryExpr); isB && b.Op == token.ADD {
				switch {
				case isAcc(b.X):
					return b.Y
				case isAcc(b.Y):
					return b.X
				}
			}
		}
		return nil
	}
	var finalStore ast.Node
	if len(stores) == 1 {
		var v ast.Expr
		switch x := s.stmt.(type) {
		case *ast.AssignStmt:
			if accForm(x) != nil {
				as = x
			} else if len(x.Lhs) == 1 && len(x.Rhs) == 1 && x.Tok == token.ASSIGN {
				v = x.Rhs[0]
			}
		case *ast.KeyValueExpr:
			v = x.Value
		}
		if id, ok := ast.Unparen(rhsOrNil(v)).(*ast.Ident); ok && as == nil {
			if lv, isVar := c04ObjOf(f.Info, id).(*types.Var); isVar && !lv.IsField() && lv.Parent() != lv.Pkg().Scope() {
				local, finalStore = lv, s.stmt
			}
		}
	}
	if local != nil {
		isAcc = func(e ast.Expr) bool {
			id, ok := ast.Unparen(e).(*ast.Ident)
			return ok && c04ObjOf(f.Info, id) == local
		}
		inits, accs, others := 0, 0, 0
		ast.Inspect(s.fd.Body, func(n ast.Node) bool {
			switch x := n.(type) {
			case *ast.AssignStmt:
				for i, l := range x.Lhs {
					if !isAcc(l) {
						continue
					}
					switch {
					case accForm(x) != nil:
						accs++
						as = x
					case len(x.Lhs) == len(x.Rhs) && f.Info.Types[x.Rhs[i]].Value != nil && constant.Sign(f.Info.Types[x.Rhs[i]].Value) == 0:
						inits++
					default:
						others++
					}
				}
			case *ast.ValueSpec:
				for i, id := range x.Names {
					if c04ObjOf(f.Info, id) != local {
						continue
					}
					if i < len(x.Values) {
						if v := f.Info.Types[x.Values[i]].Value; v == nil || constant.Sign(v) != 0 {
							others++
							continue
						}
					}
					inits++
				}
			case *ast.IncDecStmt:
				if isAcc(x.X) {
					others++
				}
			case *ast.UnaryExpr:
				if x.Op == token.AND && isAcc(x.X) {
					others++
				}
			}
			return true
		})
		if inits != 1 || accs != 1 || others != 0 {
			fail(finalStore, sprintf("the total weight is taken from local `%s`, which is not a zero-initialised sum accumulated by one `+= server.Weight` (%d initialisations, %d accumulations, %d other writes)", local.Name(), inits, accs, others))
			return
		}
	} else if len(stores) != 1 {
		x := stores[1]
		c.Violate("R-C04-8", cons, pos(c, x.stmt), sprintf("the total weight is stored at %d places; it must be accumulated once, by the constructor's loop over the list", len(stores)))
		return
	}
	if as == nil {
		if len(enclosingLoops(s.fd.Body, s.stmt)) == 0 {
			c.Undecide("R-C04-8", cons, pos(c, s.stmt), "the total weight is neither accumulated in a loop nor taken from a local sum (helper/closure or another summation shape): the rule has to be adapted, this is not a violation")
			return
		}
		fail(s.stmt, "the total weight is not accumulated by `total += server.Weight`")
		return
	}
	w := accForm(as)
	var accStmt ast.Stmt = as
	ls := enclosingLoops(s.fd.Body, as)
	if len(ls) == 0 {
		// `add := func(w int) { lb.total += w }` … `add(server.Weight)` in the loop: the call is
		// the accumulating statement, its argument the addend
		pm := parentMap(s.fd.Body)
		var lit *ast.FuncLit
		for p := pm[as]; p != nil; p = pm[p] {
			if l, ok := p.(*ast.FuncLit); ok {
				lit = l
				break
			}
		}
		if lit != nil && lit.Type.Params != nil && len(lit.Type.Params.List) == 1 && len(lit.Type.Params.List[0].Names) == 1 && len(lit.Body.List) == 1 {
			param := f.Info.Defs[lit.Type.Params.List[0].Names[0]]
			if id, ok := ast.Unparen(w).(*ast.Ident); ok && c04ObjOf(f.Info, id) == param {
				if v := c04LitVar(s.pkg, s.fd, lit); v != nil {
					var callStmts []*ast.ExprStmt
					ast.Inspect(s.fd.Body, func(n ast.Node) bool {
						if es, ok := n.(*ast.ExprStmt); ok {
							if call, ok := es.X.(*ast.CallExpr); ok && len(call.Args) == 1 {
								if cid, ok := ast.Unparen(call.Fun).(*ast.Ident); ok && f.Info.Uses[cid] == types.Object(v) {
									callStmts = append(callStmts, es)
								}
							}
						}
						return true
					})
					if len(callStmts) == 1 {
						accStmt = callStmts[0]
						w = callStmts[0].X.(*ast.CallExpr).Args[0]
						ls = enclosingLoops(s.fd.Body, accStmt)
					}
				}
			}
		}
	}
	if len(ls) == 0 {
		c.Undecide("R-C04-8", cons, pos(c, as), "the total weight is not accumulated lexically inside a loop (helper/closure or another summation shape): the rule has to be adapted, this is not a violation")
		return
	}
	var loop *c04Loop
	if len(ls) == 1 {
		loop = c04LoopOf(f, ls[0])
	}
	if loop == nil {
		fail(as, "the total weight is not accumulated inside a single loop over all servers of the list")
		return
	}
	wsel, ok := ast.Unparen(w).(*ast.SelectorExpr)
	if !ok || c04SelObj(f.Info, wsel) != weight || !c04IsElem(f, q, wsel.X, loop) {
		fail(as, sprintf("what is added to the total (`%s`) is not the Weight of the loop's current server", types.ExprString(w)))
		return
	}
	// the loop ranges over the very slice that becomes the list
	ranged := ast.Unparen(loop.x)
	sameList := q.isList(ranged)
	if id, isID := ranged.(*ast.Ident); isID && !sameList {
		obj := c04ObjOf(f.Info, id)
		ast.Inspect(s.fd.Body, func(n ast.Node) bool {
			switch x := n.(type) {
			case *ast.KeyValueExpr:
				if k, ok := x.Key.(*ast.Ident); ok && f.Info.Uses[k] == types.Object(im.list) {
					if v, ok := ast.Unparen(x.Value).(*ast.Ident); ok && c04ObjOf(f.Info, v) == obj {
						sameList = true
					}
				}
			case *ast.AssignStmt:
				for i, l := range x.Lhs {
					if c04SelObj(f.Info, l) == types.Object(im.list) && i < len(x.Rhs) {
						if v, ok := ast.Unparen(x.Rhs[i]).(*ast.Ident); ok && c04ObjOf(f.Info, v) == obj {
							sameList = true
						}
					}
				}
			}
			return true
		})
		if q.unsafe[obj] {
			sameList = false
		}
	}
	if !sameList {
		fail(loop.stmt, sprintf("the summing loop ranges over `%s`, which is not the slice installed as the balancer's list", types.ExprString(loop.x)))
		return
	}
	direct := false
	for _, st := range loop.body.List {
		if st == accStmt {
			direct = true
		}
	}
	top := false
	for _, st := range s.fd.Body.List {
		if st == loop.stmt {
			top = true
		}
	}
	skips := len(breaksOut(f, loop.stmt, labelOf(s.fd.Body, loop.stmt)))
	ast.Inspect(loop.body, func(n ast.Node) bool {
		if _, ok := n.(*ast.FuncLit); ok {
			return false
		}
		if b, ok := n.(*ast.BranchStmt); ok && b.Tok == token.CONTINUE {
			skips++
		}
		return true
	})
	// a local sum must reach the field unconditionally, after the loop
	storedOK := true
	if local != nil {
		storedOK = false
		for _, st := range s.fd.Body.List {
			if contains(st, finalStore) && st.Pos() > loop.stmt.End() {
				storedOK = true
			}
		}
	}
	switch {
	case !direct || skips > 0:
		fail(loop.stmt, "some servers of the list can be left out of the sum (conditional accumulation, continue/break/return in the summing loop)")
	case !top:
		fail(loop.stmt, "the summing loop is conditional")
	case !storedOK:
		fail(finalStore, "the local sum is stored into the total conditionally or before the summing loop")
	default:
		c.Discharge("R-C04-8", cons, pos(c, as), sprintf("%s: total = sum of <elem>.Weight, unconditional, in a loop over the slice installed as the list", declName(s.pkg, s.fd)))
	}
}

// c04PlainIterator: hd is `func h(list []T, visit func(T) bool)` (any parameter order) whose body is
// exactly one loop over all elements of list that calls visit(<current element>) once per
// iteration and stops when it returns false. Returns the positions of list and visit.
func c04PlainIterator(g *flow.Func, hd *ast.FuncDecl) (listIdx, visitIdx int, ok bool) {
	listIdx, visitIdx = -1, -1
	var params []*ast.Ident
	for _, fld := range hd.Type.Params.List {
		params = append(params, fld.Names...)
	}
	if len(hd.Body.List) != 1 {
		return -1, -1, false
	}
	st, isStmt := hd.Body.List[0].(ast.Stmt)
	if !isStmt {
		return -1, -1, false
	}
	loop := c04LoopOf(g, st)
	if loop == nil || len(loop.body.List) != 1 {
		return -1, -1, false
	}
	ifs, isIf := loop.body.List[0].(*ast.IfStmt)
	if !isIf || ifs.Init != nil || ifs.Else != nil || len(ifs.Body.List) != 1 {
		return -1, -1, false
	}
	switch x := ifs.Body.List[0].(type) {
	case *ast.ReturnStmt:
		if len(x.Results) != 0 {
			return -1, -1, false
		}
	case *ast.BranchStmt:
		if x.Tok != token.BREAK || x.Label != nil {
			return -1, -1, false
		}
	default:
		return -1, -1, false
	}
	not, isNot := ast.Unparen(ifs.Cond).(*ast.UnaryExpr)
	if !isNot || not.Op != token.NOT {
		return -1, -1, false
	}
	call, isCall := ast.Unparen(not.X).(*ast.CallExpr)
	if !isCall || len(call.Args) != 1 {
		return -1, -1, false
	}
	q := c04NewFacts(g, nil)
	if !c04IsElem(g, q, call.Args[0], loop) {
		return -1, -1, false
	}
	for i, p := range params {
		o := g.Info.Defs[p]
		if id, isID := ast.Unparen(call.Fun).(*ast.Ident); isID && c04ObjOf(g.Info, id) == o {
			visitIdx = i
		}
		if id, isID := ast.Unparen(loop.x).(*ast.Ident); isID && c04ObjOf(g.Info, id) == o && !q.unsafe[o] && q.defs[o] == nil {
			listIdx = i
		}
	}
	return listIdx, visitIdx, listIdx >= 0 && visitIdx >= 0
}

// c04WeightedVisitor judges obligations (c) and (d) when the selection loop is a function literal
// handed, with the receiver's list, to a plain iterator. The literal is the loop body: its
// parameter is the current element, `return true` moves on, `return false` stops the walk; the
// chosen server is recorded in a captured variable. Returns false if this is not that form.
func c04WeightedVisitor(c *core.Ctx, im *c04Impl, f *flow.Func, q *c04Facts, r types.Object, rid *ast.Ident, defStmt ast.Node, total, weight *types.Var, totalK, consC string) bool {
	pm := parentMap(f.Body)
	isR := func(e ast.Expr) bool {
		id, ok := ast.Unparen(e).(*ast.Ident)
		return ok && c04ObjOf(f.Info, id) == r
	}
	// the literal that modifies the draw
	var lit *ast.FuncLit
	ast.Inspect(f.Body, func(n ast.Node) bool {
		as, ok := n.(*ast.AssignStmt)
		if !ok || ast.Node(as) == defStmt {
			return true
		}
		for _, l := range as.Lhs {
			if isR(l) {
				for p := pm[as]; p != nil; p = pm[p] {
					if fl, ok := p.(*ast.FuncLit); ok {
						if lit == nil {
							lit = fl
						}
						break
					}
				}
			}
		}
		return true
	})
	if lit == nil {
		return false
	}
	call, ok := pm[lit].(*ast.CallExpr)
	if !ok {
		return false
	}
	fo, _ := f.Callee(call).(*types.Func)
	if fo == nil || fo.Pkg() != f.Pkg.Types {
		return false
	}
	hd := declOf(f.Pkg, fo)
	if hd == nil {
		return false
	}
	li, vi, ok := c04PlainIterator(funcOf(f.Pkg, hd), hd)
	if !ok || li >= len(call.Args) || vi >= len(call.Args) || ast.Unparen(call.Args[vi]) != ast.Expr(lit) || !q.isList(call.Args[li]) {
		return false
	}
	if lit.Type.Params == nil || len(lit.Type.Params.List) != 1 || len(lit.Type.Params.List[0].Names) != 1 {
		return false
	}
	elem := f.Info.Defs[lit.Type.Params.List[0].Names[0]]
	isElem := func(e ast.Expr) bool {
		id, ok := ast.Unparen(e).(*ast.Ident)
		return ok && c04ObjOf(f.Info, id) == elem
	}
	elemWeight := func(e ast.Expr) bool {
		sel, ok := ast.Unparen(e).(*ast.SelectorExpr)
		return ok && c04SelObj(f.Info, sel) == types.Object(weight) && isElem(sel.X)
	}
	// statements of the literal: subtractions of the draw, recordings of the chosen server
	isSub := map[ast.Node]bool{}
	isPick := map[ast.Node]bool{}
	picked := map[types.Object]bool{}
	var badMod ast.Node
	serverPtr := types.NewPointer(im.list.Type().(*types.Slice).Elem().(*types.Pointer).Elem())
	ast.Inspect(f.Body, func(n ast.Node) bool {
		as, ok := n.(*ast.AssignStmt)
		if !ok || ast.Node(as) == defStmt {
			return true
		}
		for i, l := range as.Lhs {
			switch {
			case isR(l):
				okForm := false
				if contains(lit.Body, as) && len(as.Lhs) == 1 && len(as.Rhs) == 1 {
					switch as.Tok {
					case token.SUB_ASSIGN:
						okForm = elemWeight(as.Rhs[0])
					case token.ASSIGN:
						if b, isB := ast.Unparen(as.Rhs[0]).(*ast.BinaryExpr); isB && b.Op == token.SUB && isR(b.X) {
							okForm = elemWeight(b.Y)
						}
					}
				}
				if okForm {
					isSub[as] = true
				} else if badMod == nil {
					badMod = as
				}
			case contains(lit.Body, as):
				id, isID := ast.Unparen(l).(*ast.Ident)
				if !isID {
					continue
				}
				o := c04ObjOf(f.Info, id)
				if v, isVar := o.(*types.Var); isVar && types.Identical(v.Type(), serverPtr) && !contains(lit, astNodeOf(f, v)) {
					// an outer *Server variable written by the visitor
					if len(as.Lhs) == len(as.Rhs) && isElem(as.Rhs[i]) {
						isPick[as] = true
						picked[o] = true
					} else if badMod == nil {
						badMod = as
					}
				}
			}
		}
		return true
	})
	if badMod != nil {
		c.Violate("R-C04-8", consC, pos(c, badMod), "inside the visitor of the server walk the draw is modified by something other than `draw -= <current server>.Weight`, or a server other than the current one is recorded as chosen: the intervals the draw is compared with are no longer the servers' weights")
		return true
	}
	if len(isSub) == 0 || len(picked) == 0 {
		return false
	}
	lf := f.Lit(lit)
	c.Count("functions_analysed", 1)
	rR := f.Render(rid)
	type finding struct {
		at  ast.Node
		st  *flow.State
		why string
	}
	var bad *finding
	res := analyze(c, lf, flow.Config{
		NoHavoc: true,
		OnNode: func(st *flow.State, n ast.Node) {
			if isSub[n] {
				if st.Is("ev:sub", flow.True) && bad == nil {
					bad = &finding{n, st, "the current server's weight is subtracted from the draw twice in one visit"}
				}
				st.Set("ev:sub", flow.True)
			}
			if isPick[n] {
				st.Set("ev:picked", flow.True)
			}
		},
	})
	if res == nil {
		return true
	}
	stops, goes := 0, 0
	for _, ex := range res.Exits {
		if ex.Kind != flow.ExitReturn || bad != nil {
			continue
		}
		if ex.Return == nil || len(ex.Return.Results) != 1 || f.Info.Types[ex.Return.Results[0]].Value == nil {
			c.Undecide("R-C04-8", consC, pos(c, ex.At), "the visitor of the server walk does not return a constant true/false")
			return true
		}
		st := ex.State
		if constant.BoolVal(f.Info.Types[ex.Return.Results[0]].Value) {
			goes++
			switch {
			case !st.Is("ev:sub", flow.True):
				bad = &finding{ex.Return, st, "a visit can move on to the next server without subtracting the current server's weight from the draw: the draw is compared with a subset of the summed weights"}
			case st.Is("ev:picked", flow.True):
				bad = &finding{ex.Return, st, "a server is recorded as chosen but the walk goes on: a later server overwrites it regardless of the draw"}
			}
			continue
		}
		stops++
		switch {
		case !st.Is("ev:picked", flow.True):
			bad = &finding{ex.Return, st, "the walk over the servers is stopped without a server having been chosen"}
		case !st.Is("ev:sub", flow.True) || !st.Is("lt:"+rR+"<0", flow.True):
			bad = &finding{ex.Return, st, "the current server is recorded as chosen without the strict test `draw < 0` (after subtracting its weight) having succeeded: with `<=` or no test the draw 0 selects a leading server whose weight is 0 although another server has a positive weight"}
		}
	}
	if bad != nil {
		c.Violate("R-C04-8", consC, pos(c, bad.at), bad.why, witness(bad.st)...)
	} else if stops == 0 {
		c.Violate("R-C04-8", consC, pos(c, lit), "the visitor of the server walk never chooses a server")
	} else {
		c.Discharge("R-C04-8", consC, pos(c, lit), sprintf("visitor of %s over the receiver's list: %d continuing exits all after one subtraction, %d stopping exits record the current element under the strict test", fo.Name(), goes, stops))
	}
	// (d): the other returns of ChooseServer
	consD := im.cons + "|weight-blind choice only when no weight is positive"
	res0 := analyze(c, f, flow.Config{NoHavoc: true})
	if res0 == nil {
		return true
	}
	uniform := 0
	var badD *finding
	for _, ex := range res0.Exits {
		if ex.Kind != flow.ExitReturn || ex.Return == nil || len(ex.Return.Results) != 1 {
			continue
		}
		ret := ast.Unparen(ex.Return.Results[0])
		if f.Info.Types[ret].IsNil() {
			continue
		}
		if id, ok := ret.(*ast.Ident); ok && picked[c04ObjOf(f.Info, id)] {
			continue // the server the visitor chose
		}
		uniform++
		if badD == nil && (totalK == "" || !q.nonposK(ex.State, totalK)) {
			badD = &finding{ex.Return, ex.State, "a server is returned without consulting its weight in a state where the total weight is not known to be <= 0: when some weight is positive a zero-weight server can be chosen"}
		}
	}
	if badD != nil {
		c.Violate("R-C04-8", consD, pos(c, badD.at), badD.why, witness(badD.st)...)
	} else {
		c.Discharge("R-C04-8", consD, pos(c, im.decl), sprintf("%d weight-blind returns, all with total known <= 0", uniform))
	}
	return true
}

// astNodeOf returns a zero-width node at the declaration of v (for containment tests).
func astNodeOf(f *flow.Func, v *types.Var) ast.Node {
	return &ast.Ident{NamePos: v.Pos(), Name: v.Name()}
}
