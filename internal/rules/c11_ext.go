package rules

import (
	"go/ast"

	"verif/internal/core"
	"verif/internal/flow"
)

// Rules added after the second and third round of independently seeded changes (see DESIGN.md §8).
// Each is a structural necessary condition stated independently of the seeded patch's text;
// the mutants and behaviour-preserving edits they were tested with are in selftest/mutants/C11.json.

// R-C11-7: Spec.Equals compares the immutable raw specs.

func c11SpecEquals(c *core.Ctx) {
	c.Rule("R-C11-7", "applying an unchanged spec is a no-op: supervisor.Spec.Equals compares the raw (parsed, canonical) configuration only; it does not read the typed object spec, which running objects mutate in place (filter instances bound into the flow, compiled regexps), so that a running object's spec would never equal its identical re-parsed spec")
	sv := "pkg/supervisor"
	f := fn(c, sv, "Spec", "Equals")
	if f == nil {
		return
	}
	cons := fname(sv, "Spec", "Equals")
	objF := structField(c, sv, "Spec", "objectSpec")
	var badAt ast.Node
	usesRaw := false
	// over Equals and the same-package helpers it calls (an extracted comparison helper, the
	// accessors RawSpec / YAMLConfig themselves)
	inspectReach(f, 3, func(g *flow.Func, n ast.Node) bool {
		switch x := n.(type) {
		case *ast.CallExpr:
			if calleeIs(g, x, "(*"+sv+".Spec).ObjectSpec") {
				badAt = x
			}
			if calleeIs(g, x, "(*"+sv+".Spec).RawSpec") || calleeIs(g, x, "(*"+sv+".Spec).YAMLConfig") {
				usesRaw = true
			}
		case *ast.SelectorExpr:
			if s := g.Info.Selections[x]; s != nil {
				if s.Obj() == objF {
					badAt = x
				}
				if s.Obj().Name() == "rawSpec" || s.Obj().Name() == "yamlConfig" {
					usesRaw = true
				}
			}
		}
		return true
	})
	c.Check(badAt == nil && usesRaw, "R-C11-7", cons+"|compares the raw configuration, not the live object spec", pos(c, f.Body),
		"Equals reads only the raw spec", map[bool]string{true: "Spec.Equals reads the typed object spec, which running objects mutate in place: an unchanged object never compares equal and is rebuilt (new generation, state reset) on every configuration event", false: "Spec.Equals does not compare the raw configuration"}[badAt != nil])
}

// ---------------------------------------------------------------------------------------
// Third pass (round-3 seeded changes).
