package rules

import (
	"go/ast"

	"verif/internal/core"
)

// Rules added after the second and third round of independently seeded changes (see DESIGN.md §8).
// Each is a structural necessary condition stated independently of the seeded patch's text;
// the mutants and behaviour-preserving edits they were tested with are in selftest/mutants/C11.json.

// R-C11-7: Spec.Equals compares the immutable raw specs.

func c11SpecEquals(c *core.Ctx) {
	c.Rule("R-C11-7", "applying an unchanged spec is a no-op: supervisor.Spec.Equals compares the raw (parsed, canonical) configuration only; it does not read the typed object spec, which running objects mutate in place (filter instances bound into the flow, compiled regexps), so that a running object's spec would never equal its identical re-parsed spec")
	sv := "pkg/supervisor"
	f := fn(c, sv, "Spec", "Equals")
	if f == nil {
		return
	}
	cons := fname(sv, "Spec", "Equals")
	objF := structField(c, sv, "Spec", "objectSpec")
	var badAt ast.Node
	ast.Inspect(f.Body, func(n ast.Node) bool {
		switch x := n.(type) {
		case *ast.CallExpr:
			if calleeIs(f, x, "(*"+sv+".Spec).ObjectSpec") {
				badAt = x
			}
		case *ast.SelectorExpr:
			if s := f.Info.Selections[x]; s != nil && s.Obj() == objF {
				badAt = x
			}
		}
		return true
	})
	usesRaw := false
	for _, call := range calls(f.Body, false) {
		if calleeIs(f, call, "(*"+sv+".Spec).RawSpec") || calleeIs(f, call, "(*"+sv+".Spec).YAMLConfig") {
			usesRaw = true
		}
	}
	ast.Inspect(f.Body, func(n ast.Node) bool {
		if sel, ok := n.(*ast.SelectorExpr); ok {
			if s := f.Info.Selections[sel]; s != nil && (s.Obj().Name() == "rawSpec" || s.Obj().Name() == "yamlConfig") {
				usesRaw = true
			}
		}
		return true
	})
	c.Check(badAt == nil && usesRaw, "R-C11-7", cons+"|compares the raw configuration, not the live object spec", pos(c, f.Body),
		"Equals reads only the raw spec", map[bool]string{true: "Spec.Equals reads the typed object spec, which running objects mutate in place: an unchanged object never compares equal and is rebuilt (new generation, state reset) on every configuration event", false: "Spec.Equals does not compare the raw configuration"}[badAt != nil])
}

// ---------------------------------------------------------------------------------------
// Third pass (round-3 seeded changes).
