package rules

import (
	"go/ast"
	"go/types"

	"golang.org/x/tools/go/cfg"

	"verif/internal/core"
	"verif/internal/flow"
)

// c03wo holds the resolved roles of the mux write-out.
type c03wo struct {
	f       *flow.Func // muxInstance.serveHTTP
	name    string
	w       types.Object   // the http.ResponseWriter parameter
	deferSt *ast.DeferStmt // the deferred literal containing WriteHeader
	lit     *ast.FuncLit
	wh      []*ast.CallExpr // WriteHeader calls on w
	copies  []*ast.CallExpr // io.Copy(w, …) calls
	sc      *c03scope       // serveHTTP and the same-package functions it calls
	litSc   *c03scope       // the deferred function (literal or same-package callee) and what it calls
	deferFn *flow.Func      // the deferred function
	wFields map[*types.Var]bool
}

// deferred returns the body of a deferred statement as a function: the literal, or the
// declaration of a same-package callee (`defer x.finish()`).
func c03deferred(g *flow.Func, ds *ast.DeferStmt) *flow.Func {
	if lit, ok := ast.Unparen(ds.Call.Fun).(*ast.FuncLit); ok {
		return g.Lit(lit)
	}
	if fo, ok := g.Callee(ds.Call).(*types.Func); ok && fo.Pkg() == g.Pkg.Types {
		if fd := declOf(g.Pkg, fo); fd != nil {
			return funcOf(g.Pkg, fd)
		}
	}
	return nil
}

// c03writerFields: struct fields of type http.ResponseWriter of the package that are only ever
// assigned a variable of that type (a request-scoped struct carrying the writer): reading such
// a field yields the request's writer.
func c03writerFields(c *core.Ctx) map[*types.Var]bool {
	out := map[*types.Var]bool{}
	bad := map[*types.Var]bool{}
	pkg := c.Prog.Pkg(hs)
	if pkg == nil {
		return out
	}
	isRW := func(t types.Type) bool { return t != nil && t.String() == "net/http.ResponseWriter" }
	note := func(fv *types.Var, rhs ast.Expr) {
		if fv == nil || !fv.IsField() || !isRW(fv.Type()) {
			return
		}
		out[fv] = true
		id, ok := ast.Unparen(rhs).(*ast.Ident)
		if !ok {
			// another such field is fine (copied between scopes)
			if sel, ok := ast.Unparen(rhs).(*ast.SelectorExpr); ok {
				if s := pkg.TypesInfo.Selections[sel]; s != nil && s.Kind() == types.FieldVal && isRW(s.Obj().Type()) {
					return
				}
			}
			bad[fv] = true
			return
		}
		if o := pkg.TypesInfo.Uses[id]; o == nil || !isRW(o.Type()) {
			bad[fv] = true
		}
	}
	for _, file := range pkg.Syntax {
		ast.Inspect(file, func(n ast.Node) bool {
			switch x := n.(type) {
			case *ast.KeyValueExpr:
				if k, ok := x.Key.(*ast.Ident); ok {
					if fv, ok := pkg.TypesInfo.Uses[k].(*types.Var); ok {
						note(fv, x.Value)
					}
				}
			case *ast.AssignStmt:
				if len(x.Lhs) == len(x.Rhs) {
					for i, l := range x.Lhs {
						if sel, ok := ast.Unparen(l).(*ast.SelectorExpr); ok {
							if s := pkg.TypesInfo.Selections[sel]; s != nil && s.Kind() == types.FieldVal {
								fv, _ := s.Obj().(*types.Var)
								note(fv, x.Rhs[i])
							}
						}
					}
				}
			}
			return true
		})
	}
	for fv := range bad {
		delete(out, fv)
	}
	return out
}

// isW: e denotes the request's ResponseWriter — the parameter (through locals and helper
// parameters) or a writer-carrying field of a request-scoped struct.
func (wo *c03wo) isW(e ast.Expr) bool {
	e = ast.Unparen(e)
	if id, ok := e.(*ast.Ident); ok {
		o := c03canon(wo.f, c03obj(wo.f, id))
		if o == wo.w {
			return true
		}
		// a local copied from a writer-carrying field: w := rs.stdw
		if defs := c03defs(wo.f, c03obj(wo.f, id)); len(defs) == 1 && defs[0].rhs != nil {
			if _, isSel := defs[0].rhs.(*ast.SelectorExpr); isSel {
				return wo.isW(defs[0].rhs)
			}
		}
		return false
	}
	if fv := c03fieldOf(wo.f, e); fv != nil {
		return wo.wFields[fv]
	}
	return false
}

func c03resolveWriteOut(c *core.Ctx, report bool) *c03wo {
	// by role: the function with an http.ResponseWriter parameter that defers a function
	// literal from which WriteHeader is reached (the current name only breaks ties)
	cands := funcsByRole(c, hs, func(g *flow.Func, fd *ast.FuncDecl) bool {
		hasW := false
		for _, fl := range fd.Type.Params.List {
			for _, id := range fl.Names {
				if o := g.Info.Defs[id]; o != nil && o.Type().String() == "net/http.ResponseWriter" {
					hasW = true
				}
			}
		}
		if !hasW {
			return false
		}
		found := false
		for _, st := range fd.Body.List {
			ds, ok := st.(*ast.DeferStmt)
			if !ok {
				continue
			}
			df := c03deferred(g, ds)
			if df == nil {
				continue
			}
			for _, h := range reach(df, 3) {
				for _, call := range calls(h.Body, false) {
					if sel, ok := ast.Unparen(call.Fun).(*ast.SelectorExpr); ok && sel.Sel.Name == "WriteHeader" {
						found = true
					}
				}
			}
		}
		return found
	})
	var f *flow.Func
	for _, g := range cands {
		if f == nil || c03fnName(g) == fname(hs, "muxInstance", "serveHTTP") {
			f = g
		}
	}
	if len(cands) > 1 && c03fnName(f) != fname(hs, "muxInstance", "serveHTTP") {
		if report {
			c.Errorf("R-C03-7: anchor: %d functions of %s defer a write-out on an http.ResponseWriter; cannot tell which one serves requests", len(cands), hs)
		}
		return nil
	}
	if f == nil {
		// no deferred write-out at all: fall back to the name so that the rule can say so
		f = fn(c, hs, "muxInstance", "serveHTTP")
		if f == nil {
			return nil
		}
	} else {
		c.Count("functions_analysed", 1)
	}
	wo := &c03wo{f: f, name: c03fnName(f)}
	fd := f.Node.(*ast.FuncDecl)
	for _, fl := range fd.Type.Params.List {
		for _, id := range fl.Names {
			if o := f.Info.Defs[id]; o != nil && o.Type().String() == "net/http.ResponseWriter" {
				wo.w = o
			}
		}
	}
	if wo.w == nil {
		if report {
			c.Errorf("R-C03-7: anchor: %s has no http.ResponseWriter parameter", wo.name)
		}
		return nil
	}
	// the write-out may live in helpers called from serveHTTP (or from its deferred literal):
	// the writer is recognised through the parameter bindings of the scope
	wo.sc = newC03scope(f, 3)
	wo.wFields = c03writerFields(c)
	c03with(wo.sc, func() {
		isW := wo.isW
		isWH := func(call *ast.CallExpr) bool {
			sel, ok := ast.Unparen(call.Fun).(*ast.SelectorExpr)
			return ok && sel.Sel.Name == "WriteHeader" && isW(sel.X) && len(call.Args) == 1
		}
		ast.Inspect(f.Body, func(n ast.Node) bool {
			ds, ok := n.(*ast.DeferStmt)
			if !ok {
				return true
			}
			df := c03deferred(f, ds)
			if df == nil {
				return true
			}
			for _, g := range reach(df, 3) {
				for _, call := range calls(g.Body, false) {
					if isWH(call) {
						wo.deferSt, wo.deferFn = ds, df
						wo.lit, _ = ast.Unparen(ds.Call.Fun).(*ast.FuncLit)
					}
				}
			}
			return true
		})
		for _, g := range wo.sc.fns {
			for _, call := range calls(g.Body, true) {
				if isWH(call) {
					wo.wh = append(wo.wh, call)
				}
				if calleeIs(f, call, "io.Copy", "io.CopyBuffer") && len(call.Args) >= 2 && isW(call.Args[0]) {
					wo.copies = append(wo.copies, call)
				}
			}
		}
	})
	if wo.deferFn != nil {
		wo.litSc = newC03scope(wo.deferFn, 3)
	}
	return wo
}

// c03WriteOutNormalises: does the write-out set/delete Content-Length on the writer's header
// (or the response's header) before WriteHeader on every path?  (central repair of R-C03-6b)
func c03WriteOutNormalises(c *core.Ctx) bool {
	wo := c03resolveWriteOut(c, false)
	if wo == nil || wo.deferFn == nil || len(wo.wh) == 0 {
		return false
	}
	f := wo.deferFn
	res := analyze(c, f, flow.Config{
		NoHavoc: true,
		Inline:  wo.litSc.inlineAll(),
		Track:   func(string) bool { return false },
		OnCall: func(st *flow.State, call *ast.CallExpr, callee types.Object, deferred bool) {
			if _, ok := c03clOp(f, call); ok {
				st.Set("ev:cl", flow.True)
			}
		},
	})
	if res == nil {
		return false
	}
	n := 0
	for _, wh := range wo.wh {
		for _, st := range res.At[wh] {
			n++
			if !st.Is("ev:cl", flow.True) {
				return false
			}
		}
	}
	return n > 0
}

// c03WriteOut decides R-C03-7.
func c03WriteOut(c *core.Ctx) {
	wo := c03resolveWriteOut(c, true)
	if wo == nil {
		return
	}
	c03with(wo.sc, func() { c03WriteOutIn(c, wo) })
}

func c03WriteOutIn(c *core.Ctx, wo *c03wo) {
	f, name := wo.f, wo.name
	if !c.RequireCount("R-C03-7", "WriteHeader calls on the ResponseWriter in serveHTTP", len(wo.wh), 1) {
		return
	}
	if wo.deferFn == nil {
		c.Violate("R-C03-7", name+"|write-out is deferred", pos(c, wo.wh[0]),
			"WriteHeader is not called from a deferred function of serveHTTP: early returns (routing failures, 413, 400) leave without writing the response")
		return
	}
	// the response whose status is written
	respOf := func(e ast.Expr, method string) types.Object {
		call, ok := ast.Unparen(e).(*ast.CallExpr)
		if !ok || !calleeIs(f, call, "(*"+c03hp+".Response)."+method) {
			if id, isID := ast.Unparen(e).(*ast.Ident); isID {
				// a local holding the value: x := resp.StatusCode()
				defs := c03defs(f, c03obj(f, id))
				if len(defs) == 1 && defs[0].call != nil && defs[0].rhs != nil && calleeIs(f, defs[0].call, "(*"+c03hp+".Response)."+method) {
					return c03rootOf(f, defs[0].call.Fun)
				}
			}
			return nil
		}
		return c03rootOf(f, call.Fun)
	}
	// header copy loops: a loop over every key of R.HTTPHeader()/R.Std().Header storing into
	// w.Header() — in the deferred literal or in a helper it calls
	type copyLoop struct {
		rs   ast.Stmt
		coll ast.Expr
		resp types.Object
		ch   *c03chain
		st   ast.Node // the storing statement/call
	}
	var loops []*copyLoop
	isWHeader := func(e ast.Expr) bool {
		// e denotes w.Header() (directly or through a local)
		e, _ = c03resolveLocal(f, e)
		call, ok := e.(*ast.CallExpr)
		if !ok {
			return false
		}
		sel, ok := ast.Unparen(call.Fun).(*ast.SelectorExpr)
		if !ok || sel.Sel.Name != "Header" {
			return false
		}
		return wo.isW(sel.X)
	}
	for _, g := range wo.litSc.fns {
		for _, lp := range c03loops(f, g.Body) {
			if lp.key == nil {
				continue
			}
			tv, ok := f.Info.Types[lp.coll]
			if !ok || !c03isHeaderType(tv.Type) {
				continue
			}
			r := c03rootOf(f, lp.coll)
			if r == nil || r == wo.w {
				continue
			}
			vals := map[types.Object]bool{}
			if lp.val != nil {
				vals[lp.val] = true
			}
			// values derived by looping over the value slice
			for changed := true; changed; {
				changed = false
				for _, in := range c03loops(f, lp.body) {
					if in.stmt != lp.stmt && lp.mentionsElem(f, in.coll, vals) {
						for _, o := range []types.Object{in.val, in.key} {
							if o != nil && !vals[o] {
								vals[o] = true
								changed = true
							}
						}
					}
				}
				ast.Inspect(lp.body, func(m ast.Node) bool {
					if as, ok := m.(*ast.AssignStmt); ok && len(as.Lhs) == len(as.Rhs) {
						for i, l := range as.Lhs {
							if id, ok := ast.Unparen(l).(*ast.Ident); ok && id.Name != "_" && lp.mentionsElem(f, as.Rhs[i], vals) && !vals[c03obj(f, id)] {
								vals[c03obj(f, id)] = true
								changed = true
							}
						}
					}
					return true
				})
			}
			var store ast.Node
			ast.Inspect(lp.body, func(m ast.Node) bool {
				switch x := m.(type) {
				case *ast.AssignStmt:
					for i, l := range x.Lhs {
						if ix, ok := ast.Unparen(l).(*ast.IndexExpr); ok && isWHeader(ix.X) && lp.isKey(f, ix.Index) && len(x.Lhs) == len(x.Rhs) && lp.mentionsElem(f, x.Rhs[i], vals) {
							store = x
						}
					}
				case *ast.CallExpr:
					if op, recv := c03hdrOp(f, x); (op == "Set" || op == "Add") && len(x.Args) == 2 && isWHeader(recv) && lp.isKey(f, x.Args[0]) && lp.mentionsElem(f, x.Args[1], vals) {
						store = x
					}
				}
				return true
			})
			if store != nil {
				loops = append(loops, &copyLoop{rs: lp.stmt, coll: lp.coll, resp: r, st: store, ch: newC03chain(f, lp.stmt, store, nil)})
			}
		}
	}

	const (
		evDefer = "ev:wo:deferred"
		evHdr   = "ev:wo:hdr:"
		evWH    = "ev:wo:status:"
		evCopy  = "ev:wo:copy:"
		evAnyWH = "ev:wo:status"
	)
	whResp := map[*ast.CallExpr]types.Object{}
	for _, wh := range wo.wh {
		if len(wh.Args) == 1 {
			whResp[wh] = respOf(wh.Args[0], "StatusCode")
		}
	}
	cpResp := map[*ast.CallExpr]types.Object{}
	for _, cp := range wo.copies {
		cpResp[cp] = respOf(cp.Args[1], "GetPayload")
	}
	var badOrderWH, badOrderCopy, badTwice *flow.State
	res := analyze(c, f, flow.Config{
		NoHavoc: true,
		Inline:  wo.litSc.inlineAll(), // the deferred write-out and its helpers are interpreted in place
		Track:   c03trackEmptiness,
		AfterAssume: func(st *flow.State, cond ast.Expr, outcome bool) {
			// a guard around the copy loop: an empty header has nothing to copy
			for _, l := range loops {
				if c03emptyColl(f, st, l.coll) {
					st.Set(evHdr+c03varID(f, l.resp), flow.True)
				}
			}
		},
		OnNode: func(st *flow.State, n ast.Node) {
			if n == ast.Node(wo.deferSt) {
				st.Set(evDefer, flow.True)
			}
			for _, l := range loops {
				if as, ok := l.st.(*ast.AssignStmt); ok && n == ast.Node(as) {
					l.ch.mark(st)
				}
			}
		},
		OnBlock: func(st *flow.State, b *cfg.Block) {
			for _, l := range loops {
				l.ch.block(st, b)
				if c03atHead(b, l.rs) {
					if st.Is(evAnyWH, flow.True) && !st.Is(evHdr+c03varID(f, l.resp), flow.True) && badOrderWH == nil {
						badOrderWH = st
					}
					st.Set(evHdr+c03varID(f, l.resp), flow.True)
				}
			}
		},
		OnCall: func(st *flow.State, call *ast.CallExpr, callee types.Object, deferred bool) {
			for _, l := range loops {
				if n, ok := l.st.(*ast.CallExpr); ok && n == call {
					l.ch.mark(st)
				}
			}
			if r, ok := whResp[call]; ok {
				if st.Is(evAnyWH, flow.True) && badTwice == nil {
					badTwice = st
				}
				st.Set(evAnyWH, flow.True)
				if r != nil {
					if !st.Is(evHdr+c03varID(f, r), flow.True) && badOrderWH == nil {
						badOrderWH = st
					}
					st.Set(evWH+c03varID(f, r), flow.True)
				}
			}
			if r, ok := cpResp[call]; ok {
				if (r == nil || !st.Is(evWH+c03varID(f, r), flow.True)) && badOrderCopy == nil {
					badOrderCopy = st
				}
				if r != nil {
					st.Set(evCopy+c03varID(f, r), flow.True)
				}
			}
		},
	})
	if res == nil {
		return
	}
	// every exit of serveHTTP ran the deferred write-out completely
	var badDefer, badExit *flow.State
	nExit := 0
	for _, ex := range res.Exits {
		nExit++
		st := ex.State
		if !st.Is(evDefer, flow.True) {
			if badDefer == nil {
				badDefer = st
			}
			continue
		}
		full := false
		for _, wh := range wo.wh {
			if r := whResp[wh]; r != nil {
				id := c03varID(f, r)
				if st.Is(evHdr+id, flow.True) && st.Is(evWH+id, flow.True) && st.Is(evCopy+id, flow.True) {
					full = true
				}
			}
		}
		if !full && badExit == nil {
			badExit = st
		}
	}
	c.RequireCount("R-C03-7", "exits of serveHTTP", nExit, 1)
	c.Check(badDefer == nil, "R-C03-7", name+"|write-out registered before any exit", pos(c, wo.deferSt),
		sprintf("all %d exits leave after the write-out was deferred", nExit),
		"serveHTTP can return before the write-out is deferred: that request gets no status line, header or body from the pipeline's response", witness(badDefer)...)
	statusOK := true
	for _, wh := range wo.wh {
		if whResp[wh] == nil {
			statusOK = false
		}
	}
	c.Check(statusOK, "R-C03-7", name+"|status written is the response's", pos(c, wo.wh[0]),
		"WriteHeader receives StatusCode() of the response",
		"WriteHeader is not given the StatusCode() of the response being written: the client does not receive the backend's status")
	c.Check(badExit == nil && badDefer == nil, "R-C03-7", name+"|header copy, status, payload of one response on every exit", pos(c, wo.deferSt),
		sprintf("%d exits; each ran header copy → WriteHeader → io.Copy on the same response", nExit),
		"some exit of serveHTTP does not copy the header, write the status and copy the payload of one and the same response to the client", witness(badExit)...)
	c.Check(badOrderWH == nil && badTwice == nil, "R-C03-7", name+"|header copied before WriteHeader", pos(c, wo.wh[0]),
		"WriteHeader is reached only after the header copy loop of the same response, once",
		"WriteHeader runs before the response's header has been copied into the ResponseWriter (headers set afterwards are ignored by net/http) or runs twice", witness(firstState(badOrderWH, badTwice))...)
	c.Check(badOrderCopy == nil && len(wo.copies) > 0, "R-C03-7", name+"|payload copied after WriteHeader", pos(c, wo.wh[0]),
		"io.Copy(w, resp.GetPayload()) is reached only after WriteHeader of the same response",
		"the payload is written before WriteHeader (net/http then sends an implicit 200 and the real status is lost), is not the response's GetPayload(), or is never copied", witness(badOrderCopy)...)
	if len(loops) == 0 {
		c.Violate("R-C03-7", name+"|header copy loop", pos(c, wo.deferSt),
			"no loop copies every key of the response's header into the ResponseWriter's header: the client receives none of the backend's headers")
	}
	for _, l := range loops {
		early := l.ch.early(f)
		cons := name + "|header copy loop"
		switch {
		case !l.ch.ok:
			c.Undecide("R-C03-7", cons, pos(c, l.rs), "a non-range loop sits between the header loop and the store")
		case len(early) > 0:
			c.Violate("R-C03-7", cons, pos(c, early[0]), "the header copy loop can be left early: some backend headers are not sent to the client")
		case l.ch.bad() != nil:
			c.Violate("R-C03-7", cons, pos(c, l.rs), "an iteration of the header copy loop does not store the key: that backend header is not sent to the client", witness(l.ch.bad())...)
		default:
			c.Discharge("R-C03-7", cons, pos(c, l.rs), "every iteration stores key and values into the ResponseWriter's header")
		}
	}
}

func firstState(sts ...*flow.State) *flow.State {
	for _, s := range sts {
		if s != nil {
			return s
		}
	}
	return nil
}
