package rules

// R-C04-9: the server is selected once per ATTEMPT, from the balancer that is current at that
// attempt.
//
// "Every forwarded request goes to a server of the pool's current list … under any interleaving
// of list replacement with selection": the resilience wrappers (retry, circuit breaker) invoke
// the attempt function once per attempt, and service discovery may replace the balancer between
// two attempts. Necessary condition: inside the attempt unit — the func(context.Context) error
// value handed to Wrapper.Wrap, with the same-package functions it calls — every send is preceded,
// on every path of ONE invocation, by a load of the pool's current balancer and a ChooseServer on
// it. A selection made before the unit (once per request), a balancer loaded before the unit, or
// a server cached across attempts lets a retry go to a server that is no longer in the list (and
// turns an empty first look into an immediate 503 without the retries).
//
// Roles: send = call of a package-level func variable taking *http.Client (fnSendRequest);
// load = call of a same-package function whose body loads the pool's atomic.Value (LoadBalancer())
// or the Load itself; selection = ChooseServer (method value / wrappers included, they are
// interpreted in place); attempt unit = the function literal of handler type that reaches a send
// and is (through a local) an argument of a call of resilience.Wrapper.Wrap.
//
// Mutants: seeded g (chooseServer helper hoisted out of the closure, doHandle takes the server);
// balancer loaded once per request (`lb := sp.LoadBalancer()` before the closure, lb.ChooseServer
// inside); server cached in the request context across attempts (`if spCtx.svr == nil {…}`).
// Preserving: the same chooseServer helper called at the top of doHandle; r4's pickServer; the
// attempt closure turned into a method value.

import (
	"go/ast"
	"go/types"

	"verif/internal/core"
	"verif/internal/flow"
)

func c04IsSendCallee(callee types.Object) bool {
	switch o := callee.(type) {
	case *types.Var:
		if sig, ok := o.Type().Underlying().(*types.Signature); ok && o.Pkg() != nil && o.Parent() == o.Pkg().Scope() {
			for i := 0; i < sig.Params().Len(); i++ {
				if sig.Params().At(i).Type().String() == "*net/http.Client" {
					return true
				}
			}
		}
	case *types.Func:
		switch o.FullName() {
		case "(*net/http.Client).Do", "(*net/http.Transport).RoundTrip", "(net/http.RoundTripper).RoundTrip":
			return true
		}
	}
	return false
}

func c04IsHandlerType(t types.Type) bool {
	sig, ok := t.Underlying().(*types.Signature)
	if !ok || sig.Params().Len() != 1 || sig.Results().Len() != 1 {
		return false
	}
	return sig.Params().At(0).Type().String() == "context.Context" && c04IsError(sig.Results().At(0).Type())
}

func c04Attempt(c *core.Ctx, info *c04Info) {
	c.Rule("R-C04-9", "selection per attempt: inside the attempt unit (the func(context.Context) error value handed to the resilience wrappers' Wrap, with the same-package functions it calls) every send is preceded, on every path of one invocation, by a load of the pool's current balancer and a ChooseServer call on it")
	pkg := c.Prog.Pkg(c04pkg)
	if pkg == nil {
		return
	}
	holder := info.roles.holder
	// load functions: same-package functions whose body loads the pool's atomic.Value
	isHolderLoad := func(h *flow.Func, call *ast.CallExpr) bool {
		sel, ok := ast.Unparen(call.Fun).(*ast.SelectorExpr)
		if !ok || holder == nil || c04SelObj(h.Info, sel.X) != types.Object(holder) {
			return false
		}
		fo, _ := c04Callee(h.Info, call).(*types.Func)
		return fo != nil && fo.Pkg() != nil && fo.Pkg().Path() == "sync/atomic" && fo.Name() == "Load"
	}
	loaders := map[*types.Func]bool{}
	for _, file := range pkg.Syntax {
		for _, d := range file.Decls {
			fd, ok := d.(*ast.FuncDecl)
			if !ok || fd.Body == nil {
				continue
			}
			g := funcOf(pkg, fd)
			// a loader returns the balancer: its result type is the LoadBalancer interface
			if fd.Type.Results == nil || len(fd.Type.Results.List) != 1 {
				continue
			}
			if tv, ok := pkg.TypesInfo.Types[fd.Type.Results.List[0].Type]; !ok || !types.Identical(tv.Type, info.iface) {
				continue
			}
			for _, call := range calls(fd.Body, false) {
				if isHolderLoad(g, call) {
					if o, _ := pkg.TypesInfo.Defs[fd.Name].(*types.Func); o != nil {
						loaders[o] = true
					}
				}
			}
		}
	}
	// a function returning the balancer that gets it from a loader is a loader (LoadBalancer() →
	// sp.balancer.load())
	for changed := true; changed; {
		changed = false
		for _, file := range pkg.Syntax {
			for _, d := range file.Decls {
				fd, ok := d.(*ast.FuncDecl)
				if !ok || fd.Body == nil || fd.Type.Results == nil || len(fd.Type.Results.List) != 1 {
					continue
				}
				o, _ := pkg.TypesInfo.Defs[fd.Name].(*types.Func)
				if o == nil || loaders[o] {
					continue
				}
				if tv, ok := pkg.TypesInfo.Types[fd.Type.Results.List[0].Type]; !ok || !types.Identical(tv.Type, info.iface) {
					continue
				}
				for _, call := range calls(fd.Body, false) {
					if fo, _ := c04Callee(pkg.TypesInfo, call).(*types.Func); fo != nil && loaders[fo] {
						loaders[o] = true
						changed = true
					}
				}
			}
		}
	}
	// attempt units: handler-typed function literals that reach a send and are handed to Wrap
	isSend := func(h *flow.Func, n ast.Node) bool {
		call, ok := n.(*ast.CallExpr)
		return ok && c04IsSendCallee(h.Callee(call))
	}
	type unit struct {
		owner *flow.Func
		fd    *ast.FuncDecl
		lit   *ast.FuncLit
		lf    *flow.Func
	}
	var units []unit
	for _, file := range pkg.Syntax {
		for _, d := range file.Decls {
			fd, ok := d.(*ast.FuncDecl)
			if !ok || fd.Body == nil {
				continue
			}
			g := funcOf(pkg, fd)
			// locals handed to a Wrap call of resilience.Wrapper
			wrapped := map[types.Object]bool{}
			wrapsLit := map[*ast.FuncLit]bool{}
			for _, call := range calls(fd.Body, true) {
				if !ifaceMethodCall(g, call, "pkg/resilience", "Wrapper", "Wrap") || len(call.Args) != 1 {
					continue
				}
				switch a := ast.Unparen(call.Args[0]).(type) {
				case *ast.Ident:
					wrapped[c04ObjOf(g.Info, a)] = true
				case *ast.FuncLit:
					wrapsLit[a] = true
				}
			}
			ast.Inspect(fd.Body, func(n ast.Node) bool {
				l, ok := n.(*ast.FuncLit)
				if !ok {
					return true
				}
				if tv, ok := g.Info.Types[l]; !ok || !c04IsHandlerType(tv.Type) {
					return true
				}
				isWrapped := wrapsLit[l]
				if v := c04LitVarAny(pkg.TypesInfo, fd, l); v != nil && wrapped[v] {
					isWrapped = true
				}
				lf := g.Lit(l)
				// the wrapping itself may sit in a helper that is handed the function value
				// (`handler = sp.wrapWithResilience(spCtx, handler)`): every handler-typed literal
				// that reaches a send is an attempt function
				_ = isWrapped
				if reachContains(lf, 5, isSend) {
					units = append(units, unit{g, fd, l, lf})
				}
				return false
			})
		}
	}
	if !c.RequireCount("R-C04-9", "attempt units (func(context.Context) error literals of the proxy package reaching a send)", len(units), 1) {
		return
	}
	for _, u := range units {
		cons := declName(pkg, u.fd) + "$attempt|every send follows a selection made in the same attempt"
		relevant := func(callee *types.Func, g *flow.Func) bool {
			return loaders[callee] || reachContains(g, 5, func(h *flow.Func, n ast.Node) bool {
				call, ok := n.(*ast.CallExpr)
				if !ok {
					return false
				}
				if c04IsSendCallee(h.Callee(call)) || c04ChooseCall(info, h, h.Body, call) {
					return true
				}
				fo, _ := h.Callee(call).(*types.Func)
				return fo != nil && loaders[fo]
			})
		}
		type finding struct {
			at  ast.Node
			st  *flow.State
			why string
		}
		var bad *finding
		sends, selections := 0, 0
		res := analyze(c, u.lf, flow.Config{
			Inline:         inlineIf(u.lf, relevant),
			InlineClosures: true,
			OnCall: func(st *flow.State, call *ast.CallExpr, callee types.Object, deferred bool) {
				fo, _ := callee.(*types.Func)
				g := u.lf
				switch {
				case fo != nil && loaders[fo], isHolderLoad(g, call):
					st.Set("ev:loaded", flow.True)
				case c04IsChoose(info, g, call) || c04ChooseCall(info, g, u.fd.Body, call):
					selections++
					if st.Is("ev:loaded", flow.True) {
						st.Set("ev:selected", flow.True)
					} else if bad == nil {
						bad = &finding{call, st, "ChooseServer is called on a balancer that was not loaded from the pool in this attempt (the balancer is fetched once per request, before the attempt function): after service discovery replaced the list a retry still selects from the old list"}
					}
				case c04IsSendCallee(callee):
					sends++
					if !st.Is("ev:selected", flow.True) && bad == nil {
						bad = &finding{call, st, "the request is sent to a server that was not selected in this attempt (the selection is made once per request, outside the function the retry / circuit-breaker wrappers invoke, or is skipped on this path): a retry made after service discovery replaced the list goes to a server that is no longer in the pool's current list, and an empty list at the first look fails the request without the retries"}
					}
				}
			},
		})
		if res == nil {
			continue
		}
		switch {
		case bad != nil:
			c.Violate("R-C04-9", cons, pos(c, bad.at), bad.why, witness(bad.st)...)
		case sends == 0:
			c.Undecide("R-C04-9", cons, pos(c, u.lit), "the send is not reached by the path-sensitive analysis of the attempt unit")
		default:
			c.Discharge("R-C04-9", cons, pos(c, u.lit), sprintf("%d send events, all after load + ChooseServer in the same invocation (%d selection events); interpreted in place: %v", sends, selections, res.Inlined))
		}
	}
}

// c04LitVarAny returns the local a function literal is assigned to (declaration or assignment).
func c04LitVarAny(info *types.Info, fd *ast.FuncDecl, lit *ast.FuncLit) types.Object {
	var v types.Object
	ast.Inspect(fd.Body, func(n ast.Node) bool {
		switch x := n.(type) {
		case *ast.AssignStmt:
			if len(x.Lhs) == len(x.Rhs) {
				for i, r := range x.Rhs {
					if ast.Unparen(r) == ast.Expr(lit) {
						if id, ok := x.Lhs[i].(*ast.Ident); ok {
							v = c04ObjOf(info, id)
						}
					}
				}
			}
		case *ast.ValueSpec:
			for i, r := range x.Values {
				if ast.Unparen(r) == ast.Expr(lit) && i < len(x.Names) {
					v = info.Defs[x.Names[i]]
				}
			}
		}
		return true
	})
	return v
}
