package rules

import (
	"go/ast"

	"verif/internal/core"
	"verif/internal/flow"
)

// Rules added after the second and third round of independently seeded changes (see DESIGN.md §8).
// Each is a structural necessary condition stated independently of the seeded patch's text;
// the mutants and behaviour-preserving edits they were tested with are in selftest/mutants/C07.json.

// R-C07-6: a read error of the source survives compression.

func c07GzipPull(c *core.Ctx) {
	c.Rule("R-C07-6", "a body shorter than declared stays an error under compression: in GZipCompressReader.pull the error of the copy from the source is kept as the reader's error unless it is io.EOF (a failed read must not be turned into a clean end of the gzip stream)")
	rd := "pkg/util/readers"
	f := fn(c, rd, "GZipCompressReader", "pull")
	if f == nil {
		return
	}
	cons := fname(rd, "GZipCompressReader", "pull")
	errF := structField(c, rd, "GZipCompressReader", "err")
	var cp *ast.CallExpr
	for _, call := range calls(f.Body, false) {
		switch calleeFull(f, call) {
		case "io.CopyN", "io.Copy", "io.CopyBuffer":
			cp = call
		}
	}
	if cp == nil {
		c.Undecide("R-C07-6", cons+"|source error kept", pos(c, f.Body), "no io.Copy* from the source in pull")
		return
	}
	// where does the copy's error go?
	var errTarget ast.Expr
	ast.Inspect(f.Body, func(n ast.Node) bool {
		if as, ok := n.(*ast.AssignStmt); ok && len(as.Rhs) == 1 && as.Rhs[0] == ast.Expr(cp) && len(as.Lhs) == 2 {
			errTarget = as.Lhs[1]
		}
		return true
	})
	if id, ok := errTarget.(*ast.Ident); errTarget == nil || (ok && id.Name == "_") {
		c.Violate("R-C07-6", cons+"|source error kept", pos(c, cp), "the error of the copy from the source is discarded: a backend body that ends early (connection died, shorter than Content-Length) becomes a clean end of the gzip stream and the client gets a truncated 200")
		return
	}
	isField := func(e ast.Expr) bool {
		sel, ok := ast.Unparen(e).(*ast.SelectorExpr)
		if !ok {
			return false
		}
		s := f.Info.Selections[sel]
		return s != nil && s.Obj() == errF
	}
	tgtKeyNil := f.NilKey(errTarget)
	tgtEOF := "eq:" + f.Render(errTarget) + "==@io.EOF"
	// once the copy error has been stored into the reader's error field, tests on that field
	// speak about the copy error too
	fieldEOF, fieldNil := "", ""
	eofIs := func(st *flow.State, v flow.Val) bool {
		if st.Is(tgtEOF, v) {
			return true
		}
		return fieldEOF != "" && st.Is("ev:kept", flow.True) && !st.Is("ev:replaced", flow.True) && st.Is(fieldEOF, v)
	}
	res := analyze(c, f, flow.Config{NoHavoc: true, OnNode: func(st *flow.State, n ast.Node) {
		as, ok := n.(*ast.AssignStmt)
		if !ok {
			return
		}
		for i, l := range as.Lhs {
			if !isField(l) {
				continue
			}
			// r.err = <copy error> keeps it; any other store after the copy replaces it
			if len(as.Rhs) == 1 && as.Rhs[0] == ast.Expr(cp) && i == 1 {
				st.Set("ev:kept", flow.True)
				continue
			}
			if len(as.Rhs) == len(as.Lhs) {
				if id, ok := ast.Unparen(as.Rhs[i]).(*ast.Ident); ok && !isField(errTarget) && f.Info.Uses[id] != nil && f.Render(id) == f.Render(errTarget) {
					st.Set("ev:kept", flow.True)
					fieldEOF = "eq:" + f.Render(l) + "==@io.EOF"
					fieldNil = f.NilKey(l)
					continue
				}
			}
			if !eofIs(st, flow.True) {
				st.Set("ev:replaced", flow.True)
			} else {
				st.Set("ev:eofHandled", flow.True)
			}
		}
	}})
	if res == nil {
		return
	}
	var bad *flow.State
	n := 0
	for _, ex := range res.Exits {
		if ex.Kind != flow.ExitReturn {
			continue
		}
		n++
		st := ex.State
		// states in which the copy error is a real failure: non-nil and not EOF. If the code
		// never distinguishes, the state is unknown: then the error must have been kept and not replaced.
		if st.Is("ev:eofHandled", flow.True) && !st.Is("ev:replaced", flow.True) {
			continue // the source was drained (io.EOF); what follows concerns the gzip trailer
		}
		isNil := st.Is(tgtKeyNil, flow.True) || (fieldNil != "" && st.Is("ev:kept", flow.True) && st.Is(fieldNil, flow.True))
		failure := eofIs(st, flow.False) && !isNil
		unknown := !eofIs(st, flow.True) && !eofIs(st, flow.False) && !isNil
		kept := st.Is("ev:kept", flow.True) || isField(errTarget)
		if (failure || unknown) && (!kept || st.Is("ev:replaced", flow.True)) {
			bad = st
		}
	}
	c.Check(bad == nil && n > 0, "R-C07-6", cons+"|source error kept", pos(c, cp), sprintf("%d exits: a non-EOF copy error is the reader's error", n),
		"on a path where the copy from the source may have failed with an error other than io.EOF the reader's error is lost or replaced: a short backend body is delivered as a complete gzip stream", witness(bad)...)
}
