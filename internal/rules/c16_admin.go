package rules

// R-C16-4 — admin delete disconnects. All functions are resolved by role, so that moving the
// watcher to another file, renaming it, splitting the batch loop out of it, handing the channel
// over inside a struct or replacing sessionStoreKey("") by a package variable does not lose them:
//
//	http delete handler  the (ResponseWriter, *Request) function that calls storage.delete
//	starters             the functions that call storage.watchDelete (newBroker, reconnectWatcher)
//	watcher              the function whose select receives delete events (chan of map[string]*string)
//	batch                the function that ranges over one event map
//	delete handler       the in-package function the batch loop calls with the id derived from the key

import (
	"go/ast"
	"go/token"
	"go/types"

	"golang.org/x/tools/go/cfg"

	"verif/internal/flow"
)

func c16IsEventMap(t types.Type) bool {
	if t == nil {
		return false
	}
	m, ok := t.Underlying().(*types.Map)
	if !ok {
		return false
	}
	if b, ok := m.Key().Underlying().(*types.Basic); !ok || b.Kind() != types.String {
		return false
	}
	p, ok := m.Elem().Underlying().(*types.Pointer)
	if !ok {
		return false
	}
	b, ok := p.Elem().Underlying().(*types.Basic)
	return ok && b.Kind() == types.String
}

func c16IsEventChan(t types.Type) bool {
	if t == nil {
		return false
	}
	ch, ok := t.Underlying().(*types.Chan)
	return ok && c16IsEventMap(ch.Elem())
}

// eventClause: the select clause of g that receives a delete event (nil if none).
func c16EventClause(g *flow.Func) (*ast.SelectStmt, *ast.CommClause) {
	var sel *ast.SelectStmt
	var clause *ast.CommClause
	ast.Inspect(g.Body, func(n ast.Node) bool {
		s, ok := n.(*ast.SelectStmt)
		if !ok {
			return true
		}
		for _, cl := range s.Body.List {
			cc := cl.(*ast.CommClause)
			if cc.Comm == nil {
				continue
			}
			ast.Inspect(cc.Comm, func(m ast.Node) bool {
				if u, ok := m.(*ast.UnaryExpr); ok && u.Op == token.ARROW {
					if tv, ok := g.Info.Types[u.X]; ok && c16IsEventChan(tv.Type) {
						sel, clause = s, cc
					}
				}
				return true
			})
		}
		return true
	})
	return sel, clause
}

func c16EventRange(g *flow.Func) *ast.RangeStmt {
	var rng *ast.RangeStmt
	ast.Inspect(g.Body, func(n ast.Node) bool {
		if r, ok := n.(*ast.RangeStmt); ok {
			if tv, ok := g.Info.Types[r.X]; ok && c16IsEventMap(tv.Type) {
				rng = r
			}
		}
		return true
	})
	return rng
}

func (e *c16Env) isStorageImpl(fd *ast.FuncDecl) bool {
	return c16RecvIs(fd, "mockStorage") || c16RecvIs(fd, "clusterStorage")
}

func c16AdminDelete(e *c16Env) {
	c := e.c

	// (a) the HTTP handler deletes the stored session of every listed id
	httpDel := e.pick("httpDelete", "Broker", "httpDeleteSessionHandler", func(g *flow.Func, fd *ast.FuncDecl) bool {
		if fd.Type.Params == nil || e.isStorageImpl(fd) {
			return false
		}
		isHTTP := false
		for _, p := range fd.Type.Params.List {
			if tv, ok := g.Info.Types[p.Type]; ok && tv.Type != nil && tv.Type.String() == "*net/http.Request" {
				isHTTP = true
			}
		}
		return isHTTP && reachContains(g, 1, func(h *flow.Func, n ast.Node) bool {
			call, ok := n.(*ast.CallExpr)
			return ok && ifaceMethodCall(h, call, mq, "storage", "delete")
		})
	})
	if httpDel != nil {
		cons := e.fnameOf(httpDel)
		type site struct {
			g   *flow.Func
			del *ast.CallExpr
		}
		var dels []site
		for _, g := range reach(httpDel, 1) {
			for _, call := range calls(g.Body, false) {
				if ifaceMethodCall(g, call, mq, "storage", "delete") {
					dels = append(dels, site{g, call})
				}
			}
		}
		if len(dels) == 0 {
			c.Violate("R-C16-4", cons+"|store.delete(sessionStoreKey(id)) per listed session", pos(c, httpDel.Body), "the admin handler never deletes a session from the store: nothing triggers the disconnect")
		}
		for _, s := range dels {
			f, del := s.g, s.del
			ok, why := false, "the store.delete call is not inside a loop over the request's Sessions"
			for _, l := range enclosingLoops(f.Body, del) {
				rng, isR := l.(*ast.RangeStmt)
				if !isR {
					continue
				}
				if tv, okT := f.Info.Types[rng.X]; !okT || !c16IsSessionList(tv.Type) {
					continue
				}
				vObj := c16Obj(f, rng.Value)
				why = "the deleted key is not sessionStoreKey(<listed session>.SessionID)"
				if len(del.Args) == 1 {
					arg := ast.Unparen(del.Args[0])
					if o := c16Obj(f, arg); o != nil {
						if rhs := c16DefRHS(f, o); len(rhs) == 1 {
							arg = ast.Unparen(rhs[0])
						}
					}
					if kc, isC := arg.(*ast.CallExpr); isC && c16Is(f, kc, mq+".sessionStoreKey") && len(kc.Args) == 1 {
						id := ast.Unparen(kc.Args[0])
						if o := c16Obj(f, id); o != nil {
							if rhs := c16DefRHS(f, o); len(rhs) == 1 {
								id = ast.Unparen(rhs[0])
							}
						}
						if c16Sel(f, id, e.httpIDF) && vObj != nil && c16Obj(f, c16Root(id)) == vObj {
							ok = true
						}
						// for i := range sessions { sessions[i].SessionID }
						if c16Sel(f, id, e.httpIDF) && rng.Value == nil {
							if ix, isIx := ast.Unparen(id.(*ast.SelectorExpr).X).(*ast.IndexExpr); isIx && c16Obj(f, ix.Index) != nil && c16Obj(f, ix.Index) == c16Obj(f, rng.Key) {
								ok = true
							}
						}
					}
				}
			}
			c.Check(ok, "R-C16-4", cons+"|store.delete(sessionStoreKey(id)) per listed session", pos(c, del), "range over data.Sessions deleting sessionStoreKey(s.SessionID)", why)
		}
	}

	// roles of the watch path
	var watcher, batch *flow.Func
	ws := funcsByRole(c, mq, func(g *flow.Func, fd *ast.FuncDecl) bool {
		_, cl := c16EventClause(g)
		return cl != nil && !e.isStorageImpl(fd)
	})
	bs := funcsByRole(c, mq, func(g *flow.Func, fd *ast.FuncDecl) bool { return c16EventRange(g) != nil && !e.isStorageImpl(fd) })
	if len(ws) != 1 || len(bs) != 1 {
		c.Undecide("R-C16-4", mq+"|delete watcher", "-", sprintf("%d functions select on a delete-event channel and %d range over an event map; exactly one of each is expected", len(ws), len(bs)))
		return
	}
	watcher, batch = ws[0], bs[0]
	wfd, _ := watcher.Node.(*ast.FuncDecl)
	bfd, _ := batch.Node.(*ast.FuncDecl)
	watcher, batch = funcOf(e.pkg, wfd), funcOf(e.pkg, bfd)

	// (b) the watcher is started with the store's delete channel
	starters := funcsByRole(c, mq, func(g *flow.Func, fd *ast.FuncDecl) bool {
		return !e.isStorageImpl(fd) && c16BodyCalls(g, func(call *ast.CallExpr) bool { return ifaceMethodCall(g, call, mq, "storage", "watchDelete") })
	})
	c.RequireCount("R-C16-4", "functions that open a delete watch on the store (broker start, watcher reconnect)", len(starters), 2)
	for _, f := range starters {
		f := f
		// variables that carry the channel: results of store.watchDelete, and struct values built from them
		carries := map[types.Object]bool{}
		ast.Inspect(f.Body, func(n ast.Node) bool {
			if as, isA := n.(*ast.AssignStmt); isA && len(as.Rhs) == 1 && len(as.Lhs) >= 1 {
				if wc, isC := ast.Unparen(as.Rhs[0]).(*ast.CallExpr); isC && ifaceMethodCall(f, wc, mq, "storage", "watchDelete") {
					if o := c16Obj(f, as.Lhs[0]); o != nil {
						carries[o] = true
					}
				}
			}
			return true
		})
		var carriesExpr func(x ast.Expr, depth int) bool
		carriesExpr = func(x ast.Expr, depth int) bool {
			x = ast.Unparen(x)
			if u, ok := x.(*ast.UnaryExpr); ok && u.Op == token.AND {
				x = ast.Unparen(u.X)
			}
			if o := c16Obj(f, x); o != nil {
				if carries[o] {
					return true
				}
				if depth < 2 {
					for _, r := range c16DefRHS(f, o) {
						if carriesExpr(r, depth+1) {
							return true
						}
					}
				}
			}
			if lit, ok := x.(*ast.CompositeLit); ok {
				for _, el := range lit.Elts {
					v := el
					if kv, ok := el.(*ast.KeyValueExpr); ok {
						v = kv.Value
					}
					if carriesExpr(v, depth+1) {
						return true
					}
				}
			}
			return false
		}
		ok := false
		for _, call := range calls(f.Body, true) {
			if e.callTo(f, call, watcher) {
				for _, a := range call.Args {
					ok = ok || carriesExpr(a, 0)
				}
			}
		}
		c.Check(ok, "R-C16-4", e.fnameOf(f)+"|starts watchDelete on the store's delete channel", pos(c, f.Body),
			"the watcher is started with the channel returned by store.watchDelete(…)", "the session-deletion watcher is not started with the store's delete channel: admin deletes are never seen")
	}

	// (c1) the batch loop
	var handler *flow.Func
	{
		f := batch
		cons := e.fnameOf(f)
		rng := c16EventRange(f)
		kObj := c16Obj(f, rng.Key)
		derivedFromKey := func(x ast.Expr) bool {
			if kObj == nil {
				return false
			}
			if c16Mentions(f, x, kObj) {
				return true
			}
			for _, r := range c16DefRHS(f, c16Obj(f, x)) {
				if c16Mentions(f, r, kObj) {
					return true
				}
			}
			return false
		}
		var del *ast.CallExpr
		for _, call := range calls(rng.Body, true) {
			fo, ok := c16FnOK(f, call)
			if !ok || e.decls[fo] == nil || len(call.Args) == 0 {
				continue
			}
			for _, a := range call.Args {
				if derivedFromKey(a) && del == nil {
					del = call
					handler = funcOf(e.pkg, e.decls[fo])
				}
			}
		}
		vID, _ := rng.Value.(*ast.Ident)
		switch {
		case del == nil:
			c.Violate("R-C16-4", cons+"|deleteSession(id derived from the deleted key)", pos(c, rng), "the loop over a batch of delete events calls no function of the package with an id computed from the deleted key: nobody is disconnected")
		case vID == nil || c16Obj(f, vID) == nil:
			c.Undecide("R-C16-4", cons+"|shape", pos(c, del), "the loop over the event map does not name the value (`for k, v := range`)")
		default:
			nilKey := f.NilKey(vID)
			c.Discharge("R-C16-4", cons+"|deleteSession(id derived from the deleted key)", pos(c, del), "argument computed from the range key")
			exits := breaksOut(f, rng, labelOf(f.Body, rng))
			c.Check(len(exits) == 0, "R-C16-4", cons+"|whole batch processed", pos(c, rng), "no return/break/goto inside the loop over the batch of events",
				"the loop over a batch of delete events can be left early: the clients of the remaining deleted sessions are not disconnected", func() []string {
					if len(exits) > 0 {
						return []string{"exit at " + pos(c, exits[0])}
					}
					return nil
				}()...)
			const evIn, evDel = "ev:c16inbody", "ev:c16deleted"
			var badIter *flow.State
			iters := 0
			res := analyze(c, f, flow.Config{
				NoHavoc: true,
				OnBlock: func(st *flow.State, b *cfg.Block) {
					switch {
					case b.Stmt == rng && b.Kind == cfg.KindRangeBody:
						st.Set(evIn, flow.True)
						st.Set(evDel, flow.False)
					case b.Stmt == rng && b.Kind == cfg.KindRangeLoop:
						if st.Is(evIn, flow.True) {
							iters++
							if !st.Is(evDel, flow.True) && !st.Is(nilKey, flow.False) && badIter == nil {
								badIter = st
							}
						}
						st.Set(evIn, flow.Unknown)
						st.Set(evDel, flow.Unknown)
						st.Set(nilKey, flow.Unknown)
					}
				},
				OnCall: func(st *flow.State, call *ast.CallExpr, callee types.Object, d bool) {
					if call == del {
						st.Set(evDel, flow.True)
					}
				},
			})
			if res != nil {
				c.RequireCount("R-C16-4", "abstract batch iterations explored in watchDelete", iters, 1)
				var bad *flow.State
				for _, st := range res.At[del] {
					if !st.Is(nilKey, flow.True) {
						bad = st
					}
				}
				if len(res.At[del]) == 0 {
					c.Violate("R-C16-4", cons+"|deleteSession only for deleted keys", pos(c, del), "the delete handler is unreachable in the batch loop")
				} else {
					c.Check(bad == nil, "R-C16-4", cons+"|deleteSession only for deleted keys", pos(c, del), sprintf("%d states reach the delete handler, all with value == nil", len(res.At[del])),
						"the delete handler is reachable for an event whose value is not known to be nil: a stored (not deleted) session would disconnect its client on every session update", witness(bad)...)
				}
				c.Check(badIter == nil, "R-C16-4", cons+"|every deleted key reaches deleteSession", pos(c, rng), sprintf("%d abstract iteration ends: each either called the delete handler or had value != nil", iters),
					"an iteration over the batch ends without the delete handler although the value may be nil (deleted key): that client stays connected after its session was deleted", witness(badIter)...)
			}
		}
	}

	// (c2) the watcher keeps watching and hands every event to the batch loop
	{
		f := watcher
		cons := e.fnameOf(f)
		sel, clause := c16EventClause(f)
		var outer ast.Stmt
		if loops := enclosingLoops(f.Body, sel); len(loops) > 0 {
			outer = loops[0]
		}
		handsOver := batch.Body == f.Body
		if !handsOver {
			for _, call := range calls(clause, false) {
				if fo, ok := c16FnOK(f, call); ok && e.decls[fo] != nil {
					g := funcOf(e.pkg, e.decls[fo])
					for _, h := range reach(g, 2) {
						handsOver = handsOver || h.Body == batch.Body
					}
				}
			}
		}
		if !handsOver {
			c.Violate("R-C16-4", cons+"|keeps watching", pos(c, clause), "the select clause that receives a delete event does not hand it to the loop that disconnects the clients of deleted sessions")
		} else if outer == nil {
			c.Violate("R-C16-4", cons+"|keeps watching", pos(c, sel), "the watcher handles a single event: it does not select in a loop")
		} else {
			const evDone, evRe = "ev:c16doneCase", "ev:c16reconnect"
			isDoneClause := func(s ast.Stmt) bool {
				cc, ok := s.(*ast.CommClause)
				if !ok || cc.Comm == nil {
					return false
				}
				found := false
				ast.Inspect(cc.Comm, func(n ast.Node) bool {
					if x, ok := n.(ast.Expr); ok && c16Sel(f, x, e.brokerDoneF) {
						found = true
					}
					return true
				})
				return found
			}
			res := analyze(c, f, flow.Config{
				NoHavoc: true,
				OnBlock: func(st *flow.State, b *cfg.Block) {
					switch {
					case b.Stmt == outer && b.Kind == cfg.KindForBody:
						st.Set(evDone, flow.Unknown)
						st.Set(evRe, flow.Unknown)
					case b.Kind == cfg.KindSelectCaseBody && isDoneClause(b.Stmt):
						st.Set(evDone, flow.True)
					}
				},
				OnCall: func(st *flow.State, call *ast.CallExpr, callee types.Object, d bool) {
					for _, s := range starters {
						if e.callTo(f, call, s) {
							st.Set(evRe, flow.True)
						}
					}
				},
			})
			if res != nil {
				var badExit *flow.State
				n := 0
				for _, ex := range res.Exits {
					if !c16RealExit(ex) {
						continue
					}
					n++
					if !ex.State.Is(evDone, flow.True) && !ex.State.Is(evRe, flow.True) && badExit == nil {
						badExit = ex.State
					}
				}
				c.Check(badExit == nil && n > 0, "R-C16-4", cons+"|keeps watching", pos(c, outer), sprintf("%d exits: broker shutdown or the watch re-opened", n),
					"the watcher can return for a reason other than broker shutdown without re-opening the watch: later admin deletes no longer disconnect anybody", witness(badExit)...)
			}
		}
	}

	// (d) the delete handler closes the registered client
	if f := handler; f != nil {
		cons := e.fnameOf(f)
		var param types.Object
		if f.Type.Params != nil && len(f.Type.Params.List) > 0 && len(f.Type.Params.List[0].Names) > 0 {
			param = f.Info.Defs[f.Type.Params.List[0].Names[0]]
		}
		regVars := map[types.Object]bool{}
		var absentT, absentF, disc []string
		keyOK := true
		var lookupAt ast.Node
		ast.Inspect(f.Body, func(n ast.Node) bool {
			as, ok := n.(*ast.AssignStmt)
			if !ok || len(as.Rhs) != 1 {
				return true
			}
			r := ast.Unparen(as.Rhs[0])
			var keyExpr ast.Expr
			if e.isClientsLookup(f, r) {
				keyExpr = e.lookupKey(f, r)
			} else if call, isC := r.(*ast.CallExpr); isC && c16Is(f, call, "(*"+mq+".Broker).getClient") && len(call.Args) == 1 {
				keyExpr = call.Args[0]
			} else {
				return true
			}
			lookupAt = as
			if param == nil || c16Obj(f, keyExpr) != param {
				keyOK = false
			}
			if id, ok := as.Lhs[0].(*ast.Ident); ok && c16Obj(f, id) != nil {
				regVars[c16Obj(f, id)] = true
				absentT = append(absentT, f.NilKey(id))
			}
			if len(as.Lhs) == 2 {
				if id, ok := as.Lhs[1].(*ast.Ident); ok && c16Obj(f, id) != nil {
					absentF = append(absentF, f.VarKey(id))
				}
			}
			return true
		})
		var closes []*ast.CallExpr
		for _, call := range calls(f.Body, false) {
			if fo, ok := c16FnOK(f, call); ok && regVars[c16Obj(f, c16Recv(call))] {
				if d := e.decls[fo]; d != nil && c16IsClientMethod(d) && e.closesDone(d, 0) {
					closes = append(closes, call)
				}
			}
			if c16Is(f, call, "(*"+mq+".Client).disconnected") && regVars[c16Obj(f, c16Recv(call))] {
				disc = c16AddKey(disc, f.CallKey(call))
			}
		}
		role := cons + "|registered client is closed"
		switch {
		case len(closes) == 0:
			c.Violate("R-C16-4", role, pos(c, f.Body), "the delete handler never closes the client registered under the deleted session's id: deleting a session through the admin endpoint does not disconnect the client")
		case !keyOK:
			c.Violate("R-C16-4", role, pos(c, lookupAt), "the client that is closed is not looked up under the id passed to the delete handler")
		default:
			res := analyze(c, f, flow.Config{NoHavoc: true, OnCall: func(st *flow.State, call *ast.CallExpr, callee types.Object, d bool) {
				for _, cl := range closes {
					if call == cl {
						st.Set("ev:c16closed", flow.True)
					}
				}
			}})
			if res != nil {
				var bad *flow.State
				n := 0
				for _, ex := range res.Exits {
					if !c16RealExit(ex) {
						continue
					}
					n++
					st := ex.State
					excused := false
					for _, k := range absentT {
						excused = excused || st.Is(k, flow.True)
					}
					for _, k := range absentF {
						excused = excused || st.Is(k, flow.False)
					}
					for _, k := range disc {
						excused = excused || st.Is(k, flow.True)
					}
					if !st.Is("ev:c16closed", flow.True) && !excused && bad == nil {
						bad = st
					}
				}
				c.Check(bad == nil && n > 0, "R-C16-4", role, pos(c, closes[0]), sprintf("%d exits: closed, or nobody registered, or already disconnected", n),
					"the delete handler can return without closing a registered, still connected client: the admin delete does not disconnect it", witness(bad)...)
			}
		}
	}
}

// c16IsSessionList: []*HTTPSession (the Sessions field of the admin request), by element type.
func c16IsSessionList(t types.Type) bool {
	if t == nil {
		return false
	}
	sl, ok := t.Underlying().(*types.Slice)
	if !ok {
		return false
	}
	el := sl.Elem()
	if p, ok := el.(*types.Pointer); ok {
		el = p.Elem()
	}
	n, ok := el.(*types.Named)
	return ok && n.Obj().Name() == "HTTPSession" && n.Obj().Pkg() != nil && n.Obj().Pkg().Path() == Mod+mq
}

// closesDone: does the Client method (transitively) close the connection's done channel?
func (e *c16Env) closesDone(d *ast.FuncDecl, depth int) bool {
	doneF := structField(e.c, mq, "Client", "done")
	f := funcOf(e.pkg, d)
	yes := false
	ast.Inspect(d.Body, func(n ast.Node) bool {
		if x, ok := n.(*ast.CallExpr); ok {
			if calleeFull(f, x) == "builtin.close" && len(x.Args) == 1 && c16Sel(f, x.Args[0], doneF) {
				yes = true
			} else if fo, ok := c16FnOK(f, x); ok && depth < 3 {
				if cd := e.decls[fo]; cd != nil && cd != d && e.closesDone(cd, depth+1) {
					yes = true
				}
			}
		}
		return !yes
	})
	return yes
}
