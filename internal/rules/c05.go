package rules

import (
	"golang.org/x/tools/go/cfg"
	"sort"

	"go/ast"
	"go/token"
	"go/types"
	"strings"

	"verif/internal/core"
	"verif/internal/flow"
)

func init() { Registry["C05"] = c05 }

const ipf = "pkg/util/ipfilter"

// c05 — IP filter: denied clients never reach a pipeline, allowed ones are unaffected.
//
// Mutants tried while writing (scratch worktree, each compiles):
//
//	drop `case allowed && blocked` in IPFilter.Allow           → R-C05-1
//	swap `case allowed` / `case blocked` results                → R-C05-1
//	defaultResult := f.spec.BlockByDefault (negation dropped)   → R-C05-1
//	IPFilters.Allow returns true at the first allowing filter   → R-C05-1
//	drop the rule-level allowIP test in search                  → R-C05-2
//	`continue` instead of `return forbidden` at path level      → R-C05-2
//	return the cached route before the chain check              → R-C05-2
//	ruleIPFilterChain built from spec.IPFilter (not the rule's) → R-C05-3
//	paths built with the server chain only                      → R-C05-3
//	insert entries whose ParseCIDR failed                       → R-C05-5
//	IPv4 mask for every single address                          → R-C05-5
//
// Robustness pass: the search rules follow helpers of the search (cached branch / cache lookup /
// rule and path walks extracted, allowIP inlined as `f != nil && !f.Allow(ip)`), index loops, a
// route or verdict passed through a local; IPFilters.Allow may walk a snapshot by index;
// ipfilter.New may fill the rangers in a closure, a helper or after construction, by range or index
// loop, with named results; constructors are resolved by signature. Mutants re-tried on refactored
// forms: extracted cached branch without the chain test → R-C05-2; builder helper handing the
// server chain to the paths → R-C05-3.
//
// Second iteration: the decision table is extracted under every completion of (allowed, blocked)
// consistent with the path, so `if allowed == blocked {default}; return allowed` and a verdict
// helper are read like the switch; the two tries are resolved by the spec list they are built from;
// entries may be staged in a slice and inserted by a second loop, or parsed by a helper; filters
// may live in a struct embedded in the three levels, be tested through nil-safe wrapper methods
// (whose bodies are verified before they are trusted) and be built by a constructor of that struct
// (symEval evaluates helper calls with their operands). Mutants re-tried: verdict helper with
// swapped cases → R-C05-1; staging loop skipping an entry → R-C05-5; guard constructor dropping the
// parent chain → R-C05-3; allowsChain always true / rule level testing the server guard → R-C05-2.
//
// Round-4 seeded change C05/h (single-address and CIDR branches unified: "/<bits>" appended to the
// entry's text, bits chosen by ip.To4()): R-C05-5 follows the unified shape (a single address that
// also goes through ParseCIDR, prefix lengths as numbers or "/32" texts) and gained "address family
// decided on the value the prefix is attached to" — the defect e0a03b3 repaired was the mirror
// image (family from the text, mask on the parsed address) and is reported by the same obligation.
// The unification done correctly (length appended to ip.String(), or decided on the text) is silent.
//
// Third set of refactorings: what Allow returns by default is followed per path (a named result is
// assigned !blockByDefault first and a decided verdict later; bare returns), the "assigned once"
// test is gone — a reassigned default shows in the decision table; a helper called in operand
// position (Insert(NewBasicRangerEntry(hostNet(ip)))) is analysed on its own with the same hooks and
// its exits carried over (masks: any exit; the two views of the entry: all exits must agree, else
// undecided).
func c05(c *core.Ctx) string {
	c.Rule("R-C05-1", "decision table of IPFilter.Allow (exhaustive over parse ok / lookup errors / allowed / blocked): deny ⇔ (blocked ∧ ¬allowed) ∨ ((allowed ⇔ blocked) ∧ blockByDefault), default result on any parse/lookup error; IPFilters.Allow is the conjunction of its filters")
	c.Rule("R-C05-2", "checks dominate dispatch: every uncached success return of the search has passed the server-, rule- and path-level filters; a failed test returns the 403 route immediately; a cached success route is returned only after its filter chain allowed the client (or the chain is nil)")
	c.Rule("R-C05-3", "chain composition: the chain stored in a path = server filter + its rule's filter + its own filter; each level's own filter is built from its own spec; the chain constructor copies all parent filters and appends the child")
	c.Rule("R-C05-4", "403 ⇒ no dispatch: a non-zero route code ends serveHTTP with a failure response and no handler call")
	c.Rule("R-C05-5", "CIDR construction: every entry inserted into a ranger derives from net.ParseIP (non-nil) with an all-ones mask chosen by address family, or from net.ParseCIDR without error; the IPv4/IPv6 decision of a single address and the value its full prefix length / mask is attached to are the same view of the entry (the parsed address or the text as written)")
	c.NotDecided = []string{"prefix-trie membership (third-party cidranger)", "IPv4-mapped IPv6 corner cases", "client address extraction (realip)"}

	c05Allow(c)
	c05Conj(c)
	if s := analyzeSearch(c, "R-C05-2"); s != nil {
		c05Search(c, s)
	}
	muxBuildChecks(c, "R-C05-3", "")
	c05NoDispatch(c)
	c05New(c)
	c05EveryEntryInserted(c)
	c05NewIPFilter(c)
	// a cached route must not let a denied client through: the cache rules of C12 that concern IP filters
	if s := analyzeSearch(c, "R-C05-6"); s != nil {
		c.Rule("R-C05-6", "the route cache does not bypass IP filters: every IP test passed on the way to a cache put is re-validated on a hit (shared with R-C12-2)")
		c12SearchIPOnly(c, s, "R-C05-6")
	}
	ipChainNoAliasing(c, "R-C05-7")
	return "Exhaustive decision-table extraction for IPFilter.Allow (all abstract paths) and the conjunction in IPFilters.Allow; path-sensitive proof over muxInstance.search that the three filter levels dominate every uncached success return and that cached routes are re-checked through a chain which, by symbolic evaluation of reload/newMuxRule/newMuxPath/newIPFilterChain, contains server+rule+path filters; serveHTTP does not dispatch a 4xx route; ranger entries come from successful parses. Not decided: trie membership, IPv4-mapped IPv6, realip extraction."
}

func c05Allow(c *core.Ctx) {
	f := fn(c, ipf, "IPFilter", "Allow")
	if f == nil {
		return
	}
	cons := fname(ipf, "IPFilter", "Allow")
	// the default verdict is the negation of spec.BlockByDefault: which expressions of Allow (and
	// of what it reaches in its package) read the setting negated, which read it as it is. What
	// a returned variable holds is followed per path below (a named result may be assigned the
	// default first and a decided verdict later).
	fns := reach(f, 2)
	isBBD := func(g *flow.Func, e ast.Expr) bool {
		sel, ok := ast.Unparen(e).(*ast.SelectorExpr)
		if !ok || sel.Sel.Name != "BlockByDefault" {
			return false
		}
		sl := g.Info.Selections[sel]
		return sl != nil && sl.Kind() == types.FieldVal
	}
	neg, plain := 0, 0
	for _, g := range fns {
		negated := map[ast.Expr]bool{}
		ast.Inspect(g.Body, func(n ast.Node) bool {
			if ue, ok := n.(*ast.UnaryExpr); ok && ue.Op == token.NOT && isBBD(g, ue.X) {
				negated[ast.Unparen(ue.X)] = true
				neg++
			}
			if e, ok := n.(ast.Expr); ok && isBBD(g, e) && !negated[e] {
				if _, isParen := e.(*ast.ParenExpr); !isParen {
					plain++
				}
			}
			return true
		})
	}
	if neg+plain == 0 {
		c.Undecide("R-C05-1", cons+"|default result", pos(c, f.Body), "no value derived from spec.BlockByDefault")
		return
	}
	c.Check(neg > 0 && plain == 0, "R-C05-1", cons+"|default result = !blockByDefault", pos(c, f.Body), "the default result is !spec.BlockByDefault",
		"the default result is not the negation of blockByDefault: addresses in neither/both lists get the wrong verdict")
	df := newMuxSrc(f, fns, "df:", nil, inlineSamePkg(f))
	df.classify = func(e ast.Expr) flow.Val {
		for _, g := range fns {
			if ue, ok := e.(*ast.UnaryExpr); ok && ue.Op == token.NOT && isBBD(g, ue.X) {
				return flow.True
			}
			if isBBD(g, e) {
				return flow.False
			}
		}
		return flow.Unknown
	}

	// identify parse result, lookup results (the two prefix tries are resolved by the spec list
	// they are built from, not by their names)
	allowF, blockF := c05RangerField(c, "AllowIPs"), c05RangerField(c, "BlockIPs")
	// the parse result and the results of the two lookups may live in Allow or in the helpers it is
	// split into (allowParsed(net.ParseIP(ipstr)); lookup(ip) (allowed, blocked bool, err error)):
	// every variable that holds one of them, through assignments, parameters and results
	vfA := newMuxFlow(fns)
	var parseCall, aCall, bCall *ast.CallExpr
	for _, g := range fns {
		for _, call := range calls(g.Body, true) {
			if calleeFull(g, call) == "net.ParseIP" {
				parseCall = call
			}
			if methodName(call) == "Contains" {
				if sel, ok := ast.Unparen(call.Fun).(*ast.SelectorExpr); ok {
					if s2, ok := ast.Unparen(sel.X).(*ast.SelectorExpr); ok {
						if sl := g.Info.Selections[s2]; sl != nil {
							switch sl.Obj() {
							case types.Object(allowF):
								aCall = call
							case types.Object(blockF):
								bCall = call
							}
						}
					}
				}
			}
		}
	}
	var ipIDs, aIDs, bIDs, errIDs []*ast.Ident
	sortedIDs := func(m map[types.Object]*ast.Ident) []*ast.Ident {
		var out []*ast.Ident
		for _, id := range m {
			out = append(out, id)
		}
		sort.Slice(out, func(i, j int) bool { return out[i].Pos() < out[j].Pos() })
		return out
	}
	if allowF != nil && blockF != nil && parseCall != nil && aCall != nil && bCall != nil {
		ipIDs = sortedIDs(muxResultHolders(vfA, parseCall, 0))
		// the address handed on as an operand: f.allowParsed(net.ParseIP(ipstr))
		for o, ref := range vfA.param {
			for _, site := range vfA.sites[ref.fn] {
				if ref.idx >= 0 && ref.idx < len(site.Call.Args) && ast.Unparen(site.Call.Args[ref.idx]) == ast.Expr(parseCall) {
					if id := vfA.ident[o]; id != nil {
						ipIDs = append(ipIDs, id)
					}
				}
			}
		}
		aIDs, bIDs = sortedIDs(muxResultHolders(vfA, aCall, 0)), sortedIDs(muxResultHolders(vfA, bCall, 0))
		errIDs = append(sortedIDs(muxResultHolders(vfA, aCall, 1)), sortedIDs(muxResultHolders(vfA, bCall, 1))...)
	}
	if len(ipIDs) == 0 || len(aIDs) == 0 || len(bIDs) == 0 || len(errIDs) == 0 {
		c.Undecide("R-C05-1", cons+"|decision table", pos(c, f.Body), "cannot identify ParseIP / allow-list Contains / block-list Contains results")
		return
	}
	objOf := func(id *ast.Ident) types.Object { return vfA.obj(id) }
	anyOf := func(st *flow.State, ids []*ast.Ident, key func(*ast.Ident) string) flow.Val {
		for _, id := range ids {
			if v := st.Get(key(id)); v != flow.Unknown {
				return v
			}
		}
		return flow.Unknown
	}
	nilKey := func(id *ast.Ident) string { return f.NilKey(id) }
	varKey := func(id *ast.Ident) string { return f.VarKey(id) }
	ipNilOf := func(st *flow.State) flow.Val { return anyOf(st, ipIDs, nilKey) }
	aOf := func(st *flow.State) flow.Val { return anyOf(st, aIDs, varKey) }
	bOf := func(st *flow.State) flow.Val { return anyOf(st, bIDs, varKey) }
	eqOf := func(st *flow.State) flow.Val {
		for _, a := range aIDs {
			for _, b := range bIDs {
				if v := st.Get(f.EqKey(a, b)); v != flow.Unknown {
					return v
				}
			}
		}
		return flow.Unknown
	}
	isA := func(o types.Object) bool {
		for _, id := range aIDs {
			if objOf(id) == o {
				return true
			}
		}
		return false
	}
	isB := func(o types.Object) bool {
		for _, id := range bIDs {
			if objOf(id) == o {
				return true
			}
		}
		return false
	}
	for _, id := range append(append([]*ast.Ident{}, aIDs...), bIDs...) {
		vfA.stop[objOf(id)] = true
	}
	// events: which lookups have been performed and whether one failed
	res := muxAnalyzeInl(c, f, df.config(flow.Config{NoHavoc: true,
		AfterAssume: func(st *flow.State, cond ast.Expr, outcome bool) {
			if anyOf(st, errIDs, nilKey) == flow.False {
				st.Set("ev:lookupFailed", flow.True)
			}
		},
	}))
	if res == nil {
		return
	}
	// value of a returned expression under a completion (av, bv) of the two lookups:
	// "default", "true", "false" or "?"
	var value func(st *flow.State, e ast.Expr, av, bv bool) string
	boolStr := func(b bool) string {
		if b {
			return "true"
		}
		return "false"
	}
	value = func(st *flow.State, e ast.Expr, av, bv bool) string {
		e = ast.Unparen(e)
		if tv, has := f.Info.Types[e]; has && tv.Value != nil {
			return tv.Value.ExactString()
		}
		switch df.get(st, e) {
		case flow.True:
			return "default"
		case flow.False:
			return "blockByDefault (not negated)"
		}
		if ue, ok := e.(*ast.UnaryExpr); ok && ue.Op == token.NOT {
			switch value(st, ue.X, av, bv) {
			case "true":
				return "false"
			case "false":
				return "true"
			}
			return "?"
		}
		switch {
		case vfA.allPaths(e, false, isA):
			return boolStr(av)
		case vfA.allPaths(e, false, isB):
			return boolStr(bv)
		}
		if id := muxIdentOf(e); id != nil && st.Get(f.VarKey(id)) != flow.Unknown {
			// a (named) result variable whose value is known on this path
			return boolStr(st.Is(f.VarKey(id), flow.True))
		}
		return "?"
	}
	rows := map[string]string{}
	ok := true
	for _, ex := range res.Exits {
		if ex.Kind != flow.ExitReturn {
			continue
		}
		r := muxRetExpr(f, vfA, ex)
		if r == nil {
			continue
		}
		st := ex.State
		switch {
		case ipNilOf(st) == flow.True, st.Is("ev:lookupFailed", flow.True):
			row := "unparsable address"
			if ipNilOf(st) != flow.True {
				row = "lookup error"
			}
			got := value(st, r, false, false)
			if got == "?" {
				c.Undecide("R-C05-1", cons+"|decision table", pos(c, ex.Ret()), "cannot resolve the verdict returned on this path")
				ok = false
			} else if got != "default" {
				ok = false
				c.Violate("R-C05-1", cons+"|decision table", pos(c, ex.Ret()), sprintf("row [%s]: Allow returns %s, the property's table says default", row, got), witness(st)...)
			}
			rows[row] = got
		default:
			// an unknown atom stands for both of its values: every completion consistent with
			// what the path has learned must agree with the table
			for _, av := range []bool{true, false} {
				for _, bv := range []bool{true, false} {
					if a := aOf(st); a != flow.Unknown && (a == flow.True) != av {
						continue
					}
					if b := bOf(st); b != flow.Unknown && (b == flow.True) != bv {
						continue
					}
					if e := eqOf(st); e != flow.Unknown && (e == flow.True) != (av == bv) {
						continue
					}
					want := "default"
					switch {
					case av && bv:
					case av:
						want = "true"
					case bv:
						want = "false"
					}
					row := "allowed=" + boolVal(av) + ",blocked=" + boolVal(bv)
					got := value(st, r, av, bv)
					if got == "?" {
						c.Undecide("R-C05-1", cons+"|decision table", pos(c, ex.Ret()), "cannot resolve the verdict returned on this path")
						ok = false
						continue
					}
					rows[row] = got
					if got != want && ok {
						ok = false
						c.Violate("R-C05-1", cons+"|decision table", pos(c, ex.Ret()),
							sprintf("row [%s]: Allow returns %s, the property's table says %s", row, got, want), witness(st)...)
					}
				}
			}
		}
		if !ok {
			break
		}
	}
	need := []string{"unparsable address", "lookup error", "allowed=T,blocked=T", "allowed=T,blocked=F", "allowed=F,blocked=T", "allowed=F,blocked=F"}
	for _, r := range need {
		if _, has := rows[r]; !has && ok {
			c.Errorf("R-C05-1: vacuity guard: decision-table row %q not reached in IPFilter.Allow", r)
		}
	}
	if ok {
		c.Discharge("R-C05-1", cons+"|decision table", pos(c, f.Body), sprintf("all %d rows enumerated and equal to the property's table: %v", len(rows), rows))
	}
}

func boolVal(b bool) string {
	if b {
		return "T"
	}
	return "F"
}

// c05RangerField resolves the prefix-trie field of IPFilter that is built from the given list of
// the spec (AllowIPs / BlockIPs): the field whose initial value (composite literal entry or
// assignment) mentions spec.<list>.
func c05RangerField(c *core.Ctx, list string) *types.Var {
	pkg := c.Prog.Pkg(ipf)
	ft := namedType(c, ipf, "IPFilter")
	if pkg == nil || ft == nil {
		return nil
	}
	info := pkg.TypesInfo
	mentions := func(e ast.Expr) bool {
		found := false
		ast.Inspect(e, func(n ast.Node) bool {
			if sel, ok := n.(*ast.SelectorExpr); ok && sel.Sel.Name == list {
				found = true
			}
			return !found
		})
		return found
	}
	found := map[*types.Var]bool{}
	for _, file := range pkg.Syntax {
		ast.Inspect(file, func(n ast.Node) bool {
			switch x := n.(type) {
			case *ast.CompositeLit:
				if tv, ok := info.Types[x]; ok && muxSameNamed(muxDerefNamed(tv.Type), ft) {
					for _, el := range x.Elts {
						if kv, ok := el.(*ast.KeyValueExpr); ok && mentions(kv.Value) {
							if k, ok := kv.Key.(*ast.Ident); ok {
								if fv := muxOneField(ft, k.Name, func(v *types.Var) bool { return v.Name() == k.Name }); fv != nil {
									found[fv] = true
								}
							}
						}
					}
				}
			case *ast.AssignStmt:
				if len(x.Lhs) == len(x.Rhs) {
					for i, l := range x.Lhs {
						if sel, ok := ast.Unparen(l).(*ast.SelectorExpr); ok && mentions(x.Rhs[i]) {
							if sl := info.Selections[sel]; sl != nil && muxSameNamed(muxDerefNamed(sl.Recv()), ft) {
								if fv, ok := sl.Obj().(*types.Var); ok {
									found[fv] = true
								}
							}
						}
					}
				}
			}
			return true
		})
	}
	if len(found) == 1 {
		for fv := range found {
			return fv
		}
	}
	return nil
}

func c05Conj(c *core.Ctx) {
	f := fn(c, ipf, "IPFilters", "Allow")
	if f == nil {
		return
	}
	cons := fname(ipf, "IPFilters", "Allow")
	var filtersF *types.Var
	if n := namedType(c, ipf, "IPFilters"); n != nil {
		ft := namedType(c, ipf, "IPFilter")
		filtersF = muxOneField(n, "filters", func(v *types.Var) bool { return muxIsSliceOfPtrTo(v.Type(), ft) })
	}
	if filtersF == nil {
		c.Errorf("R-C05-1: anchor: IPFilters has no []*IPFilter field")
		return
	}
	fns := reach(f, 2)
	vf := newMuxFlow(fns)
	loops := vf.loopsOver(filtersF, "filters")
	if len(loops) == 0 {
		c.Violate("R-C05-1", cons+"|conjunction over all filters", pos(c, f.Body), "IPFilters.Allow does not loop over its filters")
		return
	}
	if len(loops) > 1 {
		c.Undecide("R-C05-1", cons+"|conjunction over all filters", pos(c, f.Body), "several loops over the filters")
		return
	}
	loop := loops[0]
	var allow []*ast.CallExpr
	parsedVariant := c05ParsedVariant(c)
	for _, call := range calls(loop.body(), false) {
		isAllow := calleeIs(f, call, "(*"+ipf+".IPFilter).Allow")
		if fo, ok := f.Callee(call).(*types.Func); ok && parsedVariant != nil && fo.Origin() == parsedVariant && len(call.Args) == 1 {
			// filter.allowParsed(ip) with ip := net.ParseIP(<the address handed to the chain>),
			// where IPFilter.Allow is nothing but `return f.allowParsed(net.ParseIP(ipstr))`
			if pc, ok := vf.through(call.Args[0]).(*ast.CallExpr); ok && calleeFull(f, pc) == "net.ParseIP" && len(pc.Args) == 1 {
				if id := muxIdentOf(pc.Args[0]); id != nil {
					if _, isParam := vf.param[vf.obj(id)]; isParam && len(vf.defs[vf.obj(id)]) == 0 {
						isAllow = true
					}
				}
			}
		}
		if isAllow {
			if sel, ok := ast.Unparen(call.Fun).(*ast.SelectorExpr); ok && loop.isElem(vf, sel.X) {
				allow = append(allow, call)
			}
		}
	}
	if len(allow) != 1 || !loop.ordered {
		c.Violate("R-C05-1", cons+"|conjunction over all filters", pos(c, loop.stmt), "the loop does not consult each filter exactly once")
		return
	}
	// the single filter's verdict is an atom here (its table is R-C05-1's first half)
	var opaque []types.Object
	if fo, ok := f.Callee(allow[0]).(*types.Func); ok {
		opaque = append(opaque, fo.Origin())
	}
	res := muxAnalyzeInl(c, f, flow.Config{NoHavoc: true, OnBlock: func(st *flow.State, b *cfg.Block) { loop.track(st, b) }}, opaque...)
	if res == nil {
		return
	}
	k := f.CallKey(allow[0])
	var bad *flow.State
	why := ""
	sawT, sawF := false, false
	for _, ex := range res.Exits {
		r := muxRetExpr(f, vf, ex)
		if r == nil {
			continue
		}
		tv := f.Info.Types[r]
		val, known := false, false
		switch {
		case tv.Value != nil:
			val, known = tv.Value.ExactString() == "true", true
		case muxIdentOf(r) != nil && ex.State.Get(f.VarKey(r)) != flow.Unknown:
			val, known = ex.State.Is(f.VarKey(r), flow.True), true
		case ast.Unparen(r) == ast.Expr(allow[0]) && ex.State.Get(k) != flow.Unknown:
			val, known = ex.State.Is(k, flow.True), true
		}
		if !known {
			bad, why = ex.State, "a non-constant verdict is returned"
			continue
		}
		in := loop.current(ex.State)
		switch {
		case val && in:
			bad, why = ex.State, "true is returned before all filters were consulted (a later filter that denies the client is skipped)"
		case val && !in:
			sawT = true
			if ex.State.Is(k, flow.False) {
				bad, why = ex.State, "true is returned although a filter denied the client"
			}
		case !val && in:
			sawF = true
			if !ex.State.Is(k, flow.False) {
				bad, why = ex.State, "false is returned although the current filter allowed the client"
			}
		case !val && !in:
			bad, why = ex.State, "false is returned after all filters allowed the client"
		}
	}
	if bad == nil && (!sawT || !sawF) {
		c.Violate("R-C05-1", cons+"|conjunction over all filters", pos(c, f.Body), "the chain cannot both allow and deny")
		return
	}
	c.Check(bad == nil, "R-C05-1", cons+"|conjunction over all filters", pos(c, loop.stmt), "false at the first denying filter, true only after the loop", why, witness(bad)...)
}

// c05ParsedVariant: when IPFilter.Allow is nothing but `return f.V(net.ParseIP(ipstr))`, the method V
// (the single filter's verdict on a parsed address; its decision table is the one extracted from Allow).
func c05ParsedVariant(c *core.Ctx) *types.Func {
	f := fnOpt(c, ipf, "IPFilter", "Allow")
	if f == nil || len(f.Body.List) != 1 {
		return nil
	}
	ret, ok := f.Body.List[0].(*ast.ReturnStmt)
	if !ok || len(ret.Results) != 1 {
		return nil
	}
	call, ok := ast.Unparen(ret.Results[0]).(*ast.CallExpr)
	if !ok || len(call.Args) != 1 {
		return nil
	}
	fo, _ := f.Callee(call).(*types.Func)
	if fo == nil || fo.Pkg() != f.Pkg.Types {
		return nil
	}
	sel, ok := ast.Unparen(call.Fun).(*ast.SelectorExpr)
	fd := f.Node.(*ast.FuncDecl)
	if !ok || fd.Recv == nil || len(fd.Recv.List) != 1 || len(fd.Recv.List[0].Names) != 1 || muxIdentOf(sel.X) == nil || f.Info.Uses[muxIdentOf(sel.X)] != f.Info.Defs[fd.Recv.List[0].Names[0]] {
		return nil
	}
	pc, ok := ast.Unparen(call.Args[0]).(*ast.CallExpr)
	if !ok || calleeFull(f, pc) != "net.ParseIP" || len(pc.Args) != 1 {
		return nil
	}
	id := muxIdentOf(pc.Args[0])
	if id == nil || len(fd.Type.Params.List) != 1 || len(fd.Type.Params.List[0].Names) != 1 || f.Info.Uses[id] != f.Info.Defs[fd.Type.Params.List[0].Names[0]] {
		return nil
	}
	return fo.Origin()
}

func c05Search(c *core.Ctx, s *searchInfo) {
	success, forb := 0, 0
	var bad *flow.State
	why := ""
	var badAt ast.Node
	levels := []string{"server", "rule", "path"}
	for _, ex := range s.res.Exits {
		if ex.Kind != flow.ExitReturn || ex.Return == nil {
			continue
		}
		st := ex.State
		if st.Is(evHit, flow.True) {
			continue
		}
		if s.successReturn(ex) {
			success++
			for _, lv := range levels {
				if s.allowed(st, lv) != flow.True {
					bad, why, badAt = st, "a success route is returned without the "+lv+"-level IP filter having allowed the client", ex.Ret()
				}
			}
			continue
		}
		if s.returnedCode(ex) == "403" {
			forb++
			denied := false
			for _, lv := range levels {
				if s.allowed(st, lv) == flow.False {
					denied = true
				}
			}
			if !denied {
				bad, why, badAt = st, "the 403 route is returned although no IP filter denied the client (an allowed client must be routed as if no filter existed)", ex.Ret()
			}
		}
	}
	c.RequireCount("R-C05-2", "uncached success exits", success, 1)
	c.RequireCount("R-C05-2", "uncached 403 exits", forb, 3)
	c.Check(bad == nil, "R-C05-2", s.cons+"|three filter levels dominate the success return", pos(c, badAt),
		sprintf("%d success exits passed server, rule and path filters; %d 403 exits each follow a denying filter", success, forb), why, witness(bad)...)

	// a denying test must return 403 at once: once a filter denied the client no further entry is
	// consulted (no matcher, filter, cache lookup or cache put is evaluated) and the search returns 403
	denied := func(st *flow.State) bool {
		if st.Is(evHit, flow.True) {
			return false
		}
		for _, lv := range levels {
			if s.allowed(st, lv) == flow.False {
				return true
			}
		}
		return false
	}
	var leak *flow.State
	var roleCalls []*ast.CallExpr
	for _, list := range [][]*ast.CallExpr{s.hostMatch, s.pathMatch, s.methodMatch, s.headerMatch, s.gets} {
		roleCalls = append(roleCalls, list...)
	}
	for _, lv := range levels {
		for _, a := range s.allow[lv] {
			roleCalls = append(roleCalls, a.call)
		}
	}
	for _, p := range s.puts {
		roleCalls = append(roleCalls, p.call)
	}
	for _, call := range roleCalls {
		for _, st := range s.res.At[call] {
			if denied(st) {
				leak = st
			}
		}
	}
	for _, ex := range s.res.Exits {
		if ex.Kind == flow.ExitReturn && denied(ex.State) && s.exitKind(ex) != "403" {
			leak = ex.State
		}
	}
	c.Check(leak == nil, "R-C05-2", s.cons+"|a denying filter ends the search with 403", pos(c, s.outer.stmt),
		"once a filter denied the client nothing but the return of the 403 route follows", "the search continues after an IP filter denied the client", witness(leak)...)

	// hit path
	var badHit *flow.State
	whyHit := ""
	hits := 0
	for _, ex := range s.res.Exits {
		if ex.Kind != flow.ExitReturn || ex.Return == nil || !ex.State.Is(evHit, flow.True) {
			continue
		}
		st := ex.State
		switch s.exitKind(ex) {
		case "cached":
			if s.cachedCodeZero(st) == flow.False {
				continue
			}
			hits++
			if passed, _ := s.chainPassed(st); !passed {
				badHit, whyHit = st, "a cached success route is returned without its IP filter chain having allowed the client"
			}
		case "403":
			_, den := s.chainPassed(st)
			if s.allowed(st, "server") == flow.False {
				den = true
			}
			if !den {
				badHit, whyHit = st, "403 is returned on a cache hit although the chain did not deny the client"
			}
		}
	}
	if len(s.gets) > 0 {
		c.RequireCount("R-C05-2", "cached success-route exits", hits, 1)
		c.Check(badHit == nil, "R-C05-2", s.cons+"|cached route re-checked through its chain", pos(c, s.gets[0]), sprintf("%d cached-success exits all passed chain.Allow (or have a nil chain)", hits), whyHit, witness(badHit)...)
	}
}

func c05NoDispatch(c *core.Ctx) {
	s := analyzeServe(c, "R-C05-4")
	if s == nil {
		return
	}
	f := s.f
	var bad *flow.State
	n := 0
	for _, d := range s.dispatch {
		for _, st := range s.res.At[d] {
			n++
			if s.codeZero(st) != flow.True {
				bad = st
			}
		}
	}
	c.Check(bad == nil && n > 0, "R-C05-4", s.cons+"|no dispatch of a refused request", pos(c, f.Body),
		sprintf("%d states at the dispatch calls all have route.code == 0", n), "a handler is invoked for a route with a non-zero status (a denied client reaches the pipeline)", witness(bad)...)
}

// c05IsInsert: Insert on a cidranger.Ranger.
func c05IsInsert(f *flow.Func, call *ast.CallExpr) bool {
	if methodName(call) != "Insert" {
		return false
	}
	if sel, ok := ast.Unparen(call.Fun).(*ast.SelectorExpr); ok {
		if tv, ok := f.Info.Types[sel.X]; ok && tv.Type != nil && strings.HasSuffix(tv.Type.String(), "cidranger.Ranger") {
			return true
		}
	}
	return false
}

// c05RangerBuilder returns the body that fills a ranger: a function literal of f, f itself, or a
// same-package helper f calls.
func c05RangerBuilder(f *flow.Func) *flow.Func {
	has := func(body ast.Node) bool {
		for _, call := range calls(body, false) {
			if c05IsInsert(f, call) {
				return true
			}
		}
		return false
	}
	var lit *ast.FuncLit
	ast.Inspect(f.Body, func(n ast.Node) bool {
		if l, ok := n.(*ast.FuncLit); ok && lit == nil && has(l.Body) {
			lit = l
		}
		return true
	})
	if lit != nil {
		return f.Lit(lit)
	}
	for _, g := range reach(f, 2) {
		if has(g.Body) {
			return g
		}
	}
	return f
}

// c05ParseVars finds the variable holding net.ParseIP's result and the error variable of
// net.ParseCIDR in the ranger builder or a same-package helper it calls.
func c05ParseVars(body *flow.Func) (ipID, errID *ast.Ident) {
	inspectReach(body, 2, func(g *flow.Func, n ast.Node) bool {
		as, ok := n.(*ast.AssignStmt)
		if !ok || len(as.Rhs) != 1 {
			return true
		}
		if call, ok := ast.Unparen(as.Rhs[0]).(*ast.CallExpr); ok {
			switch calleeFull(g, call) {
			case "net.ParseIP":
				ipID = muxIdentOf(as.Lhs[0])
			case "net.ParseCIDR":
				if len(as.Lhs) == 3 {
					errID = muxIdentOf(as.Lhs[2])
				}
			}
		}
		return true
	})
	return
}

// c05Sinks returns the calls that commit an entry to the ranger: the Insert calls, or — when the
// entries are first staged in a local slice that a plain loop then inserts element by element —
// the appends to that slice. ok is false when a staging slice is not inserted that way.
func c05Sinks(body *flow.Func) (sinks []*ast.CallExpr, ok bool) {
	sinks, ok, _ = c05SinksX(body)
	return
}

// c05SinksX additionally reports a staging loop that does not visit every staged element in
// order (partial != nil): staged entries are dropped.
func c05SinksX(body *flow.Func) (sinks []*ast.CallExpr, ok bool, partial ast.Node) {
	vf := newMuxFlow([]*flow.Func{body})
	ok = true
	for _, call := range calls(body.Body, false) {
		if !c05IsInsert(body, call) {
			continue
		}
		staged := false
		// Insert(NewBasicRangerEntry(xs[i])) / Insert(NewBasicRangerEntry(x)) with x ranging over xs
		var elem ast.Expr
		ast.Inspect(call, func(n ast.Node) bool {
			switch x := n.(type) {
			case *ast.IndexExpr:
				elem = x
			case *ast.Ident:
				if o, isVar := vf.obj(x).(*types.Var); isVar {
					for _, d := range vf.defs[o] {
						if d.rng != nil && !d.isKey {
							elem = x
						}
					}
				}
			}
			return true
		})
		if elem != nil {
			for _, l := range vf.loops("staging", func(x ast.Expr) bool {
				tv, has := body.Info.Types[x]
				return has && tv.Type != nil && strings.HasSuffix(tv.Type.String(), "[]net.IPNet") && muxIdentOf(x) != nil
			}) {
				if !contains(l.stmt, call) || !l.isElem(vf, elem) {
					continue
				}
				staged = true
				// a plain loop: in order, no early exit, the Insert is a statement of the loop body itself
				direct := false
				for _, stmt := range l.body().List {
					if es, isExpr := stmt.(*ast.ExprStmt); isExpr && ast.Unparen(es.X) == ast.Expr(call) {
						direct = true
					}
				}
				if !direct {
					ok = false
				}
				if !l.ordered || len(breaksOut(body, l.stmt, labelOf(body.Body, l.stmt))) > 0 {
					partial = l.stmt
				}
				slice := vf.obj(muxIdentOf(l.over))
				for _, ap := range calls(body.Body, false) {
					if b, isB := body.Callee(ap).(*types.Builtin); isB && b.Name() == "append" && len(ap.Args) >= 2 {
						if id := muxIdentOf(ap.Args[0]); id != nil && vf.obj(id) == slice {
							sinks = append(sinks, ap)
						}
					}
				}
			}
		}
		if !staged {
			sinks = append(sinks, call)
		}
	}
	return sinks, ok, partial
}

func c05New(c *core.Ctx) {
	f := fn(c, ipf, "", "New")
	if f == nil {
		return
	}
	cons := fname(ipf, "", "New")
	// the closure (or helper function) building a ranger
	body := c05RangerBuilder(f)
	inserts, stagingOK := c05Sinks(body)
	if !stagingOK {
		c.Undecide("R-C05-5", cons+"|entries come from successful parses", pos(c, body.Body), "the entries are staged in a slice that is not inserted element by element by a plain loop")
		return
	}
	if !c.RequireCount("R-C05-5", "ranger.Insert call sites in ipfilter.New", len(inserts), 1) {
		return
	}
	// masks: package-level vars = net.CIDRMask(32,32) / (128,128)
	pkg := c.Prog.Pkg(ipf)
	maskBits := map[types.Object]string{}
	for _, file := range pkg.Syntax {
		for _, d := range file.Decls {
			gd, ok := d.(*ast.GenDecl)
			if !ok {
				continue
			}
			for _, sp := range gd.Specs {
				vs, ok := sp.(*ast.ValueSpec)
				if !ok {
					continue
				}
				for i, n := range vs.Names {
					if i >= len(vs.Values) {
						continue
					}
					if call, ok := vs.Values[i].(*ast.CallExpr); ok && len(call.Args) == 2 {
						if fo, ok := pkg.TypesInfo.Uses[call.Fun.(*ast.SelectorExpr).Sel].(*types.Func); ok && fo.FullName() == "net.CIDRMask" {
							a, b := pkg.TypesInfo.Types[call.Args[0]], pkg.TypesInfo.Types[call.Args[1]]
							if a.Value != nil && b.Value != nil {
								maskBits[pkg.TypesInfo.Defs[n]] = a.Value.ExactString() + "/" + b.Value.ExactString()
							}
						}
					}
				}
			}
		}
	}
	var maskObj types.Object
	ipID, errID := c05ParseVars(body)
	if ipID == nil || errID == nil {
		c.Violate("R-C05-5", cons+"|entries come from successful parses", pos(c, body.Body), "the ranger is not filled from net.ParseIP / net.ParseCIDR results")
		return
	}
	ipNil, errNil := body.NilKey(ipID), body.NilKey(errID)
	// the two views of a single-address entry: the text as written and the parsed address
	vfN := newMuxFlow(reach(body, 2))
	ipObj := vfN.obj(ipID)
	vfN.stop[ipObj] = true
	var parseIP *ast.CallExpr
	inspectReach(body, 2, func(g *flow.Func, n ast.Node) bool {
		if call, ok := n.(*ast.CallExpr); ok && calleeFull(g, call) == "net.ParseIP" && len(call.Args) == 1 {
			parseIP = call
		}
		return true
	})
	textRoots := map[types.Object]bool{}
	if parseIP != nil {
		for _, v := range vfN.flat(parseIP.Args[0]) {
			if v.root != nil && len(v.fields) == 0 {
				textRoots[v.root] = true
			}
		}
	}
	// mentions reports whether e (looked at through single-definition locals) contains a call of
	// one of the given methods on the parsed address, resp. an operand that is the entry's text
	var mentions func(e ast.Expr, depth int) (parsedCall map[string]bool, text bool)
	mentions = func(e ast.Expr, depth int) (map[string]bool, bool) {
		pc, text := map[string]bool{}, false
		if e == nil || depth > 3 {
			return pc, false
		}
		ast.Inspect(e, func(n ast.Node) bool {
			switch x := n.(type) {
			case *ast.CallExpr:
				if sel, ok := ast.Unparen(x.Fun).(*ast.SelectorExpr); ok && f.Info.Selections[sel] != nil {
					if vfN.allPaths(sel.X, false, func(o types.Object) bool { return o == ipObj }) {
						pc[sel.Sel.Name] = true
					}
				}
			case *ast.Ident:
				o := vfN.obj(x)
				if textRoots[o] {
					text = true
				} else if v, isVar := o.(*types.Var); isVar && o != ipObj && types.Identical(v.Type(), types.Typ[types.String]) {
					// a parameter / copy that carries the entry's text
					for _, fv := range vfN.flat(x) {
						if fv.root != nil && len(fv.fields) == 0 && textRoots[fv.root] {
							text = true
						}
					}
				}
				if _, isVar := o.(*types.Var); isVar && o != ipObj && !textRoots[o] {
					if d := vfN.singleDef(o); d != nil {
						p2, t2 := mentions(d, depth+1)
						for k := range p2 {
							pc[k] = true
						}
						text = text || t2
					}
				}
			}
			return true
		})
		return pc, text
	}
	// a helper called in operand position (`Insert(NewBasicRangerEntry(hostNet(ip)))`) is not
	// interpreted in place by the engine: it is analysed on its own with the same hooks, entered
	// with what the calling path knows, and what its exits have seen is carried over
	nestedArg := map[*ast.CallExpr]bool{}
	for _, g := range vfN.fns {
		ast.Inspect(g.Body, func(n ast.Node) bool {
			if call, ok := n.(*ast.CallExpr); ok {
				for _, a := range call.Args {
					ast.Inspect(a, func(m ast.Node) bool {
						if c2, ok := m.(*ast.CallExpr); ok {
							nestedArg[c2] = true
						}
						return true
					})
				}
			}
			return true
		})
	}
	ipParsed := func(st *flow.State) bool { return st.Is(ipNil, flow.False) || st.Is("ev:ipParsed", flow.True) }
	viewKeys := []string{"ev:fam:parsed", "ev:fam:text", "ev:rep:parsed", "ev:rep:text"}
	maskKeys := []string{"ev:mask:32/32", "ev:mask:128/128"}
	var conf flow.Config
	summaries := map[string][]*flow.State{}
	depth := 0
	summarise := func(st *flow.State, g *flow.Func) {
		key := g.Name + "|" + sprintf("%v", ipParsed(st))
		for _, k := range append(append([]string{"ev:cidrTried"}, viewKeys...), maskKeys...) {
			key += sprintf("|%v", st.Get(k))
		}
		outs, done := summaries[key]
		if !done {
			if depth >= 2 {
				return
			}
			depth++
			sub := conf
			parsed := ipParsed(st)
			carry := map[string]flow.Val{}
			for _, k := range append(append([]string{"ev:cidrTried"}, viewKeys...), maskKeys...) {
				carry[k] = st.Get(k)
			}
			sub.Init = func(s0 *flow.State) {
				if parsed {
					s0.Set("ev:ipParsed", flow.True)
				}
				for k, v := range carry {
					s0.Set(k, v)
				}
			}
			if r := muxAnalyzeInl(c, g, sub); r != nil {
				for _, ex := range r.Exits {
					if ex.Kind == flow.ExitReturn {
						outs = append(outs, ex.State)
					}
				}
			}
			depth--
			summaries[key] = outs
		}
		if len(outs) == 0 {
			return
		}
		// the mask is one of those chosen on the helper's paths (the rule asks which masks can
		// reach the insert); the two views of the entry have to be the same on all of them
		for _, k := range maskKeys {
			v := flow.Unknown
			for _, o := range outs {
				if o.Is(k, flow.True) {
					v = flow.True
				}
			}
			st.Set(k, v)
		}
		for _, k := range viewKeys {
			for _, o := range outs[1:] {
				if o.Get(k) != outs[0].Get(k) {
					st.Set("ev:viewUnclear", flow.True)
				}
			}
			st.Set(k, outs[0].Get(k))
		}
	}
	conf = flow.Config{NoHavoc: true,
		AfterAssume: func(st *flow.State, cond ast.Expr, outcome bool) {
			// what the IPv4 / IPv6 decision of a single address looks at
			if !ipParsed(st) {
				return
			}
			pc, text := mentions(cond, 0)
			if pc["To4"] || pc["To16"] {
				st.Set("ev:fam:parsed", flow.True)
			}
			if text && !pc["To4"] {
				isStr := false
				ast.Inspect(cond, func(n ast.Node) bool {
					if call, ok := n.(*ast.CallExpr); ok && strings.HasPrefix(calleeFull(f, call), "strings.") {
						isStr = true
					}
					return true
				})
				if isStr {
					st.Set("ev:fam:text", flow.True)
				}
			}
		},
		OnCall: func(st *flow.State, call *ast.CallExpr, callee types.Object, deferred bool) {
			if fo, ok := callee.(*types.Func); ok && nestedArg[call] && !deferred {
				if g := vfN.fnOf[fo.Origin()]; g != nil {
					summarise(st, g)
				}
			}
			if call == parseIP {
				// a new entry is being looked at
				st.Set("ev:cidrTried", flow.Unknown)
				st.Set("ev:fam:parsed", flow.Unknown)
				st.Set("ev:fam:text", flow.Unknown)
				st.Set("ev:rep:parsed", flow.Unknown)
				st.Set("ev:rep:text", flow.Unknown)
			}
			if calleeFull(f, call) != "net.ParseCIDR" || len(call.Args) != 1 {
				return
			}
			st.Set("ev:cidrTried", flow.True)
			if !ipParsed(st) {
				return
			}
			// a single address sent through ParseCIDR: what the prefix length was appended to
			for _, v := range vfN.flat(call.Args[0]) {
				if v.root != nil || v.expr == nil {
					continue
				}
				pc, text := mentions(v.expr, 0)
				switch {
				case pc["String"] && !text:
					st.Set("ev:rep:parsed", flow.True)
				case text && !pc["String"]:
					st.Set("ev:rep:text", flow.True)
				}
			}
		},
		OnNode: func(st *flow.State, n ast.Node) {
			if as, ok := n.(*ast.AssignStmt); ok && len(as.Lhs) == 1 && len(as.Rhs) == 1 && muxIdentOf(as.Lhs[0]) != nil {
				// a prefix length chosen as a number: bits := 128 / bits = 32
				if tv, ok := f.Info.Types[as.Rhs[0]]; ok && tv.Value != nil && tv.Type != nil {
					if b, isB := tv.Type.Underlying().(*types.Basic); isB && b.Info()&types.IsInteger != 0 {
						switch tv.Value.ExactString() {
						case "32", "128":
							st.Set("ev:mask:32/32", flow.Unknown)
							st.Set("ev:mask:128/128", flow.Unknown)
							st.Set("ev:mask:"+tv.Value.ExactString()+"/"+tv.Value.ExactString(), flow.True)
						}
					}
					// or as the text of the prefix: suffix := "/128"
					switch tv.Value.ExactString() {
					case `"/32"`, `"/128"`:
						bits := strings.Trim(tv.Value.ExactString(), `"/`)
						st.Set("ev:mask:32/32", flow.Unknown)
						st.Set("ev:mask:128/128", flow.Unknown)
						st.Set("ev:mask:"+bits+"/"+bits, flow.True)
					}
				}
			}
			// a net.IPNet literal whose Mask is one of the all-ones masks (`net.IPNet{IP: ip4, Mask: allOnesIPv4Mask}`)
			ast.Inspect(n, func(m ast.Node) bool {
				if _, isLit := m.(*ast.FuncLit); isLit {
					return false
				}
				cl, ok := m.(*ast.CompositeLit)
				if !ok {
					return true
				}
				if tv, ok := f.Info.Types[cl]; !ok || tv.Type == nil || tv.Type.String() != "net.IPNet" {
					return true
				}
				if ipParsed(st) {
					for _, el := range cl.Elts {
						if kv, ok := el.(*ast.KeyValueExpr); ok {
							if k, ok := kv.Key.(*ast.Ident); ok && k.Name == "IP" {
								if pc, text := mentions(kv.Value, 0); !text && (len(pc) > 0 || vfN.allPaths(kv.Value, false, func(o types.Object) bool { return o == ipObj })) {
									st.Set("ev:rep:parsed", flow.True)
								}
							}
						}
					}
				}
				for _, el := range cl.Elts {
					kv, ok := el.(*ast.KeyValueExpr)
					if !ok {
						continue
					}
					if k, ok := kv.Key.(*ast.Ident); !ok || k.Name != "Mask" {
						continue
					}
					if rid, ok := ast.Unparen(kv.Value).(*ast.Ident); ok {
						if bits, ok := maskBits[f.Info.Uses[rid]]; ok {
							st.Set("ev:mask:32/32", flow.Unknown)
							st.Set("ev:mask:128/128", flow.Unknown)
							st.Set("ev:mask:"+bits, flow.True)
						}
					}
				}
				return true
			})
			as, ok := n.(*ast.AssignStmt)
			if !ok || len(as.Lhs) != 1 || len(as.Rhs) != 1 {
				return
			}
			l, ok := as.Lhs[0].(*ast.Ident)
			if !ok {
				return
			}
			if rid, ok := ast.Unparen(as.Rhs[0]).(*ast.Ident); ok {
				if bits, ok := maskBits[f.Info.Uses[rid]]; ok {
					obj := f.Info.Defs[l]
					if obj == nil {
						obj = f.Info.Uses[l]
					}
					maskObj = obj
					st.Set("ev:mask:32/32", flow.Unknown)
					st.Set("ev:mask:128/128", flow.Unknown)
					st.Set("ev:mask:"+bits, flow.True)
				}
			}
		},
	}
	res := muxAnalyzeInl(c, body, conf)
	if res == nil {
		return
	}
	var bad *flow.State
	why := ""
	for _, ins := range inserts {
		for _, st := range res.At[ins] {
			fromIP := st.Is(ipNil, flow.False) && (!st.Is("ev:cidrTried", flow.True) || st.Is(errNil, flow.True))
			fromCIDR := st.Is(ipNil, flow.True) && st.Is(errNil, flow.True)
			if !fromIP && !fromCIDR {
				bad, why = st, "an entry is inserted although neither net.ParseIP returned an address nor net.ParseCIDR succeeded"
			}
		}
	}
	sawIP, sawCIDR := false, false
	for _, ins := range inserts {
		for _, st := range res.At[ins] {
			sawIP = sawIP || st.Is(ipNil, flow.False)
			sawCIDR = sawCIDR || (st.Is(ipNil, flow.True) && st.Is(errNil, flow.True))
		}
	}
	if bad == nil && !(sawIP && sawCIDR) {
		c.Errorf("R-C05-5: vacuity guard: the insert sites of ipfilter.New are not reached both with a parsed address and with a parsed CIDR (address %v, CIDR %v)", sawIP, sawCIDR)
	}
	c.Check(bad == nil, "R-C05-5", cons+"|entries come from successful parses", pos(c, body.Body), sprintf("%d insert sites, all on a successful-parse path", len(inserts)), why, witness(bad)...)
	// mask choice: the single-address branch must be able to reach the insert with both masks,
	// the v6 one only after the address was classified (a test on ':' count / To4)
	saw := map[string]bool{}
	for _, ins := range inserts {
		for _, st := range res.At[ins] {
			if st.Is(ipNil, flow.False) {
				for _, b := range []string{"32/32", "128/128"} {
					if st.Is("ev:mask:"+b, flow.True) {
						saw[b] = true
					}
				}
			}
		}
	}
	_ = maskObj
	// the IPv4 / IPv6 decision and the value the prefix length / mask is attached to are the same
	// view of the entry: the parsed address (ip.To4(), ip4, ip.String()) or the text as written
	var mixed *flow.State
	whyMixed := ""
	for _, ins := range inserts {
		for _, st := range res.At[ins] {
			if !st.Is(ipNil, flow.False) {
				continue
			}
			switch {
			case st.Is("ev:fam:parsed", flow.True) && st.Is("ev:rep:text", flow.True) && !st.Is("ev:rep:parsed", flow.True):
				mixed, whyMixed = st, "the address family of a single-address entry is decided from the parsed address (ip.To4()) but the prefix length is appended to the entry's TEXT: an IPv4-mapped address written in IPv6 form (::ffff:a.b.c.d) gets the IPv4 length on an IPv6 text and covers ::/32 instead of the one address"
			case st.Is("ev:fam:text", flow.True) && st.Is("ev:rep:parsed", flow.True) && !st.Is("ev:rep:text", flow.True):
				mixed, whyMixed = st, "the address family of a single-address entry is decided from the entry's text but the mask is attached to the parsed address: an IPv4-mapped address written in IPv6 form (::ffff:a.b.c.d) gets the 128-bit mask on an address the trie keeps as IPv4"
			}
		}
	}
	for _, ins := range inserts {
		for _, st := range res.At[ins] {
			if mixed == nil && st.Is(ipNil, flow.False) && st.Is("ev:viewUnclear", flow.True) {
				c.Undecide("R-C05-5", cons+"|address family decided on the value the prefix is attached to", pos(c, ins), "a helper called in operand position looks at the entry in different ways on its paths")
				return
			}
		}
	}
	c.Check(mixed == nil, "R-C05-5", cons+"|address family decided on the value the prefix is attached to", pos(c, body.Body),
		"the IPv4/IPv6 decision of a single address and the value its full prefix is attached to are the same view of the entry (parsed address or text)", whyMixed, witness(mixed)...)
	c.Check(saw["32/32"] && saw["128/128"], "R-C05-5", cons+"|all-ones mask by address family", pos(c, body.Body),
		"single addresses are inserted with a /32 or a /128 all-ones mask depending on the family", sprintf("single addresses are not inserted with both all-ones masks (seen %v): an IPv6 (or IPv4) address entry would cover a whole range or nothing", saw))
}
