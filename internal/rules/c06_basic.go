package rules

import (
	"go/ast"
	"go/constant"
	"go/types"

	"verif/internal/core"
	"verif/internal/flow"
)

// c06IsColon reports whether e is the constant ":" (string) or ':' (rune/byte).
func c06IsColon(f *flow.Func, e ast.Expr) bool {
	tv, ok := f.Info.Types[e]
	if !ok || tv.Value == nil {
		// []byte(":")
		if call, ok := ast.Unparen(e).(*ast.CallExpr); ok && len(call.Args) == 1 {
			if ftv, ok := f.Info.Types[call.Fun]; ok && ftv.IsType() {
				return c06IsColon(f, call.Args[0])
			}
		}
		return false
	}
	switch tv.Value.Kind() {
	case constant.String:
		return constant.StringVal(tv.Value) == ":"
	case constant.Int:
		v, ok := constant.Int64Val(tv.Value)
		return ok && v == ':'
	}
	return false
}

// c06Basic decides R-C06-5 on the function that derives (user, password) for the
// credential lookup of BasicAuthValidator.Validate.
func c06Basic(c *core.Ctx) {
	const rule = "R-C06-5"
	f := fn(c, c06val, "BasicAuthValidator", "Validate")
	if f == nil {
		return
	}
	cons := fname(c06val, "BasicAuthValidator", "Validate") + "|user:password split at the first colon"
	var matches []*ast.CallExpr
	for _, call := range calls(f.Body, true) {
		if ifaceMethodCall(f, call, c06val, "AuthorizedUsersCache", "Match") && len(call.Args) == 2 {
			matches = append(matches, call)
		}
	}
	if !c.RequireCount(rule, "credential lookups (AuthorizedUsersCache.Match) in BasicAuthValidator.Validate", len(matches), 1) {
		return
	}
	// the function(s) deriving the two arguments
	derivers := map[*flow.Func]bool{}
	byObj := map[types.Object]*flow.Func{}
	for _, m := range matches {
		for _, a := range m.Args {
			d := f
			if o := c06Obj(f, a); o != nil {
				ast.Inspect(f.Body, func(n ast.Node) bool {
					as, ok := n.(*ast.AssignStmt)
					if !ok || len(as.Rhs) != 1 {
						return true
					}
					for _, l := range as.Lhs {
						if c06Obj(f, l) != o {
							continue
						}
						if call, ok := ast.Unparen(as.Rhs[0]).(*ast.CallExpr); ok {
							if fnObj, ok := f.Callee(call).(*types.Func); ok && fnObj.Pkg() == f.Pkg.Types {
								if byObj[fnObj] == nil {
									byObj[fnObj] = c06FuncDeclOf(c, fnObj)
								}
								if byObj[fnObj] != nil {
									d = byObj[fnObj]
								}
							}
						}
					}
					return true
				})
			}
			derivers[d] = true
		}
	}
	good, bad := 0, 0
	var badAt ast.Node
	why := ""
	var at ast.Node
	for d := range derivers {
		c.Count("functions_analysed", 1)
		joined := false
		for _, call := range calls(d.Body, true) {
			if fnObj, ok := d.Callee(call).(*types.Func); ok && fnObj.Pkg() != nil && fnObj.Pkg().Path() == "strings" && fnObj.Name() == "Join" && len(call.Args) == 2 && c06IsColon(d, call.Args[1]) {
				if sl, ok := ast.Unparen(call.Args[0]).(*ast.SliceExpr); ok && sl.Low != nil && sl.High == nil {
					if v, ok := c06ConstInt(d, sl.Low); ok && v == "1" {
						joined = true
					}
				}
			}
		}
		for _, call := range calls(d.Body, true) {
			fnObj, ok := d.Callee(call).(*types.Func)
			if !ok || fnObj.Pkg() == nil {
				continue
			}
			full := fnObj.FullName()
			if full == "(*net/http.Request).BasicAuth" {
				good++
				at = call
				continue
			}
			if p := fnObj.Pkg().Path(); p != "strings" && p != "bytes" {
				continue
			}
			if len(call.Args) < 2 || !c06IsColon(d, call.Args[1]) {
				continue
			}
			switch fnObj.Name() {
			case "Cut", "Index", "IndexByte", "IndexRune", "IndexAny":
				good++
				at = call
			case "SplitN", "SplitAfterN":
				if len(call.Args) == 3 {
					if v, ok := c06ConstInt(d, call.Args[2]); ok && v == "2" {
						good++
						at = call
						break
					}
				}
				if joined {
					good++
					at = call
					break
				}
				bad++
				badAt, why = call, "the credential string is split into more than two parts and the parts after the second colon are dropped"
			case "Split", "SplitAfter":
				if joined {
					good++
					at = call
					break
				}
				bad++
				badAt, why = call, "the credential string is split at every colon and only the second part is used as password: `user:pa:x` authenticates against password `pa`, and a user whose password contains ':' can never log in (RFC 7617: everything after the first colon is the password)"
			case "LastIndex", "LastIndexByte", "LastIndexAny":
				bad++
				badAt, why = call, "the credential string is split at the last colon: a password containing ':' is cut and its head is attributed to the user name"
			}
		}
	}
	switch {
	case bad > 0:
		c.Violate(rule, cons, pos(c, badAt), why)
	case good > 0:
		c.Discharge(rule, cons, pos(c, at), "the credentials are separated at the first colon only")
	default:
		c.Undecide(rule, cons, pos(c, f.Body), "cannot find how the decoded credentials are separated into user and password (no strings.Cut/SplitN/Index/Split on \":\")")
	}
}
