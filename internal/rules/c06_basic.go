package rules

import (
	"go/ast"
	"go/constant"
	"go/types"
	"strings"

	"verif/internal/core"
	"verif/internal/flow"
)

// c06IsColon reports whether e is the constant ":" (string) or ':' (rune/byte).
func c06IsColon(f *flow.Func, e ast.Expr) bool {
	tv, ok := f.Info.Types[e]
	if !ok || tv.Value == nil {
		// []byte(":")
		if call, ok := ast.Unparen(e).(*ast.CallExpr); ok && len(call.Args) == 1 {
			if ftv, ok := f.Info.Types[call.Fun]; ok && ftv.IsType() {
				return c06IsColon(f, call.Args[0])
			}
		}
		return false
	}
	switch tv.Value.Kind() {
	case constant.String:
		return constant.StringVal(tv.Value) == ":"
	case constant.Int:
		v, ok := constant.Int64Val(tv.Value)
		return ok && v == ':'
	}
	return false
}

// c06Basic decides R-C06-5 on the function that derives (user, password) for the
// credential lookup of BasicAuthValidator.Validate.
func c06Basic(c *core.Ctx) {
	const rule = "R-C06-5"
	f := fn(c, c06val, "BasicAuthValidator", "Validate")
	if f == nil {
		return
	}
	cons := fname(c06val, "BasicAuthValidator", "Validate") + "|user:password split at the first colon"
	var matches []*ast.CallExpr
	for _, call := range calls(f.Body, true) {
		if c06IfaceMethod(f, call, c06val, "AuthorizedUsersCache", "Match") && len(call.Args) == 2 {
			matches = append(matches, call)
		}
	}
	if !c.RequireCount(rule, "credential lookups (AuthorizedUsersCache.Match) in BasicAuthValidator.Validate", len(matches), 1) {
		return
	}
	// the function(s) deriving the two arguments
	derivers := map[*flow.Func]bool{}
	byObj := map[types.Object]*flow.Func{}
	for _, m := range matches {
		for _, a := range m.Args {
			d := f
			root := ast.Unparen(a)
			for {
				if sel, ok := root.(*ast.SelectorExpr); ok {
					root = ast.Unparen(sel.X) // creds.userID: the variable holding a result struct
					continue
				}
				break
			}
			if o := c06Obj(f, root); o != nil {
				ast.Inspect(f.Body, func(n ast.Node) bool {
					as, ok := n.(*ast.AssignStmt)
					if !ok || len(as.Rhs) != 1 {
						return true
					}
					for _, l := range as.Lhs {
						if c06Obj(f, l) != o {
							continue
						}
						if call, ok := ast.Unparen(as.Rhs[0]).(*ast.CallExpr); ok {
							if fnObj, ok := f.Callee(call).(*types.Func); ok && fnObj.Pkg() == f.Pkg.Types {
								if byObj[fnObj] == nil {
									byObj[fnObj] = c06FuncDeclOf(c, fnObj)
								}
								if byObj[fnObj] != nil {
									d = byObj[fnObj]
								}
							}
						}
					}
					return true
				})
			}
			derivers[d] = true
		}
	}
	c06BasicProvenance(c, rule, f, matches)
	good, bad := 0, 0
	var badAt ast.Node
	why := ""
	var at ast.Node
	for d := range derivers {
		c.Count("functions_analysed", 1)
		joined := false
		for _, call := range calls(d.Body, true) {
			if fnObj, ok := d.Callee(call).(*types.Func); ok && fnObj.Pkg() != nil && fnObj.Pkg().Path() == "strings" && fnObj.Name() == "Join" && len(call.Args) == 2 && c06IsColon(d, call.Args[1]) {
				if sl, ok := ast.Unparen(call.Args[0]).(*ast.SliceExpr); ok && sl.Low != nil && sl.High == nil {
					if v, ok := c06ConstInt(d, sl.Low); ok && v == "1" {
						joined = true
					}
				}
			}
		}
		for _, call := range calls(d.Body, true) {
			fnObj, ok := d.Callee(call).(*types.Func)
			if !ok || fnObj.Pkg() == nil {
				continue
			}
			full := fnObj.FullName()
			if full == "(*net/http.Request).BasicAuth" {
				good++
				at = call
				continue
			}
			if p := fnObj.Pkg().Path(); p != "strings" && p != "bytes" {
				continue
			}
			if len(call.Args) < 2 || !c06IsColon(d, call.Args[1]) {
				continue
			}
			switch fnObj.Name() {
			case "Cut", "Index", "IndexByte", "IndexRune", "IndexAny":
				good++
				at = call
			case "SplitN", "SplitAfterN":
				if len(call.Args) == 3 {
					if v, ok := c06ConstInt(d, call.Args[2]); ok && v == "2" {
						good++
						at = call
						break
					}
				}
				if joined {
					good++
					at = call
					break
				}
				bad++
				badAt, why = call, "the credential string is split into more than two parts and the parts after the second colon are dropped"
			case "Split", "SplitAfter":
				if joined {
					good++
					at = call
					break
				}
				bad++
				badAt, why = call, "the credential string is split at every colon and only the second part is used as password: `user:pa:x` authenticates against password `pa`, and a user whose password contains ':' can never log in (RFC 7617: everything after the first colon is the password)"
			case "LastIndex", "LastIndexByte", "LastIndexAny":
				bad++
				badAt, why = call, "the credential string is split at the last colon: a password containing ':' is cut and its head is attributed to the user name"
			}
		}
	}
	switch {
	case bad > 0:
		c.Violate(rule, cons, pos(c, badAt), why)
	case good > 0:
		c.Discharge(rule, cons, pos(c, at), "the credentials are separated at the first colon only")
	default:
		c.Undecide(rule, cons, pos(c, f.Body), "cannot find how the decoded credentials are separated into user and password (no strings.Cut/SplitN/Index/Split on \":\")")
	}
}

// c06IsDecode reports whether call yields the decoded credentials: a base64 decoder method
// or net/http's own Basic parser. The data flow is not followed beyond it.
func c06IsDecode(f *flow.Func, call *ast.CallExpr) bool {
	fnObj, _ := c06Callee(f, call)
	if fnObj == nil || fnObj.Pkg() == nil {
		return false
	}
	if fnObj.Pkg().Path() == "encoding/base64" && strings.Contains(fnObj.Name(), "Decode") {
		return true
	}
	return fnObj.FullName() == "(*net/http.Request).BasicAuth"
}

// c06BasicProvenance: the user and password handed to the credential lookup are pieces of
// exactly the decoded credential string. Everything that flows into the two arguments of
// Match, back to the decoder's result, passes only through conversions, slicing, the
// separator search/split functions (judged by the split obligation) and same-package
// helpers (followed); any string transformation on the way (trimming, case folding,
// replacing, normalising, unescaping ...) makes different presented credentials equal.
func c06BasicProvenance(c *core.Ctx, rule string, f *flow.Func, matches []*ast.CallExpr) {
	cons := fname(c06val, "BasicAuthValidator", "Validate") + "|credentials compared are exactly the decoded bytes"
	transformPkgs := func(p string) bool {
		switch p {
		case "strings", "bytes", "unicode", "net/url", "html", "regexp", "path", "path/filepath", "strconv":
			return true
		}
		return strings.HasPrefix(p, "golang.org/x/text/") || strings.HasPrefix(p, "unicode/")
	}
	allowed := map[string]bool{"Cut": true, "SplitN": true, "Split": true, "SplitAfter": true, "SplitAfterN": true,
		"Index": true, "IndexByte": true, "IndexRune": true, "IndexAny": true,
		"LastIndex": true, "LastIndexByte": true, "LastIndexAny": true, "Join": true, "NewReader": true, "NewBufferString": true, "NewBuffer": true}
	decoded := 0
	var badAt, unknownAt ast.Node
	badName, unknownName := "", ""
	seenFn := map[*types.Func]bool{}
	var examine func(g *flow.Func, roots []ast.Expr, depth int)
	examine = func(g *flow.Func, roots []ast.Expr, depth int) {
		// a same-package helper that decodes inside is a barrier for its arguments (they are
		// the undecoded header), while its results are followed
		decodesInside := func(call *ast.CallExpr) bool {
			fo, ok := g.Callee(call).(*types.Func)
			if !ok || fo.Pkg() != g.Pkg.Types {
				return false
			}
			h := c06FuncDeclOf(c, fo)
			if h == nil {
				return false
			}
			for _, hh := range reach(h, 2) {
				for _, cl := range calls(hh.Body, true) {
					if c06IsDecode(hh, cl) {
						return true
					}
				}
			}
			return false
		}
		stop := func(n ast.Node) bool {
			call, ok := n.(*ast.CallExpr)
			return ok && (c06IsDecode(g, call) || decodesInside(call))
		}
		for _, e := range c06ValueClosureStop(g, roots, stop) {
			ast.Inspect(e, func(x ast.Node) bool {
				call, ok := x.(*ast.CallExpr)
				if !ok {
					return true
				}
				if c06IsDecode(g, call) {
					decoded++
					return false
				}
				if tv, ok := g.Info.Types[call.Fun]; ok && tv.IsType() {
					return true // conversion
				}
				var callee types.Object = g.Callee(call)
				if fo, _ := c06Callee(g, call); fo != nil {
					callee = fo
				}
				switch o := callee.(type) {
				case *types.Builtin:
					return true
				case *types.Func:
					if o.Pkg() == nil {
						return true
					}
					pkgPath := o.Pkg().Path()
					switch {
					case (pkgPath == "strings" || pkgPath == "bytes") && allowed[o.Name()]:
					case pkgPath == "bytes" || pkgPath == "strings":
						if sigOf := o.Type().(*types.Signature); sigOf.Recv() != nil {
							// methods of strings.Builder / bytes.Buffer / Reader: containers, not transformations
							break
						}
						if badAt == nil {
							badAt, badName = call, o.FullName()
						}
					case transformPkgs(pkgPath):
						if badAt == nil {
							badAt, badName = call, o.FullName()
						}
					case o.Pkg() == g.Pkg.Types:
						// a same-package helper is followed through its results; its arguments
						// matter only as far as the helper's results are computed from the
						// corresponding parameter outside the decoder (`basicCredentials(hdr)`
						// decodes inside: the header handed in is not the credential string)
						if depth < 2 && !seenFn[o] {
							seenFn[o] = true
							if h := c06FuncDeclOf(c, o); h != nil {
								c.Count("functions_analysed", 1)
								var rets []ast.Expr
								ast.Inspect(h.Body, func(y ast.Node) bool {
									switch t := y.(type) {
									case *ast.FuncLit:
										return false
									case *ast.ReturnStmt:
										for _, r := range t.Results {
											if tv, ok := h.Info.Types[r]; ok && tv.Type != nil && !isErrorTypeC06(tv.Type) && !tv.IsNil() {
												rets = append(rets, r)
											}
										}
										if len(t.Results) == 0 && h.Type != nil && h.Type.Results != nil {
											// bare return: the named results carry the values
											for _, fld := range h.Type.Results.List {
												for _, nm := range fld.Names {
													if o := h.Info.Defs[nm]; o != nil && !isErrorTypeC06(o.Type()) {
														rets = append(rets, nm)
													}
												}
											}
										}
									}
									return true
								})
								examine(h, rets, depth+1)
							}
						}
						if decodesInside(call) {
							return false // its arguments are what is decoded, not the credentials
						}
					default:
						if unknownAt == nil {
							unknownAt, unknownName = call, o.FullName()
						}
					}
				default:
					if unknownAt == nil {
						unknownAt, unknownName = call, g.Render(call.Fun)
					}
				}
				return true
			})
		}
	}
	var roots []ast.Expr
	for _, m := range matches {
		roots = append(roots, m.Args...)
	}
	examine(f, roots, 0)
	switch {
	case badAt != nil:
		c.Violate(rule, cons, pos(c, badAt), "between decoding the Authorization header and the credential lookup the user/password pass through "+badName+": presented credentials that differ from a configured user's (extra or different characters the transformation removes or folds) are accepted, and a configured user whose name or password contains such characters can never log in")
	case decoded == 0:
		c.Undecide(rule, cons, pos(c, f.Body), "cannot trace the arguments of the credential lookup back to a base64 decoder (or Request.BasicAuth)")
	case unknownAt != nil:
		c.Undecide(rule, cons, pos(c, unknownAt), "the user/password pass through "+unknownName+", which is not known to preserve them")
	default:
		c.Discharge(rule, cons, pos(c, matches[0]), "user and password reach the lookup from the decoder through conversions, slicing and the separator split only")
	}
}
