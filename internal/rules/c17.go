// C17 — connection caps (HTTP LimitListener / resizable semaphore, MQTT broker client table).
//
// Rules (DESIGN.md §3 C17):
//
//	R-C17-1  acquire / accept / release typestate of LimitListener.Accept        (c17.go, flow engine)
//	R-C17-2  release exactly once per accepted connection (sync.Once, no alias),
//	         and only after the inner Conn.Close returned                        (c17.go)
//	R-C17-3  every serve loop of httpserver is capped; reload forwards the cap   (c17_http.go)
//	R-C17-4  Semaphore resize bookkeeping (SetMaxCount / NewSem)                 (c17_sem.go, flow engine)
//	R-C17-5  MQTT client-table insertion is under the broker lock and capped;
//	         an inserted client is always run or removed; a delete removes only
//	         a dead / absent / own REGISTERED entry                             (c17_mqtt.go, flow engine)
//
// Findings on the unchanged tree (both triaged as genuine, see /tmp/vw/C17/out):
//
//	R-C17-3|pkg/object/httpserver.(runtime).runHTTP3Server|(*http3.Server).ListenAndServe capped
//	    HTTP/3 servers have no LimitListener at all (design gap, known finding).
//	R-C17-5|pkg/object/mqttproxy.(Broker).handleConn|inserted client is run or removed
//	    a failed CONNACK write leaves the client in Broker.clients forever (fix-1.diff).
//
// Mutants tried in the scratch worktree (each compiles; → construct that fired; all exit 1):
//
//	M1  Accept: drop l.release() on the inner-Accept error path            → R-C17-1 Accept|error exits release iff acquired
//	M2  Accept: `if !acquired { l.release() }`                             → R-C17-1 Accept|error exits release iff acquired
//	M3  Accept: drop the ctx.Err() test, ignore the acquire result         → R-C17-1 Accept|inner Accept only with a slot (+ both exit rules)
//	M3b Accept: ctx test moved before the acquire                          → R-C17-1 Accept|inner Accept only with a slot
//	M4  Accept: return the raw conn `c` / wrapper with release: func(){}   → R-C17-1 Accept|success exit hands the release to the conn
//	M5  acquire: `!= nil` instead of `== nil`                              → R-C17-1 acquire|reports success iff acquired
//	M6  Semaphore.Release: s.sem.Release(2)                                → R-C17-1 Semaphore|unit weight
//	M7  conn.Close: release only when Conn.Close succeeded                 → R-C17-2 Close|releases on every exit
//	M8  conn.Close: l.release() directly / extra l.release() on error      → R-C17-2 release field|only through Once.Do
//	M9  startServer: NewLimitListener(listener, r.spec.CacheSize)          → R-C17-3 startServer|listener sized by MaxConnections
//	M10 startServer: forget r.limitListener = limitListener                → R-C17-3 startServer|listener recorded for reload
//	M11 reload: SetMaxConnection(r.spec.MaxConnections) (old spec)         → R-C17-3 reload|forwards the new MaxConnections
//	M12 reload: forwarding block removed / only when the cap grows         → R-C17-3 reload|forwards the new MaxConnections
//	M13 runHTTP1And2Server: Serve(limitListener.Listener); raw listener
//	    passed by the caller; extra srv.ListenAndServe()                   → R-C17-3 <func>|<callee> capped
//	M13c SetMaxConnection passes a constant                                → R-C17-3 SetMaxConnection|forwards to SetMaxCount
//	M14 SetMaxCount: Release(old - n); `n < old` guarding the release      → R-C17-4 SetMaxCount|grow releases new-old
//	M15 SetMaxCount: Unlock before the store; unlock/lock between read and
//	    store; read before Lock; n modified after the store                → R-C17-4 SetMaxCount|read-modify-write in one critical section
//	M16 SetMaxCount: `n < old` branch dropped                              → R-C17-4 SetMaxCount|shrink acquires old-new, |every exit adjusted
//	M17 NewSem: Acquire(ctx, maxCapacity-s.realCapacity-1); realCapacity: 0 → R-C17-4 NewSem|initial pre-acquire, |capacity recorded
//	M18 handleConn: `>` instead of `>=` in the locked cap test             → R-C17-5 handleConn|insert only with room
//	M19 handleConn: b.Lock() below the takeover lookup; Unlock before the
//	    insertion; RLock instead of Lock                                   → R-C17-5 handleConn|insert only with room
//	M20 handleConn: Unlock+return dropped in the refusing branch           → R-C17-5 handleConn|insert only with room
//	M21 handleConn: ErrRefusedNotAuthorised on the refusing edge           → R-C17-5 handleConn|refusal is server-unavailable
//	M22 handleConn: b.Unlock() dropped on the refusing edge                → R-C17-5 handleConn|lock released on every exit
//	M25 readLoop: removeClient dropped from / reordered in the deferred exit → R-C17-5 readLoop|every exit removes the client's entry
//	M26 removeClient: RLock instead of Lock                                → R-C17-5 removeClient|deletes the entry under the write lock
//
// Second pass (seeded regressions):
//
//	A1 SetMaxCount: `s.realCapacity = n` moved into the `go func(){...}()` after the adjustment (seeded a);
//	   A2 same store at the start of the goroutine, unlocked; A3 the READ of old moved into the goroutine;
//	   A4 store in a deferred literal nested in the goroutine      → R-C17-4 SetMaxCount|read-modify-write in one critical section
//	   (an immediately-invoked / deferred closure around the whole read+store stays "undecided")
//	B1 removeClient(*Client) guarded by client.disconnected() of the CALLER (seeded b, ported);
//	   B2 lookup through getClient() before Lock; B3 unconditional delete; B5 lookup under another key;
//	   B6 lookup and delete in two critical sections              → R-C17-5 removeClient|delete removes only a dead or own entry
//	B4 deleteSession: c.close() dropped before the delete        → R-C17-5 deleteSession|delete removes only a dead or own entry
//	PB1 early-return + single-value lookup `val == nil || !val.disconnected()`; PB2 `dead := found &&
//	   registered.disconnected()` with deferred Unlock             → silent
//
// Third pass (round-2 seeded change a): Close releases before closing
//
//	C1 `l.releaseOnce.Do(l.release); return l.Conn.Close()` (seeded); C2 `defer l.Conn.Close()` + release in the
//	   body; C3 `go l.Conn.Close()` then release; C4 early release on one branch only; C5 inner Close dropped
//	                                                            → R-C17-2 Close|releases only after the inner Close returned
//	PC1 `defer l.releaseOnce.Do(...)`; return l.Conn.Close(); PC2 Once.Do(func(){ l.Conn.Close(); l.release() }) → silent
//
// Fourth pass (round-3 seeded change b): SetMaxConnection shortcut against a stale cached limit
//
//	D1 `if n == l.maxConn { return }` with maxConn written only by the constructor (seeded); D2 store before the
//	   compare; D3 store on one branch only; D4 constructor does not initialise the cache; D5 plain early return
//	                                              → R-C17-3 SetMaxConnection|forwards on every path
//	PD1 cache stored after SetMaxCount; PD2 `if l.maxConn != n { l.maxConn = n; SetMaxCount }`   → silent
//
// Behaviour-preserving edits tried (exit 0 with the two findings registered as known):
//
//	P1 Accept: renamed locals, `got == true`, ctx error copied through a second local; early-return
//	   style `if !l.acquire() { return nil, l.ctx.Err() }`; wrapper built into a local first; named
//	   results + deferred `if err != nil { l.release() }`
//	P2 SetMaxCount: `old < n` / `old > n`; switch { case n == old: case n > old: ... default: ... }
//	P3 handleConn: cap test extracted into a local bool with `cap <= len(b.clients)` and a log call in
//	   between; `limit := b.spec.MaxAllowedConnection; limit >= 1`, `!(len < cap)`; insertion through the
//	   local `cid`, moved below setSession with an extra log call
//	P4 reload: `ll := r.limitListener; ll != nil && nextSpec != nil`, MaxConnections through a local;
//	   runHTTP1And2Server taking a net.Listener parameter (value flow through the go statement)
//	P5 conn.Close: `defer l.releaseOnce.Do(func() { l.release() }); return l.Conn.Close()`
//
// Known limits (→ checker error / not modelled, never a silent pass): acquire inside a loop, several
// acquire sites, realCapacity read/store inside a function literal, delta passed through a local
// (`d := n - old`), a snapshot `n := len(b.clients)` used in the locked cap test.
package rules

import (
	"go/ast"
	"go/constant"
	"go/token"
	"go/types"

	"golang.org/x/tools/go/packages"

	"verif/internal/core"
	"verif/internal/flow"
	"verif/internal/load"
)

const (
	c17LL  = "pkg/util/limitlistener"
	c17Sem = "pkg/util/sem"
	c17HS  = "pkg/object/httpserver"

	c17SemT      = "*" + Mod + c17Sem + ".Semaphore"
	c17LLT       = "*" + Mod + c17LL + ".LimitListener"
	c17WeightedT = "*golang.org/x/sync/semaphore.Weighted"
)

func init() { Registry["C17"] = c17 }

func c17(c *core.Ctx) string {
	c.Rule("R-C17-1", "LimitListener.Accept typestate: the inner Listener.Accept is reached only holding a semaphore slot (acquire succeeded, or the listener context was found alive after the acquire); every error exit has released exactly once iff a slot was held; the success exit has not released and returns the wrapper whose release func is the listener's release; acquire reports success iff the semaphore acquire returned nil; acquire and release have the same unit weight")
	c.Rule("R-C17-2", "release exactly once per connection: the wrapper's Close runs the release func through its own sync.Once on every exit; the release field is referenced nowhere else (no direct call, no reassignment)")
	c.Rule("R-C17-3", "every serve loop is capped: every Serve/ServeTLS/ListenAndServe* call (net/http and http3) in httpserver serves a listener that flows from NewLimitListener sized by Spec.MaxConnections and recorded in runtime.limitListener; reload forwards the new spec's MaxConnections to SetMaxConnection whenever a listener exists (or restarts with the new spec); SetMaxConnection forwards to Semaphore.SetMaxCount; the restart decision neutralises Spec.MaxConnections on both compared copies (a change of maxConnections alone is applied to the live listener, never by a restart that drops established connections)")
	c.Rule("R-C17-4", "resize bookkeeping: SetMaxCount reads the old and stores the new realCapacity in one critical section of the semaphore's mutex, does not modify the new value afterwards, releases (new-old) only when new>=old and acquires (old-new) only when old>=new, and every exit with new>old has released / new<old has acquired; NewSem pre-acquires (weighted size - capacity) and records the capacity")
	c.Rule("R-C17-5", "MQTT cap: every insertion into Broker.clients happens holding the broker's write lock and, within the same critical section, after establishing: key already present (takeover, size unchanged) or cap disabled (MaxAllowedConnection<=0) or len(clients) < MaxAllowedConnection; the edge that found the table full returns without inserting after writing a CONNACK with ErrRefusedServerUnavailable; no exit keeps the lock")
	c.NotDecided = []string{
		"the instant-by-instant bound itself (rests on golang.org/x/sync/semaphore.Weighted semantics, trusted)",
		"asynchronous shrink: SetMaxCount applies a decrease in a goroutine that waits for open connections to close, so the moment from which the new cap holds is not decided",
		"overlap of the old and the new listener during a server restart (Shutdown grace period)",
		"that MQTT clients are removed from Broker.clients when they disconnect (capacity becomes usable again) and the early, unlocked pre-check in checkConnectPermission",
		"HTTP/3: no cap mechanism exists at all (reported as a finding by R-C17-3)",
	}
	c.Assumptions = append(c.Assumptions,
		"Semaphore.AcquireWithContext fails only when the listener's context is done, and a done context stays done: a state with acquire failed and ctx.Err()==nil afterwards is infeasible",
		"a non-nil *limitlistener.LimitListener is a capped listener (fields are unexported; the only constructor is NewLimitListener)")

	c17Accept(c)
	c17Conn(c)
	c17Serve(c)
	c17Reload(c)
	c17RestartDecision(c)
	c17Resize(c)
	c17NewSem(c)
	c17MQTT(c)
	return "Static typestate / value-flow rules on the two connection-cap mechanisms. HTTP: path-sensitive analysis of LimitListener.Accept (slot held at the inner Accept, released exactly once on error exits, handed to the wrapper on success), once-only release in the wrapper's Close, every serve call of httpserver receives a LimitListener sized by MaxConnections, reload forwards the new cap, SetMaxCount's locked read-modify-write and signed delta adjustment, NewSem's initial pre-acquire. MQTT: every insertion into Broker.clients is under the write lock and dominated in the same critical section by takeover / cap disabled / len < cap, and the full edge refuses with server-unavailable. Not decided: the instant-by-instant bound (x/sync semaphore trusted), asynchronous shrink timing, restart overlap, client removal."
}

// ---------------------------------------------------------------------------------------
// shared helpers

// c17Field resolves a selector expression to the struct field it denotes.
func c17Field(f *flow.Func, e ast.Expr) *types.Var {
	sel, ok := ast.Unparen(e).(*ast.SelectorExpr)
	if !ok {
		return nil
	}
	if s := f.Info.Selections[sel]; s != nil {
		if v, ok := s.Obj().(*types.Var); ok && v.IsField() {
			return v
		}
	}
	return nil
}

// c17Obj returns the variable an identifier expression denotes.
func c17Obj(f *flow.Func, e ast.Expr) types.Object {
	id, ok := ast.Unparen(e).(*ast.Ident)
	if !ok || id.Name == "_" {
		return nil
	}
	if o := f.Info.Uses[id]; o != nil {
		return o
	}
	return f.Info.Defs[id]
}

// c17FieldsByType lists the fields of a named struct type whose type string is typ.
func c17FieldsByType(n *types.Named, typ string) []*types.Var {
	st, ok := n.Underlying().(*types.Struct)
	if !ok {
		return nil
	}
	var out []*types.Var
	for i := 0; i < st.NumFields(); i++ {
		if st.Field(i).Type().String() == typ {
			out = append(out, st.Field(i))
		}
	}
	return out
}

// c17Methods returns the method declarations of the named receiver type in a module package.
func c17Methods(c *core.Ctx, rel, recv string) []*flow.Func {
	pkg := c.Prog.Pkg(rel)
	if pkg == nil {
		return nil
	}
	var out []*flow.Func
	for _, file := range pkg.Syntax {
		for _, d := range file.Decls {
			fd, ok := d.(*ast.FuncDecl)
			if !ok || fd.Body == nil || fd.Recv == nil || len(fd.Recv.List) != 1 {
				continue
			}
			if load.RecvName(fd.Recv.List[0].Type) == recv {
				out = append(out, flow.NewFunc(pkg, fd))
			}
		}
	}
	return out
}

// c17FuncObj returns the *types.Func declared by a flow.Func wrapping a declaration.
func c17FuncObj(f *flow.Func) *types.Func {
	if fd, ok := f.Node.(*ast.FuncDecl); ok {
		if o, ok := f.Info.Defs[fd.Name].(*types.Func); ok {
			return o
		}
	}
	return nil
}

// c17CalleeFunc returns the static callee as *types.Func (nil otherwise).
func c17CalleeFunc(f *flow.Func, call *ast.CallExpr) *types.Func {
	if o, ok := f.Callee(call).(*types.Func); ok {
		return o
	}
	// a method value held in a local that is assigned exactly once: h := x.m; h()
	if sel := c17CallSel(f, call); sel != nil {
		if s := f.Info.Selections[sel]; s != nil && s.Kind() == types.MethodVal {
			fo, _ := s.Obj().(*types.Func)
			return fo
		}
	}
	return nil
}

// c17CallSel returns the selector expression x.m of a call x.m(..), also when the method value
// was first stored in a local assigned exactly once (h := x.m; h(..)).
func c17CallSel(f *flow.Func, call *ast.CallExpr) *ast.SelectorExpr {
	if sel, ok := ast.Unparen(call.Fun).(*ast.SelectorExpr); ok {
		return sel
	}
	id, ok := ast.Unparen(call.Fun).(*ast.Ident)
	if !ok {
		return nil
	}
	obj, ok := f.Info.Uses[id].(*types.Var)
	if !ok || obj.IsField() {
		return nil
	}
	var rhs []ast.Expr
	ast.Inspect(f.Body, func(n ast.Node) bool {
		if as, ok := n.(*ast.AssignStmt); ok {
			for i, l := range as.Lhs {
				if c17Obj(f, l) == types.Object(obj) {
					if len(as.Lhs) == len(as.Rhs) {
						rhs = append(rhs, as.Rhs[i])
					} else {
						rhs = append(rhs, nil)
					}
				}
			}
		}
		return true
	})
	if len(rhs) != 1 || rhs[0] == nil {
		return nil
	}
	sel, _ := ast.Unparen(rhs[0]).(*ast.SelectorExpr)
	return sel
}

// c17StripConv removes parentheses and type conversions around an expression.
func c17StripConv(f *flow.Func, e ast.Expr) ast.Expr {
	for {
		e = ast.Unparen(e)
		call, ok := e.(*ast.CallExpr)
		if !ok || len(call.Args) != 1 {
			return e
		}
		if tv, ok := f.Info.Types[call.Fun]; ok && tv.IsType() {
			e = call.Args[0]
			continue
		}
		return e
	}
}

// c17ResultKey returns the fact key under which the flow engine records the outcome of a
// single-valued call: for a bool result "the call returned true", for anything else
// "the result is nil". If the result is assigned to a variable the key is about that variable.
func c17ResultKey(f *flow.Func, pm map[ast.Node]ast.Node, call *ast.CallExpr) (key string, void bool) {
	tv := f.Info.Types[call]
	if tv.Type == nil {
		return "", true
	}
	if tup, ok := tv.Type.(*types.Tuple); ok {
		return "", tup.Len() == 0
	}
	isBool := false
	if b, ok := tv.Type.Underlying().(*types.Basic); ok && b.Info()&types.IsBoolean != 0 {
		isBool = true
	}
	var n ast.Node = call
	p := pm[n]
	for {
		if pe, ok := p.(*ast.ParenExpr); ok {
			n, p = pe, pm[pe]
			continue
		}
		break
	}
	var lhs ast.Expr
	switch a := p.(type) {
	case *ast.AssignStmt:
		if len(a.Lhs) == 1 && len(a.Rhs) == 1 && a.Rhs[0] == n {
			lhs = a.Lhs[0]
		}
	case *ast.ValueSpec:
		if len(a.Names) == 1 && len(a.Values) == 1 && a.Values[0] == n {
			lhs = a.Names[0]
		}
	}
	if id, ok := lhs.(*ast.Ident); ok && id.Name != "_" {
		if isBool {
			return f.VarKey(id), false
		}
		return f.NilKey(id), false
	}
	if isBool {
		return f.CallKey(call), false
	}
	return f.NilKey(call), false
}

// c17Mutex classifies a call as Lock/Unlock/RLock/RUnlock of a sync mutex and returns the
// receiver expression (the x in x.Lock()).
func c17Mutex(f *flow.Func, call *ast.CallExpr) (op string, recv ast.Expr) {
	fo := c17CalleeFunc(f, call)
	if fo == nil || fo.Pkg() == nil || fo.Pkg().Path() != "sync" {
		return "", nil
	}
	switch fo.Name() {
	case "Lock", "Unlock", "RLock", "RUnlock":
	default:
		return "", nil
	}
	sig, _ := fo.Type().(*types.Signature)
	if sig == nil || sig.Recv() == nil {
		return "", nil
	}
	rt := sig.Recv().Type().String()
	if rt != "*sync.Mutex" && rt != "*sync.RWMutex" {
		return "", nil
	}
	sel, ok := ast.Unparen(call.Fun).(*ast.SelectorExpr)
	if !ok {
		return "", nil
	}
	return fo.Name(), sel.X
}

// ---------------------------------------------------------------------------------------
// R-C17-1

const (
	c17EvAcq   = "ev:c17:acquire-called"
	c17EvOut   = "ev:c17:acquire-outcome"
	c17EvCtx   = "ev:c17:ctx-checked-after-acquire"
	c17EvLive  = "ev:c17:ctx-alive"
	c17EvRel1  = "ev:c17:released"
	c17EvRel2  = "ev:c17:released-twice"
	c17EvInner = "ev:c17:inner-accept"
)

// c17LLRoles resolves the roles inside package limitlistener.
type c17LLRoles struct {
	ll         *types.Named
	semField   *types.Var
	acqHelpers map[*types.Func]*flow.Func // methods of LimitListener that acquire the semaphore
	relHelpers map[*types.Func]*flow.Func // methods of LimitListener that release it
	connT      *types.Named               // wrapper type returned by Accept
	relField   *types.Var                 // the field that carries the release: a func(), or (back) a *LimitListener
	back       bool
	onceFields []*types.Var
}

// c17SemLike: t is *sem.Semaphore, or an interface declared in pkg that *sem.Semaphore implements and
// into which (fields / variables of that type) only *sem.Semaphore values are ever stored in pkg — an
// unexported interface put in front of the single implementation.
var c17semLikeMemo = map[string]bool{}

func c17SemLike(pkg *packages.Package, t types.Type) bool {
	if t == nil {
		return false
	}
	if t.String() == c17SemT {
		return true
	}
	named, ok := t.(*types.Named)
	if !ok || named.Obj().Pkg() != pkg.Types {
		return false
	}
	iface, ok := named.Underlying().(*types.Interface)
	if !ok {
		return false
	}
	key := pkg.PkgPath + "." + named.Obj().Name()
	if v, seen := c17semLikeMemo[key]; seen {
		return v
	}
	c17semLikeMemo[key] = false
	var semPtr types.Type
	for _, imp := range pkg.Types.Imports() {
		if imp.Path() == Mod+c17Sem {
			if o := imp.Scope().Lookup("Semaphore"); o != nil {
				semPtr = types.NewPointer(o.Type())
			}
		}
	}
	if semPtr == nil || !types.Implements(semPtr, iface) {
		return false
	}
	stores, okStores := 0, true
	check := func(dst types.Type, val ast.Expr) {
		if dst == nil || !types.Identical(dst, named) || val == nil {
			return
		}
		tv := pkg.TypesInfo.Types[val]
		if tv.IsNil() {
			return
		}
		stores++
		if tv.Type == nil || (tv.Type.String() != c17SemT && !types.Identical(tv.Type, named)) {
			okStores = false
		}
	}
	for _, file := range pkg.Syntax {
		ast.Inspect(file, func(n ast.Node) bool {
			switch x := n.(type) {
			case *ast.KeyValueExpr:
				if id, ok := x.Key.(*ast.Ident); ok {
					if fv, ok := pkg.TypesInfo.Uses[id].(*types.Var); ok && fv.IsField() {
						check(fv.Type(), x.Value)
					}
				}
			case *ast.AssignStmt:
				if len(x.Lhs) == len(x.Rhs) {
					for i, l := range x.Lhs {
						if tv := pkg.TypesInfo.Types[l]; tv.Type != nil {
							check(tv.Type, x.Rhs[i])
						} else if id, ok := l.(*ast.Ident); ok {
							if o := pkg.TypesInfo.Defs[id]; o != nil {
								check(o.Type(), x.Rhs[i])
							}
						}
					}
				}
			}
			return true
		})
	}
	c17semLikeMemo[key] = stores > 0 && okStores
	return c17semLikeMemo[key]
}

func c17IsSemCall(f *flow.Func, call *ast.CallExpr, names ...string) bool {
	fo := c17CalleeFunc(f, call)
	if fo == nil {
		return false
	}
	sig, _ := fo.Type().(*types.Signature)
	if sig == nil || sig.Recv() == nil {
		return false
	}
	if sig.Recv().Type().String() != c17SemT {
		// a method of an interface standing in for the semaphore: judge by the static type of the receiver expression
		sel := c17CallSel(f, call)
		if sel == nil {
			return false
		}
		tv := f.Info.Types[sel.X]
		if _, isIface := sig.Recv().Type().Underlying().(*types.Interface); !isIface || !c17SemLike(f.Pkg, tv.Type) {
			return false
		}
	}
	for _, n := range names {
		if fo.Name() == n {
			return true
		}
	}
	return false
}

func c17ResolveLL(c *core.Ctx) *c17LLRoles {
	r := &c17LLRoles{acqHelpers: map[*types.Func]*flow.Func{}, relHelpers: map[*types.Func]*flow.Func{}}
	r.ll = namedType(c, c17LL, "LimitListener")
	if r.ll == nil {
		return nil
	}
	var sf []*types.Var
	if st, ok := r.ll.Underlying().(*types.Struct); ok {
		for i := 0; i < st.NumFields(); i++ {
			if c17SemLike(c.Prog.Pkg(c17LL), st.Field(i).Type()) {
				sf = append(sf, st.Field(i))
			}
		}
	}
	if len(sf) != 1 {
		c.Errorf("R-C17-1: anchor: LimitListener has %d fields holding the *sem.Semaphore (directly or behind a package-local interface), expected 1", len(sf))
		return nil
	}
	r.semField = sf[0]
	for _, m := range c17Methods(c, c17LL, "LimitListener") {
		fo := c17FuncObj(m)
		if fo == nil || fo.Name() == "Accept" {
			continue
		}
		// thin wrappers only: a method that acquires AND (conditionally) gives the slot back or consults the
		// listener's context is a part of the accept protocol and is interpreted in place, not summarised
		acq, rel, ctx := false, false, false
		for _, call := range calls(m.Body, true) {
			if c17IsSemCall(m, call, "AcquireWithContext", "Acquire") {
				acq = true
			}
			if c17IsSemCall(m, call, "Release") {
				rel = true
			}
			if co := c17CalleeFunc(m, call); co != nil && co.FullName() == "(context.Context).Err" {
				ctx = true
			}
		}
		if rel && !acq {
			r.relHelpers[fo] = m
		}
		if acq && !rel && !ctx {
			r.acqHelpers[fo] = m
		}
	}
	// an acquire wrapper that calls a release wrapper is not thin either
	for fo, m := range r.acqHelpers {
		for _, call := range calls(m.Body, true) {
			if co := c17CalleeFunc(m, call); co != nil && r.relHelpers[co] != nil {
				delete(r.acqHelpers, fo)
			}
		}
	}
	// wrapper type: the struct type of the package that embeds net.Conn
	pkg := c.Prog.Pkg(c17LL)
	scope := pkg.Types.Scope()
	for _, name := range scope.Names() {
		tn, ok := scope.Lookup(name).(*types.TypeName)
		if !ok {
			continue
		}
		n, ok := tn.Type().(*types.Named)
		if !ok {
			continue
		}
		st, ok := n.Underlying().(*types.Struct)
		if !ok {
			continue
		}
		for i := 0; i < st.NumFields(); i++ {
			if st.Field(i).Embedded() && st.Field(i).Type().String() == "net.Conn" {
				if r.connT != nil {
					c.Errorf("R-C17-2: anchor: more than one struct embedding net.Conn in %s", c17LL)
					return nil
				}
				r.connT = n
			}
		}
	}
	if r.connT == nil {
		c.Errorf("R-C17-2: anchor: no connection wrapper (struct embedding net.Conn) in %s", c17LL)
		return nil
	}
	// what the connection carries to give its slot back: a release func() field, or a back-pointer to the
	// listener (the release is then reached as <conn>.<listener>.release)
	rf := c17FieldsByType(r.connT, "func()")
	bf := c17FieldsByType(r.connT, c17LLT)
	switch {
	case len(rf) == 1:
		r.relField = rf[0]
	case len(rf) == 0 && len(bf) == 1:
		r.relField, r.back = bf[0], true
	default:
		c.Errorf("R-C17-2: anchor: wrapper %s has %d func() fields and %d *LimitListener fields, expected exactly one carrier of the release", r.connT.Obj().Name(), len(rf), len(bf))
		return nil
	}
	r.onceFields = c17FieldsByType(r.connT, "sync.Once")
	return r
}

func c17Accept(c *core.Ctx) {
	r := c17ResolveLL(c)
	f := fn(c, c17LL, "LimitListener", "Accept")
	if r == nil || f == nil {
		return
	}
	cons := fname(c17LL, "LimitListener", "Accept")
	// Accept together with the same-package functions it calls (a block moved into a helper); the
	// acquire / release helpers themselves are summarised, not looked into
	bind := c17NewBind(f, 2)
	isHelper := func(g *flow.Func) bool {
		fo := c17FuncObj(g)
		return fo != nil && (r.acqHelpers[fo] != nil || r.relHelpers[fo] != nil)
	}
	var bodies []*flow.Func
	pm := map[ast.Node]ast.Node{}
	for _, g := range bind.funcs {
		if g != f && isHelper(g) {
			continue
		}
		bodies = append(bodies, g)
		for k, v := range parentMap(g.Body) {
			pm[k] = v
		}
	}
	var allCalls []*ast.CallExpr
	for _, g := range bodies {
		allCalls = append(allCalls, calls(g.Body, true)...)
	}

	acq := map[*ast.CallExpr]bool{}
	rel := map[*ast.CallExpr]bool{}
	ctxErr := map[*ast.CallExpr]bool{}
	var inner []*ast.CallExpr
	var acqList []*ast.CallExpr
	// deferred function literals are interpreted by the engine, so their calls count too
	for _, call := range allCalls {
		fo := c17CalleeFunc(f, call)
		switch {
		case fo != nil && r.acqHelpers[fo] != nil, c17IsSemCall(f, call, "AcquireWithContext", "Acquire"):
			acq[call] = true
			acqList = append(acqList, call)
		case fo != nil && r.relHelpers[fo] != nil, c17IsSemCall(f, call, "Release"):
			rel[call] = true
		case fo != nil && fo.FullName() == "(net.Listener).Accept":
			inner = append(inner, call)
		case fo != nil && fo.FullName() == "(context.Context).Err":
			// the receiver must be a field of the listener (its life-cycle context)
			if sel := c17CallSel(f, call); sel != nil {
				if fv := c17Field(f, sel.X); fv != nil && fv.Type().String() == "context.Context" {
					ctxErr[call] = true
				}
			}
		}
	}
	if !c.RequireCount("R-C17-1", "inner net.Listener.Accept call sites in LimitListener.Accept", len(inner), 1) {
		return
	}
	if len(acqList) == 0 {
		c.Violate("R-C17-1", cons+"|inner Accept only with a slot", pos(c, inner[0]),
			"LimitListener.Accept never acquires the semaphore: every connection is accepted regardless of maxConnections")
		return
	}
	if len(acqList) > 1 {
		c.Undecide("R-C17-1", cons+"|inner Accept only with a slot", pos(c, acqList[1]), "more than one acquire call site in Accept: typestate not modelled")
		return
	}
	acqCall := acqList[0]
	if eb := bind.enclosing(acqCall); eb != nil && len(enclosingLoops(eb.Body, acqCall)) > 0 {
		c.Undecide("R-C17-1", cons+"|inner Accept only with a slot", pos(c, acqCall), "the acquire call sits in a loop: typestate not modelled")
		return
	}
	okey, void := c17ResultKey(f, pm, acqCall)
	ckeys := map[*ast.CallExpr][]string{}
	for call := range ctxErr {
		k, _ := c17ResultKey(f, pm, call)
		ckeys[call] = []string{k}
		// one level of copies: `err := ctxErr`
		if as, ok := pm[call].(*ast.AssignStmt); ok && len(as.Lhs) == 1 {
			if src := c17Obj(f, as.Lhs[0]); src != nil {
				ast.Inspect(f.Body, func(n ast.Node) bool {
					if cp, ok := n.(*ast.AssignStmt); ok && len(cp.Lhs) == 1 && len(cp.Rhs) == 1 && c17Obj(f, cp.Rhs[0]) == src {
						if id, ok := cp.Lhs[0].(*ast.Ident); ok && id.Name != "_" {
							ckeys[call] = append(ckeys[call], f.NilKey(id))
						}
					}
					return true
				})
			}
		}
	}
	// the currently relevant ctx keys are remembered per state through an event naming the call
	ctxKeyOf := func(st *flow.State) []string {
		for call, k := range ckeys {
			if st.Is("ev:c17:ctxcall@"+f.Pos(call.Pos()), flow.True) {
				return k
			}
		}
		return nil
	}
	getOut := func(st *flow.State) flow.Val {
		if !st.Is(c17EvAcq, flow.True) {
			return flow.Unknown
		}
		if v := st.Get(c17EvOut); v != flow.Unknown {
			return v
		}
		if okey != "" {
			return st.Get(okey)
		}
		return flow.Unknown
	}
	getLive := func(st *flow.State) flow.Val {
		if !st.Is(c17EvCtx, flow.True) {
			return flow.Unknown
		}
		if v := st.Get(c17EvLive); v != flow.Unknown {
			return v
		}
		for _, k := range ctxKeyOf(st) {
			if v := st.Get(k); v != flow.Unknown {
				return v
			}
		}
		return flow.Unknown
	}
	latch := func(st *flow.State) {
		if st.Is(c17EvAcq, flow.True) && st.Get(c17EvOut) == flow.Unknown {
			if v := getOut(st); v != flow.Unknown {
				st.Set(c17EvOut, v)
			}
		}
		if st.Is(c17EvCtx, flow.True) && st.Get(c17EvLive) == flow.Unknown {
			if v := getLive(st); v != flow.Unknown {
				st.Set(c17EvLive, v)
			}
		}
	}
	// holds: does the state hold a semaphore slot? (True / False / Unknown; feasible=false
	// for states excluded by the stated assumption)
	holds := func(st *flow.State) (h flow.Val, feasible bool) {
		if !st.Is(c17EvAcq, flow.True) {
			return flow.False, true
		}
		out, live := getOut(st), getLive(st)
		switch {
		case out == flow.True:
			return flow.True, true
		case live == flow.True && out == flow.False:
			return flow.False, false
		case live == flow.True:
			return flow.True, true
		case out == flow.False:
			return flow.False, true
		}
		return flow.Unknown, true
	}
	released := func(st *flow.State) int {
		switch {
		case st.Is(c17EvRel2, flow.True):
			return 2
		case st.Is(c17EvRel1, flow.True):
			return 1
		}
		return 0
	}

	type bad struct {
		st  *flow.State
		why string
	}
	var badInner []bad
	innerStates := 0
	inl := bind.inline(func(g *flow.Func, n ast.Node) bool {
		call, ok := n.(*ast.CallExpr)
		return ok && !isHelper(g) && (acq[call] || rel[call] || ctxErr[call] || call == inner[0])
	})
	res := analyze(c, f, flow.Config{
		NoHavoc: true,
		Inline: func(call *ast.CallExpr, callee *types.Func) *flow.Func {
			if callee != nil && (r.acqHelpers[callee.Origin()] != nil || r.relHelpers[callee.Origin()] != nil) {
				return nil
			}
			// `return h(..)`: h decides what this exit returns, interpret it whatever it contains
			if _, isRet := pm[call].(*ast.ReturnStmt); isRet && callee != nil {
				if g := bind.byObj[callee.Origin()]; g != nil && g != f {
					return g
				}
			}
			return inl(call, callee)
		},
		OnNode: func(st *flow.State, n ast.Node) { latch(st) },
		AfterAssume: func(st *flow.State, cond ast.Expr, outcome bool) {
			latch(st)
		},
		OnCall: func(st *flow.State, call *ast.CallExpr, callee types.Object, deferred bool) {
			latch(st)
			switch {
			case acq[call]:
				st.Set(c17EvAcq, flow.True)
				st.Set(c17EvOut, flow.Unknown)
				if void {
					st.Set(c17EvOut, flow.True)
				} else if okey != "" {
					st.Set(okey, flow.Unknown)
				}
				st.Set(c17EvCtx, flow.Unknown)
				st.Set(c17EvLive, flow.Unknown)
			case rel[call]:
				if st.Is(c17EvRel1, flow.True) {
					st.Set(c17EvRel2, flow.True)
				}
				st.Set(c17EvRel1, flow.True)
			case ctxErr[call]:
				if st.Is(c17EvAcq, flow.True) {
					for other := range ckeys {
						st.Set("ev:c17:ctxcall@"+f.Pos(other.Pos()), flow.Unknown)
					}
					st.Set("ev:c17:ctxcall@"+f.Pos(call.Pos()), flow.True)
					for _, k := range ckeys[call] {
						st.Set(k, flow.Unknown)
					}
					st.Set(c17EvCtx, flow.True)
					st.Set(c17EvLive, flow.Unknown)
				}
			case call == inner[0]:
				h, feasible := holds(st)
				if !feasible {
					return
				}
				innerStates++
				switch {
				case h != flow.True:
					badInner = append(badInner, bad{st, "the inner Listener.Accept is reachable without a held semaphore slot (acquire outcome " + getOut(st).String() + ", listener context alive after the acquire " + getLive(st).String() + "): a connection beyond maxConnections is accepted instead of being held back"})
				case released(st) > 0:
					badInner = append(badInner, bad{st, "the slot has already been released when the inner Listener.Accept runs: the accepted connection is not counted against maxConnections"})
				}
				st.Set(c17EvInner, flow.True)
			}
		},
	})
	if res == nil {
		return
	}
	if innerStates == 0 && len(badInner) == 0 {
		c.Violate("R-C17-1", cons+"|inner Accept only with a slot", pos(c, inner[0]), "the inner Listener.Accept is unreachable: no connection is ever accepted")
	} else if len(badInner) > 0 {
		c.Violate("R-C17-1", cons+"|inner Accept only with a slot", pos(c, inner[0]), badInner[0].why, witness(badInner[0].st)...)
	} else {
		c.Discharge("R-C17-1", cons+"|inner Accept only with a slot", pos(c, inner[0]),
			sprintf("%d feasible abstract states reach the inner Accept, all holding an unreleased slot", innerStates))
	}

	// exits
	var badErr, badOK *bad
	var badErrAt, badOKAt ast.Node
	nErr, nOK := 0, 0
	for _, ex := range res.Exits {
		st := ex.State
		h, feasible := holds(st)
		if !feasible {
			continue
		}
		isErr := ex.Kind == flow.ExitPanic
		var ret ast.Expr
		if ex.Kind == flow.ExitReturn {
			// `return h(..)` with h interpreted in place: the values come from h's return statement
			rs := ex.Ret()
			if rs == nil || len(rs.Results) != 2 {
				c.Undecide("R-C17-1", cons+"|error exits release iff acquired", pos(c, ex.At), "return without explicit results: cannot classify the exit")
				return
			}
			ret = ast.Unparen(rs.Results[0])
			if id, ok := ret.(*ast.Ident); ok && id.Name == "nil" {
				if _, isNil := f.Info.Uses[id].(*types.Nil); isNil {
					isErr = true
				}
			}
		}
		n := released(st)
		if isErr {
			nErr++
			why := ""
			switch {
			case h == flow.True && n == 0:
				why = "an error exit keeps the acquired slot (no release): every such failure permanently lowers the number of connections the server accepts"
			case h == flow.True && n > 1:
				why = "an error exit releases the slot twice: the semaphore grows beyond maxConnections"
			case h == flow.False && n > 0:
				why = "an error exit releases although no slot was acquired: the semaphore grows beyond maxConnections"
			case h == flow.Unknown:
				why = "an error exit is reached without knowing whether the acquire succeeded (outcome not tested): release cannot be right in both cases"
			}
			if why != "" && badErr == nil {
				badErr, badErrAt = &bad{st, why}, ex.At
			}
			continue
		}
		nOK++
		why := ""
		switch {
		case h != flow.True:
			why = "a connection is returned without a held slot"
		case n > 0:
			why = "a connection is returned although its slot has already been released: it is not counted against maxConnections"
		case !st.Is(c17EvInner, flow.True):
			why = "a connection is returned that does not come from the inner Listener.Accept"
		case !c17Transfers(f, r, ret, 0):
			why = "the returned connection is not the wrapper carrying the listener's release func: the slot is never released when the connection closes (capacity is lost), or closes release nothing"
		}
		if why != "" && badOK == nil {
			badOK, badOKAt = &bad{st, why}, ex.At
		}
	}
	c.RequireCount("R-C17-1", "error exits of LimitListener.Accept", nErr, 1)
	c.RequireCount("R-C17-1", "success exits of LimitListener.Accept", nOK, 1)
	if badErr != nil {
		c.Violate("R-C17-1", cons+"|error exits release iff acquired", pos(c, badErrAt), badErr.why, witness(badErr.st)...)
	} else {
		c.Discharge("R-C17-1", cons+"|error exits release iff acquired", pos(c, f.Body), sprintf("%d feasible error exits: released once iff a slot was held", nErr))
	}
	if badOK != nil {
		c.Violate("R-C17-1", cons+"|success exit hands the release to the conn", pos(c, badOKAt), badOK.why, witness(badOK.st)...)
	} else {
		c.Discharge("R-C17-1", cons+"|success exit hands the release to the conn", pos(c, f.Body), sprintf("%d success exits: slot held, not released, wrapper with release func returned", nOK))
	}

	// acquire helpers report success iff the semaphore acquire returned nil
	for fo, hf := range r.acqHelpers {
		c17AcquireHelper(c, fo, hf)
	}
	c17UnitWeight(c)
}

// c17Transfers reports whether expr is (a variable holding) &wrapper{... release: <release of the listener>}.
// c17Subst maps the parameters of a constructor helper to the arguments of its call (in the caller).
type c17Subst struct {
	caller *flow.Func
	args   map[types.Object]ast.Expr
	up     *c17Subst
}

// carrierOK: the value stored in the carrier field hands over this listener's release; a constructor's
// parameter stands for the argument it was called with.
func (sub *c17Subst) carrierOK(f *flow.Func, r *c17LLRoles, e ast.Expr) bool {
	if sub != nil && e != nil {
		if o := c17Obj(f, ast.Unparen(e)); o != nil {
			if a, ok := sub.args[o]; ok {
				return sub.up.carrierOK(sub.caller, r, a)
			}
		}
	}
	return c17CarrierValue(f, r, e)
}

func c17Transfers(f *flow.Func, r *c17LLRoles, e ast.Expr, depth int) bool {
	return c17TransfersS(f, r, e, depth, nil)
}

func c17TransfersS(f *flow.Func, r *c17LLRoles, e ast.Expr, depth int, sub *c17Subst) bool {
	e = ast.Unparen(e)
	if u, ok := e.(*ast.UnaryExpr); ok && u.Op == token.AND {
		e = ast.Unparen(u.X)
	}
	switch x := e.(type) {
	case *ast.CallExpr:
		// a same-package helper that builds the wrapper: every return must transfer
		fo := c17CalleeFunc(f, x)
		if fo == nil || fo.Pkg() != f.Pkg.Types || depth > 1 {
			return false
		}
		fd := declOf(f.Pkg, fo)
		if fd == nil {
			return false
		}
		g := flow.NewFunc(f.Pkg, fd)
		inner := &c17Subst{caller: f, args: map[types.Object]ast.Expr{}, up: sub}
		if fd.Type.Params != nil {
			k := 0
			for _, fld := range fd.Type.Params.List {
				for _, nm := range fld.Names {
					if o := g.Info.Defs[nm]; o != nil && k < len(x.Args) {
						inner.args[o] = x.Args[k]
					}
					k++
				}
			}
		}
		n, ok := 0, true
		ast.Inspect(fd.Body, func(nd ast.Node) bool {
			if _, isLit := nd.(*ast.FuncLit); isLit {
				return false
			}
			if rs, isRet := nd.(*ast.ReturnStmt); isRet {
				n++
				if len(rs.Results) != 1 || !c17TransfersS(g, r, rs.Results[0], depth+1, inner) {
					ok = false
				}
			}
			return true
		})
		return n > 0 && ok
	case *ast.CompositeLit:
		tv := f.Info.Types[x]
		if tv.Type == nil || !types.Identical(tv.Type, r.connT) {
			return false
		}
		st := r.connT.Underlying().(*types.Struct)
		for i, el := range x.Elts {
			var fld *types.Var
			val := el
			if kv, ok := el.(*ast.KeyValueExpr); ok {
				if id, ok := kv.Key.(*ast.Ident); ok {
					fld, _ = f.Info.Uses[id].(*types.Var)
				}
				val = kv.Value
			} else if i < st.NumFields() {
				fld = st.Field(i)
			}
			if fld != r.relField {
				continue
			}
			return sub.carrierOK(f, r, val)
		}
		return false
	case *ast.Ident:
		if depth > 1 {
			return false
		}
		obj := c17Obj(f, x)
		if obj == nil {
			return false
		}
		var rhs []ast.Expr
		ast.Inspect(f.Body, func(n ast.Node) bool {
			if as, ok := n.(*ast.AssignStmt); ok && len(as.Lhs) == len(as.Rhs) {
				for i, l := range as.Lhs {
					if c17Obj(f, l) == obj {
						rhs = append(rhs, as.Rhs[i])
					}
				}
			}
			return true
		})
		if len(rhs) != 1 {
			return false
		}
		if c17TransfersS(f, r, rhs[0], depth+1, sub) {
			return true
		}
		// field moved out of the literal: x := &wrapper{Conn: c}; x.release = <release>
		lit := ast.Unparen(rhs[0])
		if u, ok := lit.(*ast.UnaryExpr); ok && u.Op == token.AND {
			lit = ast.Unparen(u.X)
		}
		cl, ok := lit.(*ast.CompositeLit)
		if !ok {
			return false
		}
		if tv := f.Info.Types[cl]; tv.Type == nil || !types.Identical(tv.Type, r.connT) {
			return false
		}
		sets := c17ReleaseSets(f, r, obj)
		return len(sets) == 1 && sub.carrierOK(f, r, sets[0])
	}
	return false
}

// c17ReleaseSets returns the right-hand sides of the assignments `x.release = v` (x the variable obj)
// that are plain statements of the function body's top-level block or of the block in which obj
// is defined (i.e. executed unconditionally after the construction).
func c17ReleaseSets(f *flow.Func, r *c17LLRoles, obj types.Object) []ast.Expr {
	var out []ast.Expr
	pm := parentMap(f.Body)
	var defBlock ast.Node
	ast.Inspect(f.Body, func(n ast.Node) bool {
		if as, ok := n.(*ast.AssignStmt); ok {
			for _, l := range as.Lhs {
				if id, ok := l.(*ast.Ident); ok && f.Info.Defs[id] == obj {
					defBlock = pm[as]
				}
			}
		}
		return true
	})
	ast.Inspect(f.Body, func(n ast.Node) bool {
		as, ok := n.(*ast.AssignStmt)
		if !ok || len(as.Lhs) != len(as.Rhs) {
			return true
		}
		for i, l := range as.Lhs {
			sel, ok := ast.Unparen(l).(*ast.SelectorExpr)
			if !ok || c17Field(f, sel) != r.relField || c17Obj(f, sel.X) != obj {
				continue
			}
			if pm[as] == defBlock {
				out = append(out, as.Rhs[i])
			} else {
				out = append(out, nil) // conditional initialisation: not accepted
			}
		}
		return true
	})
	return out
}

// c17GuardedRelease: e is a call of a same-package function without parameters that, on every call,
// creates a fresh sync.Once and returns `func() { once.Do(<release of the listener>) }`: a release value
// that is safe to call more than once (the once-guard lives in the closure instead of the wrapper).
func c17GuardedRelease(f *flow.Func, r *c17LLRoles, e ast.Expr) bool {
	call, ok := ast.Unparen(e).(*ast.CallExpr)
	if !ok || len(call.Args) != 0 {
		return false
	}
	fo := c17CalleeFunc(f, call)
	if fo == nil || fo.Pkg() != f.Pkg.Types {
		return false
	}
	fd := declOf(f.Pkg, fo)
	if fd == nil {
		return false
	}
	g := funcOf(f.Pkg, fd)
	// the fresh Once: a local of type sync.Once / *sync.Once defined in the body
	isOnceT := func(t types.Type) bool {
		return t != nil && (t.String() == "sync.Once" || t.String() == "*sync.Once")
	}
	// fresh: new(sync.Once), &sync.Once{}, sync.Once{} — not an alias of a Once that lives elsewhere
	isFresh := func(v ast.Expr) bool {
		v = ast.Unparen(v)
		if u, ok := v.(*ast.UnaryExpr); ok && u.Op == token.AND {
			v = ast.Unparen(u.X)
		}
		switch x := v.(type) {
		case *ast.CompositeLit:
			return len(x.Elts) == 0
		case *ast.CallExpr:
			if b, ok := g.Callee(x).(*types.Builtin); ok && b.Name() == "new" {
				return true
			}
		}
		return false
	}
	var onces []types.Object
	ast.Inspect(fd.Body, func(n ast.Node) bool {
		if _, isLit := n.(*ast.FuncLit); isLit {
			return false
		}
		switch x := n.(type) {
		case *ast.AssignStmt:
			if x.Tok == token.DEFINE && len(x.Lhs) == len(x.Rhs) {
				for i, l := range x.Lhs {
					if id, ok := l.(*ast.Ident); ok {
						if o := g.Info.Defs[id]; o != nil && isOnceT(o.Type()) && isFresh(x.Rhs[i]) {
							onces = append(onces, o)
						}
					}
				}
			}
		case *ast.ValueSpec:
			for i, id := range x.Names {
				if o := g.Info.Defs[id]; o != nil && isOnceT(o.Type()) && (len(x.Values) == 0 || (i < len(x.Values) && isFresh(x.Values[i]))) {
					onces = append(onces, o)
				}
			}
		}
		return true
	})
	if len(onces) != 1 || len(enclosingLoopsAny(fd.Body)) > 0 {
		return false
	}
	nRet, okAll := 0, true
	ast.Inspect(fd.Body, func(n ast.Node) bool {
		if _, isLit := n.(*ast.FuncLit); isLit {
			return false
		}
		rs, isRet := n.(*ast.ReturnStmt)
		if !isRet {
			return true
		}
		nRet++
		if len(rs.Results) != 1 {
			okAll = false
			return true
		}
		lit, isLit := ast.Unparen(rs.Results[0]).(*ast.FuncLit)
		if !isLit || len(lit.Body.List) != 1 {
			okAll = false
			return true
		}
		es, isExpr := lit.Body.List[0].(*ast.ExprStmt)
		if !isExpr {
			okAll = false
			return true
		}
		do, isCall := es.X.(*ast.CallExpr)
		if !isCall || len(do.Args) != 1 {
			okAll = false
			return true
		}
		co := c17CalleeFunc(g, do)
		sel := c17CallSel(g, do)
		if co == nil || co.FullName() != "(*sync.Once).Do" || sel == nil || c17Obj(g, sel.X) != onces[0] || !c17IsReleaseValue(g, r, do.Args[0]) {
			okAll = false
		}
		return false
	})
	return nRet > 0 && okAll
}

// c17GuardedMode: every value ever stored in the wrapper's func() carrier is a once-guarded release
// (c17GuardedRelease): calling the field directly, any number of times, releases at most once.
func c17GuardedMode(c *core.Ctx, r *c17LLRoles) bool {
	if r.back {
		return false
	}
	pkg := c.Prog.Pkg(c17LL)
	n, all := 0, true
	for _, file := range pkg.Syntax {
		for _, d := range file.Decls {
			fd, ok := d.(*ast.FuncDecl)
			if !ok || fd.Body == nil {
				continue
			}
			ff := funcOf(pkg, fd)
			ast.Inspect(fd.Body, func(nd ast.Node) bool {
				switch x := nd.(type) {
				case *ast.KeyValueExpr:
					if id, ok := x.Key.(*ast.Ident); ok && ff.Info.Uses[id] == types.Object(r.relField) {
						n++
						if !c17GuardedRelease(ff, r, x.Value) {
							all = false
						}
					}
				case *ast.AssignStmt:
					for i, l := range x.Lhs {
						if c17Field(ff, l) == r.relField {
							n++
							if len(x.Lhs) != len(x.Rhs) || !c17GuardedRelease(ff, r, x.Rhs[i]) {
								all = false
							}
						}
					}
				}
				return true
			})
		}
	}
	return n > 0 && all
}

// c17Receiver returns the receiver variable of the method f wraps (nil for functions / literals).
func c17Receiver(f *flow.Func) types.Object {
	if fd, ok := f.Node.(*ast.FuncDecl); ok && fd.Recv != nil && len(fd.Recv.List) == 1 && len(fd.Recv.List[0].Names) == 1 {
		return f.Info.Defs[fd.Recv.List[0].Names[0]]
	}
	return nil
}

// c17CarrierValue: the value stored in the wrapper's carrier field hands over the release of THIS
// listener: a release value (func() carrier) or the listener itself, i.e. the method's receiver
// (back-pointer carrier).
func c17CarrierValue(f *flow.Func, r *c17LLRoles, e ast.Expr) bool {
	if e == nil {
		return false
	}
	if !r.back {
		return c17IsReleaseValue(f, r, e) || c17GuardedRelease(f, r, e)
	}
	recv := c17Receiver(f)
	return recv != nil && c17Obj(f, e) == recv
}

// c17ViaCarrier: the selector chain of e passes through the wrapper's carrier field.
func c17ViaCarrier(f *flow.Func, r *c17LLRoles, e ast.Expr) bool {
	for {
		sel, ok := ast.Unparen(e).(*ast.SelectorExpr)
		if !ok {
			return false
		}
		if c17Field(f, sel) == r.relField {
			return true
		}
		e = sel.X
	}
}

// c17CarrierRelease: e is the release reached through the carrier: the func() field itself, or (back
// pointer) the method value <conn>.<listener>.release / <conn>.<listener>.sem.Release.
func c17CarrierRelease(f *flow.Func, r *c17LLRoles, e ast.Expr) bool {
	e = ast.Unparen(e)
	if !r.back {
		return c17Field(f, e) == r.relField
	}
	sel, ok := e.(*ast.SelectorExpr)
	if !ok || !c17ViaCarrier(f, r, sel.X) {
		return false
	}
	if s := f.Info.Selections[sel]; s != nil && (s.Kind() == types.MethodVal) {
		if fo, ok := s.Obj().(*types.Func); ok {
			if r.relHelpers[fo] != nil {
				return true
			}
			sig, _ := fo.Type().(*types.Signature)
			return sig != nil && sig.Recv() != nil && sig.Recv().Type().String() == c17SemT && fo.Name() == "Release"
		}
	}
	return false
}

// c17FreshWrapper: obj is a local defined exactly once, from a composite literal of the wrapper type.
func c17FreshWrapper(f *flow.Func, r *c17LLRoles, obj types.Object) bool {
	n, fresh := 0, false
	ast.Inspect(f.Body, func(nd ast.Node) bool {
		as, ok := nd.(*ast.AssignStmt)
		if !ok || len(as.Lhs) != len(as.Rhs) {
			return true
		}
		for i, l := range as.Lhs {
			if c17Obj(f, l) != obj {
				continue
			}
			n++
			e := ast.Unparen(as.Rhs[i])
			if u, ok := e.(*ast.UnaryExpr); ok && u.Op == token.AND {
				e = ast.Unparen(u.X)
			}
			if cl, ok := e.(*ast.CompositeLit); ok {
				if tv := f.Info.Types[cl]; tv.Type != nil && types.Identical(tv.Type, r.connT) {
					fresh = true
				}
			}
		}
		return true
	})
	return n == 1 && fresh
}

// c17IsReleaseValue: a method value of a release helper, or a func literal calling one.
func c17IsReleaseValue(f *flow.Func, r *c17LLRoles, e ast.Expr) bool {
	e = ast.Unparen(e)
	// a local that names the value (assigned exactly once)
	if id, ok := e.(*ast.Ident); ok {
		if obj, isVar := f.Info.Uses[id].(*types.Var); isVar && !obj.IsField() {
			var rhs []ast.Expr
			ast.Inspect(f.Body, func(n ast.Node) bool {
				if as, ok := n.(*ast.AssignStmt); ok {
					for i, l := range as.Lhs {
						if c17Obj(f, l) == types.Object(obj) {
							if len(as.Lhs) == len(as.Rhs) {
								rhs = append(rhs, as.Rhs[i])
							} else {
								rhs = append(rhs, nil)
							}
						}
					}
				}
				return true
			})
			if len(rhs) == 1 && rhs[0] != nil {
				if _, again := ast.Unparen(rhs[0]).(*ast.Ident); !again {
					return c17IsReleaseValue(f, r, rhs[0])
				}
			}
		}
		return false
	}
	switch x := e.(type) {
	case *ast.SelectorExpr:
		if s := f.Info.Selections[x]; s != nil && s.Kind() == types.MethodVal {
			if fo, ok := s.Obj().(*types.Func); ok {
				if r.relHelpers[fo] != nil {
					return true
				}
				// l.sem.Release
				sig, _ := fo.Type().(*types.Signature)
				return sig != nil && sig.Recv() != nil && sig.Recv().Type().String() == c17SemT && fo.Name() == "Release"
			}
		}
	case *ast.FuncLit:
		n := 0
		for _, call := range calls(x.Body, false) {
			fo := c17CalleeFunc(f, call)
			if (fo != nil && r.relHelpers[fo] != nil) || c17IsSemCall(f, call, "Release") {
				n++
			}
		}
		return n == 1 && len(enclosingLoopsAny(x.Body)) == 0
	}
	return false
}

// enclosingLoopsAny returns the loops contained in a body (used to reject looping release literals).
func enclosingLoopsAny(body *ast.BlockStmt) []ast.Stmt {
	var out []ast.Stmt
	ast.Inspect(body, func(n ast.Node) bool {
		switch l := n.(type) {
		case *ast.ForStmt:
			out = append(out, l)
		case *ast.RangeStmt:
			out = append(out, l)
		}
		return true
	})
	return out
}

// c17AcquireHelper: a bool-returning acquire helper returns true iff the semaphore acquire
// returned nil.
func c17AcquireHelper(c *core.Ctx, fo *types.Func, hf *flow.Func) {
	cons := c17LL + ".(LimitListener)." + fo.Name()
	sig := fo.Type().(*types.Signature)
	var semCalls []*ast.CallExpr
	for _, call := range calls(hf.Body, false) {
		if c17IsSemCall(hf, call, "AcquireWithContext", "Acquire") {
			semCalls = append(semCalls, call)
		}
	}
	if len(semCalls) != 1 {
		c.Undecide("R-C17-1", cons+"|reports success iff acquired", pos(c, hf.Body), "acquire helper with several semaphore acquire calls")
		return
	}
	sc := semCalls[0]
	if sig.Results().Len() != 1 {
		c.Undecide("R-C17-1", cons+"|reports success iff acquired", pos(c, hf.Body), "acquire helper does not return exactly one value")
		return
	}
	rt := sig.Results().At(0).Type()
	isBool := false
	if b, ok := rt.Underlying().(*types.Basic); ok && b.Info()&types.IsBoolean != 0 {
		isBool = true
	}
	pm := parentMap(hf.Body)
	skey, void := c17ResultKey(hf, pm, sc)
	if void {
		// blocking acquire without context: always succeeds
		c.Discharge("R-C17-1", cons+"|reports success iff acquired", pos(c, sc), "blocking acquire (no failure outcome)")
		return
	}
	res := analyze(c, hf, flow.Config{NoHavoc: true})
	if res == nil {
		return
	}
	ok := true
	why := ""
	var badSt *flow.State
	n := 0
	for _, ex := range res.Exits {
		if ex.Kind != flow.ExitReturn || ex.Return == nil || len(ex.Return.Results) != 1 {
			ok, why = false, "exit without an explicit result"
			continue
		}
		n++
		ret := ast.Unparen(ex.Return.Results[0])
		st := ex.State
		if !isBool {
			// error-returning helper: must return the semaphore's result itself
			if ret == ast.Node(sc) {
				continue
			}
			if k := hf.NilKey(ret); k == skey {
				continue
			}
			ok, why, badSt = false, "the helper does not return the semaphore acquire's error", st
			continue
		}
		if tv := hf.Info.Types[ret]; tv.Value != nil {
			want := flow.False
			if constant.BoolVal(tv.Value) {
				want = flow.True
			}
			if st.Get(skey) != want {
				ok, why, badSt = false, sprintf("returns %v although the semaphore acquire outcome (nil error) is %s", constant.BoolVal(tv.Value), st.Get(skey)), st
			}
			continue
		}
		key, neg := hf.Atom(ret)
		switch {
		case key == skey && !neg:
		case key == skey && neg:
			ok, why, badSt = false, "the helper reports success exactly when the semaphore acquire FAILED: Accept proceeds without a slot and releases slots it never held", st
		default:
			// a bool variable computed earlier
			if v := st.Get(key); v != flow.Unknown && st.Get(skey) != flow.Unknown {
				if (v == flow.True) != neg == (st.Get(skey) == flow.True) {
					continue
				}
				ok, why, badSt = false, "the helper's result disagrees with the semaphore acquire outcome", st
				continue
			}
			ok, why, badSt = false, "cannot relate the helper's result to the semaphore acquire outcome", st
		}
	}
	if n == 0 {
		ok, why = false, "no return"
	}
	c.Check(ok, "R-C17-1", cons+"|reports success iff acquired", pos(c, sc),
		sprintf("%d exits return (semaphore acquire error == nil)", n), why, witness(badSt)...)
}

// c17UnitWeight: Semaphore.AcquireWithContext / Release move the same constant weight 1 and
// AcquireWithContext returns the weighted semaphore's error.
func c17UnitWeight(c *core.Ctx) {
	cons := c17Sem + ".(Semaphore)"
	weightOf := func(f *flow.Func, name string, arg int) (string, *ast.CallExpr, int) {
		n := 0
		var val string
		var at *ast.CallExpr
		for _, call := range calls(f.Body, true) {
			fo := c17CalleeFunc(f, call)
			if fo == nil || fo.Name() != name {
				continue
			}
			sig, _ := fo.Type().(*types.Signature)
			if sig == nil || sig.Recv() == nil || sig.Recv().Type().String() != c17WeightedT {
				continue
			}
			n++
			at = call
			if arg < len(call.Args) {
				if tv := f.Info.Types[call.Args[arg]]; tv.Value != nil {
					val = tv.Value.ExactString()
				} else {
					val = "non-constant " + f.Render(call.Args[arg])
				}
			}
		}
		return val, at, n
	}
	fa := fn(c, c17Sem, "Semaphore", "AcquireWithContext")
	fr := fn(c, c17Sem, "Semaphore", "Release")
	if fa == nil || fr == nil {
		return
	}
	wa, ca, na := weightOf(fa, "Acquire", 1)
	wr, cr, nr := weightOf(fr, "Release", 0)
	if na != 1 || nr != 1 {
		c.Violate("R-C17-1", cons+"|unit weight", pos(c, fa.Body),
			sprintf("AcquireWithContext makes %d and Release %d calls on the weighted semaphore (expected one each): a connection's acquire and release no longer cancel out", na, nr))
		return
	}
	c.Check(wa == "1" && wr == "1", "R-C17-1", cons+"|unit weight", pos(c, cr),
		"AcquireWithContext acquires weight 1 and Release releases weight 1",
		sprintf("a connection acquires weight %s but releases weight %s: the number of admitted connections drifts away from maxConnections", wa, wr))
	// AcquireWithContext returns the weighted acquire's error and passes its ctx parameter
	okRet := true
	nret := 0
	ast.Inspect(fa.Body, func(n ast.Node) bool {
		if _, ok := n.(*ast.FuncLit); ok {
			return false
		}
		if rs, ok := n.(*ast.ReturnStmt); ok {
			nret++
			if len(rs.Results) != 1 {
				okRet = false
				return true
			}
			ret := ast.Unparen(rs.Results[0])
			if ret == ast.Node(ca) {
				return true
			}
			// a variable assigned from the call
			pm := parentMap(fa.Body)
			if as, ok := pm[ca].(*ast.AssignStmt); ok && len(as.Lhs) == 1 && c17Obj(fa, as.Lhs[0]) != nil && c17Obj(fa, as.Lhs[0]) == c17Obj(fa, ret) {
				return true
			}
			okRet = false
		}
		return true
	})
	ctxOK := false
	if len(ca.Args) > 0 {
		if v, ok := c17Obj(fa, ca.Args[0]).(*types.Var); ok && isParam(fa, v) {
			ctxOK = true
		}
	}
	c.Check(okRet && nret > 0, "R-C17-1", cons+".AcquireWithContext|returns the acquire error", pos(c, ca),
		"every return hands back the weighted semaphore's Acquire error",
		"AcquireWithContext does not return the weighted semaphore's error: a failed (cancelled) acquire is reported as success and Accept proceeds without a slot")
	c.Check(ctxOK, "R-C17-1", cons+".AcquireWithContext|waits on the caller's context", pos(c, ca),
		"the ctx parameter is handed to the weighted Acquire",
		"the weighted Acquire does not wait on the caller's context: the stated assumption (acquire fails only when the listener context is done) no longer describes the code")
}

// ---------------------------------------------------------------------------------------
// R-C17-2

func c17Conn(c *core.Ctx) {
	r := c17ResolveLLQuiet(c)
	if r == nil {
		return
	}
	tname := r.connT.Obj().Name()
	f := fn(c, c17LL, tname, "Close")
	if f == nil {
		return
	}
	cons := fname(c17LL, tname, "Close")
	// Once.Do(release) call sites
	isOnceDo := func(ff *flow.Func, call *ast.CallExpr) bool {
		fo := c17CalleeFunc(ff, call)
		if fo == nil || fo.FullName() != "(*sync.Once).Do" || len(call.Args) != 1 {
			return false
		}
		sel := c17CallSel(ff, call)
		if sel == nil {
			return false
		}
		fld := c17Field(ff, sel.X)
		if fld == nil {
			return false
		}
		own := false
		for _, of := range r.onceFields {
			if of == fld {
				own = true
			}
		}
		if !own {
			return false
		}
		arg := ast.Unparen(call.Args[0])
		if c17CarrierRelease(ff, r, arg) {
			return true
		}
		if lit, ok := arg.(*ast.FuncLit); ok {
			// func() { l.release() }
			n := 0
			for _, ic := range calls(lit.Body, false) {
				if c17CarrierRelease(ff, r, ic.Fun) {
					n++
				}
			}
			return n == 1 && len(enclosingLoopsAny(lit.Body)) == 0
		}
		return false
	}
	guarded := c17GuardedMode(c, r)
	var does []*ast.CallExpr
	for _, call := range calls(f.Body, false) {
		if isOnceDo(f, call) || (guarded && c17Field(f, call.Fun) == r.relField) {
			does = append(does, call)
		}
	}
	if len(does) == 0 {
		c.Violate("R-C17-2", cons+"|releases on every exit", pos(c, f.Body),
			"Close never runs the release func through the connection's sync.Once: closed connections keep their slot (capacity is never returned) or release without once-protection")
	} else {
		isDo := map[*ast.CallExpr]bool{}
		for _, d := range does {
			isDo[d] = true
		}
		// the inner close: (net.Conn).Close on the wrapper's embedded connection, executed
		// synchronously (a `go l.Conn.Close()` has not returned when the next statement runs)
		pmClose := parentMap(f.Body)
		isInnerClose := func(call *ast.CallExpr) bool {
			fo := c17CalleeFunc(f, call)
			if fo == nil || fo.FullName() != "(net.Conn).Close" {
				return false
			}
			sel := c17CallSel(f, call)
			if sel == nil {
				return false
			}
			recv := ast.Unparen(sel.X)
			if o := c17Obj(f, recv); o != nil {
				// a local assigned exactly once from the embedded connection
				var rhs []ast.Expr
				ast.Inspect(f.Body, func(n ast.Node) bool {
					if as, ok := n.(*ast.AssignStmt); ok && len(as.Lhs) == len(as.Rhs) {
						for i, l := range as.Lhs {
							if c17Obj(f, l) == o {
								rhs = append(rhs, as.Rhs[i])
							}
						}
					}
					return true
				})
				if len(rhs) == 1 {
					recv = ast.Unparen(rhs[0])
				}
			}
			fld := c17Field(f, recv)
			if fld == nil || !fld.Embedded() || fld.Type().String() != "net.Conn" {
				return false
			}
			_, isGo := pmClose[call].(*ast.GoStmt)
			return !isGo
		}
		// Once.Do(func() { l.Conn.Close(); l.release() }): the order inside the literal
		litClosesFirst := func(do *ast.CallExpr) bool {
			if len(do.Args) == 0 {
				return false
			}
			lit, ok := ast.Unparen(do.Args[0]).(*ast.FuncLit)
			if !ok {
				return false
			}
			closed := false
			for _, ic := range calls(lit.Body, false) {
				if isInnerClose(ic) {
					closed = true
				}
				if c17CarrierRelease(f, r, ic.Fun) {
					return closed
				}
			}
			return false
		}
		var early *flow.State
		var earlyAt ast.Node
		nDo := 0
		res := analyze(c, f, flow.Config{NoHavoc: true,
			OnCall: func(st *flow.State, call *ast.CallExpr, callee types.Object, deferred bool) {
				if isInnerClose(call) {
					st.Set("ev:c17:inner-closed", flow.True)
				}
				if isDo[call] {
					nDo++
					if !st.Is("ev:c17:inner-closed", flow.True) && !litClosesFirst(call) && early == nil {
						early, earlyAt = st, call
					}
					st.Set("ev:c17:once-release", flow.True)
				}
			}})
		if res != nil {
			if early != nil {
				c.Violate("R-C17-2", cons+"|releases only after the inner Close returned", pos(c, earlyAt),
					"the slot is released before the underlying connection's Close has returned (or without closing it at all): an Accept blocked at the cap is woken and hands out a new connection while this one is still open, so maxConnections+1 accepted connections are open at that instant", witness(early)...)
			} else if nDo > 0 {
				c.Discharge("R-C17-2", cons+"|releases only after the inner Close returned", pos(c, does[0]),
					sprintf("%d abstract states at Once.Do(release), all after the embedded Conn.Close() returned", nDo))
			}
			ok := len(res.Exits) > 0
			var badSt *flow.State
			var at ast.Node = f.Body
			for _, ex := range res.Exits {
				if !ex.State.Is("ev:c17:once-release", flow.True) {
					ok, badSt, at = false, ex.State, ex.At
				}
			}
			c.Check(ok, "R-C17-2", cons+"|releases on every exit", pos(c, at),
				sprintf("all %d exits of Close have run Once.Do(release)", len(res.Exits)),
				"an exit of Close does not release the slot (e.g. when the underlying Close fails): the slot is lost and the server accepts fewer than maxConnections connections from then on", witness(badSt)...)
		}
	}

	// the release field is referenced only as the composite-literal key that initialises it
	// and inside Once.Do of the wrapper
	pkg := c.Prog.Pkg(c17LL)
	refs, okRefs := 0, 0
	var badRef ast.Node
	for _, file := range pkg.Syntax {
		for _, d := range file.Decls {
			fd, ok := d.(*ast.FuncDecl)
			if !ok || fd.Body == nil {
				continue
			}
			ff := flow.NewFunc(pkg, fd)
			pm := parentMap(fd.Body)
			ast.Inspect(fd.Body, func(n ast.Node) bool {
				id, ok := n.(*ast.Ident)
				if !ok || ff.Info.Uses[id] != types.Object(r.relField) {
					return true
				}
				refs++
				// composite literal key
				if kv, ok := pm[id].(*ast.KeyValueExpr); ok && kv.Key == ast.Expr(id) {
					okRefs++
					return true
				}
				// initialisation by assignment right after construction: x := &wrapper{..}; x.release = <release>
				if sel, ok := pm[id].(*ast.SelectorExpr); ok && sel.Sel == id {
					if as, ok := pm[sel].(*ast.AssignStmt); ok {
						isLHS := false
						for _, l := range as.Lhs {
							if ast.Unparen(l) == ast.Expr(sel) {
								isLHS = true
							}
						}
						if obj := c17Obj(ff, sel.X); isLHS && obj != nil && c17FreshWrapper(ff, r, obj) {
							if sets := c17ReleaseSets(ff, r, obj); len(sets) == 1 && c17CarrierValue(ff, r, sets[0]) {
								okRefs++
								return true
							}
						}
					}
				}
				// inside an accepted Once.Do call
				for p := pm[id]; p != nil; p = pm[p] {
					if call, ok := p.(*ast.CallExpr); ok && isOnceDo(ff, call) {
						okRefs++
						return true
					}
				}
				if guarded {
					if sel, ok := pm[id].(*ast.SelectorExpr); ok && sel.Sel == id {
						if call, ok := pm[sel].(*ast.CallExpr); ok && ast.Unparen(call.Fun) == ast.Expr(sel) {
							okRefs++
							return true
						}
					}
				}
				if r.back {
					// a back-pointer may be read for other purposes; what must not happen outside
					// the Once is an assignment to it or a release reached through it
					harmless := true
					var top ast.Node = id
					for {
						sel, ok := pm[top].(*ast.SelectorExpr)
						if !ok || (sel.X != top.(ast.Expr) && sel.Sel != top) {
							break
						}
						top = sel
						if c17CarrierRelease(ff, r, sel) {
							harmless = false
						}
					}
					if as, ok := pm[top].(*ast.AssignStmt); ok {
						for _, l := range as.Lhs {
							if ast.Unparen(l) == top.(ast.Expr) && c17Field(ff, l) == r.relField {
								harmless = false
							}
						}
					}
					if harmless {
						okRefs++
						return true
					}
				}
				badRef = id
				return true
			})
		}
	}
	c.Count("R-C17-2:references to the wrapper's release field", refs)
	var refAt ast.Node = f.Body
	if badRef != nil {
		refAt = badRef
	}
	c.Check(okRefs == refs, "R-C17-2", c17LL+"."+tname+".release field|only through Once.Do", pos(c, refAt),
		sprintf("%d references: initialisation in Accept and Once.Do in Close only", refs),
		"the release func is called or reassigned outside the connection's sync.Once: a connection closed twice (net/http does close repeatedly) releases two slots and the semaphore grows beyond maxConnections")
	// the wrapper's Once must be a value field of the wrapper itself (one per connection)
	c.Check(len(r.onceFields) >= 1 || guarded, "R-C17-2", c17LL+"."+tname+"|own sync.Once", pos(c, f.Body),
		"the wrapper has its own sync.Once (a field, or a fresh Once owned by the release closure it is given)", "the wrapper has no sync.Once field of its own")
}

// c17ResolveLLQuiet resolves the roles without repeating anchor errors.
func c17ResolveLLQuiet(c *core.Ctx) *c17LLRoles {
	n := len(c.Errors)
	r := c17ResolveLL(c)
	if r == nil {
		c.Errors = c.Errors[:n]
	}
	return r
}
