package rules

// Supersession marks (extension of R-C16-3, round 3).
//
// "Nothing is registered under the id any more" does not prove that a connection still owns what
// is keyed by its client id: a superseded connection A whose successor B has connected, taken the
// id over, disconnected and been unregistered sees exactly that, and B's stored session is still
// there. R-C16-3 therefore accepts the "absent" arm of a teardown guard only together with an
// established "this connection has not been superseded", read from a mark that handleConn's
// takeover branch writes - synchronously, on the connection it found registered - on every path
// that replaces a registration. Marks are found by role: fields of Client written with a constant
// on the variable loaded from Broker.clients in handleConn (directly, with sync/atomic, or through
// a Client method), never by name.

import (
	"go/ast"
	"go/constant"
	"go/token"
	"go/types"
	"strings"

	"verif/internal/flow"
)

// c16SupFact is a fact of a teardown function that tells whether the connection is superseded.
type c16SupFact struct {
	key        string
	notSupWhen flow.Val // value of key that establishes "not superseded"
	supWhen    flow.Val // value of key that establishes "superseded" (Unknown if none)
	fld        *types.Var
}

// clientFieldOf returns the Client field selected by x (&x allowed) and the root object.
func (e *c16Env) clientFieldOf(f *flow.Func, x ast.Expr) (*types.Var, types.Object) {
	x = ast.Unparen(x)
	if u, ok := x.(*ast.UnaryExpr); ok && u.Op == token.AND {
		x = ast.Unparen(u.X)
	}
	sel, ok := x.(*ast.SelectorExpr)
	if !ok {
		return nil, nil
	}
	s := f.Info.Selections[sel]
	if s == nil {
		return nil, nil
	}
	v, ok := s.Obj().(*types.Var)
	if !ok || !v.IsField() {
		return nil, nil
	}
	// the field may sit in a sub-struct of Client (`c.life.superseded`): some prefix of the selector
	// chain must be the connection
	isClient := func(t types.Type) bool {
		if c16PtrTo(t, "Client") {
			return true
		}
		n, ok := t.(*types.Named)
		return ok && n.Obj().Name() == "Client" && n.Obj().Pkg() != nil && n.Obj().Pkg().Path() == Mod+mq
	}
	for cur := ast.Unparen(sel.X); ; {
		tv, ok := f.Info.Types[cur]
		if ok && tv.Type != nil && isClient(tv.Type) {
			break
		}
		inner, ok := cur.(*ast.SelectorExpr)
		if !ok {
			return nil, nil
		}
		cur = ast.Unparen(inner.X)
	}
	return v, c16Obj(f, c16Root(sel.X))
}

// constWrites lists the constant writes to Client fields of variable root performed by node n
// (an assignment or a sync/atomic store / swap / compare-and-swap call).
func (e *c16Env) constWrites(f *flow.Func, n ast.Node, root types.Object) map[*types.Var]constant.Value {
	out := map[*types.Var]constant.Value{}
	switch s := n.(type) {
	case *ast.AssignStmt:
		if len(s.Lhs) != len(s.Rhs) {
			return out
		}
		for i, l := range s.Lhs {
			if fld, r := e.clientFieldOf(f, l); fld != nil && r == root && root != nil {
				if tv := f.Info.Types[s.Rhs[i]]; tv.Value != nil {
					out[fld] = tv.Value
				}
			}
		}
	case *ast.CallExpr:
		fo, ok := c16FnOK(f, s)
		if !ok || fo.Pkg() == nil || fo.Pkg().Path() != "sync/atomic" || len(s.Args) < 2 {
			return out
		}
		if !strings.HasPrefix(fo.Name(), "Store") && !strings.HasPrefix(fo.Name(), "Swap") && !strings.HasPrefix(fo.Name(), "CompareAndSwap") {
			return out
		}
		if fld, r := e.clientFieldOf(f, s.Args[0]); fld != nil && r == root && root != nil {
			if tv := f.Info.Types[s.Args[len(s.Args)-1]]; tv.Value != nil {
				out[fld] = tv.Value
			}
		}
	}
	return out
}

// methodWrites: constant writes a Client method performs on fields of its receiver.
func (e *c16Env) methodWrites(d *ast.FuncDecl) map[*types.Var]constant.Value {
	out := map[*types.Var]constant.Value{}
	if d == nil || !c16IsClientMethod(d) || len(d.Recv.List[0].Names) == 0 {
		return out
	}
	f := flow.NewFunc(e.pkg, d)
	recv := f.Info.Defs[d.Recv.List[0].Names[0]]
	ast.Inspect(d.Body, func(n ast.Node) bool {
		if _, isLit := n.(*ast.FuncLit); isLit {
			return false
		}
		for k, v := range e.constWrites(f, n, recv) {
			out[k] = v
		}
		return true
	})
	return out
}

// takeoverWrites returns, for a node of handleConn, the marks it writes on a variable loaded from
// Broker.clients (reg). Calls under go/defer do not count: they are not performed under the lock.
func (e *c16Env) takeoverWrites(f *flow.Func, n ast.Node, reg map[types.Object]bool, pm map[ast.Node]ast.Node) map[*types.Var]constant.Value {
	out := map[*types.Var]constant.Value{}
	for r := range reg {
		for k, v := range e.constWrites(f, n, r) {
			out[k] = v
		}
	}
	if call, ok := n.(*ast.CallExpr); ok {
		switch pm[call].(type) {
		case *ast.GoStmt, *ast.DeferStmt:
			return out
		}
		if fo, ok := c16FnOK(f, call); ok && reg[c16Obj(f, c16Recv(call))] {
			for k, v := range e.methodWrites(e.decls[fo]) {
				out[k] = v
			}
		}
	}
	return out
}

func (e *c16Env) handleConnRegVars(f *flow.Func) (reg map[types.Object]bool, foundT, foundF []string) {
	reg = map[types.Object]bool{}
	ast.Inspect(f.Body, func(n ast.Node) bool {
		as, ok := n.(*ast.AssignStmt)
		if !ok || len(as.Rhs) != 1 || !e.isClientsLookup(f, as.Rhs[0]) {
			return true
		}
		if id, ok := as.Lhs[0].(*ast.Ident); ok && c16Obj(f, id) != nil {
			reg[c16Obj(f, id)] = true
			foundF = c16AddKey(foundF, f.NilKey(id)) // nil == false  => found
		}
		if len(as.Lhs) == 2 {
			if id, ok := as.Lhs[1].(*ast.Ident); ok && c16Obj(f, id) != nil {
				foundT = c16AddKey(foundT, f.VarKey(id))
			}
		}
		return true
	})
	return
}

// marks computes (once) the supersession marks written by handleConn's takeover branch.
func (e *c16Env) marks() map[*types.Var]constant.Value {
	if e.markVals != nil {
		return e.markVals
	}
	e.markVals = map[*types.Var]constant.Value{}
	f := e.anchor("handleConn")
	if f == nil {
		return e.markVals
	}
	// the connections found registered, and the parameters they are handed to (b.supersede(old))
	reg := map[types.Object]bool{}
	for _, g := range reach(f, 3) {
		r, _, _ := e.handleConnRegVars(g)
		for o := range r {
			reg[o] = true
		}
	}
	e.bindParams(f, reg, 3)
	for _, g := range reach(f, 3) {
		g := g
		if len(reg) == 0 {
			continue
		}
		pm := parentMap(g.Body)
		ast.Inspect(g.Body, func(n ast.Node) bool {
			switch n.(type) {
			case *ast.GoStmt, *ast.DeferStmt:
				return false // not performed under the lock / before the registration
			}
			for k, v := range e.takeoverWrites(g, n, reg, pm) {
				e.markVals[k] = v
			}
			return true
		})
	}
	return e.markVals
}

func c16Truth(v constant.Value) (bool, bool) {
	switch v.Kind() {
	case constant.Bool:
		return constant.BoolVal(v), true
	}
	return false, false
}

func c16Zero(v constant.Value) constant.Value {
	if v.Kind() == constant.Bool {
		return constant.MakeBool(false)
	}
	return constant.MakeInt64(0)
}

// evalMark evaluates a boolean expression over a single read of mark field fld (selector or
// sync/atomic load) with the field holding val. ok=false if the expression has another shape.
func (e *c16Env) evalMark(f *flow.Func, x ast.Expr, fld *types.Var, val constant.Value) (res, ok bool) {
	x = ast.Unparen(x)
	isRead := func(y ast.Expr) bool {
		y = ast.Unparen(y)
		if c16Sel(f, y, fld) {
			return true
		}
		call, isC := y.(*ast.CallExpr)
		if !isC || len(call.Args) != 1 {
			return false
		}
		fo, isF := c16FnOK(f, call)
		if !isF || fo.Pkg() == nil || fo.Pkg().Path() != "sync/atomic" || !strings.HasPrefix(fo.Name(), "Load") {
			return false
		}
		g, _ := e.clientFieldOf(f, call.Args[0])
		return g == fld
	}
	switch t := x.(type) {
	case *ast.UnaryExpr:
		if t.Op == token.NOT {
			r, ok := e.evalMark(f, t.X, fld, val)
			return !r, ok
		}
	case *ast.BinaryExpr:
		switch t.Op {
		case token.EQL, token.NEQ, token.LSS, token.LEQ, token.GTR, token.GEQ:
			if tv := f.Info.Types[t.Y]; tv.Value != nil && isRead(t.X) {
				return constant.Compare(val, t.Op, tv.Value), true
			}
			if tv := f.Info.Types[t.X]; tv.Value != nil && isRead(t.Y) {
				return constant.Compare(tv.Value, t.Op, val), true
			}
		}
		return false, false
	}
	if isRead(x) {
		return c16Truth(val)
	}
	return false, false
}

// supFacts lists the facts of function f that decide "superseded" for a connection that is not
// one of the variables loaded from the registry (isReg).
func (e *c16Env) supFacts(f *flow.Func, isReg func(ast.Expr) bool) []c16SupFact {
	var out []c16SupFact
	marks := e.marks()
	if len(marks) == 0 {
		return nil
	}
	add := func(key string, x ast.Expr, fld *types.Var, eval func(v constant.Value) (bool, bool)) {
		onMark, ok1 := eval(marks[fld])
		onZero, ok2 := eval(c16Zero(marks[fld]))
		if !ok1 || !ok2 || onMark == onZero {
			return
		}
		sf := c16SupFact{key: key, fld: fld, notSupWhen: flow.False, supWhen: flow.True}
		if !onMark { // the expression is false for a superseded connection
			sf.notSupWhen, sf.supWhen = flow.True, flow.False
		}
		for _, o := range out {
			if o.key == key {
				return
			}
		}
		out = append(out, sf)
	}
	inspected := map[ast.Expr]bool{}
	ast.Inspect(f.Body, func(n ast.Node) bool {
		switch x := n.(type) {
		case *ast.BinaryExpr:
			boolConst := false
			for _, side := range []ast.Expr{x.X, x.Y} {
				if tv := f.Info.Types[side]; tv.Value != nil && tv.Value.Kind() == constant.Bool {
					boolConst = true // `m == true`: the engine decides the operand itself
				}
			}
			if (x.Op == token.EQL || x.Op == token.NEQ) && !boolConst {
				for fld := range marks {
					fld := fld
					if _, ok := e.evalMark(f, x, fld, marks[fld]); ok && !e.readOfReg(f, x, isReg) {
						// key is the positive (==) fact; evaluate the == form
						add(f.EqKey(x.X, x.Y), x, fld, func(v constant.Value) (bool, bool) {
							r, ok := e.evalMark(f, x, fld, v)
							if x.Op == token.NEQ {
								r = !r
							}
							return r, ok
						})
						inspected[x.X], inspected[x.Y] = true, true
					}
				}
			}
		case *ast.SelectorExpr:
			if inspected[x] {
				return true
			}
			for fld := range marks {
				fld := fld
				if c16Sel(f, x, fld) && !isReg(x.X) {
					if b, ok := fld.Type().Underlying().(*types.Basic); ok && b.Info()&types.IsBoolean != 0 {
						k, _ := f.Atom(x)
						add(k, x, fld, func(v constant.Value) (bool, bool) { return c16Truth(v) })
					}
				}
			}
		case *ast.CallExpr:
			fo, ok := c16FnOK(f, x)
			if !ok || isReg(c16Recv(x)) {
				return true
			}
			d := e.decls[fo]
			if d == nil || !c16IsClientMethod(d) {
				return true
			}
			mf := flow.NewFunc(e.pkg, d)
			var rets []*ast.ReturnStmt
			ast.Inspect(d.Body, func(m ast.Node) bool {
				if r, ok := m.(*ast.ReturnStmt); ok {
					rets = append(rets, r)
				}
				return true
			})
			if len(rets) != 1 || len(rets[0].Results) != 1 {
				return true
			}
			for fld := range marks {
				fld := fld
				add(f.CallKey(x), x, fld, func(v constant.Value) (bool, bool) { return e.evalMark(mf, rets[0].Results[0], fld, v) })
			}
		}
		return true
	})
	return out
}

func (e *c16Env) readOfReg(f *flow.Func, x *ast.BinaryExpr, isReg func(ast.Expr) bool) bool {
	for _, side := range []ast.Expr{x.X, x.Y} {
		if id := c16Root(side); id != nil && isReg(id) {
			return true
		}
	}
	return false
}

// c16MarkWritten: when a teardown relies on a supersession mark, every path of handleConn that
// replaces an existing registration must have written that mark on the replaced connection.
func c16MarkWritten(e *c16Env) {
	c := e.c
	if len(e.markRelied) == 0 {
		return
	}
	f := e.anchor("handleConn")
	if f == nil {
		return
	}
	cons := e.fnameOf(f) + "|replaced registration is marked superseded"
	reg := map[types.Object]bool{}
	var foundT, foundF []string
	pm := map[ast.Node]ast.Node{}
	var stores []ast.Node
	for _, g := range reach(f, 3) {
		r, ft, ff := e.handleConnRegVars(g)
		for o := range r {
			reg[o] = true
		}
		for _, k := range ft {
			foundT = c16AddKey(foundT, k)
		}
		for _, k := range ff {
			foundF = c16AddKey(foundF, k)
		}
		for k, v := range parentMap(g.Body) {
			pm[k] = v
		}
		g := g
		ast.Inspect(g.Body, func(n ast.Node) bool {
			if as, ok := n.(*ast.AssignStmt); ok {
				for _, l := range as.Lhs {
					if e.isClientsLookup(g, l) {
						stores = append(stores, as)
					}
				}
			}
			return true
		})
	}
	e.bindParams(f, reg, 3)
	if !c.RequireCount("R-C16-3", "stores into Broker.clients in handleConn", len(stores), 1) {
		return
	}
	mark := func(st *flow.State, n ast.Node) {
		for fld := range e.takeoverWrites(f, n, reg, pm) {
			if e.markRelied[fld] {
				st.Set("ev:c16marked:"+fld.Name(), flow.True)
			}
		}
	}
	absentIn := func(st *flow.State) bool {
		absent := false
		for _, k := range foundT {
			absent = absent || st.Is(k, flow.False)
		}
		for _, k := range foundF {
			absent = absent || st.Is(k, flow.True)
		}
		return absent
	}
	// a local closure called in place is opaque to the engine: summarise it ("every exit on which a
	// registered connection was found has marked it") and apply the summary at its call
	closureOK := map[*ast.FuncLit]int{}
	closureMarks := func(lit *ast.FuncLit) bool {
		if v := closureOK[lit]; v != 0 {
			return v == 2
		}
		closureOK[lit] = 1
		lf := f.Lit(lit)
		r := analyze(c, lf, flow.Config{NoHavoc: true,
			OnNode: func(st *flow.State, n ast.Node) { mark(st, n) },
			OnCall: func(st *flow.State, call *ast.CallExpr, callee types.Object, d bool) { mark(st, call) }})
		if r == nil {
			return false
		}
		marksSomething := false
		for _, ex := range r.Exits {
			if !c16RealExit(ex) {
				continue
			}
			all := true
			for fld := range e.markRelied {
				all = all && ex.State.Is("ev:c16marked:"+fld.Name(), flow.True)
			}
			if all {
				marksSomething = true
			} else if !absentIn(ex.State) {
				return false
			}
		}
		if marksSomething {
			closureOK[lit] = 2
		}
		return marksSomething
	}
	res := analyze(c, f, flow.Config{NoHavoc: true,
		Inline: e.inlineWhere(f, func(g *flow.Func, n ast.Node) bool {
			if as, ok := n.(*ast.AssignStmt); ok {
				for _, x := range append(append([]ast.Expr{}, as.Lhs...), as.Rhs...) {
					if e.isClientsLookup(g, x) {
						return true
					}
					if fld, _ := e.clientFieldOf(g, x); fld != nil && e.markRelied[fld] {
						return true
					}
				}
			}
			if call, ok := n.(*ast.CallExpr); ok && len(call.Args) > 0 {
				if fld, _ := e.clientFieldOf(g, call.Args[0]); fld != nil && e.markRelied[fld] {
					return true
				}
			}
			return false
		}),
		OnNode: func(st *flow.State, n ast.Node) { mark(st, n) },
		OnCall: func(st *flow.State, call *ast.CallExpr, callee types.Object, d bool) {
			mark(st, call)
			if id, ok := ast.Unparen(call.Fun).(*ast.Ident); ok && !c16IsFunc(callee) {
				if rhs := c16DefRHS(f, c16Obj(f, id)); len(rhs) == 1 {
					if lit, ok := ast.Unparen(rhs[0]).(*ast.FuncLit); ok {
						if _, async := pm[call].(*ast.GoStmt); !async && closureMarks(lit) {
							for fld := range e.markRelied {
								st.Set("ev:c16marked:"+fld.Name(), flow.True)
							}
						}
					}
				}
			}
		}})
	if res == nil {
		return
	}
	var bad *flow.State
	n := 0
	for _, s := range stores {
		for _, st := range res.At[s] {
			n++
			if absentIn(st) {
				continue
			}
			for fld := range e.markRelied {
				if !st.Is("ev:c16marked:"+fld.Name(), flow.True) && bad == nil {
					bad = st
				}
			}
		}
	}
	c.Check(bad == nil && n > 0, "R-C16-3", cons, pos(c, stores[0]), sprintf("%d states reach the store into Broker.clients; every one that may replace a registered connection has set the supersession mark on it", n),
		"handleConn can replace the connection registered under a client id without setting the supersession mark the teardown relies on: the replaced connection's late teardown (after its successor has gone and nothing is registered any more) then still removes what is keyed by the id - the successor's stored session", witness(bad)...)
}

func c16IsFunc(o types.Object) bool {
	_, ok := o.(*types.Func)
	return ok
}
