package rules

// R-C04-7 (third follow-up): the pool keeps following service discovery.
//
// "the tagged instances last reported by service discovery" requires that a pool created in
// discovery mode (a) always ends watchServers with a goroutine receiving from the service
// watcher — an error of the initial listing must not end the watch — and (b) that goroutine
// applies every report it receives (useService with the received event) in an endless loop that
// is left only when the pool is closed.
//
// Mutants (compile, package tests pass): round-3 seeded b (`return` at the end of the error
// branch of the first listing); goroutine started only `if err == nil`; `return` after the first
// applied report; report applied only `if len(event.Instances) > 0`; useService(instances) (the
// stale first listing) instead of the received event. Behaviour-preserving: error branch
// restructured as if/else around useService; the goroutine body moved the done case last and
// binds `ev := <-watcher.Watch()` / `ch := watcher.Watch()` hoisted before the loop.

import (
	"go/ast"
	"go/token"
	"go/types"

	"golang.org/x/tools/go/cfg"

	"verif/internal/core"
	"verif/internal/flow"
)

const c04sr = "pkg/object/serviceregistry"

func c04Watch(c *core.Ctx, info *c04Info) {
	if info.roles.watch == nil {
		c.Errorf("R-C04-7: anchor: no (or more than one) ServerPool method talks to the service registry (watchServers)")
		return
	}
	f := info.roles.watch.f
	c.Count("functions_analysed", 1)
	cons := info.roles.watch.cons()
	if info.roles.apply == nil {
		return // reported by c04Discovery
	}
	applyObj := info.roles.apply.obj

	// channels obtained from ServiceWatcher.Watch(): the call itself or a local assigned from it
	watchChans := map[types.Object]bool{}
	isWatchCall := func(e ast.Expr) bool {
		call, ok := ast.Unparen(e).(*ast.CallExpr)
		return ok && ifaceMethodCall(f, call, c04sr, "ServiceWatcher", "Watch")
	}
	ast.Inspect(f.Body, func(n ast.Node) bool {
		if as, ok := n.(*ast.AssignStmt); ok && len(as.Lhs) == len(as.Rhs) {
			for i, r := range as.Rhs {
				if id, isID := as.Lhs[i].(*ast.Ident); isID && isWatchCall(r) {
					watchChans[c04ObjOf(f.Info, id)] = true
				}
			}
		}
		return true
	})
	isWatchRecv := func(e ast.Expr) bool {
		u, ok := ast.Unparen(e).(*ast.UnaryExpr)
		if !ok || u.Op != token.ARROW {
			return false
		}
		if isWatchCall(u.X) {
			return true
		}
		id, ok := ast.Unparen(u.X).(*ast.Ident)
		return ok && watchChans[c04ObjOf(f.Info, id)]
	}
	// the comm clause receiving a report, inside the goroutine's body: a function literal or a
	// same-package function/method started with `go` (searched in the watch function and the
	// same-package functions it calls)
	type watch struct {
		gs     *ast.GoStmt
		body   *ast.BlockStmt
		lf     *flow.Func
		clause *ast.CommClause
		ev     types.Object // variable bound to the received event (nil if discarded)
	}
	var ws []watch
	for _, g := range reach(f, 3) {
		// channels obtained from Watch() held in locals of g or of the goroutine body
		ast.Inspect(g.Body, func(n ast.Node) bool {
			gs, ok := n.(*ast.GoStmt)
			if !ok {
				return true
			}
			var body *ast.BlockStmt
			var lf *flow.Func
			if lit, ok := ast.Unparen(gs.Call.Fun).(*ast.FuncLit); ok {
				body, lf = lit.Body, g.Lit(lit)
			} else if fo, _ := g.Callee(gs.Call).(*types.Func); fo != nil && fo.Pkg() == g.Pkg.Types {
				if gd := declOf(g.Pkg, fo); gd != nil {
					lf = funcOf(g.Pkg, gd)
					body = gd.Body
				}
			}
			if body == nil {
				return true
			}
			ast.Inspect(body, func(m ast.Node) bool {
				if as, ok := m.(*ast.AssignStmt); ok && len(as.Lhs) == len(as.Rhs) {
					for i, r := range as.Rhs {
						if id, isID := as.Lhs[i].(*ast.Ident); isID && isWatchCall(r) {
							watchChans[c04ObjOf(f.Info, id)] = true
						}
					}
				}
				return true
			})
			ast.Inspect(body, func(m ast.Node) bool {
				cc, ok := m.(*ast.CommClause)
				if !ok || cc.Comm == nil {
					return true
				}
				switch s := cc.Comm.(type) {
				case *ast.AssignStmt:
					if len(s.Rhs) == 1 && isWatchRecv(s.Rhs[0]) {
						w := watch{gs: gs, body: body, lf: lf, clause: cc}
						if id, ok := s.Lhs[0].(*ast.Ident); ok && id.Name != "_" {
							w.ev = c04ObjOf(f.Info, id)
						}
						ws = append(ws, w)
					}
				case *ast.ExprStmt:
					if isWatchRecv(s.X) {
						ws = append(ws, watch{gs: gs, body: body, lf: lf, clause: cc})
					}
				}
				return true
			})
			return false
		})
	}
	consA := cons + "|every return has started the watch goroutine"
	if len(ws) == 0 {
		c.Violate("R-C04-7", consA, pos(c, f.Body), "watchServers starts no goroutine that receives from the service watcher: after creation the pool never follows the instances service discovery reports")
		return
	}
	if len(ws) > 1 {
		c.Undecide("R-C04-7", consA, pos(c, f.Body), sprintf("%d goroutines receive from the service watcher; expected one", len(ws)))
		return
	}
	w := ws[0]
	res := analyze(c, f, flow.Config{
		// only helpers on the way to the go statement are interpreted in place
		Inline: inlineIf(f, func(callee *types.Func, g *flow.Func) bool {
			return reachContains(g, 3, func(h *flow.Func, n ast.Node) bool { return n == ast.Node(w.gs) })
		}),
		OnNode: func(st *flow.State, n ast.Node) {
			if n == ast.Node(w.gs) {
				st.Set("ev:watching", flow.True)
			}
		},
	})
	if res == nil {
		return
	}
	var bad *flow.Exit
	rets := 0
	for _, ex := range res.Exits {
		if ex.Kind != flow.ExitReturn {
			continue
		}
		rets++
		if !ex.State.Is("ev:watching", flow.True) && bad == nil {
			bad = ex
		}
	}
	if bad != nil {
		c.Violate("R-C04-7", consA, pos(c, bad.At), "watchServers can return without having started the goroutine that receives from the service watcher (e.g. after a failed first listing while the registry is not ready yet): the pool stays on the list it has now and never follows the instances discovery reports later", witness(bad.State)...)
	} else {
		c.Discharge("R-C04-7", consA, pos(c, w.gs), sprintf("%d return exits, all after the go statement of the watch loop", rets))
	}

	// the loop
	consB := cons + "|watch loop applies every report until the pool is closed"
	lf := w.lf
	loops := enclosingLoops(w.body, w.clause)
	var loop *ast.ForStmt
	if len(loops) > 0 {
		loop, _ = loops[0].(*ast.ForStmt)
	}
	if loop == nil || loop.Cond != nil {
		c.Violate("R-C04-7", consB, pos(c, w.clause), "the receive from the service watcher is not inside an unconditional for loop: only a bounded number of reports is followed")
		return
	}
	// exits of the loop only in a clause receiving from a channel field of the pool (done)
	pm := parentMap(w.body)
	poolChanRecv := func(cc *ast.CommClause) bool {
		var x ast.Expr
		switch s := cc.Comm.(type) {
		case *ast.ExprStmt:
			x = s.X
		case *ast.AssignStmt:
			if len(s.Rhs) == 1 {
				x = s.Rhs[0]
			}
		}
		u, ok := ast.Unparen(x).(*ast.UnaryExpr)
		if !ok || u.Op != token.ARROW {
			return false
		}
		fld, _ := c04SelObj(f.Info, u.X).(*types.Var)
		if fld == nil {
			return false
		}
		_, isChan := fld.Type().Underlying().(*types.Chan)
		return isChan && info.poolField(fld)
	}
	for _, x := range breaksOut(lf, loop, labelOf(w.body, loop)) {
		inDone := false
		for p := pm[x]; p != nil; p = pm[p] {
			if cc, ok := p.(*ast.CommClause); ok {
				inDone = cc != w.clause && cc.Comm != nil && poolChanRecv(cc)
				break
			}
		}
		if !inDone {
			c.Violate("R-C04-7", consB, pos(c, x), "the watch loop can end for a reason other than the pool's done channel: reports that arrive afterwards are ignored and the pool keeps an outdated list")
			return
		}
	}
	// every received report is applied with the received event
	var applies []*ast.CallExpr
	for _, call := range calls(w.clause, false) {
		if lf.Callee(call) == types.Object(applyObj) {
			applies = append(applies, call)
		}
	}
	isApply := map[*ast.CallExpr]bool{}
	for _, a := range applies {
		usesEvent := false
		if w.ev != nil && len(a.Args) == 1 {
			ast.Inspect(a.Args[0], func(n ast.Node) bool {
				if id, ok := n.(*ast.Ident); ok && c04ObjOf(f.Info, id) == w.ev {
					usesEvent = true
				}
				return true
			})
		}
		if !usesEvent {
			c.Violate("R-C04-7", consB, pos(c, a), "useService is not given the instances of the event just received from the watcher: the pool installs a stale list instead of the last report")
			return
		}
		isApply[a] = true
	}
	var badSt *flow.State
	var badAt ast.Node
	iterations := 0
	lres := analyze(c, lf, flow.Config{
		OnBlock: func(st *flow.State, b *cfg.Block) {
			switch {
			case b.Kind == cfg.KindSelectCaseBody && b.Stmt == ast.Node(w.clause):
				st.Set("ev:got", flow.True)
				st.Set("ev:applied", flow.False)
			case b.Kind == cfg.KindForBody && b.Stmt == ast.Node(loop):
				if st.Is("ev:got", flow.True) {
					iterations++
					if !st.Is("ev:applied", flow.True) && badSt == nil {
						badSt, badAt = st, w.clause
					}
				}
				st.Set("ev:got", flow.Unknown)
				st.Set("ev:applied", flow.Unknown)
			}
		},
		OnCall: func(st *flow.State, call *ast.CallExpr, callee types.Object, deferred bool) {
			if isApply[call] {
				st.Set("ev:applied", flow.True)
			}
		},
	})
	if lres == nil {
		return
	}
	for _, ex := range lres.Exits {
		if ex.State.Is("ev:got", flow.True) && !ex.State.Is("ev:applied", flow.True) && badSt == nil {
			badSt, badAt = ex.State, ex.At
		}
	}
	switch {
	case badSt != nil:
		c.Violate("R-C04-7", consB, pos(c, badAt), "a report received from the service watcher can be dropped without useService being called (e.g. empty reports skipped): the pool keeps the servers of an earlier report although discovery reported a different set last", witness(badSt)...)
	case !c.RequireCount("R-C04-7", "abstract iterations of the watch loop after a report", iterations, 1):
	default:
		c.Discharge("R-C04-7", consB, pos(c, loop), sprintf("for { select }: %d abstract iterations after a report all called useService(received event); the loop is left only in the pool's done case", iterations))
	}
}

// poolField reports whether fld is a field of ServerPool.
func (info *c04Info) poolField(fld *types.Var) bool {
	if info.pool == nil {
		return false
	}
	for i := 0; i < info.pool.NumFields(); i++ {
		if info.pool.Field(i) == fld {
			return true
		}
	}
	return false
}
