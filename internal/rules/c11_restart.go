package rules

import (
	"go/ast"
	"go/token"
	"go/types"
	"sort"
	"strings"

	"verif/internal/core"
	"verif/internal/flow"
)

// R-C11-10: a hot-reloadable option never forces a restart of the listener.
//
// runtime.reload restarts the HTTP server (Shutdown closes the listener: new connections
// are refused while old-generation requests are in flight) iff the restart decision
// (needRestartServer today; resolved by role) says so. It decides by comparing a private
// copy of the running Spec with a private copy of the next Spec after blanking the
// hot-reloadable fields. Necessary conditions decided here:
//   - the two operands of the comparison are two distinct private copies (struct values, so
//     blanking cannot touch the live specs), one taken from the running spec, the other
//     from the next spec;
//   - sibling symmetry: the set of fields blanked (assigned a constant / nil before the
//     comparison — at the top level of the deciding function and/or inside a same-package
//     normaliser function applied to the copy) is the same on both copies, with the same
//     neutral value — a field blanked on one side only makes the copies differ for every
//     update of a server that sets the field, i.e. every rule update restarts;
//   - Rules is among the blanked fields (the property's "updating the rules").
//
// Shapes seen through: the comparison in a same-package predicate (`sameSpec(x, y)`), the
// blanking in a same-package normaliser (`x := withoutHotFields(*r.spec)`, also directly as
// operand), split / tuple / reordered assignments. A shape that cannot be followed is
// undecided, never a violation.

type c11SpecCmp struct {
	at   ast.Node
	a, b ast.Expr
}

// c11SpecComparisons lists the comparisons of two Spec values in fd: reflect.DeepEqual,
// == / !=, or a call of a same-package predicate over two Spec parameters that compares them.
func c11SpecComparisons(f *flow.Func, fd *ast.FuncDecl, specT *types.Named, depth int) []c11SpecCmp {
	isSpec := func(e ast.Expr) bool {
		tv, ok := f.Info.Types[e]
		return ok && tv.Type != nil && (types.Identical(tv.Type, specT) || types.Identical(tv.Type, types.NewPointer(specT)))
	}
	var out []c11SpecCmp
	ast.Inspect(fd.Body, func(n ast.Node) bool {
		switch x := n.(type) {
		case *ast.FuncLit:
			return false
		case *ast.CallExpr:
			if calleeFull(f, x) == "reflect.DeepEqual" && len(x.Args) == 2 && isSpec(x.Args[0]) && isSpec(x.Args[1]) {
				out = append(out, c11SpecCmp{x, x.Args[0], x.Args[1]})
				return true
			}
			if depth < 2 && len(x.Args) == 2 && isSpec(x.Args[0]) && isSpec(x.Args[1]) {
				if callee, ok := f.Callee(x).(*types.Func); ok && callee.Pkg() == f.Pkg.Types {
					if gd := declOf(f.Pkg, callee); gd != nil && gd.Recv == nil {
						g := flow.NewFunc(f.Pkg, gd)
						inner := c11SpecComparisons(g, gd, specT, depth+1)
						if len(inner) == 1 && c11ComparesParams(g, gd, inner[0]) {
							out = append(out, c11SpecCmp{x, x.Args[0], x.Args[1]})
						}
					}
				}
			}
		case *ast.BinaryExpr:
			if (x.Op == token.EQL || x.Op == token.NEQ) && isSpec(x.X) && isSpec(x.Y) {
				if tv := f.Info.Types[x.X]; types.Identical(tv.Type, specT) {
					out = append(out, c11SpecCmp{x, x.X, x.Y})
				}
			}
		}
		return true
	})
	return out
}

// c11ComparesParams: the comparison's operands are the function's two (distinct) parameters.
func c11ComparesParams(g *flow.Func, gd *ast.FuncDecl, cm c11SpecCmp) bool {
	a, ok1 := ast.Unparen(cm.a).(*ast.Ident)
	b, ok2 := ast.Unparen(cm.b).(*ast.Ident)
	if !ok1 || !ok2 {
		return false
	}
	ia, okA := c11ParamIndex(g.Info, gd, g.Info.Uses[a])
	ib, okB := c11ParamIndex(g.Info, gd, g.Info.Uses[b])
	return okA && okB && ia != ib && ia >= 0 && ib >= 0
}

// c11BlankedIn collects `v.F = const|nil` assignments among the top-level statements of body
// that precede `before` (nil = all): field -> rendered neutral value. dup names a target
// assigned twice in one tuple assignment.
func c11BlankedIn(f *flow.Func, body *ast.BlockStmt, v *types.Var, before ast.Node) (map[*types.Var]string, string) {
	out := map[*types.Var]string{}
	dup := ""
	for _, st := range body.List {
		if before != nil && (st.Pos() >= before.Pos() || contains(st, before)) {
			break
		}
		as, ok := st.(*ast.AssignStmt)
		if !ok || as.Tok != token.ASSIGN {
			continue
		}
		seen := map[*types.Var]bool{}
		for i, l := range as.Lhs {
			sel, ok := ast.Unparen(l).(*ast.SelectorExpr)
			if !ok {
				continue
			}
			id, ok := ast.Unparen(sel.X).(*ast.Ident)
			if !ok || f.Info.Uses[id] != v {
				continue
			}
			sl := f.Info.Selections[sel]
			if sl == nil || sl.Kind() != types.FieldVal {
				continue
			}
			fv := sl.Obj().(*types.Var)
			val := "?"
			if len(as.Rhs) == len(as.Lhs) {
				if tv, ok := f.Info.Types[as.Rhs[i]]; ok {
					switch {
					case tv.IsNil():
						val = "nil"
					case tv.Value != nil:
						val = tv.Value.ExactString()
					default:
						val = "?" + f.Render(as.Rhs[i])
					}
				}
			}
			if seen[fv] {
				dup = v.Name() + "." + fv.Name()
			}
			seen[fv] = true
			out[fv] = val
		}
	}
	return out, dup
}

// c11Operand is one side of the restart comparison, resolved to the spec it is a copy of.
type c11Operand struct {
	label     string                // how the operand is named in messages
	v         *types.Var            // the local holding the copy (nil: the operand is an expression)
	copyOf    ast.Expr              // the *Spec expression the copy is taken from
	fromParam bool                  // copyOf mentions a parameter of the deciding function (the next spec)
	blank     map[*types.Var]string // fields blanked before the comparison
	dup       string
	violation string // a definite defect of this operand
	undecided string // a shape that cannot be followed
}

func c11Restart(c *core.Ctx) {
	specT := namedType(c, hs, "Spec")
	rulesF := structField(c, hs, "Spec", "Rules")
	if specT == nil || rulesF == nil {
		return
	}
	// role: the bool function of the package that takes a *Spec and compares two Spec values
	// (the unexported name needRestartServer is only a tie-breaker)
	cands := funcsByRole(c, hs, func(g *flow.Func, fd *ast.FuncDecl) bool {
		if fd.Type.Results == nil || len(fd.Type.Results.List) != 1 {
			return false
		}
		if tv, ok := g.Info.Types[fd.Type.Results.List[0].Type]; !ok || !types.Identical(tv.Type, types.Typ[types.Bool]) {
			return false
		}
		hasSpec := false
		for _, fl := range fd.Type.Params.List {
			if tv, ok := g.Info.Types[fl.Type]; ok && types.Identical(tv.Type, types.NewPointer(specT)) {
				hasSpec = true
			}
		}
		return hasSpec && len(c11SpecComparisons(g, fd, specT, 0)) > 0
	})
	if len(cands) > 1 {
		for _, g := range cands {
			if g.Node.(*ast.FuncDecl).Name.Name == "needRestartServer" {
				cands = []*flow.Func{g}
			}
		}
	}
	if len(cands) != 1 {
		c.Undecide("R-C11-10", hs+"|restart decision", c.Prog.Rel(specT.Obj().Pos()),
			sprintf("expected one bool function taking a *Spec that compares two Spec values (the restart decision), found %d", len(cands)))
		return
	}
	f := cands[0]
	c.Count("functions_analysed", 1)
	fd := f.Node.(*ast.FuncDecl)
	name := declName(f.Pkg, fd)
	info := f.Info

	cmps := c11SpecComparisons(f, fd, specT, 0)
	if len(cmps) != 1 {
		c.Undecide("R-C11-10", name+"|comparison of the two spec copies", pos(c, fd.Name),
			sprintf("expected exactly one comparison (reflect.DeepEqual, == or a same-package predicate) of two Spec values, found %d: the restart decision has a shape this rule cannot judge", len(cmps)))
		return
	}
	cm := cmps[0]

	localVar := func(e ast.Expr) *types.Var {
		id, ok := ast.Unparen(e).(*ast.Ident)
		if !ok {
			return nil
		}
		v, ok := info.Uses[id].(*types.Var)
		if !ok || v.IsField() || !(fd.Body.Pos() <= v.Pos() && v.Pos() < fd.Body.End()) {
			return nil
		}
		return v
	}
	usesParam := func(e ast.Expr) bool {
		hit := false
		if e == nil {
			return false
		}
		ast.Inspect(e, func(x ast.Node) bool {
			if id, ok := x.(*ast.Ident); ok {
				if v, ok := info.Uses[id].(*types.Var); ok && !v.IsField() && fd.Type.Params != nil &&
					fd.Type.Params.Pos() <= v.Pos() && v.Pos() < fd.Type.Params.End() {
					hit = true
				}
			}
			return true
		})
		return hit
	}
	sourceOf := func(v *types.Var) (ast.Expr, int) {
		var src ast.Expr
		n := 0
		ast.Inspect(fd.Body, func(x ast.Node) bool {
			switch s := x.(type) {
			case *ast.AssignStmt:
				for i, l := range s.Lhs {
					if id, ok := l.(*ast.Ident); ok && (info.Defs[id] == v || info.Uses[id] == v) {
						n++
						if len(s.Rhs) == len(s.Lhs) {
							src = s.Rhs[i]
						}
					}
				}
			case *ast.ValueSpec:
				for i, id := range s.Names {
					if info.Defs[id] == v {
						n++
						if i < len(s.Values) {
							src = s.Values[i]
						}
					}
				}
			}
			return true
		})
		return src, n
	}
	// resolve one operand
	resolve := func(e ast.Expr) *c11Operand {
		op := &c11Operand{label: types.ExprString(e), blank: map[*types.Var]string{}}
		src := ast.Unparen(e)
		if v := localVar(e); v != nil {
			op.v, op.label = v, v.Name()
			if _, isStruct := v.Type().Underlying().(*types.Struct); !isStruct || !types.Identical(v.Type(), specT) {
				op.violation = sprintf("%s is not a Spec value but %s: blanking its fields writes into the live spec that the running router generation reads", v.Name(), v.Type())
				return op
			}
			s, n := sourceOf(v)
			if n != 1 || s == nil {
				op.undecided = sprintf("%s is assigned %d times: cannot tell which spec it is a copy of", v.Name(), n)
				return op
			}
			src = ast.Unparen(s)
			op.blank, op.dup = c11BlankedIn(f, fd.Body, v, cm.at)
		} else if _, isIdent := src.(*ast.Ident); isIdent {
			op.violation = "an operand of the comparison is not a private copy made in this function (a parameter, field or package variable): the hot-reloadable fields cannot have been blanked on it without touching a live spec"
			return op
		}
		// src: *E  |  g(*E) / g(E) with a same-package normaliser g taking the Spec by value
		switch x := src.(type) {
		case *ast.StarExpr:
			op.copyOf = x.X
		case *ast.CallExpr:
			callee, _ := f.Callee(x).(*types.Func)
			var gd *ast.FuncDecl
			if callee != nil && callee.Pkg() == f.Pkg.Types {
				gd = declOf(f.Pkg, callee)
			}
			if gd == nil || len(x.Args) != 1 {
				op.undecided = "the copy is produced by " + types.ExprString(x.Fun) + ", which this rule cannot follow"
				return op
			}
			g := flow.NewFunc(f.Pkg, gd)
			var pv *types.Var
			if gd.Type.Params != nil && len(gd.Type.Params.List) == 1 && len(gd.Type.Params.List[0].Names) == 1 {
				pv, _ = g.Info.Defs[gd.Type.Params.List[0].Names[0]].(*types.Var)
			}
			byValue := pv != nil && types.Identical(pv.Type(), specT)
			byPointer := pv != nil && types.Identical(pv.Type(), types.NewPointer(specT))
			if !byValue && !byPointer {
				op.undecided = "the normaliser " + gd.Name.Name + " does not take one Spec (by value or by pointer): cannot tell whether it works on a private copy"
				return op
			}
			// the variable holding the copy inside the normaliser: the by-value parameter itself, or
			// a local assigned once from the dereferenced pointer parameter (`x := *spec`)
			cv := pv
			if byPointer {
				cv = nil
				n := 0
				ast.Inspect(gd.Body, func(nd ast.Node) bool {
					as, ok := nd.(*ast.AssignStmt)
					if !ok || len(as.Lhs) != len(as.Rhs) {
						return true
					}
					for i, l := range as.Lhs {
						st, ok := ast.Unparen(as.Rhs[i]).(*ast.StarExpr)
						if !ok {
							continue
						}
						if id, ok := ast.Unparen(st.X).(*ast.Ident); ok && g.Info.Uses[id] == pv {
							if lid, ok := l.(*ast.Ident); ok {
								if v, ok := g.Info.Defs[lid].(*types.Var); ok {
									cv = v
									n++
								}
							}
						}
					}
					return true
				})
				if n != 1 || cv == nil {
					op.undecided = "the normaliser " + gd.Name.Name + " takes a *Spec but does not make exactly one private copy of it (x := *spec)"
					return op
				}
				// nothing may be written through the pointer itself: that is the live spec
				if live, _ := c11BlankedIn(g, gd.Body, pv, nil); len(live) > 0 {
					op.violation = "the normaliser " + gd.Name.Name + " assigns fields through its *Spec parameter: it blanks the live spec that the running router generation reads, not a copy"
					return op
				}
			}
			// every return yields the copy
			okRet := true
			ast.Inspect(gd.Body, func(n ast.Node) bool {
				if r, ok := n.(*ast.ReturnStmt); ok {
					if len(r.Results) != 1 {
						okRet = false
					} else if id, ok := ast.Unparen(r.Results[0]).(*ast.Ident); !ok || g.Info.Uses[id] != cv {
						okRet = false
					}
				}
				return true
			})
			if !okRet {
				op.undecided = "the normaliser " + gd.Name.Name + " does not simply return its (blanked) copy"
				return op
			}
			nb, dup := c11BlankedIn(g, gd.Body, cv, nil)
			for k, v := range nb {
				if _, has := op.blank[k]; !has {
					op.blank[k] = v
				}
			}
			if dup != "" {
				op.dup = dup
			}
			arg := ast.Unparen(x.Args[0])
			if st, ok := arg.(*ast.StarExpr); ok {
				op.copyOf = st.X
			} else {
				op.copyOf = arg // a Spec value expression: passing it by value copies it
			}
		default:
			op.undecided = "the operand " + op.label + " is neither a dereferenced *Spec nor the result of a same-package normaliser"
			return op
		}
		op.fromParam = usesParam(op.copyOf)
		return op
	}
	oa, ob := resolve(cm.a), resolve(cm.b)

	// (1) two distinct private copies from different specs
	cons1 := name + "|comparison of two private copies"
	why1, und1 := "", ""
	switch {
	case oa.v != nil && oa.v == ob.v:
		why1 = "the comparison compares a copy with itself: the decision no longer depends on the next spec"
	case oa.violation != "":
		why1 = oa.violation
	case ob.violation != "":
		why1 = ob.violation
	case oa.undecided != "":
		und1 = oa.undecided
	case ob.undecided != "":
		und1 = ob.undecided
	case oa.fromParam == ob.fromParam:
		why1 = "both copies are taken from the same spec (running or next): the comparison cannot see what the update changes"
	}
	switch {
	case why1 != "":
		c.Violate("R-C11-10", cons1, pos(c, cm.at), why1)
	case und1 != "":
		c.Undecide("R-C11-10", cons1, pos(c, cm.at), und1)
	default:
		c.Discharge("R-C11-10", cons1, pos(c, cm.at), "the restart decision compares a copy of the running spec with a copy of the next spec")
	}
	if why1 != "" || und1 != "" {
		return
	}

	// (2) symmetric blanking before the comparison
	var diffs []string
	fieldsOf := func(m map[*types.Var]string) []string {
		var out []string
		for fv := range m {
			out = append(out, fv.Name())
		}
		sort.Strings(out)
		return out
	}
	for fv, val := range oa.blank {
		if w, ok := ob.blank[fv]; !ok {
			diffs = append(diffs, sprintf("%s is blanked on %s but not on %s", fv.Name(), oa.label, ob.label))
		} else if w != val || strings.HasPrefix(val, "?") {
			diffs = append(diffs, sprintf("%s is set to %s on %s but to %s on %s", fv.Name(), val, oa.label, w, ob.label))
		}
	}
	for fv := range ob.blank {
		if _, ok := oa.blank[fv]; !ok {
			diffs = append(diffs, sprintf("%s is blanked on %s but not on %s", fv.Name(), ob.label, oa.label))
		}
	}
	sort.Strings(diffs)
	why := ""
	if len(diffs) > 0 {
		why = strings.Join(diffs, "; ")
		for _, d := range []string{oa.dup, ob.dup} {
			if d != "" {
				why += " (" + d + " is assigned twice in one tuple assignment)"
			}
		}
		why += ": for every server that sets this field the two copies differ whatever the update changes, so a pure rule/option update takes the restart path — Shutdown closes the listener and new connections are refused while requests of the old generation are in flight"
	}
	c.Check(len(diffs) == 0, "R-C11-10", name+"|hot-reloadable fields blanked on both copies", pos(c, cm.at),
		sprintf("blanked symmetrically with equal constants: %v", fieldsOf(oa.blank)), why)
	c.RequireCount("R-C11-10", "fields blanked before the restart comparison", len(oa.blank)+len(ob.blank), 2)

	// (3) rules are hot-reloadable
	_, ra := oa.blank[rulesF]
	_, rb := ob.blank[rulesF]
	c.Check(ra && rb, "R-C11-10", name+"|a change of the rules does not restart the server", pos(c, cm.at),
		"Spec.Rules is blanked on both copies before the comparison",
		"Spec.Rules is not blanked on both copies before the comparison: every update of the routing rules shuts the listener down instead of swapping the router generation")
}
