package rules

import (
	"go/ast"
	"go/token"
	"go/types"
	"sort"
	"strings"

	"verif/internal/core"
	"verif/internal/flow"
)

// R-C11-10: a hot-reloadable option never forces a restart of the listener.
//
// runtime.reload restarts the HTTP server (Shutdown closes the listener: new connections
// are refused while old-generation requests are in flight) iff needRestartServer says so.
// needRestartServer decides by comparing two private copies of the running and the next
// Spec after blanking the hot-reloadable fields. Necessary conditions decided here:
//   - the two operands of the comparison are two distinct struct-valued locals (private
//     copies, so blanking cannot touch the live specs), one copied from the running spec,
//     the other from the next spec;
//   - sibling symmetry: the set of fields blanked (assigned a constant / nil at the top
//     level of the function, before the comparison) is the same on both copies, with the
//     same neutral value — a field blanked on one side only makes the copies differ for
//     every update of a server that sets the field, i.e. every rule update restarts;
//   - Rules is among the blanked fields (the property's "updating the rules").
func c11Restart(c *core.Ctx) {
	specT := namedType(c, hs, "Spec")
	rulesF := structField(c, hs, "Spec", "Rules")
	if specT == nil || rulesF == nil {
		return
	}
	// role: the bool function of the package that takes a *Spec and compares two Spec values
	// (the unexported name needRestartServer is only a tie-breaker)
	cands := funcsByRole(c, hs, func(g *flow.Func, fd *ast.FuncDecl) bool {
		if fd.Type.Results == nil || len(fd.Type.Results.List) != 1 {
			return false
		}
		if tv, ok := g.Info.Types[fd.Type.Results.List[0].Type]; !ok || !types.Identical(tv.Type, types.Typ[types.Bool]) {
			return false
		}
		hasSpec := false
		for _, fl := range fd.Type.Params.List {
			if tv, ok := g.Info.Types[fl.Type]; ok && types.Identical(tv.Type, types.NewPointer(specT)) {
				hasSpec = true
			}
		}
		if !hasSpec {
			return false
		}
		found := false
		ast.Inspect(fd.Body, func(n ast.Node) bool {
			switch x := n.(type) {
			case *ast.CallExpr:
				if calleeFull(g, x) == "reflect.DeepEqual" && len(x.Args) == 2 {
					if tv, ok := g.Info.Types[x.Args[0]]; ok && tv.Type != nil && (types.Identical(tv.Type, specT) || types.Identical(tv.Type, types.NewPointer(specT))) {
						found = true
					}
				}
			case *ast.BinaryExpr:
				if x.Op == token.EQL || x.Op == token.NEQ {
					if tv, ok := g.Info.Types[x.X]; ok && tv.Type != nil && types.Identical(tv.Type, specT) {
						found = true
					}
				}
			}
			return true
		})
		return found
	})
	if len(cands) > 1 {
		for _, g := range cands {
			if g.Node.(*ast.FuncDecl).Name.Name == "needRestartServer" {
				cands = []*flow.Func{g}
			}
		}
	}
	if len(cands) != 1 {
		c.Undecide("R-C11-10", hs+"|restart decision", c.Prog.Rel(specT.Obj().Pos()),
			sprintf("expected one bool function taking a *Spec that compares two Spec values (the restart decision), found %d", len(cands)))
		return
	}
	f := cands[0]
	c.Count("functions_analysed", 1)
	fd := f.Node.(*ast.FuncDecl)
	name := declName(f.Pkg, fd)
	info := f.Info

	// the comparison: reflect.DeepEqual(a, b) or a == b / a != b on two Spec values
	isSpecVal := func(e ast.Expr) *types.Var {
		id, ok := ast.Unparen(e).(*ast.Ident)
		if !ok {
			return nil
		}
		v, ok := info.Uses[id].(*types.Var)
		if !ok || v.IsField() || !(fd.Body.Pos() <= v.Pos() && v.Pos() < fd.Body.End()) {
			return nil
		}
		return v
	}
	type cmp struct {
		at   ast.Node
		a, b ast.Expr
	}
	var cmps []cmp
	ast.Inspect(fd.Body, func(n ast.Node) bool {
		switch x := n.(type) {
		case *ast.CallExpr:
			if calleeFull(f, x) == "reflect.DeepEqual" && len(x.Args) == 2 {
				cmps = append(cmps, cmp{x, x.Args[0], x.Args[1]})
			}
		case *ast.BinaryExpr:
			if x.Op == token.EQL || x.Op == token.NEQ {
				if tv, ok := info.Types[x.X]; ok && tv.Type != nil && types.Identical(tv.Type, specT) {
					cmps = append(cmps, cmp{x, x.X, x.Y})
				}
			}
		}
		return true
	})
	if len(cmps) != 1 {
		c.Undecide("R-C11-10", name+"|comparison of the two spec copies", pos(c, fd.Name),
			sprintf("expected exactly one comparison (reflect.DeepEqual or ==) of two Spec values, found %d: the restart decision has a shape this rule cannot judge", len(cmps)))
		return
	}
	cm := cmps[0]
	va, vb := isSpecVal(cm.a), isSpecVal(cm.b)

	// (1) two distinct private copies from different specs
	ok1, why1 := true, ""
	source := func(v *types.Var) (ast.Expr, int) {
		var src ast.Expr
		n := 0
		ast.Inspect(fd.Body, func(x ast.Node) bool {
			switch s := x.(type) {
			case *ast.AssignStmt:
				for i, l := range s.Lhs {
					if id, ok := l.(*ast.Ident); ok && (info.Defs[id] == v || info.Uses[id] == v) {
						n++
						if len(s.Rhs) == len(s.Lhs) {
							src = s.Rhs[i]
						}
					}
				}
			case *ast.ValueSpec:
				for i, id := range s.Names {
					if info.Defs[id] == v {
						n++
						if i < len(s.Values) {
							src = s.Values[i]
						}
					}
				}
			}
			return true
		})
		return src, n
	}
	usesParam := func(e ast.Expr) bool {
		hit := false
		if e == nil {
			return false
		}
		ast.Inspect(e, func(x ast.Node) bool {
			if id, ok := x.(*ast.Ident); ok {
				if v, ok := info.Uses[id].(*types.Var); ok && !v.IsField() && fd.Type.Params != nil &&
					fd.Type.Params.Pos() <= v.Pos() && v.Pos() < fd.Type.Params.End() {
					hit = true
				}
			}
			return true
		})
		return hit
	}
	switch {
	case va == nil || vb == nil:
		ok1, why1 = false, "an operand of the comparison is not a local variable: the hot-reloadable fields cannot have been blanked on a private copy"
	case va == vb:
		ok1, why1 = false, "the comparison compares a copy with itself: the decision no longer depends on the next spec"
	default:
		for _, v := range []*types.Var{va, vb} {
			if _, isStruct := v.Type().Underlying().(*types.Struct); !isStruct || !types.Identical(v.Type(), specT) {
				ok1, why1 = false, sprintf("%s is not a Spec value but %s: blanking its fields writes into the live spec that the running router generation (muxInstance.spec) reads", v.Name(), v.Type())
			}
		}
		if ok1 {
			sa, na := source(va)
			sb, nb := source(vb)
			_, derefA := ast.Unparen(sa).(*ast.StarExpr)
			_, derefB := ast.Unparen(sb).(*ast.StarExpr)
			switch {
			case na != 1 || nb != 1 || sa == nil || sb == nil || !derefA || !derefB:
				ok1, why1 = false, "each operand must be a local assigned exactly once from a dereferenced *Spec (a private copy)"
			case usesParam(sa) == usesParam(sb):
				ok1, why1 = false, "both copies are taken from the same spec (running or next): the comparison cannot see what the update changes"
			}
		}
	}
	c.Check(ok1, "R-C11-10", name+"|comparison of two private copies", pos(c, cm.at),
		"the restart decision compares a copy of the running spec with a copy of the next spec", why1)
	if va == nil || vb == nil || va == vb {
		return
	}

	// (2) symmetric blanking, at the top level and before the comparison
	blank := map[*types.Var]map[*types.Var]string{va: {}, vb: {}}
	dup := ""
	for _, st := range fd.Body.List {
		if st.Pos() >= cm.at.Pos() || contains(st, cm.at) {
			break
		}
		as, ok := st.(*ast.AssignStmt)
		if !ok || as.Tok != token.ASSIGN {
			continue
		}
		seen := map[string]bool{}
		for i, l := range as.Lhs {
			sel, ok := ast.Unparen(l).(*ast.SelectorExpr)
			if !ok {
				continue
			}
			v := isSpecVal(sel.X)
			if v != va && v != vb {
				continue
			}
			sl := info.Selections[sel]
			if sl == nil || sl.Kind() != types.FieldVal {
				continue
			}
			fv := sl.Obj().(*types.Var)
			val := "?"
			if len(as.Rhs) == len(as.Lhs) {
				if tv, ok := info.Types[as.Rhs[i]]; ok {
					switch {
					case tv.IsNil():
						val = "nil"
					case tv.Value != nil:
						val = tv.Value.ExactString()
					default:
						val = "?" + f.Render(as.Rhs[i])
					}
				}
			}
			k := v.Name() + "." + fv.Name()
			if seen[k] {
				dup = k
			}
			seen[k] = true
			blank[v][fv] = val
		}
	}
	var diffs []string
	fieldsOf := func(m map[*types.Var]string) []string {
		var out []string
		for fv := range m {
			out = append(out, fv.Name())
		}
		sort.Strings(out)
		return out
	}
	for fv, val := range blank[va] {
		if w, ok := blank[vb][fv]; !ok {
			diffs = append(diffs, sprintf("%s is blanked on %s but not on %s", fv.Name(), va.Name(), vb.Name()))
		} else if w != val || strings.HasPrefix(val, "?") {
			diffs = append(diffs, sprintf("%s is set to %s on %s but to %s on %s", fv.Name(), val, va.Name(), w, vb.Name()))
		}
	}
	for fv := range blank[vb] {
		if _, ok := blank[va][fv]; !ok {
			diffs = append(diffs, sprintf("%s is blanked on %s but not on %s", fv.Name(), vb.Name(), va.Name()))
		}
	}
	sort.Strings(diffs)
	why := ""
	if len(diffs) > 0 {
		why = strings.Join(diffs, "; ")
		if dup != "" {
			why += " (" + dup + " is assigned twice in one tuple assignment)"
		}
		why += ": for every server that sets this field the two copies differ whatever the update changes, so a pure rule/option update takes the restart path — Shutdown closes the listener and new connections are refused while requests of the old generation are in flight"
	}
	c.Check(len(diffs) == 0, "R-C11-10", name+"|hot-reloadable fields blanked on both copies", pos(c, cm.at),
		sprintf("blanked symmetrically with equal constants: %v", fieldsOf(blank[va])), why)
	c.RequireCount("R-C11-10", "fields blanked before the restart comparison", len(blank[va])+len(blank[vb]), 2)

	// (3) rules are hot-reloadable
	_, ra := blank[va][rulesF]
	_, rb := blank[vb][rulesF]
	c.Check(ra && rb, "R-C11-10", name+"|a change of the rules does not restart the server", pos(c, cm.at),
		"Spec.Rules is blanked on both copies before the comparison",
		"Spec.Rules is not blanked on both copies before the comparison: every update of the routing rules shuts the listener down instead of swapping the router generation")
}
